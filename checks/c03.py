"""C03 - a gateway delivers exactly the sent Message sequence for every byte segmentation.

 1. TLC model-checks spec/StreamGateway: GwBinaryImpl (MessageIOGateway.cpp as coded: sender queue / send buffer / offset, wire, receiver
    header-body machine with scratch or heap buffer; small constants with the case structure of the real ones, EVERY segmentation incl.
    0-byte results and maxBytes arguments) against Prefix, NoError, Conservation, BufIsFramePrefix, ScratchCase, AcctOK, QuietEqual, the
    refinement of GwAbs and (fair transport) Delivers; GwText (line splitter: chunked = unchunked for every stream over {x, CR, LF} and every
    segmentation); GwSlip (encoder / decoder, every chunk list, every segmentation); GwTemplateCache (both LRU caches in step across
    eviction).  Every invariant is shown to fail on a deliberately wrong variant (Bug constant).
 2. spec -> code: TLC dumps the state graph of GwBinaryImpl (RECORD = TRUE), tools/pathcover.py covers EVERY transition; each behaviour
    (Messages from a menu x DoOutput / DoInput calls with maxBytes arguments x per-call transport results) is concretised (frame boundaries to
    frame boundaries, header end to header end, interior points 1 / 4 / 7 bytes into the header, first / last / proportional bytes of the
    body) and replayed on two REAL gateway objects connected by scripted pipes, under EVERY gateway configuration (harness gw, gwmini,
    gwmicro): after every call the items handed over are compared with the items queued (GwAbs); for the gateways with MessageIOGateway's
    framing every call is also compared with the step (Write / Read results, return value, queue length, Messages delivered: DRIFT).
    GwTemplateCache behaviours are replayed on real templating gateways (frame kind on the wire = hit / miss of the specification).
    Function-oracle legs: every text stream / SLIP chunk list in every segmentation through the real gateways, results validated by TLC.
 3. code -> spec: long seeded random runs (hundreds of Messages, random segmentation, 0-byte and 1-byte results, one byte at a time),
    GwAbs monitor on all of them; the event logs of some are validated by TLC against GwAbs (GwAbsTrace, every gateway type) and, call by
    call with the real constants, against GwBinaryImpl (GwBinaryTrace).
 3b. size sweeps: Message / line / chunk sizes across every internal threshold of the gateways (read from their sources), incl. the documented receiver limits.
 4. directed cases of the open known findings F12 (empty chunk hides the rest) and F42 (two layouts with the same template id: the second
    Message arrives altered) and of the repaired F41 (templating receiver kept its old inflater when the sender's zlib level changed);
    F41 and F42 were found by this check.  F47 (a reuse-tagged Message shares one connection's zlib / template state with others): directed cases + controls.
"""
import concurrent.futures as cf, copy, json, os, re, threading, time
import vlib, pathcover

FAM = "StreamGateway"
PID = os.getpid()
TLC_ENV = {}

GW_GROUPS = [["bin0", "bin1", "bin2", "bin3", "bin4", "bin5"], ["bin6", "bin7", "bin8", "bin9", "bin6i"],
             ["tpl_s", "tpl_m", "tpl_l", "tpl_sel", "txt_crlf", "txt_lf", "txt_cr"], ["raw", "raw_min", "raw_max", "slip"],
             ["ws_c2s", "ws_c2s_hs", "ws_s2c", "ws_raw", "ws_raw_s2c"]]
C_GROUPS = [("gwmini", ["mini_tx", "mini_rx"]), ("gwmicro", ["micro_tx", "micro_rx"])]

BIN_INVS = ["TypeOK", "Prefix", "NoError", "Conservation", "BufIsFramePrefix", "ScratchCase", "AcctOK", "QuietEqual"]
BIN_REACH = [("send_skip", "Conservation"), ("ret_before_short", "AcctOK"), ("offset_assign", "BufIsFramePrefix"), ("scratch_lt", "ScratchCase"),
             ("trunc_short", "NoError"), ("no_header_copy", "NoError"), ("lazy_deliver", "QuietEqual"), ("dup_deliver", "Prefix"), ("dup_deliver", "AbsSpec"), ("lazy_deliver", "Delivers")]
TEXT_REACH = [("local_flag", "ChunkedIsUnchunked"), ("drop_tail", "NothingLost"), ("stale_flag", "FlagOK"), ("skip_after_boundary_lf", "ChunkedIsUnchunked")]
SLIP_REACH = [("local_esc", "PrefixAlways"), ("local_esc", "AllAtEnd"), ("local_esc", "ChunkedIsUnchunked"), ("esc_sticky", "RoundTrip"), ("enc_no_esc_esc", "RoundTrip")]
TC_REACH = [("send_ge", "CacheInSync"), ("recv_ge", "NeverMiss"), ("recv_ge", "EqualWhenIdle"), ("trim_before_add", "BudgetRespected"), ("tally_keeps", "TallyExact"), ("hit_duplicates", "NoDuplicates")]


class Tokens:
    """at most n TLC workers at a time, over all the TLC processes this check starts"""
    def __init__(self, n): self.n = n; self.c = threading.Condition()
    def run(self, k, fn):
        with self.c:
            while self.n < k: self.c.wait()
            self.n -= k
        try: return fn()
        finally:
            with self.c: self.n += k; self.c.notify_all()


def sset(xs): return "{" + ", ".join(str(x) for x in xs) + "}"

_cfgs = []


def write_cfg(name, text):
    name = "gen_p%d_%s.cfg" % (PID, name)
    with open(os.path.join(vlib.SPEC, FAM, name), "w") as f: f.write(text)
    _cfgs.append(name)
    return name


def bin_cfg(name, spec="Spec", hs=2, scr=5, bodies=(2, 3, 4), msgs=2, args=(0, 1, 2, 3, 4, 5, 6, 7), bug="none", record=False, invs=(), props=(), extra=""):
    t = "SPECIFICATION %s\nCONSTANTS\n  HS = %d\n  SCR = %d\n  Bodies = %s\n  MaxMsgs = %d\n  MaxArgs = %s\n  Bug = \"%s\"\n  RECORD = %s\n%s" % (
        spec, hs, scr, sset(bodies), msgs, sset(args), bug, "TRUE" if record else "FALSE", extra)
    if invs: t += "INVARIANTS " + " ".join(invs) + "\n"
    if props: t += "PROPERTIES " + " ".join(props) + "\n"
    return write_cfg(name, t)


def text_cfg(name, maxlen, bug="none", invs=()):
    return write_cfg(name, "SPECIFICATION Spec\nCONSTANTS\n  MaxLen = %d\n  Bug = \"%s\"\nINVARIANTS %s\n" % (maxlen, bug, " ".join(invs)))


def slip_cfg(name, maxchunk, maxchunks, bug="none", invs=()):
    return write_cfg(name, "SPECIFICATION Spec\nCONSTANTS\n  MaxChunk = %d\n  MaxChunks = %d\n  Bug = \"%s\"\nINVARIANTS %s\n" % (maxchunk, maxchunks, bug, " ".join(invs)))


def tc_cfg(name, shapes=(11, 22, 33, 42), budget=4, msgs=6, inflight=3, bug="none", record=False, invs=()):
    return write_cfg(name, "SPECIFICATION Spec\nCONSTANTS\n  Shapes = %s\n  Budget = %d\n  MaxMsgs = %d\n  MaxInFlight = %d\n  Bug = \"%s\"\n  RECORD = %s\nINVARIANTS %s\n" % (
        sset(shapes), budget, msgs, inflight, bug, "TRUE" if record else "FALSE", " ".join(invs)))


def codec_cfg(name, levels=(6, 9), msgs=5, indep=False, receiver="by_level", bug="none", invs=("HistoryInSync", "EqualWhenIdle")):
    return write_cfg(name, "SPECIFICATION Spec\nCONSTANTS\n  Levels = %s\n  MaxMsgs = %d\n  Indep = %s\n  Receiver = \"%s\"\n  Bug = \"%s\"\nINVARIANTS %s\n" % (
        sset(levels), msgs, "TRUE" if indep else "FALSE", receiver, bug, " ".join(invs)))


def run(v, tier, seed):
    try:
        return _run(v, tier, seed)
    except vlib.MachineryError as ex:
        # code that breaks the property can also break what later stages rely on (a clean first run to corrupt in a self test, ...):
        # the verdict is the VIOLATION already printed, not an ERROR
        if not v.violations: raise
        vlib.log("NOTE property=C03 a later stage could not complete after the violation(s) above: %s" % str(ex)[:400])
        return "model_checking", {"states": 0, "transitions": 0, "traces_validated_against_impl": 0, "evaluations": 0, "distinct_nontrivial": 0, "exhaustive": False,
                                  "rule": "run abandoned after a violation: %s" % str(ex)[:200], "samples": [{"kind": "violation", "what": v.violations[0][0][:300]}]}, []
    finally:
        for n in _cfgs:
            try: os.remove(os.path.join(vlib.SPEC, FAM, n))
            except OSError: pass
        del _cfgs[:]
        # work files (behaviours, reports, logs) are kept only when something in them is referred to by a VIOLATION / DRIFT line
        if not v.violations and v.drift == 0:
            d = os.path.dirname(vlib.scratch("C03", "x"))
            for n in os.listdir(d):
                if n.startswith("p%d_" % PID):
                    try: os.remove(os.path.join(d, n))
                    except OSError: pass


def _run(v, tier, seed):
    quick = (tier == "quick")
    scale = float(os.environ.get("C03_SCALE", "1"))      # < 1: a reduced thorough run
    timing = bool(os.environ.get("C03_TIMING"))
    B = os.path.join(vlib.BUILD, "plain")
    mini_o = [B + "/cobj/minimessage/MiniMessage.o", B + "/cobj/minimessage/MiniMessageGateway.o"]
    micro_o = [B + "/cobj/micromessage/MicroMessage.o", B + "/cobj/micromessage/MicroMessageGateway.o"]
    vlib.make("plain", extra=mini_o + micro_o)
    vlib.make("plain", "gw", "gwmini", "gwmicro", extra=["EXTRA_gwmini=" + " ".join(mini_o), "EXTRA_gwmicro=" + " ".join(micro_o)])
    gw = vlib.binpath("plain", "gw")
    prog = {"gw": gw, "gwmini": vlib.binpath("plain", "gwmini"), "gwmicro": vlib.binpath("plain", "gwmicro")}
    W = lambda n: vlib.scratch("C03", "p%d_%s" % (PID, n))
    tok = Tokens(8)
    T0 = time.time()
    HTO = 300 if quick else 3000
    tot = {"states": 0, "transitions": 0, "mc_runs": 0, "reach": 0, "selftests": 0}
    samples = []; mc_notes = []; notes = {}
    nviol = {}

    def viol(what, obj, tag):
        nviol[tag] = nviol.get(tag, 0) + 1
        if nviol[tag] <= 8: v.violation(what, obj, tag=tag)

    def tlc(module, cfg, workers, timeout, **kw):
        def go():
            t = time.time()
            r = vlib.tlc(module, cfg, FAM, workers=workers, timeout=timeout, env=dict(TLC_ENV, **kw.pop("env", {})), **kw)
            if timing: vlib.log("  [%.0fs] tlc %s %s: %.1fs, %d states" % (time.time() - T0, module, cfg, time.time() - t, r.distinct))
            return r
        return tok.run(workers, go)

    def harness(p, args, what, timeout=None):
        t = time.time()
        rc, out, err = vlib.run([prog[p]] + [str(a) for a in args], timeout=timeout or HTO, env=henv_box[0])
        if timing: vlib.log("  [%.0fs] %s %s: %.1fs" % (time.time() - T0, p, what, time.time() - t))
        if rc != 0: raise vlib.MachineryError("%s %s failed rc=%s: %s %s" % (p, what, rc, out[-500:], err[-2000:]))

    henv_box = [None]

    def judge(rows, what, tag):
        """rows of a harness report -> verdicts; returns the summary row"""
        summ = None
        for r in rows:
            if r.get("summary"): summ = r; continue
            for k in r.get("known", []):
                fid = k.split(":")[0]
                if not v.known_finding(fid, k): viol("%s: %s (not a listed open known finding)" % (what, k), r, tag)
            if r.get("violations"):
                viol("%s (%s): %s" % (what, r.get("config") or r.get("case"), "; ".join(r["violations"])), r, tag)
            elif r.get("drift"):
                v.drift += 1
                if v.drift <= 6: vlib.log("DRIFT property=C03 %s (%s): %s" % (what, r.get("config"), "; ".join(r["drift"])[:400]))
        if summ is None: raise vlib.MachineryError("no summary line from %s" % what)
        if summ.get("aborted"): raise vlib.MachineryError("%s: the harness stopped (%s); the violation line is in the report" % (what, summ["aborted"]))
        return summ

    # ---------------------------------------------------------------------------------------------------------------
    # 4. directed case of F12
    rep = W("directed.ndjson")
    harness("gw", ["directed", rep], "directed")
    s = judge(vlib.read_ndjson(rep), "directed case", "directed")
    notes["f12_reproduced"] = s.get("f12_reproduced"); notes["f41_reproduced"] = s.get("f41_reproduced"); notes["f42_reproduced"] = s.get("f42_reproduced"); notes["f47_reproduced"] = s.get("f47_reproduced")
    # F42 (template id collision): while it reproduces, the random runs do not queue colliding pairs on templating connections
    henv_box[0] = None if s.get("f42_reproduced") else {"C03_ALLOW_TEMPLATE_COLLISIONS": "1"}
    # sender-side zlib level changes while the connection is up (F41, repaired in 3fb55a8, was found with these: a reappearance is a VIOLATION)
    groups = [list(g) for g in GW_GROUPS]
    groups[1].append("bin_lvl"); groups[2].append("tpl_lvl")
    groups[0].append("bin0_tag")     # every Message reuse-tagged and shared with a second connection (no compression: known finding F47 otherwise)
    for r in vlib.read_ndjson(rep):
        if not r.get("summary"): samples.append({"kind": "directed case", "case": r.get("case"), "chunks": r.get("chunks"), "bytes_queued": r.get("bytes_queued"), "bytes_handed_over": r.get("bytes_handed_over"), "reproduced": r.get("reproduced")})

    with cf.ThreadPoolExecutor(max_workers=14) as ex:
        # -----------------------------------------------------------------------------------------------------------
        # 3. code -> spec: random runs, logs validated by TLC
        def explore(p, cfgs, tag, runs, msgs, traced, tmsgs, sd):
            rep = W("ex_%s.ndjson" % tag); ab = W("abs_%s.ndjson" % tag); bn = W("bin_%s.ndjson" % tag)
            harness(p, ["explore", rep, ab, bn, sd, runs, msgs, traced, tmsgs] + cfgs, "explore " + tag)
            return tag, vlib.read_ndjson(rep), ab, bn
        def validate_logs(kind, files, tag):
            """one TLC run over the concatenation of some logs (every run starts with a Reset line)"""
            cat = W("%s_all_%s.ndjson" % (kind, tag)); n = 0
            with open(cat, "w") as out:
                for f in files:
                    for line in open(f): out.write(line); n += 1
            if n == 0: return None, cat, 0
            if kind == "abs": r = tlc("GwAbsTrace", "AbsTrace.cfg", 1, 2400, env={"TRACE": cat}, heap="4g")
            else: r = tlc("GwBinaryTrace", "BinTrace.cfg", 1, 2400, env={"TRACE": cat}, heap="6g")
            return r, cat, n
        E = []
        runs, msgs, traced, tmsgs = (80, 150, 1, 50) if quick else (int(1500 * scale) + 8, 300, int(7 * scale) + 1, 300)
        for i, g in enumerate(groups): E.append(ex.submit(explore, "gw", g, "g%d" % i, runs, msgs, traced, tmsgs, seed))
        for p, g in C_GROUPS: E.append(ex.submit(explore, p, g, p, runs, msgs, traced, tmsgs, seed))
        # the trace binding rejects a corrupted log
        def selftest_trace(abs_logs, bin_logs):
            done = 0
            lines = [l for l in open(abs_logs[0]).read().split("\n") if l]
            starts = [i for i, l in enumerate(lines) if l.startswith('{"e":"Reset"')] + [len(lines)]
            seg = [json.loads(l) for l in lines[starts[0]:starts[1]]]
            di = [i for i, x in enumerate(seg) if x["e"] == "D" and "i" in x]
            if seg[0].get("mode") != "items" or len(di) < 3 or seg[-1]["e"] != "Q": raise vlib.MachineryError("self test: unexpected first run in %s" % abs_logs[0])
            c1 = copy.deepcopy(seg); c1[di[1]]["i"] += 1                      # another item than the one queued next
            c2 = copy.deepcopy(seg); del c2[di[-1]]                           # the last delivery is missing at quiescence
            c3 = copy.deepcopy(seg); c3.insert(di[0], dict(c3[di[0]]))       # one item twice
            for name, c, expect in ((("c1", c1, "Prefix"), ("c2", c2, "QuietEqual")) if quick else (("c1", c1, "Prefix"), ("c2", c2, "QuietEqual"), ("c3", c3, "Prefix"))):
                f2 = W("abs_selftest_%s.ndjson" % name); vlib.write_ndjson(f2, c)
                rr = tlc("GwAbsTrace", "AbsTrace.cfg", 1, 600, env={"TRACE": f2}, heap="2g")
                if rr.violated != expect: raise vlib.MachineryError("self test: a corrupted event log (%s) was not rejected with %s but gave %s" % (name, expect, rr.violated or rr.error))
                done += 1
            lines = [l for l in open(bin_logs[0]).read().split("\n") if l]
            starts = [i for i, l in enumerate(lines) if l.startswith('{"e":"Reset"')] + [len(lines)]
            seg = [json.loads(l) for l in lines[starts[0]:starts[1]]]
            oi = [i for i, x in enumerate(seg) if x["e"] == "Out" and x["ret"] > 0]; ii = [i for i, x in enumerate(seg) if x["e"] == "In" and x["dl"]]
            c4 = copy.deepcopy(seg); c4[oi[len(oi) // 2]]["ret"] += 1         # DoOutput reports one byte more than it wrote
            c5 = copy.deepcopy(seg); c5[ii[0]]["dl"] = c5[ii[0]]["dl"][:-1]   # a Message handed over one call later than it must be
            for name, c in ((("c4", c4),) if quick else (("c4", c4), ("c5", c5))):
                f2 = W("bin_selftest_%s.ndjson" % name); vlib.write_ndjson(f2, c)
                rr = tlc("GwBinaryTrace", "BinTrace.cfg", 1, 900, env={"TRACE": f2}, heap="3g")
                if rr.violated or rr.error: raise vlib.MachineryError("self test: a corrupted call log (%s) gave %s" % (name, rr.violated or rr.error))
                if "accepted" in rr.printed: raise vlib.MachineryError("self test: a corrupted call log (%s) was accepted by GwBinaryTrace" % name)
                done += 1
            return done
        def validate_all():
            """as soon as the random runs are over: TLC on their logs (quick: one run per kind of log; thorough: one per harness process), then the self test"""
            res = [f.result() for f in E]
            al = [r[2] for r in res if os.path.getsize(r[2]) > 0]; bl = [r[3] for r in res if os.path.getsize(r[3]) > 0]
            if quick: V = [ex.submit(validate_logs, "abs", al, "q"), ex.submit(validate_logs, "bin", bl, "q")]
            else: V = [ex.submit(validate_logs, "abs", [f], str(i)) for i, f in enumerate(al)] + [ex.submit(validate_logs, "bin", [f], str(i)) for i, f in enumerate(bl)]
            vr = [f.result() for f in V]
            clean = all(not any(x.get("violations") for x in r[1]) for r in res) and all(r is None or "accepted" in r.printed for r, cat, n in vr)
            st = selftest_trace(al, bl) if (al and bl and clean) else 0
            return vr, st
        f_val = ex.submit(validate_all)

        # -----------------------------------------------------------------------------------------------------------
        # 2. spec -> code
        def gen_binary(tag, msgs, args, maxlen=60):
            name = bin_cfg("Gen_" + tag, msgs=msgs, args=args, record=True, invs=["TypeOK"])
            dot = W("g_%s.dot" % tag)
            r = tlc("GwBinaryImpl", name, 4, 1800, dump=dot, heap="6g")
            vlib.require_ok(r, "GwBinaryImpl graph dump " + tag)
            t = time.time()
            beh, st = pathcover.behaviours(dot, maxlen=maxlen)
            if timing: vlib.log("  [%.0fs] pathcover %s: %.1fs %s" % (time.time() - T0, tag, time.time() - t, st))
            os.remove(dot)
            if st["edges_covered"] != st["graph_edges"]: raise vlib.MachineryError("path cover incomplete for %s: %s" % (tag, st))
            beh = [[x for x in b if x.get("a") != "-"] for b in beh]
            return beh, st

        def replay(p, cfgs, tag, bf, nvar):
            rep = W("rep_%s.ndjson" % tag)
            harness(p, ["replay", bf, rep, 2, 5, nvar, seed] + cfgs, "replay " + tag)
            return tag, vlib.read_ndjson(rep)

        # the binding rejects a corrupted behaviour step
        def selftest_replay(beh):
            cases = []
            for b in beh:
                if len(cases) >= 1: break
                for i, x in enumerate(b):
                    if x.get("a") == "In" and x.get("nd", 0) > 0 and x.get("dl"):
                        c = copy.deepcopy(b); c[i]["nd"] += 1; cases.append(("number of Messages delivered after a DoInput step + 1", c)); break
            for b in beh:
                if len(cases) >= 2: break
                for i, x in enumerate(b):
                    if x.get("a") == "Out" and len(x.get("w", [])) >= 2 and x["w"][0] > 1:
                        c = copy.deepcopy(b); c[i]["w"][0] -= 1; c[i]["w"][1] += 1; cases.append(("one byte moved from the first Write() result to the second", c)); break
            for b in beh:
                if len(cases) >= 3: break
                for i, x in enumerate(b):
                    if x.get("a") == "Out" and x.get("popped", 0) > 0 and x.get("ret", 0) > 0:
                        c = copy.deepcopy(b); c[i]["popped"] -= 1; cases.append(("outgoing queue length after a DoOutput step + 1", c)); break
            if len(cases) < 3: raise vlib.MachineryError("self test: no behaviour step to corrupt")
            f2 = W("beh_selftest.ndjson"); rep = W("rep_selftest.ndjson")
            vlib.write_ndjson(f2, [{"id": i, "steps": c[1]} for i, c in enumerate(cases)])
            harness("gw", ["replay", f2, rep, 2, 5, 1, seed, "bin0"], "self test replay")
            rows = vlib.read_ndjson(rep)
            flagged = set(r["behaviour"] for r in rows if not r.get("summary") and (r.get("drift") or r.get("violations")))
            for i, c in enumerate(cases):
                if i not in flagged: raise vlib.MachineryError("self test: a behaviour with %s was replayed without any report" % c[0])
            return len(cases)
        def gen_and_replay(tag, msgs, args, nvar):
            beh, st = gen_binary(tag, msgs, args)
            bf = W("beh_%s.ndjson" % tag)
            vlib.write_ndjson(bf, [{"id": i, "steps": s} for i, s in enumerate(beh)])
            fs = [ex.submit(replay, "gw", g, "%s_g%d" % (tag, i), bf, nvar) for i, g in enumerate(groups)]
            fs += [ex.submit(replay, p, g, "%s_%s" % (tag, p), bf, nvar) for p, g in C_GROUPS]
            if tag == "m2": selfrep.append(ex.submit(selftest_replay, beh))
            return beh, st, fs, bf
        selfrep = []
        G = [ex.submit(gen_and_replay, "m2", 2, (1, 2, 3), 2 if quick else 3)]     # quick: each behaviour in two of the three concretisations (by its number), thorough: in all three
        if not quick: G.append(ex.submit(gen_and_replay, "m3", 3, (1, 3), 1))

        def simulate(tag, msgs, steps, num):
            name = bin_cfg("Sim_" + tag, spec="SimSpec", msgs=msgs, args=(1, 2, 3, 5), record=True, invs=["PrintDone"], extra="  Steps = %d\n" % steps)
            r = tlc("GwBinarySim", name, 1, 1500, simulate=num, depth=2 * steps + 2, seed=seed)
            if r.error: raise vlib.MachineryError("simulate %s: %s" % (tag, r.error))
            if r.violated: raise vlib.MachineryError("simulate %s: the model violates %s" % (tag, r.violated))
            seen = set(); beh = []
            for b in r.printed:
                k = vlib.sha(b)
                if k not in seen: seen.add(k); beh.append(b)
            bf = W("beh_%s.ndjson" % tag)
            vlib.write_ndjson(bf, [{"id": i, "steps": s} for i, s in enumerate(beh)])
            fs = [ex.submit(replay, "gw", g, "%s_g%d" % (tag, i), bf, 1) for i, g in enumerate(groups)]
            fs += [ex.submit(replay, p, g, "%s_%s" % (tag, p), bf, 1) for p, g in C_GROUPS]
            return beh, {"simulated": len(r.printed), "distinct": len(beh)}, fs, bf
        S = []
        if not quick: S.append(ex.submit(simulate, "sim6", 6, 24, int(1200 * scale) + 50))

        def tcache(tag, shapes, budget, msgs, inflight, unit):
            name = tc_cfg("GenTC_" + tag, shapes=shapes, budget=budget, msgs=msgs, inflight=inflight, record=True, invs=["NeverMiss", "CacheInSync"])
            dot = W("tc_%s.dot" % tag)
            r = tlc("GwTemplateCache", name, 2, 900, dump=dot)
            vlib.require_ok(r, "GwTemplateCache graph dump " + tag)
            beh, st = pathcover.behaviours(dot, maxlen=60); os.remove(dot)
            if st["edges_covered"] != st["graph_edges"]: raise vlib.MachineryError("path cover incomplete for %s: %s" % (tag, st))
            beh = [[x for x in b if x.get("a") != "-"] for b in beh]
            bf = W("tcbeh_%s.ndjson" % tag); rep = W("tcrep_%s.ndjson" % tag)
            vlib.write_ndjson(bf, [{"id": i, "steps": s} for i, s in enumerate(beh)])
            harness("gw", ["tcache", bf, unit, budget, rep], "tcache " + tag)
            return tag, st, vlib.read_ndjson(rep), beh[len(beh) // 2]
        TC = [ex.submit(tcache, "b4", (11, 22, 33, 42), 4, 5, 2, 100), ex.submit(tcache, "b3", (11, 21, 32), 3, 5 if quick else 6, 3, 64),
              ex.submit(tcache, "b3x", (12, 13, 14, 21), 3, 4 if quick else 5, 2, 64)]      # templates of budget - 1, budget, budget + 1 bytes
        if not quick: TC.append(ex.submit(tcache, "b6", (11, 22, 33, 43, 54), 6, 6, 2, 250))

        def text_leg(maxlen):
            out = W("text.ndjson"); rep = W("textrep.ndjson")
            harness("gw", ["text", maxlen, out, rep], "text")
            r = tlc("GwTextTrace", "TextTrace.cfg", 2, 1800, env={"TRACE": out}, keep_out=True)
            return vlib.read_ndjson(rep), r, out
        f_text = ex.submit(text_leg, 7 if quick else 9)

        def slip_leg(maxchunk, pairlen):
            out = W("slip.ndjson"); rep = W("sliprep.ndjson")
            harness("gw", ["slip", maxchunk, pairlen, out, rep], "slip")
            r1 = tlc("GwSlipTrace", "SlipTrace.cfg", 1, 1800, env={"TRACE": out}, keep_out=True)
            r2 = tlc("GwSlipTrace", "SlipTraceAlgo.cfg", 1, 1800, env={"TRACE": out}, keep_out=True) if not quick else None    # (wire format: algorithm level)
            return vlib.read_ndjson(rep), r1, r2, out
        f_slip = ex.submit(slip_leg, 4 if quick else 5, 1 if quick else 2)

        def menu(p, cfgs, tag):
            rep = W("menu_%s.ndjson" % tag)
            harness(p, ["menu", rep, seed, 0 if quick else 1] + cfgs, "menu " + tag)
            return tag, vlib.read_ndjson(rep)
        M = [ex.submit(menu, "gw", sum(groups, []), "gw")] + [ex.submit(menu, p, g, p) for p, g in C_GROUPS]

        # Message / line / chunk SIZES across the internal thresholds of every gateway (scratch receive buffer 2048 - 8: every wire body 2030 .. 2060, also after
        # compression / templating; compression limit; text read buffer and sender recursion; raw scratch space, minimum / maximum chunk size; SLIP pending buffer and
        # escape pairs split by a piece end; WebSocket length encodings; mini buffer doubling and 64 KiB shrink; micro buffers) and the documented receiver limits
        # (SetMaxIncomingMessageSize, micro input buffer: limit - 1 and limit arrive, limit + 1 does not), each in one piece, under two random segmentations, small ones bytewise
        def sizes(p, cfgs, tag):
            rep = W("sizes_%s.ndjson" % tag)
            harness(p, ["sizes", rep, seed, 0 if quick else 1] + cfgs, "sizes " + tag)
            return tag, vlib.read_ndjson(rep)
        Z = [ex.submit(sizes, "gw", sum(groups, []) + ["bin_max2040", "bin_max3000"], "gw"), ex.submit(sizes, "gwmini", ["mini_tx", "mini_rx"], "gwmini"),
             ex.submit(sizes, "gwmicro", ["micro_tx", "micro_rx", "micro_tx_4k", "micro_rx_4k"], "gwmicro")]

        # -----------------------------------------------------------------------------------------------------------
        # 1. model checking
        def mc(module, cfg, what, acts, workers=2, timeout=1500, heap="4g"):
            r = tlc(module, cfg, workers, timeout, coverage=True, heap=heap, keep_out=True)
            vlib.require_ok(r, what)
            # (vlib's pattern does not match the coverage lines of actions with a state-dependent quantifier: "<Out line .. of module M (177 42 177 113)>: 11:528")
            cov = {}
            for m in re.finditer(r"^<(\w+) line [^>]*>: (\d+):(\d+)", r.out, re.M): cov[m.group(1)] = cov.get(m.group(1), 0) + int(m.group(2))
            missing = [a for a in acts if cov.get(a, 0) == 0]
            if missing: raise vlib.MachineryError("%s: vacuity guard: actions never taken: %s" % (what, missing))
            r.out = ""
            return what, r
        def reach(module, cfg, expect, what):
            r = tlc(module, cfg, 1, 600, heap="2g")
            got = r.violated
            if got is None and r.error and "Action property" in r.error and "is violated" in r.error: got = "AbsSpec"     # a step that is not a step of GwAbs
            if got is None and r.error and re.search(r"Temporal propert\w+ (\w+ )?w\w+ violated", r.error): got = "temporal"
            if got != expect: raise vlib.MachineryError("vacuity guard %s: expected the wrong variant to violate %s, got %s %s" % (what, expect, r.violated, (r.error or "")[:300]))
            return what
        J = []; RJ = []
        big = not quick
        J.append(ex.submit(mc, "GwBinaryImpl", bin_cfg("MC_bin", msgs=3 if big else 2, args=(0, 1, 2, 3, 6) if not big else (0, 1, 2, 3, 5, 7), invs=BIN_INVS, props=["AbsSpec"]),
                           "GwBinaryImpl HS=2 SCR=5 bodies 2,3,4 (below / at / above the scratch size), %d Messages, every segmentation" % (3 if big else 2), ["SendB", "Out", "In"], 4, 2400, "8g"))
        if not quick: J.append(ex.submit(mc, "GwBinaryImpl", bin_cfg("MC_bin_hs3", hs=3, scr=6, bodies=(1, 3, 5), msgs=2, args=(0, 1, 2, 4, 8), invs=BIN_INVS, props=["AbsSpec"]),
                           "GwBinaryImpl HS=3 SCR=6 bodies 1,3,5, 2 Messages", ["SendB", "Out", "In"], 2, 1500))
        J.append(ex.submit(mc, "GwBinaryImpl", bin_cfg("MC_bin_live", spec="FairSpec", msgs=2, bodies=(2, 4) if quick else (2, 3, 4), args=(1, 3), invs=["Prefix"], props=["Delivers"]),
                           "GwBinaryImpl liveness (fair transport): everything queued is delivered", ["SendB", "Out", "In"], 2, 1500))
        J.append(ex.submit(mc, "GwText", text_cfg("MC_text", 7 if quick else 8, invs=["ChunkedIsUnchunked", "NothingLost", "FlagOK"]), "GwText every stream up to length %d, every segmentation" % (7 if quick else 8), ["Feed"], 2, 1500))
        J.append(ex.submit(mc, "GwSlip", slip_cfg("MC_slip1", 4 if quick else 5, 1, invs=["PrefixAlways", "AllAtEnd", "ChunkedIsUnchunked", "RoundTrip"]), "GwSlip every chunk up to length %d, every segmentation" % (4 if quick else 5), ["Feed"], 2, 1500))
        J.append(ex.submit(mc, "GwSlip", slip_cfg("MC_slip2", 2 if quick else 3, 2, invs=["PrefixAlways", "AllAtEnd", "ChunkedIsUnchunked", "RoundTrip"]), "GwSlip every list of 1-2 chunks up to length %d, every segmentation" % (2 if quick else 3), ["Feed"], 2 if quick else 4, 1500))
        if not quick: J.append(ex.submit(mc, "GwSlip", slip_cfg("MC_slip_rfc", 2, 2, bug="no_lead_end", invs=["PrefixAlways", "AllAtEnd", "ChunkedIsUnchunked", "RoundTrip"]), "GwSlip, sender without the leading END (plain RFC 1055)", ["Feed"], 1, 900))
        TCI = ["NeverMiss", "CacheInSync", "EqualWhenIdle", "TallyExact", "NoDuplicates", "BudgetRespected"]
        J.append(ex.submit(mc, "GwTemplateCache", tc_cfg("MC_tc4", budget=4, msgs=6 if quick else 7, inflight=3, invs=TCI), "GwTemplateCache sizes 1,2,3,2 budget 4", ["Produce", "Consume"], 2, 1500))
        if not quick: J.append(ex.submit(mc, "GwTemplateCache", tc_cfg("MC_tc2", shapes=(11, 21, 32, 53), budget=2, msgs=6, inflight=6, invs=TCI), "GwTemplateCache sizes 1,1,2,3 budget 2 (a template larger than the budget)", ["Produce", "Consume"], 2, 1500))
        # zlib history dependence: the receiver that looks its codec up by the level of the incoming frame stays in step across level changes and resets
        J.append(ex.submit(mc, "GwCodecHistory", codec_cfg("MC_codec", levels=(6, 9) if quick else (1, 6, 9), msgs=5), "GwCodecHistory, receiver by level, dependent frames, level changes", ["SetEncoding", "Produce", "Consume"], 1, 900))
        if not quick:
            J.append(ex.submit(mc, "GwCodecHistory", codec_cfg("MC_codec_i", levels=(6, 9), msgs=5, indep=True), "GwCodecHistory, receiver by level, independent frames", ["SetEncoding", "Produce", "Consume"], 1, 900))
            J.append(ex.submit(mc, "GwCodecHistory", codec_cfg("MC_codec_any1", levels=(6,), msgs=6, receiver="any_level"), "GwCodecHistory, receiver that maps every level to one codec object, ONE zlib level (why the fixed-encoding configurations never showed F41)", ["SetEncoding", "Produce", "Consume"], 1, 900))
            RJ.append(ex.submit(reach, "GwCodecHistory", codec_cfg("Reach_codec_F41", receiver="any_level", invs=["HistoryInSync"]), "HistoryInSync", "GwCodecHistory receiver that maps every level to one codec object, two levels (= F41 before its repair)"))
            RJ.append(ex.submit(reach, "GwCodecHistory", codec_cfg("Reach_codec_nodr", levels=(6,), indep=True, bug="no_deflate_reset", invs=["HistoryInSync"]), "HistoryInSync", "GwCodecHistory no_deflate_reset"))
            RJ.append(ex.submit(reach, "GwCodecHistory", codec_cfg("Reach_codec_noir", levels=(6,), indep=True, bug="no_inflate_reset", invs=["HistoryInSync"]), "HistoryInSync", "GwCodecHistory no_inflate_reset"))
        # vacuity: every invariant fails on a wrong variant (quick: one or two per specification, thorough: all)
        sel = (lambda xs: xs[:2]) if quick else (lambda xs: xs)
        for bug, inv in (BIN_REACH if not quick else [BIN_REACH[i] for i in (0, 2, 5, 6, 7)]):
            if inv == "Delivers": c = bin_cfg("Reach_%s_%s" % (bug, inv), spec="FairSpec", msgs=2, args=(1, 3), bug=bug, props=["Delivers"]); exp = "temporal"
            elif inv == "AbsSpec": c = bin_cfg("Reach_%s_%s" % (bug, inv), msgs=2, args=(1, 3), bug=bug, props=["AbsSpec"]); exp = "AbsSpec"
            else: c = bin_cfg("Reach_%s_%s" % (bug, inv), msgs=2, args=(0, 1, 2, 3, 7), bug=bug, invs=[inv]); exp = inv
            RJ.append(ex.submit(reach, "GwBinaryImpl", c, exp, "GwBinaryImpl %s / %s" % (bug, inv)))
        for bug, inv in sel(TEXT_REACH): RJ.append(ex.submit(reach, "GwText", text_cfg("Reach_text_%s_%s" % (bug, inv), 5, bug=bug, invs=[inv]), inv, "GwText %s / %s" % (bug, inv)))
        for bug, inv in sel(SLIP_REACH[2:] if quick else SLIP_REACH): RJ.append(ex.submit(reach, "GwSlip", slip_cfg("Reach_slip_%s_%s" % (bug, inv), 2, 2, bug=bug, invs=[inv]), inv, "GwSlip %s / %s" % (bug, inv)))
        for bug, inv in sel(TC_REACH[1:] if quick else TC_REACH): RJ.append(ex.submit(reach, "GwTemplateCache", tc_cfg("Reach_tc_%s_%s" % (bug, inv), bug=bug, invs=[inv]), inv, "GwTemplateCache %s / %s" % (bug, inv)))
        # the eager SENDER is harmless for delivery (TLC: NeverMiss holds, the caches are not in step): the model says what a code change there can and cannot break
        if not quick: J.append(ex.submit(mc, "GwTemplateCache", tc_cfg("MC_tc_send_ge", bug="send_ge", msgs=6, invs=["NeverMiss", "TallyExact", "NoDuplicates"]), "GwTemplateCache with a sender that evicts at tally >= budget: NeverMiss still holds", ["Produce", "Consume"], 1, 900))

        # -----------------------------------------------------------------------------------------------------------
        # collect: model checking
        for f in J:
            what, r = f.result(); tot["states"] += r.distinct; tot["transitions"] += r.generated; tot["mc_runs"] += 1
            mc_notes.append({"instance": what, "distinct": r.distinct, "generated": r.generated, "depth": r.depth, "wall_s": round(r.wall, 1)})
        for f in RJ: f.result(); tot["reach"] += 1

        # collect: replays
        rp = {"behaviours": 0, "graph_states": 0, "graph_edges": 0, "replays": 0, "followed": 0, "drifted": 0, "steps": 0, "io_calls": 0, "zero_byte_results": 0, "one_byte_results": 0, "items_delivered": 0, "bytes_moved": 0}
        per_cfg = {}
        gen_notes = []
        first_beh = None
        for f in G + S:
            beh, st, fs, bf = f.result()
            if first_beh is None: first_beh = (beh, bf)
            rp["behaviours"] += len(beh); rp["graph_states"] += st.get("graph_states", 0); rp["graph_edges"] += st.get("graph_edges", 0)
            gen_notes.append(dict(st, behaviours=len(beh)))
            if beh: samples.append({"kind": "behaviour replayed under every configuration", "steps": beh[len(beh) // 2]})
            for ff in fs:
                tag, rows = ff.result()
                s = judge(rows, "replay of a TLC behaviour", "replay")
                for k in ("replays", "followed", "drifted", "steps", "io_calls", "zero_byte_results", "one_byte_results", "items_delivered", "bytes_moved"): rp[k] += s.get(k, 0)
                for c, d in s.get("per_config", {}).items():
                    pc = per_cfg.setdefault(c, {"replays": 0, "followed": 0, "random_runs": 0, "random_messages": 0})
                    pc["replays"] += d["replays"]; pc["followed"] += d["followed"]
        f_self = list(selfrep)

        # collect: template caches
        tcs = {"behaviours": 0, "replays": 0, "followed": 0, "drifted": 0, "create_frames": 0, "payload_frames": 0, "plain_frames": 0, "creates_with_eviction": 0}
        for f in TC:
            tag, st, rows, smp = f.result()
            s = judge(rows, "replay of a GwTemplateCache behaviour", "tcache")
            for k in tcs: tcs[k] += s.get(k, 0)
            if len(samples) < 8: samples.append({"kind": "template cache behaviour replayed", "instance": tag, "steps": smp})
        if tcs["followed"] == 0 and not v.violations: raise vlib.MachineryError("no template cache behaviour could be followed")
        if tcs["creates_with_eviction"] == 0 or tcs["payload_frames"] == 0: raise vlib.MachineryError("vacuity guard: the template cache behaviours had no eviction / no payload-only frame: %s" % tcs)

        # collect: text and SLIP legs
        rows, r, out = f_text.result()
        ts = judge(rows, "text gateway, every stream in every segmentation", "text")
        if r.violated == "LineOK":
            m = re.search(r"i = (\d+)", r.out); ln = None
            if m:
                with open(out) as fh: ln = fh.read().split("\n")[int(m.group(1)) - 1]
            viol("PlainTextMessageIOGateway splits a stream differently from the documented rule (lines separated by CR, LF or CR LF): %s" % ln, {"line": ln, "log": out}, "text")
        elif not r.ok(): raise vlib.MachineryError("GwTextTrace: %s" % (r.error or r.violated))
        if ts["streams"] != r.distinct: raise vlib.MachineryError("GwTextTrace validated %d lines, the harness wrote %d" % (r.distinct, ts["streams"]))
        if ts.get("crlf_split_across_reads", 0) == 0 or ts.get("empty_lines", 0) == 0: raise vlib.MachineryError("vacuity guard: text leg without CR|LF split / empty lines: %s" % ts)
        tot["states"] += r.distinct; tot["transitions"] += r.generated
        rows, r1, r2, out = f_slip.result()
        ss = judge(rows, "SLIP gateway, every chunk list in every segmentation", "slip")
        def slip_line(r):
            m = re.search(r"i = (\d+)", r.out)
            if not m: return None
            with open(out) as fh: return fh.read().split("\n")[int(m.group(1)) - 1]
        if r1.violated == "Delivered": viol("SLIP gateway pair does not hand over exactly the non-empty chunks queued: %s" % slip_line(r1), {"line": slip_line(r1), "log": out}, "slip")
        elif not r1.ok(): raise vlib.MachineryError("GwSlipTrace: %s" % (r1.error or r1.violated))
        if r2 is None: pass
        elif r2.violated in ("DecoderAgrees", "WireAsCoded"):
            v.drift += 1; vlib.log("DRIFT property=C03 SLIP wire format / decoder differs from GwSlip (%s): %s" % (r2.violated, slip_line(r2)))
        elif not r2.ok(): raise vlib.MachineryError("GwSlipTrace: %s" % (r2.error or r2.violated))
        if ss["chunk_lists"] != r1.distinct: raise vlib.MachineryError("GwSlipTrace validated %d lines, the harness wrote %d" % (r1.distinct, ss["chunk_lists"]))
        if ss.get("esc_split_across_reads", 0) == 0: raise vlib.MachineryError("vacuity guard: SLIP leg without an ESC at the end of a read")
        tot["states"] += r1.distinct; tot["transitions"] += r1.generated

        # the function-oracle binding rejects a corrupted record
        def selftest_text():
            rows_, r_, out_ = f_text.result()
            lines = [l for l in open(out_).read().split("\n") if l]
            k = next(i for i, l in enumerate(lines) if '"l":[[1' in l)
            d = json.loads(lines[k]); d["l"][0] = d["l"][0][:-1]; lines[k] = json.dumps(d, separators=(",", ":"))
            f2 = W("text_selftest.ndjson")
            with open(f2, "w") as fh: fh.write("\n".join(lines[max(0, k - 20):k + 20]) + "\n")
            rr = tlc("GwTextTrace", "TextTrace.cfg", 1, 600, env={"TRACE": f2})
            if rr.violated != "LineOK": raise vlib.MachineryError("self test: a text record with a shortened line was not rejected (%s)" % (rr.violated or rr.error))
            return 1
        f_self.append(ex.submit(selftest_text))

        # collect: menu runs
        mn = {"runs": 0, "messages": 0, "io_calls": 0, "one_byte_results": 0, "zero_byte_results": 0}
        for f in M:
            tag, rows = f.result()
            s = judge(rows, "Message menu, one byte at a time", "menu")
            for k in mn: mn[k] += s.get(k, 0)

        # collect: size sweeps
        zs = {"size_cases": 0, "runs": 0, "limit_runs": 0, "messages": 0, "bytes_moved": 0}; zper = {}
        for f in Z:
            tag, rows = f.result()
            s = judge(rows, "size sweep across the gateways' internal thresholds", "sizes")
            for k in zs: zs[k] += s.get(k, 0)
            for c, d in s.get("per_config", {}).items(): zper[c] = d.get("size_cases", 0)
        if (zs["size_cases"] < 1500 or zs["limit_runs"] == 0 or min(zper.values()) == 0) and not v.violations: raise vlib.MachineryError("vacuity guard: size sweep too small: %s %s" % (zs, zper))

        # collect: random runs and their logs
        exs = {"runs": 0, "messages": 0, "io_calls": 0, "zero_byte_results": 0, "one_byte_results": 0, "items_delivered": 0, "bytes_moved": 0, "trace_lines": 0, "traced_runs": 0, "messages_skipped_known_finding": 0}
        abs_lines = 0; bin_lines = 0; abs_logs = []; bin_logs = []
        for f in E:
            tag, rows, ab, bn = f.result()
            s = judge(rows, "random run", "explore")
            for k in exs: exs[k] += s.get(k, 0)
            for c, d in s.get("per_config", {}).items():
                pc = per_cfg.setdefault(c, {"replays": 0, "followed": 0, "random_runs": 0, "random_messages": 0})
                pc["random_runs"] += d["runs"]; pc["random_messages"] += d["messages"]
            if os.path.getsize(ab) > 0: abs_logs.append(ab)
            if os.path.getsize(bn) > 0: bin_logs.append(bn)
        vr, n_trace_selftests = f_val.result()
        for r, cat, n in vr:
            if r is None: continue
            accepted = ("accepted" in r.printed)
            if "abs_all" in cat:
                abs_lines += n
                if accepted and r.ok(): tot["states"] += r.distinct; tot["transitions"] += r.generated
                elif r.violated in ("Prefix", "QuietEqual"):
                    viol("the recorded event log of a random run violates %s of GwAbs (log %s)" % (r.violated, cat), {"log": cat, "invariant": r.violated, "tlc": r.out[-1500:]}, "trace")
                else: raise vlib.MachineryError("GwAbsTrace did not read the log %s to the end: %s" % (cat, r.violated or r.error or r.out[-600:]))
            else:
                bin_lines += n
                if r.violated or r.error: raise vlib.MachineryError("GwBinaryTrace on %s: %s" % (cat, r.violated or r.error))
                if accepted: tot["states"] += r.distinct; tot["transitions"] += r.generated
                else:
                    # the code did something the algorithm-level model does not allow, while the GwAbs monitor and GwAbsTrace are satisfied: drift
                    v.drift += 1
                    vlib.log("DRIFT property=C03 a recorded call log is not a behaviour of GwBinaryImpl: first unexplained line about %s of %s in %s" % (_first_unexplained(cat, r.depth), n, cat))
        if exs["zero_byte_results"] == 0 or exs["one_byte_results"] == 0: raise vlib.MachineryError("vacuity guard: random runs without 0-byte / 1-byte results: %s" % exs)

        tot["selftests"] = sum(f.result() for f in f_self) + n_trace_selftests

    if rp["followed"] == 0 and not v.violations: raise vlib.MachineryError("no behaviour could be followed")
    if rp["zero_byte_results"] == 0 or rp["one_byte_results"] == 0: raise vlib.MachineryError("vacuity guard: replays without 0-byte / 1-byte results")
    ncfg = len(per_cfg)
    cov = {"states": tot["states"], "transitions": tot["transitions"],
           "traces_validated_against_impl": rp["followed"] + tcs["followed"] + exs["traced_runs"],
           "model_check_runs": tot["mc_runs"], "wrong_variants_rejected_by_tlc": tot["reach"], "corrupted_inputs_rejected": tot["selftests"],
           "gateway_configurations": ncfg,
           "generation_graph_states": rp["graph_states"], "generation_graph_transitions": rp["graph_edges"], "behaviours_generated": rp["behaviours"],
           "behaviour_replays": rp["replays"], "replays_followed_to_the_end": rp["followed"], "replays_drifted": rp["drifted"], "replay_steps": rp["steps"],
           "replay_io_calls": rp["io_calls"], "replay_zero_byte_results": rp["zero_byte_results"], "replay_one_byte_results": rp["one_byte_results"], "replay_items_checked": rp["items_delivered"],
           "template_cache": tcs,
           "text_streams": ts["streams"], "text_runs": ts["runs"], "text_reads_splitting_cr_lf": ts["crlf_split_across_reads"],
           "slip_chunk_lists": ss["chunk_lists"], "slip_runs": ss["runs"], "slip_reads_ending_in_esc": ss["esc_split_across_reads"],
           "menu_runs_one_byte_at_a_time": mn["runs"], "menu_io_calls": mn["io_calls"],
           "size_sweep_cases": zs["size_cases"], "size_sweep_runs": zs["runs"], "size_sweep_documented_limit_runs": zs["limit_runs"], "size_sweep_cases_per_configuration": zper,
           "random_runs": exs["runs"], "random_messages": exs["messages"], "random_io_calls": exs["io_calls"], "random_zero_byte_results": exs["zero_byte_results"],
           "random_one_byte_results": exs["one_byte_results"], "random_items_checked": exs["items_delivered"], "random_bytes_moved": exs["bytes_moved"],
           "runs_validated_by_tlc": exs["traced_runs"], "event_log_lines_validated_against_GwAbs": abs_lines, "call_log_lines_validated_against_GwBinaryImpl": bin_lines,
           "evaluations": rp["replays"] + tcs["replays"] + ts["runs"] + ss["runs"] + mn["runs"] + exs["runs"] + zs["runs"],
           "distinct_nontrivial": rp["followed"] + tcs["followed"],
           "rule": "behaviours = path cover of EVERY transition of the TLC state graph of GwBinaryImpl (HS=2, SCR=5, bodies below / at / above the scratch size, maxBytes 1,2,3,unlimited, every transport budget) "
                   "and of GwTemplateCache; distinct by construction (each adds an uncovered transition; simulated ones de-duplicated by hash); each replayed under every gateway configuration in 1-3 concretisations; "
                   "non-trivial = followed to the end with every item handed over equal to the item queued, everything delivered at quiescence and (MessageIOGateway framing) every call equal to the specification's step",
           "exhaustive": True, "per_configuration": per_cfg, "model_runs": mc_notes, "generation_instances": gen_notes, "f12_directed_cases_reproduced": notes.get("f12_reproduced"), "f41_directed_case_reproduced": notes.get("f41_reproduced"), "f42_directed_case_reproduced": notes.get("f42_reproduced"), "f47_directed_cases_reproduced": notes.get("f47_reproduced"), "random_messages_skipped_because_of_F42": exs.get("messages_skipped_known_finding"),
           "samples": samples[:10]}
    assumptions = ["the transport is a reliable byte stream (no loss, duplication, reordering or corruption of bytes: hostile bytes are property C02, packet transports C12); it may deliver any number of bytes per call, including 0",
                   "byte identity in GwBinaryImpl is the position in the sender's output stream; content-dependent encodings (zlib history, templates) are bound by comparing the flattened bytes of real Messages end to end, "
                   "with identical repeats and templatable / non-templatable Messages in the menu; the zlib history dependence is model-checked separately (GwCodecHistory) and bound by the random runs with level changes (bin_lvl, tpl_lvl) and the directed case of F41, not by generated behaviours",
                   "TLC instances: 2-3 Messages per behaviour in the exhaustive graphs (6 in the simulated ones), header 2-3 units, scratch 5-6 units; the real constants 8 / 2048 are used by GwBinaryTrace on recorded runs and by the concretisation of the behaviours",
                   "on a templating connection the random runs do not queue a Message whose template id equals that of an earlier Message of another layout while known finding F42 is open (the skipped Messages are counted)",
                   "Messages carry the reuse tag (OptimizeMessageForTransmissionToMultipleGateways) only on uncompressed plain gateways (configuration bin0_tag) and in the directed cases while known finding F47 is open",
                   "raw and SLIP chunks of length 0 are generated only as the LAST chunk of a Message (known finding F12 otherwise); WebSocket without a slave gateway is driven with non-empty chunks only",
                   "granularity as each gateway documents itself: whole Messages (binary, templating, WebSocket with slave, mini / micro), text lines, non-empty chunks (SLIP, WebSocket without slave), the byte stream (raw; with a minimum chunk size up to min-1 bytes stay behind)",
                   "DoOutput / DoInput return values and the exact number of Write() / Read() calls are algorithm-level (DRIFT), not part of the property as stated"]
    return "model_checking", cov, assumptions


def _first_unexplained(path, depth):
    """line of a GwBinaryTrace log that a linear search of the given depth stopped at (Send / Out / In lines take two states)"""
    d = 1; n = 0
    for line in open(path):
        n += 1
        d += 1 if ('"e":"Reset"' in line or '"e":"End"' in line) else 2
        if d >= depth: return n + 1
    return n
