"""Shared by checks/c04.py and checks/c13.py (one harness, one specification family: spec/Reflector, harness/refl.cpp)."""
import collections, json, os
import vlib

FAMILY = "Reflector"


def write_cfg(name, spec, constants, invariants=(), view=None, extra=""):
    p = os.path.join(vlib.SPEC, FAMILY, name)
    with open(p, "w") as f:
        f.write("SPECIFICATION %s\nCONSTANTS\n" % spec)
        for k, v in constants.items(): f.write("  %s = %s\n" % (k, v))
        if view: f.write("VIEW %s\n" % view)
        if invariants: f.write("INVARIANTS " + " ".join(invariants) + "\n")
        f.write(extra)
    return name


def tla_set(xs, quote=True):
    return "{" + ", ".join(('"%s"' % x) if quote and isinstance(x, str) else str(x).upper() if isinstance(x, bool) else str(x) for x in xs) + "}"


def cover_walks(edges, maxlen=120):
    """edges: the transitions TLC printed, dicts {pre, post, step}.  Returns (walks, stats): every walk is a list of steps starting in the
    initial state; together they take EVERY transition (state, command) of the graph at least once."""
    seen = {}; E = []
    adj = collections.defaultdict(list)
    init = edges[0]["pre"]          # breadth-first search: the first state TLC expands is the initial state
    for e in edges:
        k = (e["pre"], json.dumps(e["step"]["cmd"], sort_keys=True))
        if k not in seen: seen[k] = e
    for k in sorted(seen):          # TLC's workers print in any order: sort, so that the behaviours are the same in every run
        e = seen[k]; adj[e["pre"]].append(len(E)); E.append(e)
    parent = {init: None}; order = [init]; dq = collections.deque([init])
    while dq:
        u = dq.popleft()
        for i in adj.get(u, ()):
            v = E[i]["post"]
            if v not in parent: parent[v] = i; order.append(v); dq.append(v)
    unc = {u: collections.deque(adj[u]) for u in adj}
    covered = [False] * len(E); ncov = 0

    def prefix(u):
        p = []
        while parent[u] is not None:
            i = parent[u]; p.append(i); u = E[i]["pre"]
        p.reverse(); return p

    walks = []
    for u in order:
        q = unc.get(u)
        while q:
            while q and covered[q[0]]: q.popleft()
            if not q: break
            walk = prefix(u); cur = u
            for i in walk:
                if not covered[i]: covered[i] = True; ncov += 1
            while len(walk) < maxlen:
                qq = unc.get(cur)
                while qq and covered[qq[0]]: qq.popleft()
                if qq:
                    i = qq.popleft()
                else:
                    # nothing new here: hop over one taken transition to a state that still has untaken ones
                    i = None
                    for j in adj.get(cur, ()):
                        w = unc.get(E[j]["post"])
                        while w and covered[w[0]]: w.popleft()
                        if w: i = j; break
                    if i is None: break
                if not covered[i]: covered[i] = True; ncov += 1
                walk.append(i); cur = E[i]["post"]
            walks.append([E[i]["step"] for i in walk])
    reach = sum(1 for e in E if e["pre"] in parent)
    return walks, {"graph_states": len(parent), "graph_edges": len(E), "reachable_edges": reach, "edges_covered": ncov, "paths": len(walks), "steps": sum(len(w) for w in walks)}


REFL = ["refl"]      # name of the harness binary in use (refl, or refl_np = compiled with -DVERIF_NO_PRIVATE)


def build_refl():
    """harness/refl.cpp touches no private member of the library; should a later version do so, it must guard that with
    #ifndef VERIF_NO_PRIVATE - the fallback build then keeps every property-level oracle running."""
    name, private_ok = vlib.make_with_fallback("plain", "refl")
    REFL[0] = name
    return private_ok


def run_refl(args, timeout):
    rc, out, err = vlib.run([vlib.binpath("plain", REFL[0])] + [str(a) for a in args], timeout=timeout)
    if rc != 0: raise vlib.MachineryError("refl %s failed rc=%s: %s %s" % (args[0], rc, out[-500:], err[-1500:]))


def judge_rows(v, rows, pid, what, tag):
    """rows of a harness report: violations of this property -> VIOLATION, of the sister property -> a note, drift -> DRIFT."""
    mine = "violations04" if pid == "C04" else "violations13"
    other = "violations13" if pid == "C04" else "violations04"
    nother = 0
    for r in rows:
        if r.get("summary"): continue
        if r.get("case") == "watchdog": v.violation("%s: %s" % (what, "; ".join(r["violations"])), r, tag=tag); continue
        if r.get(mine): v.violation("%s: %s" % (what, "; ".join(r[mine])[:600]), r, tag=tag)
        elif r.get(other):
            nother += 1
            if nother <= 2: vlib.log("NOTE property=%s %s: the sister property %s is violated here (reported by its own check): %s" % (pid, what, "C13" if pid == "C04" else "C04", r[other][0][:200]))
        if r.get("known") and pid == "C04": v.known_finding("F27", r["known"][0])
        if r.get("drift") or r.get("countdrift"):
            v.drift += 1
            if v.drift <= 3: vlib.log("DRIFT property=%s %s: %s" % (pid, what, (r.get("drift") or r.get("countdrift"))[0][:300]))
    s = [r for r in rows if r.get("summary")]
    if not s: raise vlib.MachineryError("%s: the harness wrote no summary" % what)
    d = {"behaviours": 0, "followed": 0, "steps": 0, "drifted": 0, "expectations_compared": 0, "oracle_evaluations": 0, "messages_received": 0, "histories": 0, "commands": 0, "ops": {},
         "traces_written": 0, "trace_lines": 0, "selected_node_checks": 0, "filtered_out_node_checks": 0, "index_mirror_checks": 0, "cases": 0}      # (a run ended by the watchdog has no counts)
    d.update(s[0])
    return d
