"""C04 - a subscriber's mirror of the node tree converges to the server's tree.

 1. TLC model-checks spec/Reflector/SubsImpl.tla (StorageReflectSession.cpp / DataNode.cpp as coded: incremental subscriber reference
    counts, NodeChanged with the matched-before / matches-now logic, ChangeQueryFilterCallback, the pending update Message with its
    flush rules, the initial result of a subscribe, arrival / departure) against spec/Reflector/TreeAbs.tla (the property): Converged,
    TreeShape, RefsExact, EntriesExact, NoSetThenRemove, TreeStepsAsDocumented on several small instances; every invariant is shown to
    be violable (named deviations F3, F27, F34, noflush, nofixup; Reach_* witnesses).
 2. spec -> code: the same TLC runs print EVERY transition (state, command, expected mirrors); checks/reflcommon.cover_walks turns them
    into behaviours that take every transition; harness/refl.cpp replays them on an in-process ReflectServer and after EVERY command
    compares each client's mirror (built from the PR_RESULT_DATAITEMS it received, removals first, then sets) with the expectation and
    evaluates the clauses of TreeAbs directly on the SERVER's state (tree walk, DataNode::GetSubscribers() against recomputed counts).
 3. code -> spec: seeded random histories (3-4 sessions, names a b c, 12 subscription patterns x 3 filters, BATCH Messages, several
    operations in one handler, wildcard removals, quiet flags, ordered inserts, clones, disconnect / reconnect), the same oracle after
    every command; a subset is logged command by command with the update Messages every client received and validated by TLC against
    TreeAbs (spec/Reflector/TreeTrace.tla, linear).
 4. directed cases: F27 (open known finding), F34 (repaired, judged normally), set-then-remove inside one handler.
"""
import concurrent.futures as cf, json, os, re
import vlib, reflcommon as rc

INVS = ["TypeOK", "TreeShape", "Converged", "RefsExact", "EntriesExact", "NoSetThenRemove", "TreeStepsAsDocumented"]

BASE = {"Sessions": '{"W1", "S"}', "Writers": '{"W1"}', "Subscribers": '{"S"}', "Churn": "{}", "DeepWriters": '{"W1"}',
        "DeepPaths": '{"a", "b", "a/b"}', "FlatPaths": '{"a"}', "Payloads": "{1, 2}", "Spellings": '{"a", "*", "a/*", "*/b"}',
        "RemKeys": '{"a", "*", "a/*"}', "Filters": "{0, 1}", "MaxSubs": 2, "MaxItemsMenu": "{1, 2, 50}", "Quiet": "FALSE", "MultiOps": "FALSE",
        "MultiSub": "FALSE", "Deviations": "{}", "RECORD": "FALSE"}


def inst(sessions, need, **kw):
    c = dict(BASE); c.update(kw); c["Sessions"] = rc.tla_set(sessions)
    return {"sessions": sessions, "need": need, "c": c}


# name -> instance; "need": operations that must occur among the printed transitions (vacuity guard)
QUICK = {
    "core":    inst(["W1", "S"], ["set", "remove", "subscribe", "unsubscribe", "maxitems"]),
    "menu":    inst(["W1", "S"], ["set", "remove", "subscribe", "unsubscribe"], Spellings='{"a,b", "/*/*/a", "a/b", "*/*"}', RemKeys='{"a,b", "*/b", "*/*"}', MaxItemsMenu="{2, 50}"),
    "churn":   inst(["W1", "W2", "S"], ["connect", "disconnect", "set", "subscribe"], Writers='{"W1", "W2"}', Churn='{"W2"}', DeepWriters='{"W2"}', DeepPaths='{"a", "a/b"}', Spellings='{"a", "*", "a/*"}',
                    RemKeys='{"a", "*"}', MaxItemsMenu="{1, 50}"),
    "multi":   inst(["W1", "S"], ["multi", "subscribe2"], DeepPaths='{"a", "a/b"}', Spellings='{"a", "*"}', RemKeys='{"a", "*"}', MultiOps="TRUE", MultiSub="TRUE"),
    "quiet":   inst(["W1", "S"], ["quiet-set", "quiet-remove", "quiet-subscribe"], DeepPaths='{"a", "a/b"}', Spellings='{"a", "*"}', RemKeys='{"a"}', MaxItemsMenu="{1, 50}", Quiet="TRUE"),
    "selfsub": inst(["W1", "S"], ["set", "subscribe"], Writers='{"W1", "S"}', DeepPaths='{"a", "a/b"}', Spellings='{"a", "*", "a/*"}', RemKeys='{"a", "*"}', MaxItemsMenu="{2, 50}"),
    "twosubs": inst(["W1", "S1", "S2"], ["set", "subscribe", "unsubscribe"], Subscribers='{"S1", "S2"}', DeepPaths='{"a", "a/b"}', Spellings='{"a", "*"}', RemKeys='{"a", "*"}',
                    MaxSubs=1, MaxItemsMenu="{1, 50}", Churn='{"S2"}'),
}
THOROUGH = {
    "core4":   inst(["W1", "S"], ["set", "remove", "subscribe", "unsubscribe", "maxitems"], DeepPaths='{"a", "b", "a/a", "a/b"}'),
    "menu6":   inst(["W1", "S"], ["set", "remove", "subscribe"], Spellings='{"a", "*", "a/*", "*/b", "/*/*/a", "a,b"}', RemKeys='{"a", "*", "a/*", "*/b", "a,b"}', MaxItemsMenu="{1, 2, 50}"),
    "churn2":  inst(["W1", "W2", "S"], ["connect", "disconnect"], Writers='{"W1", "W2"}', Churn='{"W2", "S"}', DeepWriters='{"W1", "W2"}', DeepPaths='{"a", "a/b"}',
                    Spellings='{"a", "*", "a/*", "*/b"}', RemKeys='{"a", "*", "a/*"}', MaxItemsMenu="{1, 2, 50}"),
    "multi2":  inst(["W1", "S"], ["multi", "subscribe2"], Spellings='{"a", "*", "a/*"}', RemKeys='{"a", "*", "a/*"}', MultiOps="TRUE", MultiSub="TRUE", Filters="{0, 1, 2}"),
    "quiet2":  inst(["W1", "S"], ["quiet-set", "quiet-remove", "quiet-subscribe"], DeepPaths='{"a", "a/b"}', Spellings='{"a", "*", "a/*"}', Quiet="TRUE", MaxItemsMenu="{2, 50}"),
    "subs3":   inst(["W1", "S"], ["subscribe", "unsubscribe"], DeepPaths='{"a", "a/b"}', Spellings='{"a", "*", "a/*", "*/b", "a,b"}', MaxSubs=3),
    "full":    inst(["W1", "W2", "S"], [], Writers='{"W1", "W2"}', Churn='{"W2"}', DeepWriters='{"W1", "W2"}', Spellings='{"a", "*", "a/*", "*/b", "/*/*/a", "a,b"}',
                    RemKeys='{"a", "*", "a/*", "*/b", "a,b"}'),      # 1.9e5 states, 5.8e6 transitions: model-checked, not printed
    "depth3":  inst(["W1", "S"], ["set", "remove"], DeepPaths='{"a", "a/b", "a/b/a"}', Spellings='{"a", "a/*", "/*/*/*"}', RemKeys='{"a", "a/*", "*/*"}', MaxItemsMenu="{1, 2, 50}"),
}
# each named deviation must break the invariant named (the invariants are not vacuous; F27 is the open known finding as modelled)
REACH = [("F3", {"Deviations": '{"F3"}'}, ["Converged"]), ("noflush", {"Deviations": '{"noflush"}', "MultiOps": "TRUE"}, ["NoSetThenRemove"]),
         ("nofixup", {"Deviations": '{"nofixup"}'}, ["Converged"]),
         ("F27", {"Deviations": '{"F27"}', "Spellings": '{"a", "*", "/*/*/a"}'}, ["RefsExact"]), ("F27e", {"Deviations": '{"F27"}', "Spellings": '{"a", "*", "/*/*/a"}'}, ["EntriesExact"]),
         ("F34", {"Deviations": '{"F34"}', "MultiSub": "TRUE"}, ["Converged"]),
         ("norecurse", {"Deviations": '{"norecurse"}'}, ["TreeStepsAsDocumented"]), ("norecurseS", {"Deviations": '{"norecurse"}'}, ["TreeShape"]),
         ("FilteredOut", {}, ["Reach_FilteredOut"]), ("TwoSubsOneNode", {}, ["Reach_TwoSubsOneNode"]), ("Unclaimed", {"Quiet": "TRUE"}, ["Reach_Unclaimed"])]


# The model's node name b stands for any name.  For some instances every behaviour is replayed a second time with b spelt q(1) - a name
# whose characters are operators in a pattern - and every pattern naming it in its escaped form q\\(1\\) (what EscapeRegexTokens gives): the
# wildcard-free clauses go through the matcher's direct child lookup, which has to remove the escapes again.
ODD, ODD_ESC = "q(1)", "q\\(1\\)"


def _odd_pattern(sp):
    return "/".join(",".join(ODD_ESC if a == "b" else a for a in cl.split(",")) for cl in sp.split("/"))


def _odd_path(p):
    return [ODD if (i > 0 and x == "b") else x for i, x in enumerate(p)]


def _odd_cmd(c):
    c = dict(c)
    if "q" in c: c["q"] = [ODD if x == "b" else x for x in c["q"]]
    if "key" in c: c["key"] = _odd_pattern(c["key"])
    if "sp" in c: c["sp"] = _odd_pattern(c["sp"])
    if "subs" in c: c["subs"] = [dict(e, sp=_odd_pattern(e["sp"])) for e in c["subs"]]
    if "ops" in c: c["ops"] = [_odd_cmd(o) for o in c["ops"]]
    return c


def odd_names(step):
    st = dict(step); st["cmd"] = _odd_cmd(step["cmd"])
    st["exp"] = {s: [[_odd_path(p), v] for p, v in m] for s, m in step["exp"].items()}
    st["unc"] = {s: [_odd_path(p) for p in u] for s, u in step["unc"].items()}
    return st


def opname(cmd):
    o = cmd["op"]
    if o == "subscribe" and len(cmd["subs"]) == 2: return "subscribe2"
    if cmd.get("quiet"): return "quiet-" + o
    return o


def run(v, tier, seed):
    rc.build_refl()
    W = lambda n: vlib.scratch("C04", n)
    insts = dict(QUICK)
    if tier == "thorough": insts.update(THOROUGH)
    tot = {"states": 0, "transitions": 0, "edges": 0, "walks": 0, "followed": 0, "steps": 0, "exp": 0, "oracle": 0, "msgs": 0}
    notes = []; samples = []

    def model_and_replay(name, I):
        c = dict(I["c"]); c["RECORD"] = "TRUE"
        cfg = rc.write_cfg("gen_C04_%s.cfg" % name, "Spec", c, INVS, view="view")
        r = vlib.tlc("SubsImpl", cfg, rc.FAMILY, workers=(2 if tier == "quick" else 4), timeout=(600 if tier == "quick" else 3000), heap="5g")
        vlib.require_ok(r, "SubsImpl instance %s" % name)
        if not r.printed: raise vlib.MachineryError("SubsImpl instance %s printed no transitions" % name)
        walks, st = rc.cover_walks(r.printed, maxlen=150)
        if st["edges_covered"] != st["graph_edges"] or st["graph_states"] != r.distinct:
            raise vlib.MachineryError("instance %s: transition cover incomplete: %s, TLC found %d states" % (name, st, r.distinct))
        ops = {}
        for e in r.printed: ops[opname(e["step"]["cmd"])] = ops.get(opname(e["step"]["cmd"]), 0) + 1
        missing = [o for o in I["need"] if not ops.get(o)]
        if missing: raise vlib.MachineryError("instance %s: vacuity guard: commands never taken: %s" % (name, missing))
        nontrivial = sum(1 for e in r.printed if any(e["step"]["nmsg"].values()))
        smp = [w for w in walks if len(w) >= 4][:1]
        del r.printed[:]
        bf = W("beh_%s.ndjson" % name); rep = W("rep_%s.ndjson" % name)
        beh = [{"id": i, "kind": "subs", "sessions": I["sessions"], "connect": I["sessions"], "steps": w} for i, w in enumerate(walks)]
        if name in ("core", "menu", "menu6"):
            beh += [{"id": len(walks) + i, "kind": "subs", "sessions": I["sessions"], "connect": I["sessions"], "steps": [odd_names(st) for st in w]} for i, w in enumerate(walks)]
        vlib.write_ndjson(bf, beh)
        rc.run_refl(["replay", bf, rep], timeout=(300 if tier == "quick" else 2400))
        rows = vlib.read_ndjson(rep)
        os.remove(bf)
        return name, r, st, ops, nontrivial, rows, smp

    def model_only(name, I):
        cfg = rc.write_cfg("gen_C04_MC_%s.cfg" % name, "Spec", I["c"], INVS)
        r = vlib.tlc("SubsImpl", cfg, rc.FAMILY, workers=6, timeout=3000, heap="8g")
        vlib.require_ok(r, "SubsImpl instance %s" % name)
        return name, r

    def reach(tag, over, invs):
        c = dict(BASE); c.update({"DeepPaths": '{"a", "a/b"}', "Spellings": '{"a", "*"}', "RemKeys": '{"a"}'}); c.update(over)
        cfg = rc.write_cfg("gen_C04_Reach_%s.cfg" % tag, "Spec", c, invs)
        r = vlib.tlc("SubsImpl", cfg, rc.FAMILY, workers=1, timeout=600, heap="2g")
        if r.error: raise vlib.MachineryError("Reach %s: %s" % (tag, r.error))
        return tag, invs[0], r.violated

    def explore(histories, ncmds, ntraces):
        rep = W("explore.ndjson"); tr = W("trace.ndjson")
        rc.run_refl(["explore", "c04", histories, ncmds, seed, rep, tr, ntraces], timeout=(300 if tier == "quick" else 2400))
        rows = vlib.read_ndjson(rep)
        if any(r.get("hang") for r in rows): return rows, "NotAccepted", None, tr, 0.0      # ended by the watchdog (reported from the rows): the trace file is cut off
        cfgp = os.path.join(vlib.SPEC, rc.FAMILY, "TreeTrace.cfg")
        if not os.path.exists(cfgp): raise vlib.MachineryError("spec/Reflector/TreeTrace.cfg is missing")
        r = vlib.tlc("TreeTrace", "TreeTrace.cfg", rc.FAMILY, workers=1, timeout=(600 if tier == "quick" else 3000), env={"TRACE": tr}, keep_out=True, heap="6g")
        if r.error and not r.violated: raise vlib.MachineryError("TreeTrace: " + r.error)
        # accepted = no invariant failed and the last line was reached (the progress register printed by the POSTCONDITION; a violation
        # prints the behaviour, whose last state gives the line)
        m = re.search(r'"maxline", (\d+), "of", (\d+)', r.out)
        lines = [int(x) for x in re.findall(r"^/\\ l = (\d+)", r.out, re.M)]
        verdict = r.violated or ("NotAccepted" if (m and int(m.group(1)) == int(m.group(2)) + 1) else "stuck")
        line = (max(lines) - 1) if lines else (int(m.group(1)) if m else None)
        r.out = ""
        return rows, verdict, line, tr, r.wall

    def directed():
        rep = W("directed.ndjson")
        rc.run_refl(["directed", rep], timeout=120)
        return vlib.read_ndjson(rep)

    nh, nc, nt = (500, 200, 20) if tier == "quick" else (12000, 300, 120)      # histories, commands per history, histories logged for TLC
    big = {}
    if tier == "thorough": big["full"] = insts.pop("full")
    with cf.ThreadPoolExecutor(max_workers=(5 if tier == "quick" else 4)) as ex:
        f_ex = ex.submit(explore, nh, nc, nt)
        f_dir = ex.submit(directed)
        f_in = [ex.submit(model_and_replay, n, I) for n, I in sorted(insts.items(), key=lambda kv: -len(kv[1]["c"]["DeepPaths"]))]
        f_mc = [ex.submit(model_only, n, I) for n, I in big.items()]
        f_re = [ex.submit(reach, *x) for x in REACH]
        for f in f_re:
            tag, inv, violated = f.result()
            if violated != inv: raise vlib.MachineryError("vacuity guard: the variant %s of SubsImpl does not violate %s (TLC: %s)" % (tag, inv, violated))
        for f in f_in:
            name, r, st, ops, nontrivial, rows, smp = f.result()
            summ = rc.judge_rows(v, rows, "C04", "replay of a behaviour of SubsImpl (instance %s)" % name, "replay-" + name)
            tot["states"] += r.distinct; tot["transitions"] += r.generated; tot["edges"] += st["graph_edges"]; tot["walks"] += summ["behaviours"]
            tot["followed"] += summ["followed"]; tot["steps"] += summ["steps"]; tot["exp"] += summ["expectations_compared"]; tot["oracle"] += summ["oracle_evaluations"]; tot["msgs"] += summ["messages_received"]
            tot["nontrivial"] = tot.get("nontrivial", 0) + nontrivial
            notes.append({"instance": name, "distinct": r.distinct, "generated": r.generated, "depth": r.depth, "tlc_wall_s": round(r.wall, 1), "transitions_covered": st["graph_edges"],
                          "behaviours": summ["behaviours"], "followed": summ["followed"], "commands": ops})
            samples += [{"kind": "behaviour of SubsImpl replayed (instance %s)" % name, "steps": s[:6]} for s in smp]
        for f in f_mc:
            name, r = f.result()
            tot["states"] += r.distinct; tot["transitions"] += r.generated
            notes.append({"instance": name + " (model-checked only)", "distinct": r.distinct, "generated": r.generated, "depth": r.depth, "tlc_wall_s": round(r.wall, 1)})
        rows, tviol, tline, tr, twall = f_ex.result()
        esum = rc.judge_rows(v, rows, "C04", "random history", "explore")
        accepted = (tviol == "NotAccepted")
        if tviol == "Converged":
            v.violation("recorded history violates Converged of TreeAbs at line %s of %s" % (tline, tr), {"trace": tr, "line": tline, "invariant": "Converged"}, tag="trace")
        elif tviol == "TreeAsDocumented":
            v.drift += 1; vlib.log("DRIFT property=C04 recorded history: the server's tree did not change as the documentation of the command says, line %s of %s" % (tline, tr))
        elif not accepted:
            v.drift += 1; vlib.log("DRIFT property=C04 recorded histories are not accepted by TreeTrace (%s), line %s of %s" % (tviol, tline, tr))
        drows = directed_rows = f_dir.result()
        dsum = rc.judge_rows(v, drows, "C04", "directed case", "directed")
        if v.is_listed("F27") and "F27" not in v.known_hit: vlib.log("NOTE property=C04 the open known finding F27 was not reproduced by its directed case")
    if tot["followed"] == 0: raise vlib.MachineryError("no behaviour could be followed")
    cov = {"states": tot["states"], "transitions": tot["transitions"],
           "traces_validated_against_impl": tot["followed"] + (esum["traces_written"] if accepted else 0),
           "behaviours_replayed": tot["walks"], "behaviours_followed_to_the_end": tot["followed"], "replay_steps": tot["steps"],
           "model_transitions_covered_by_replay": tot["edges"], "mirror_expectations_compared": tot["exp"],
           "oracle_evaluations_on_server_state": tot["oracle"] + esum["oracle_evaluations"], "update_messages_received": tot["msgs"] + esum["messages_received"],
           "random_histories": esum["histories"], "random_commands": esum["commands"], "random_command_mix": esum["ops"],
           "selected_node_checks": esum["selected_node_checks"], "filtered_out_node_checks": esum["filtered_out_node_checks"],
           "histories_validated_by_tlc": esum["traces_written"] if accepted else 0, "trace_lines_validated_by_tlc": esum["trace_lines"] if accepted else 0,
           "directed_cases": dsum["cases"],
           "evaluations": tot["steps"] + esum["commands"], "distinct_nontrivial": tot.get("nontrivial", 0),
           "rule": "one case = one transition (state, command) of a SubsImpl instance; all of them are replayed (distinct by construction); non-trivial = the command makes the server send at least one update Message to a subscriber",
           "exhaustive": True, "model_runs": notes, "samples": samples[:4]}
    assumptions = ["the client protocol of DESIGN.md C04: updates applied in order, removals before sets; after removing a subscription (and after an explicit GETDATA) the client drops what its remaining subscriptions do not select; nodes touched by quiet operations are outside the claim until the client hears of them again",
                   "single-threaded pumping of the server (ServerProcessLoop(0)) to quiescence after every command: interleavings of the sessions' commands are sequences of whole commands",
                   "SubsImpl visits children in a canonical order (the code: creation order), so the batching of updates is compared only through the mirrors; results about a session's own nodes are ignored by the client",
                   "one spelling per subscription path per session outside the directed case of F27; quiet parts inside BATCH Messages are not generated",
                   "node names with pattern metacharacters: q(1), always named in patterns in its escaped form (replay of the instances core / menu with b spelt q(1); third name of the random histories)"]
    return "model_checking", cov, assumptions
