"""C06 - a session can alter only its own subtree, and leaves no trace when it departs.

 1. TLC model-checks spec/ReflectorSafety/Isolation.tla (a model of the server's observable state - node tree, indices, per-node subscriber
    marks maintained incrementally, per-session parameters / subscriptions / connectedness, client mirrors - under the commands of an
    unprivileged session drawn from the hostile menu the spec defines, one action per command, handled as StorageReflectSession.cpp handles
    them): Frame, Erase, OnlySelfLeaves (action properties), MarksExact, MirrorExact, NoTrace, IdxSound, TreeShape, NoPrivilege.  Thirteen guard runs over named
    wrong designs (`Deviations`) must each violate the property they are aimed at (vacuity guards).  Subscriptions may carry a what-code QueryFilter
    (marks by path only, notification by filter, as coded); SETDATA may carry the quiet flag (the node still gets everybody's marks, the mirrors lag).
 2. spec -> code: TLC dumps the state graph of the same model with RECORD = TRUE; tools/pathcover.py turns it into histories covering EVERY
    transition (all commands of the menu to depth 2, a 16-command menu to depth 3; thorough: the whole menu to depth 3); harness/srv.cpp (asan)
    replays each into an in-process ReflectServer with real StorageReflectSessions over socket pairs and, after EVERY step, compares every
    OTHER session's projection (subtree and indices read in-process and through an observer's GETDATA, effective parameters through
    GETPARAMETERS, connectedness) with what it was, recomputes every node's subscriber marks, checks every client's mirror, and compares the
    whole state with the specification's.  Departures: cut in the middle of a Message for half of the histories; for a seeded subset plus a
    directed history the departing session's byte stream of length L is cut after EVERY prefix 0..L, written in one piece and byte by byte.
 3. code -> spec: seeded random longer histories (any of the three sessions acts) with the same monitors; the observed states of all of them are
    validated by TLC against the specification (IsoTrace.tla); a corrupted trace and a corrupted behaviour must be rejected (self-test).
"""
import concurrent.futures as cf, json, os, random, re
import vlib, pathcover

FAM = "ReflectorSafety"
INVS = ["MarksExact", "MirrorExact", "NoTrace", "IdxSound", "TreeShape", "NoPrivilege"]
PROPS = ["Frame", "Erase", "OnlySelfLeaves"]
# deviation -> (invariants, properties) it must violate, each in a run of its own
REACH = [("SetDataAbsolute", [], ["Frame"]), ("RemoveFromGlobalRoot", [], ["Frame"]), ("ReorderFromGlobalRoot", [], ["Frame"]),
         ("KickUnprivileged", [], ["OnlySelfLeaves"]), ("DeepMarksStay", ["MarksExact"], []), ("DeepMarksStay", [], ["Erase"]),
         ("CutNoNotify", ["MirrorExact"], []), ("CutNoNotify", ["NoTrace"], []), ("PrivBitsAccepted", ["NoPrivilege"], []),
         ("FilteredMarksStay", ["MarksExact"], []), ("FilteredMarksStay", [], ["Erase"]), ("QuietCreateNoMarks", ["MarksExact"], []),
         ("DeafMarksStay", ["MarksExact"], [])]


def cfg(name, steps, dev, record, menu, invs=None, props=None, actors='{"s1"}'):
    p = os.path.join(vlib.SPEC, FAM, name)
    with open(p, "w") as f:
        f.write('SPECIFICATION Spec\nCONSTANTS\n  MaxSteps = %d\n  Deviations = {%s}\n  RECORD = %s\n  Actors = %s\n  MenuKind = "%s"\n' %
                (steps, ", ".join('"%s"' % d for d in dev), "TRUE" if record else "FALSE", actors, menu))
        if invs: f.write("INVARIANTS " + " ".join(invs) + "\n")
        if props: f.write("PROPERTIES " + " ".join(props) + "\n")
    return name


def C(op, abs_, p, x="", pay=0, v="", sub=()):
    return {"op": op, "abs": abs_, "p": list(p), "x": x, "pay": pay, "v": v, "sub": list(sub)}


def brief(steps):
    out = []
    for s in steps:
        if s.get("a") == "Cmd":
            c = s["cmd"]; out.append("%s:%s %s%s%s" % (s["who"], c["op"], "/" if c["abs"] else "", "/".join(c["p"]), (" " + c["x"]) if c["x"] else ""))
        else: out.append("%s:%s" % (s.get("who"), s.get("a")))
    return out


def run(v, tier, seed):
    vlib.make("asan", "srv")
    srv = vlib.binpath("asan", "srv")
    W = lambda n: vlib.scratch("C06", n)
    quick = tier == "quick"
    rnd = random.Random(seed)
    tot = {"states": 0, "transitions": 0}
    mc_notes = []; samples = []

    # ------------------------------------------------------------------------------------------------ 1. model checking
    def model_check(steps, menu, tag, cover=True):
        name = cfg("gen_MC_%s.cfg" % tag, steps, [], False, menu, INVS, PROPS)
        r = vlib.tlc("Isolation", name, FAM, coverage=cover, workers=4 if cover else 8, timeout=2400, heap="8g")
        vlib.require_ok(r, "Isolation model check %s" % tag)
        if cover: vlib.require_coverage(r, ["Cmd", "Leave"], "Isolation %s" % tag)
        return r

    def reach(i, dev, invs, props):
        name = cfg("gen_Reach_%d_%s.cfg" % (i, dev), 3, [dev], False, "full", invs, props)
        r = vlib.tlc("Isolation", name, FAM, workers=2, timeout=900, heap="3g")
        want = (invs + props)[0]
        if r.error and not r.violated: raise vlib.MachineryError("Reach %s: %s" % (dev, r.error))
        return dev, want, r.violated

    # ------------------------------------------------------------------------------------------------ 2. spec -> code
    def generate(steps, menu, tag):
        name = cfg("gen_Gen_%s.cfg" % tag, steps, [], True, menu)
        dot = W("g_%s.dot" % tag)
        r = vlib.tlc("Isolation", name, FAM, workers=4, timeout=2400, heap="8g", dump=dot)
        vlib.require_ok(r, "Isolation graph dump %s" % tag)
        inits, nodes, adj = pathcover.load_graph(dot)
        paths, ncov, nedges = pathcover.cover(inits, nodes, adj)
        os.remove(dot)
        if ncov != nedges: raise vlib.MachineryError("path cover incomplete (%s): %d of %d" % (tag, ncov, nedges))
        init = nodes[inits[0]]["st"]
        beh = [[nodes[n] for n in p[1:]] for p in paths]
        return {"tag": tag, "behaviours": beh, "init": init, "edges": nedges, "states": len(nodes), "tlc": (r.distinct, r.generated)}

    def replay(rows, tag, every_nth=1, timeout=None, is_rerun=False):
        bf = W("beh_%s.ndjson" % tag); rep = W("rep_%s.ndjson" % tag)
        vlib.write_ndjson(bf, rows)
        to = timeout or (280 if quick else 2400)
        rc, out, err = vlib.run([srv, "iso", bf, rep, str(seed), str(every_nth)], timeout=to)
        res = vlib.read_ndjson(rep) if os.path.exists(rep) else []
        cur = None
        if rc != 0 or any(r.get("hang") for r in res):
            try: cur = json.loads(open(rep + ".cur").read())
            except Exception: cur = None
        out = {"tag": tag, "rc": rc, "rows": res, "stderr": err[-5000:], "cur": cur, "n": len(rows)}
        if not is_rerun and cur is not None: out["rerun"] = lambda: replay([cur], tag + "-rerun", every_nth, 600, True)
        return out

    def reproduced(res):
        """a watchdog report is time-dependent: the case is run once more, alone, before it is believed"""
        if "rerun" not in res: return True
        rr = res["rerun"]()
        again = rr["rc"] not in (0,) or any(r.get("hang") or r.get("violations") for r in rr["rows"])
        if not again: vlib.log("NOTE property=C06 the watchdog fired once in %s but the case ran normally when repeated alone (machine overloaded?): not reported" % res["tag"])
        return again

    def judge(res, what):
        """turns one harness run into verdicts; returns its summary row (or None)"""
        summ = [r for r in res["rows"] if r.get("summary")]
        for r in res["rows"]:
            if r.get("summary"): continue
            if r.get("hang"):
                if not reproduced(res): return None
                r = dict(r, case=res["cur"])
            if r.get("violations"):
                v.violation("%s: %s" % (what, "; ".join(r["violations"][:3])), dict(r, replay="put the behaviour on one line of a file; build/asan/bin/srv iso <file> <report> %d 1" % seed), tag=res["tag"])
            elif r.get("drift"):
                v.drift += 1
                if v.drift <= 3: vlib.log("DRIFT property=C06 %s %s: %s" % (what, brief(r.get("steps", [])), "; ".join(r["drift"][:2])[:400]))
        if res["rc"] != 0:
            if res["rc"] == -999: raise vlib.MachineryError("srv %s: timeout of the whole run (the in-harness watchdog did not fire): %s" % (res["tag"], res["stderr"][-800:]))
            if res["rc"] == -9: raise vlib.MachineryError("srv %s was killed from outside (out of memory?)" % res["tag"])
            if summ and summ[-1].get("hang"): return summ[-1]
            kind = "sanitizer report" if res["rc"] in (66, 67) else "crash (exit %s)" % res["rc"]
            v.violation("%s: %s of the server while replaying a case: %s" % (what, kind, " | ".join(l for l in res["stderr"].splitlines() if "ERROR" in l or "SUMMARY" in l or "runtime error" in l)[:600]),
                        {"case": res["cur"], "exit": res["rc"], "stderr": res["stderr"]}, tag=res["tag"] + "-crash")
            return None
        if not summ: raise vlib.MachineryError("srv %s wrote no summary: %s" % (res["tag"], res["stderr"][-800:]))
        return summ[-1]

    # ------------------------------------------------------------------------------------------------ 3. code -> spec
    def menu_dump():
        r = vlib.tlc("IsoTrace", "MenuDump.cfg", FAM, workers=1, timeout=600)
        if r.error or not r.printed: raise vlib.MachineryError("menu dump: %s" % (r.error or "nothing printed"))
        mf = W("menu.json"); vlib.write_ndjson(mf, [r.printed[0]])
        return mf, r.printed[0]["menu"]

    def validate(tr, tag, expect_accept=True):
        r = vlib.tlc("IsoTrace", "IsoTrace.cfg", FAM, workers=1, timeout=2400, heap="4g", env={"TRACE": tr})
        nlines = sum(1 for _ in open(tr))
        if r.error and not r.violated: raise vlib.MachineryError("IsoTrace %s: %s" % (tag, r.error))
        return {"accepted": r.violated == "NotAccepted", "other": r.violated if r.violated not in (None, "NotAccepted") else None,
                "explained": max(r.distinct - 1, 0), "lines": nlines, "states": r.distinct, "trace": tr}

    def random_histories(mf, nh, ns, shard, is_rerun=False, scripts=None):
        rep = W("rep_rand%s.ndjson" % shard); tr = W("trace_rand%s.ndjson" % shard)
        extra = []
        if scripts is not None:
            sf = W("scripts.ndjson"); vlib.write_ndjson(sf, scripts); extra = [sf]; nh = len(scripts)
        rc, out, err = vlib.run([srv, "isorand", mf, str(nh), str(ns), str(seed * 100 + (shard if isinstance(shard, int) else 99)), rep, tr, str(nh)] + extra, timeout=(280 if quick else 2400))
        res = {"tag": "rand%s" % shard, "rc": rc, "rows": vlib.read_ndjson(rep) if os.path.exists(rep) else [], "stderr": err[-5000:], "cur": None, "n": nh}
        if rc != 0 or any(r.get("hang") for r in res["rows"]):
            try: res["cur"] = json.loads(open(rep + ".cur").read())
            except Exception: pass
            if not is_rerun: res["rerun"] = lambda: random_histories(mf, nh, ns, shard, True, scripts)[0]
        val = validate(tr, "rand%s" % shard) if (rc == 0 and os.path.getsize(tr) > 0) else None
        return res, val

    def diagnose(tr):
        r = vlib.tlc("IsoTrace", "IsoTraceDbg.cfg", FAM, workers=1, timeout=1200, heap="4g", env={"TRACE": tr})
        for p in r.printed[:1]:
            d = {k: x for k, x in p["diff"].items() if x["onlyModel"] or x["onlyObserved"]}
            return "line %s (history %s, step %s, %s %s): %s" % (p["line"], p["h"], p["k"], p["who"], json.dumps(p["cmd"])[:200], json.dumps(d)[:600])
        return "no difference found by the diagnosis run"

    # ================================================================================================ schedule
    nshard = 4 if quick else 8
    with cf.ThreadPoolExecutor(max_workers=16) as ex:
        f_mc = [ex.submit(model_check, 3, "full", "3full")]
        if not quick: f_mc.append(ex.submit(model_check, 5, "full", "5full", False))
        f_reach = [ex.submit(reach, i, d, a, b) for i, (d, a, b) in enumerate(REACH)]
        f_menu = ex.submit(menu_dump)
        f_leak = ex.submit(lambda: vlib.run([srv, "ctrleak", W("rep_leak.ndjson")], timeout=120))
        if quick: f_gen = [ex.submit(generate, 2, "full", "2full"), ex.submit(generate, 3, "small", "3small")]
        else:     f_gen = [ex.submit(generate, 3, "full", "3full")]
        gens = [f.result() for f in f_gen]

        # behaviours: every transition of the graph(s); departures in the middle of a Message for odd ids; probing for every third
        rows = []; seen = set()
        for g in gens:
            for b in g["behaviours"]:
                k = vlib.sha([(s.get("a"), s.get("who"), s.get("cmd")) for s in b])
                if k in seen: continue
                seen.add(k)
                i = len(rows)
                rows.append({"id": i, "steps": b, "init": g["init"], "cuts": "sample", "partial": bool(i & 1), "probe": (i % 3 == 0)})
        init = gens[0]["init"]
        samples += [{"kind": "behaviour replayed", "steps": brief(r["steps"])} for r in (rows[0], rows[len(rows) // 2], rows[-1])]
        # all-cuts candidates: the sender of all commands departs last and has something to leave behind
        def rich(r):
            st = r["steps"]
            if len(st) < 2 or st[-1]["a"] != "Depart" or st[-1]["who"] != "s1" or any(s["a"] != "Cmd" for s in st[:-1]): return False
            prev = st[-2]["st"]
            return any(t[0][:2] == ["hA", "s1"] and len(t[0]) > 2 for t in prev["tree"]) or any(p[0] == "s1" for p in prev["psub"])
        cand = [r for r in rows if rich(r)]
        ncut = min(len(cand), 12 if quick else 600)
        cuts = [dict(r, cuts="all") for r in rnd.sample(cand, ncut)]
        # the directed history (the design-phase dry run's): subscribe, nested set, ordered insert, remove, set - its end state is the initial state minus s1
        dep = [r for r in rows if len(r["steps"]) == 1 and r["steps"][0]["a"] == "Depart" and r["steps"][0]["who"] == "s1"]
        if not dep: raise vlib.MachineryError("no [Depart s1] behaviour generated")
        directed = [C("SUBSCRIBE", False, ["*"]), C("SUBSCRIBE", False, ["a", "*"]), C("SETDATA", False, ["a", "b"], pay=2), C("INSERTORDEREDDATA", False, ["a"], x="zz", pay=4),
                    C("REMOVEDATA", False, ["a", "b"]), C("SETDATA", False, ["c"], pay=3), C("SETDATA", True, ["hA", "s2", "a"], pay=9), C("REMOVEDATA", True, ["*", "*", "*"])]
        cuts.append({"id": len(rows), "steps": [{"a": "Cmd", "who": "s1", "cmd": c} for c in directed] + [dep[0]["steps"][0]], "init": init, "cuts": "all"})
        # ... and one with a node CREATED quietly under other sessions' subscriptions, then updated aloud, and filtered subscriptions whose filter some node fails
        directed2 = [C("SETDATA", False, ["a", "b"], x="quiet", pay=7), C("SETDATA", False, ["a"], pay=2), C("SETDATA", False, ["a", "b"], pay=7), C("SETDATA", False, ["c"], x="quiet", pay=1),
                     C("SUBSCRIBE", False, ["a"], pay=2), C("SUBSCRIBE", True, ["*", "*", "c"], pay=1)]
        cuts.append({"id": len(rows) + 1, "steps": [{"a": "Cmd", "who": "s1", "cmd": c} for c in directed2] + [dep[0]["steps"][0]], "init": init, "cuts": "all"})
        for i, c in enumerate(cuts): c["id"] = len(rows) + i
        samples.append({"kind": "departure with the stream cut after every byte prefix", "steps": brief(cuts[-1]["steps"])})

        f_rep = [ex.submit(replay, rows[k::nshard], "beh%d" % k) for k in range(nshard)]
        ncs = min(len(cuts), nshard)
        f_cut = [ex.submit(replay, cuts[k::ncs], "cut%d" % k, 1 if not quick else 2) for k in range(ncs)]
        # self-test: a behaviour whose expected state was corrupted in ANOTHER session's part must be reported
        bad = json.loads(json.dumps(next(r for r in rows if len(r["steps"]) >= 2 and all(s["a"] == "Cmd" for s in r["steps"]))))
        for t in bad["steps"][0]["st"]["tree"]:
            if t[0] == ["hA", "s2", "a"]: t[1] = 99
        f_bad = ex.submit(replay, [bad], "selftest")

        mf, menu = f_menu.result(); nmenu = len(menu)
        nh, ns = (60, 20) if quick else (1000, 40)
        f_rand = [ex.submit(random_histories, mf, nh, ns, k) for k in range(nshard)]
        # directed histories in which SEVERAL sessions act (same monitors, validated by TLC like the random ones)
        def ci(cmd):
            for i, m in enumerate(menu):
                if all(m[k] == cmd[k] for k in cmd): return i + 1
            raise vlib.MachineryError("directed history: command not in the menu: %s" % cmd)
        def S(who, cmd): return {"who": who, "ci": ci(cmd)}
        def D(who, partial): return {"who": who, "a": "Depart", "partial": partial}
        esc = ["hA", "s2", "q\\(1\\)"]; RMV = "!Rmv"; DSUB = {"op": "SETPARAM", "x": "!Dsub", "v": "1"}
        scripts = [
            # a name with regex token characters, an all-literal subscription that escapes them, the node created AFTER the subscription; un-subscribe / departure
            [S("s1", C("SUBSCRIBE", True, esc)), S("s2", C("SETDATA", False, ["q(1)"], pay=7)), S("s1", C("REMOVEPARAM", True, esc, x="SUBSCRIBE:")), S("s2", C("SETDATA", False, ["q(1)"], pay=7)), D("s1", False)],
            [S("s1", C("SUBSCRIBE", True, esc)), S("s2", C("SETDATA", False, ["q(1)"], pay=7)), D("s1", True)],
            [S("s3", C("SUBSCRIBE", True, esc)), S("s1", C("SUBSCRIBE", True, esc)), S("s2", C("SETDATA", False, ["q(1)"], pay=7)), D("s1", False), D("s3", True)],
            # the same relative subscription sent twice while a matching node exists, then removed, then the departure
            [S("s1", C("SUBSCRIBE", False, ["a", "*"])), S("s1", C("SUBSCRIBE", False, ["a", "*"])), S("s1", C("REMOVEPARAM", False, [], x="SUBSCRIBE:*")), D("s1", True)],
            [S("s1", C("SUBSCRIBE", False, ["*"])), S("s2", C("SUBSCRIBE", False, ["*"])), S("s1", C("SUBSCRIBE", False, ["*"])), S("s1", C("REMOVEPARAM", False, ["*"], x="SUBSCRIBE:")), D("s1", True), D("s2", False)],
            # a node with indexed AND plain children, a child taken out of the index but kept; removal and departure
            [S("s1", C("SETDATA", False, ["a", "I0"], x="index", pay=5)), S("s1", C("SETDATA", False, ["a", "b"], pay=7)), S("s1", C("SETDATA", False, ["a", "I1"], x="index", pay=6)), S("s1", C("REORDERDATA", False, ["a", "*"], x=RMV)),
             S("s1", C("REMOVEDATA", False, ["a"])), S("s1", C("SETDATA", False, ["a", "I0"], x="index", pay=5)), S("s1", C("SETDATA", False, ["a", "b"], pay=7)), D("s1", True), D("s2", False)],
            # PR_NAME_DISABLE_SUBSCRIPTIONS: marks exist, nothing is sent; the session leaves while it holds the parameter / after it removed it again; the others keep changing nodes
            [S("s1", C("SUBSCRIBE", False, ["*"])), S("s1", DSUB), S("s2", C("SETDATA", False, ["a"], pay=2)), S("s1", C("SUBSCRIBE", False, ["a", "*"])), S("s2", C("SETDATA", False, ["a", "b"], pay=7)), D("s1", True), D("s2", False)],
            [S("s2", DSUB), S("s1", C("SETDATA", False, ["a"], pay=7)), S("s1", C("SETDATA", False, ["a", "b"], pay=7)), S("s1", C("REMOVEDATA", False, ["a"])), S("s2", C("REMOVEPARAM", False, [], x="!Dsub")), S("s1", C("SETDATA", False, ["a"], pay=2)), D("s2", True), D("s1", False)],
            [S("s3", DSUB), S("s1", C("SETDATA", False, ["a", "b"], pay=7)), D("s3", False), D("s1", True)],
            # a node created quietly under others' subscriptions, updated aloud, creator departs; subscribers depart amid other clients' traffic
            [S("s1", C("SETDATA", False, ["a", "b"], x="quiet", pay=7)), S("s1", C("SETDATA", False, ["a", "b"], pay=7)), S("s1", C("SUBSCRIBE", False, ["*"])), S("s1", C("SUBSCRIBE", False, ["*", "*"])), D("s2", True), D("s1", True), D("s3", False)]]
        f_script = ex.submit(random_histories, mf, 0, 0, "script", False, [{"steps": s} for s in scripts])
        # server instances with configured privilege patterns (Isolation.tla PrivCases)
        f_priv = ex.submit(lambda: vlib.run([srv, "priv", mf, W("rep_priv.ndjson")], timeout=280))

        # ---- collect
        for f in f_mc:
            r = f.result(); tot["states"] += r.distinct; tot["transitions"] += r.generated
            mc_notes.append({"distinct": r.distinct, "generated": r.generated, "depth": r.depth, "wall_s": round(r.wall, 1)})
        guards = []
        for f in f_reach:
            dev, want, got = f.result(); guards.append("%s->%s" % (dev, got))
            if got != want: raise vlib.MachineryError("vacuity guard: Isolation with the wrong design %s does not violate %s (TLC says: %s)" % (dev, want, got))
        rc, out, err = f_leak.result()
        leak = {"tag": "ctrleak", "rc": rc, "rows": vlib.read_ndjson(W("rep_leak.ndjson")) if os.path.exists(W("rep_leak.ndjson")) else [], "stderr": err[-3000:], "cur": None, "n": 1}
        judge(leak, "a recycled node continues a departed session's child numbering (directed case of the repaired F40)")
        rc, out, err = f_priv.result()
        prv = judge({"tag": "priv", "rc": rc, "rows": vlib.read_ndjson(W("rep_priv.ndjson")) if os.path.exists(W("rep_priv.ndjson")) else [], "stderr": err[-3000:], "cur": None, "n": 1}, "privileged commands from an unprivileged address") or {}
        agg = {"behaviours": 0, "followed": 0, "drifted": 0, "steps": 0, "server_runs": 0, "cut_runs": 0, "probes": 0}
        for f in f_rep + f_cut:
            s = judge(f.result(), "replay of a TLC behaviour")
            if s:
                for k in agg: agg[k] += s.get(k, 0)
        sb = f_bad.result()
        if not any(r.get("violations") for r in sb["rows"]): raise vlib.MachineryError("self-test: a behaviour with a corrupted expectation (payload of /hA/s2/a) was not reported by the harness")
        ragg = {"histories": 0, "clean": 0, "steps": 0, "traces_written": 0, "trace_lines": 0}; accepted = 0; explained = 0; tstates = 0; first_trace = None
        for f in f_rand + [f_script]:
            res, val = f.result()
            s = judge(res, "random hostile history")
            if s:
                for k in ragg: ragg[k] += s.get(k, 0)
            if val:
                first_trace = first_trace or val["trace"]; tstates += val["states"]
                if val["other"]:
                    v.violation("recorded history violates %s of Isolation (trace %s)" % (val["other"], val["trace"]), {"trace": val["trace"], "invariant": val["other"]}, tag="trace")
                elif not val["accepted"]:
                    v.drift += 1
                    vlib.log("DRIFT property=C06 recorded histories are not behaviours of Isolation: %d of %d lines explained in %s; first difference at %s" % (val["explained"], val["lines"], val["trace"], diagnose(val["trace"])))
                    explained += val["explained"]
                else:
                    accepted += s.get("traces_written", 0) if s else 0; explained += val["lines"]
        # self-test: one corrupted field of one recorded line must make TLC reject the trace
        if first_trace:
            lines = open(first_trace).read().splitlines()[:12]
            for i, l in enumerate(lines):
                j = json.loads(l)
                if j.get("a") == "Cmd" and j.get("tree"):
                    j["tree"][-1][1] += 1; lines[i] = json.dumps(j, separators=(",", ":")); break
            bt = W("trace_corrupt.ndjson"); open(bt, "w").write("\n".join(lines) + "\n")
            cv = validate(bt, "corrupt")
            if cv["accepted"]: raise vlib.MachineryError("self-test: a trace with one corrupted payload was accepted by IsoTrace")

    if agg["followed"] == 0: raise vlib.MachineryError("no behaviour could be followed")
    cov = {"states": tot["states"], "transitions": tot["transitions"],
           "traces_validated_against_impl": agg["followed"] + accepted,
           "behaviours_replayed": agg["behaviours"], "behaviours_followed_to_the_end": agg["followed"], "behaviours_drifted": agg["drifted"], "replay_steps": agg["steps"],
           "server_instances": agg["server_runs"], "departure_cut_runs": agg["cut_runs"], "behaviours_with_every_cut": len(cuts), "probing_rounds": agg["probes"],
           "graph_edges": sum(g["edges"] for g in gens), "graph_states": sum(g["states"] for g in gens), "menu_commands": nmenu,
           "random_histories": ragg["histories"] - len(scripts), "directed_multi_session_histories": len(scripts), "privilege_pattern_cases": prv.get("cases", 0), "unprivileged_sessions_tried": prv.get("unprivileged_sessions", 0), "access_denied_replies": prv.get("access_denied_replies", 0), "kicks_by_privileged_sessions": prv.get("kicks_by_privileged", 0), "random_steps": ragg["steps"], "histories_validated_by_tlc": accepted, "trace_lines_explained_by_tlc": explained, "trace_states": tstates,
           "vacuity_guards": guards,
           "evaluations": agg["behaviours"] + agg["cut_runs"] + ragg["histories"], "distinct_nontrivial": agg["followed"],
           "rule": "behaviours = path cover of EVERY transition of the TLC state graph(s) of Isolation (%s), de-duplicated by their command sequence; non-trivial = followed to the end with all monitors silent and the whole observed state equal to the specification's after every step; cut runs = one server instance per (history, byte prefix, write mode); random histories: %d steps, any session acts" % (", ".join("%s: %d edges" % (g["tag"], g["edges"]) for g in gens), ns),
           "exhaustive": True, "model_runs": mc_notes, "samples": samples[:5]}
    assumptions = ["the projection of a session = its subtree with payload what-codes and child indices, its parameters (GetParametersConst and the PR_RESULT_PARAMETERS reply minus the server's clock / memory fields), its SUBSCRIBE: parameters, its being attached; payloads are told apart by their what-code only",
                   "patterns of the menu use '*', comma lists and literals (clause matching itself is C15's, traversal C05's); query filters are what-code filters, one per subscription path (re-filtering is C04's); one spelling per subscription path (F27 is C04's); where a QUIET change made a mirror lag, that node is exempt from the mirror clause until the mirror agrees again",
                   "ban / require commands are judged by the documented PR_RESULT_ERRORACCESSDENIED reply and by the absence of any state change: sessions over socket pairs have no accept factory whose ban list could be inspected",
                   "cut runs compare the END state (intermediate states of a stream written in one piece are not observable); single-threaded server pumped with ServerProcessLoop(0)"]
    return "model_checking", cov, assumptions
