"""C01 - Message serialisation round-trips exactly and its size is exact.

 spec/WireFormat/WireAbs.tla is an independent reference codec written from the documented layout (Flatten, FlattenedSize, Unflatten, Frame,
 the documented semantics of the Add / Prepend / RemoveData / Replace / RemoveName calls); WireMC.tla builds Messages by API scripts.
 1. TLC model-checks WireMC: for every script over each field kind (13 instances: 12 kinds x 2 boundary values + the non-flattenable kinds,
    a neighbour field that is a tag or a flattenable field, item counts 0..3, every valid and the first invalid index) and over a mixed
    instance (12 kinds x 2 names): RoundTrip, SizeExact, Idempotent, NonFlatInvisible, FrameOK, TypeOK.  Each invariant is shown to be able
    to fail by a deliberately wrong variant of the codec (Bug constant), and the representation boundary is shown to be crossed (Reach_*).
 2. spec -> code: TLC dumps the state graph of every instance; a path cover of EVERY transition (state, call, arguments) is replayed by
    harness/wire.cpp through the public Message API, comparing after EVERY call FlattenedSize(), the bytes (byte for byte against the
    specification), UnflattenFromBytes, operator== (both ways, against an identically built twin), CalculateChecksum and the re-flattened
    bytes.  Deep random scripts over all kinds at once come from TLC -simulate (WireSim.tla).
 2b. histories in which serialising happens IN THE MIDDLE and Messages alias each other (WireHeap.tla, TLC -simulate): three Message objects,
    sub-Messages held by shared MessageRef (in one or several parents, or twice in one) and changed in place afterwards, item arrays shared by
    ShareName, fields left with ZERO items when the other Message removes the last item; after EVERY call EVERY object is sized, serialised,
    parsed and compared with the specification.  Whole vectors from WireVec: 31 / 32 / 33 / 64 / 200 levels of sub-Messages (one-item and
    two-item fields), zero-item fields of every kind in every position, 7-item fields, each built through API detours.  Every parse is ALSO
    made into a re-used target (the previous parse's result, a copy of the original, other / more fields, a same-named field of another type,
    the parsed Message itself; UnflattenFromBytes and UnflattenFromByteBuffer) and must equal the parse into a fresh Message.  2 and 4
    free-running threads round-trip their own disjoint vectors (thorough: also under clang++ -fsanitize=thread).
 3. code -> spec: seeded random scripts (all types, dozens of items, nesting up to 4, NaN / -0 / inf / signalling-NaN patterns, non-ASCII and
    empty strings and names, raw buffers of arbitrary type codes, tags and pointers) run on the real class with the same self-checks; every
    call is logged with the bytes the code produced and TLC validates the log line by line against WireAbs (WireTrace.tla, sharded).
"""
import concurrent.futures as cf, json, os, threading, time
import vlib, wirelib
from wirelib import q

PID = "C01"
WRONG = [("SizeNoNul", "SizeExact", "string"), ("MsgCountWord", "RoundTrip", "message"), ("TagCounted", "NonFlatInvisible", "nonflat"), ("UnflatDropsThird", "Idempotent", "string")]
_tlc_slots = threading.Semaphore(8)          # at most 8 TLC processes (one worker each) at a time


_timing = []


def tlc(*a, **kw):
    t0 = time.time()
    with _tlc_slots:
        t1 = time.time(); r = vlib.tlc(*a, **kw)
    _timing.append((a[1], round(t1 - t0, 1), round(r.wall, 1)))
    return r


def run(v, tier, seed):
    quick = (tier == "quick")
    vlib.make("plain", "wire")
    if not quick: vlib.make("asan", "wire")
    W = lambda n: vlib.scratch(PID, "%d_%s" % (os.getpid(), n))
    tag = "q%d" % os.getpid()
    made_cfgs = []

    def mkcfg(name, **kw):
        n = wirelib.cfg("gen_%s_%s.cfg" % (tag, name), **kw); made_cfgs.append(n); return n

    tot = {"states": 0, "transitions": 0, "behaviours": 0, "followed": 0, "steps": 0, "bytes": 0, "status_differs": 0, "graph_edges": 0}
    notes = {"instances": [], "model_runs": [], "guards": {}}
    samples = []; trans = {}
    lock = threading.Lock()

    def add_trans(t):
        with lock:
            for k, n in t.items(): trans[k] = trans.get(k, 0) + n

    def replay(beh_rows, name, what):
        bf = W(name + ".beh.ndjson"); rep = W(name + ".rep.ndjson")
        vlib.write_ndjson(bf, beh_rows)
        rows, summ = wirelib.run_wire(v, ["replay", bf, rep], what, 400 if quick else 2400, "replay_" + name)
        wirelib.report_rows(v, rows, what, "replay_" + name)
        if not summ.get("aborted"):
            with lock:
                for k, s in (("behaviours", "behaviours"), ("followed", "followed"), ("steps", "steps"), ("bytes", "bytes_compared"), ("status_differs", "status_differs")): tot[k] += summ[s]
            add_trans(summ["item_count_transitions"])
        for f in (bf, rep):
            if not v.violations:
                try: os.remove(f)
                except OSError: pass
        return summ

    # ---- 1 + 2: every instance: model check + dump + cover + replay
    def instance(inst, maxitems):
        name = mkcfg("Gen_" + inst, consts={"Inst": q(inst), "MaxItems": maxitems, "RECORD": q("bytes")}, invs=wirelib.MC_INVS)
        dot = W(inst + ".dot")
        r = tlc("WireMC", name, wirelib.FAM, workers=1, timeout=1800, dump=dot, heap="3g")
        vlib.require_ok(r, "WireMC instance %s" % inst)
        beh, st = wirelib.cover(dot)
        os.remove(dot)
        if st["edges_covered"] != st["graph_edges"]: raise vlib.MachineryError("path cover incomplete: %s" % st)
        summ = replay([{"id": i, "steps": s} for i, s in enumerate(beh)], inst, "replay of the TLC behaviours of instance %s" % inst)
        with lock:
            tot["states"] += r.distinct; tot["transitions"] += r.generated; tot["graph_edges"] += st["graph_edges"]
            notes["instances"].append({"instance": inst, "max_items": maxitems, "tlc_distinct": r.distinct, "tlc_generated": r.generated, "tlc_s": round(r.wall, 1), "graph_edges": st["graph_edges"],
                                       "behaviours": st["paths"], "calls": st["steps"], "followed": summ.get("followed")})
            if inst in ("string", "message"): samples.append({"kind": "behaviour replayed (instance %s)" % inst, "steps": [{k: x for k, x in s.items() if k not in ("b",)} for s in beh[len(beh) // 2][:8]]})
        return st

    def mixed():
        name = mkcfg("MC_mixed", consts={"Inst": q("mixed"), "MaxItems": 2 if quick else 3, "RECORD": q("off")}, invs=wirelib.MC_INVS)
        r = tlc("WireMC", name, wirelib.FAM, workers=1 if quick else 4, timeout=3000, heap="4g")
        vlib.require_ok(r, "WireMC mixed instance")
        with lock:
            tot["states"] += r.distinct; tot["transitions"] += r.generated
            notes["model_runs"].append({"instance": "mixed (12 kinds x 2 names)", "distinct": r.distinct, "generated": r.generated, "depth": r.depth, "wall_s": round(r.wall, 1)})

    # ---- vacuity guards
    def wrong(bug, inv, inst):
        name = mkcfg("Wrong_%s" % bug, consts={"Bug": q(bug), "Inst": q(inst), "MaxItems": 3, "RECORD": q("off")}, invs=[inv])
        r = tlc("WireMC", name, wirelib.FAM, workers=1, timeout=600, heap="2g")
        if r.error and not r.violated: raise vlib.MachineryError("Wrong_%s: %s" % (bug, r.error))
        if r.violated != inv: raise vlib.MachineryError("vacuity guard: the deliberately wrong codec variant %s does not violate %s (got %s)" % (bug, inv, r.violated))
        return True

    def reach(target):
        name = mkcfg(target, consts={"Inst": q("int16"), "MaxItems": 3, "RECORD": q("step")}, invs=[target])
        r = tlc("WireMC", name, wirelib.FAM, workers=1, timeout=600, heap="2g")
        if r.violated != target: raise vlib.MachineryError("vacuity guard: %s not reached (%s)" % (target, r.error or r.violated))
        return True

    def action_coverage():
        # coverage=True is slow on these recursive operators: a tiny instance for the action counts, the transition table of the replay for the rest
        name = mkcfg("Cov", consts={"Inst": q("bool"), "MaxItems": 1, "RECORD": q("bytes")}, invs=["TypeOK"])
        r = tlc("WireMC", name, wirelib.FAM, workers=1, timeout=900, coverage=True, heap="2g", keep_out=True)
        vlib.require_ok(r, "WireMC coverage run")
        if "DoRemoveName" not in r.coverage:      # TLC books DoRemoveName == \E s \in ... : Do(s) under the operator it expands to: "<Do line .. of module WireMC (..)>: taken:generated"
            import re
            mm = re.search(r"^<Do line \d+, col \d+ to line \d+, col \d+ of module WireMC \([\d ]+\)>: (\d+):(\d+)", r.out, re.M)
            if mm: r.coverage["DoRemoveName"] = (int(mm.group(1)), int(mm.group(2)))
        vlib.require_coverage(r, wirelib.MC_ACTIONS, "WireMC")
        return {a: r.coverage[a][0] for a in wirelib.MC_ACTIONS}

    # ---- deep random scripts from the specification
    def simulate(n, depth):
        name = mkcfg("Sim", spec="SimSpec", consts={"Inst": q("all"), "MaxItems": 6, "RECORD": q("step"), "SimDepth": depth}, invs=wirelib.MC_INVS)
        r = tlc("WireSim", name, wirelib.FAM, workers=1, timeout=3000, simulate=n, depth=depth + 3, seed=seed, heap="3g")
        vlib.require_ok(r, "WireSim")
        beh = [b for b in r.printed if isinstance(b, list) and len(b) == depth + 1]
        if len(beh) < n // 2: raise vlib.MachineryError("WireSim printed %d behaviours, expected %d" % (len(beh), n))
        summ = replay([{"id": i, "steps": s} for i, s in enumerate(beh)], "sim", "replay of the TLC -simulate behaviours")
        with lock:
            tot["transitions"] += r.generated
            notes["model_runs"].append({"instance": "WireSim all kinds, 3 names, <= 6 items", "mode": "-simulate", "behaviours": len(beh), "calls_each": depth, "states_visited": r.generated, "wall_s": round(r.wall, 1), "followed": summ.get("followed")})
            samples.append({"kind": "simulated behaviour replayed", "steps": [{k: x for k, x in s.items() if k != "b"} for s in beh[0][:6]]})

    # ---- whole vectors: deep nesting (31 .. 200 levels, inline and array path), fields with zero items, 7-item fields; each built by an API script
    def whole_vectors(parts):
        def enum(part):
            name = mkcfg("Vec_" + part, consts={"Part": q(part)}, invs=["VecOK", "Emit"])
            r = tlc("WireVec", name, wirelib.FAM, workers=1, timeout=1800, heap="3g")
            vlib.require_ok(r, "WireVec part %s" % part)
            if len(r.printed) != r.distinct or r.distinct == 0: raise vlib.MachineryError("WireVec %s: %d vectors printed for %d states" % (part, len(r.printed), r.distinct))
            with lock:
                tot["states"] += r.distinct; tot["transitions"] += r.generated
                notes["model_runs"].append({"instance": "WireVec part %s" % part, "vectors": r.distinct, "wall_s": round(r.wall, 1)})
            return r.printed
        with cf.ThreadPoolExecutor(max_workers=len(parts)) as ex2: vec = [x for lst in ex2.map(enum, parts) for x in lst]
        for i, x in enumerate(vec): x["id"] = i
        vf = W("vec.ndjson"); rep = W("vec.rep.ndjson")
        vlib.write_ndjson(vf, vec)
        rows, summ = wirelib.run_wire(v, ["vec01", vf, rep], "whole vectors (deep nesting, zero-item fields)", 400 if quick else 2400, "vec01")
        wirelib.report_rows(v, rows, "vector enumerated by TLC (deep nesting / zero-item fields / long fields)", "vec01")
        if not summ.get("aborted"):
            with lock: heapnotes["whole_vectors"] = {"vectors": summ["vectors"], "agreed": summ["agreed"], "bytes_compared": summ["bytes_compared"], "zero_item": sum(1 for x in vec if x["zero"])}
        # the codec is re-entrant across independent objects: free-running threads, each round-tripping its own disjoint vectors
        mt = {"runs": []}
        for nt in (2, 4):
            rep2 = W("mt%d.rep.ndjson" % nt)
            rows, summ = wirelib.run_wire(v, ["mt", vf, nt, 1500 if quick else int(15000 * max(scale, 0.1)), rep2], "%d threads round-tripping their own Messages" % nt, 400, "mt%d" % nt)
            wirelib.report_rows(v, rows, "concurrent round trips of independent Messages (%d threads)" % nt, "mt%d" % nt)
            if not summ.get("aborted"): mt["runs"].append({"threads": nt, "vectors": summ["vectors"], "round_trips": summ["round_trips"], "mismatches": summ["mismatches"]})
            if not v.violations: os.remove(rep2)
        if not quick:
            exe, why = wirelib.build_tsan()
            if exe is None: mt["thread_sanitizer"] = {"skipped": why}
            else:
                rep3 = W("tsan.rep.ndjson")
                rc, out, err = vlib.run([exe, "mt", vf, "4", str(int(20000 * max(scale, 0.1))), rep3], timeout=1200, env={"TSAN_OPTIONS": "halt_on_error=1:exitcode=66:report_signal_unsafe=0"})
                rows = vlib.read_ndjson(rep3) if os.path.exists(rep3) else []
                if rc != 0: vlib.harness_failed(v, rc, out, err, "4 threads round-tripping their own Messages under ThreadSanitizer", "tsan")
                else:
                    wirelib.report_rows(v, rows, "concurrent round trips under ThreadSanitizer", "tsan")
                    mt["thread_sanitizer"] = {"round_trips": [r for r in rows if r.get("summary")][0]["round_trips"], "reports": 0}
                    if not v.violations: os.remove(rep3)
        with lock: heapnotes["concurrent_round_trips"] = mt
        if not v.violations:
            os.remove(vf); os.remove(rep)

    # ---- aliasing histories: shared sub-Messages changed in place, ShareName'd item arrays, serialising after EVERY call (WireHeap)
    heapnotes = {"behaviours": 0, "followed": 0, "calls": 0, "object_checks": 0, "zero_item_fields_serialised": 0, "calls_on_an_object_other_messages_may_refer_to": 0, "sharenames": 0, "status_differs": 0}

    def heap(inst, n, depth):
        name = mkcfg("Heap_" + inst, consts={"Inst": q(inst), "NObj": 3, "MaxItems": 3, "MaxRefs": 3, "SimDepth": depth}, invs=["HeapOK", "Acyclic"])
        r = tlc("WireHeap", name, wirelib.FAM, workers=1, timeout=3000, simulate=n, depth=depth + 3, seed=seed, heap="3g")
        vlib.require_ok(r, "WireHeap %s" % inst)
        beh = [b for b in r.printed if isinstance(b, list) and len(b) == depth + 1]
        if len(beh) < n // 2: raise vlib.MachineryError("WireHeap printed %d behaviours, expected %d" % (len(beh), n))
        bf = W("heap_%s.beh.ndjson" % inst); rep = W("heap_%s.rep.ndjson" % inst)
        vlib.write_ndjson(bf, [{"id": i, "steps": s} for i, s in enumerate(beh)])
        rows, summ = wirelib.run_wire(v, ["heap", bf, rep], "aliasing histories (%s)" % inst, 400 if quick else 2400, "heap_" + inst)
        wirelib.report_rows(v, rows, "aliasing history (shared sub-Messages / ShareName, every object serialised after every call)", "heap_" + inst)
        if not summ.get("aborted"):
            with lock:
                tot["transitions"] += r.generated; tot["behaviours"] += summ["behaviours"]; tot["followed"] += summ["followed"]; tot["steps"] += summ["steps"]; tot["status_differs"] += summ["status_differs"]
                for k2, k3 in (("behaviours", "behaviours"), ("followed", "followed"), ("calls", "steps"), ("object_checks", "object_checks"), ("zero_item_fields_serialised", "zero_item_fields_serialised"),
                               ("calls_on_an_object_other_messages_may_refer_to", "calls_on_an_object_other_messages_may_refer_to"), ("sharenames", "sharenames"), ("status_differs", "status_differs")): heapnotes[k2] += summ[k3]
                if inst == "string": samples.append({"kind": "aliasing history replayed", "steps": [{k2: x for k2, x in s.items() if k2 not in ("bs",)} for s in beh[0][:7]]})
        if not v.violations:
            os.remove(bf); os.remove(rep)

    def heap_reach(target):
        name = mkcfg(target, consts={"Inst": q("int16"), "NObj": 3, "MaxItems": 3, "MaxRefs": 3, "SimDepth": 40}, invs=[target])
        r = tlc("WireHeap", name, wirelib.FAM, workers=1, timeout=900, simulate=2000, depth=43, seed=seed, heap="2g")
        if r.violated != target: raise vlib.MachineryError("vacuity guard: %s not reached by WireHeap (%s)" % (target, r.error or r.violated))
        return True

    # ---- 3: code -> spec
    gen = {"messages": 0, "calls": 0, "lines_validated": 0, "accepted_shards": 0, "shards": 0, "status_differs": 0, "bytes": 0, "max_message_bytes": 0, "max_items": 0, "tlc_s": 0.0, "distinct": 0}

    def generate(k, nmsgs, nsteps, variant="plain"):
        tr = W("gen%d.trace.ndjson" % k); rep = W("gen%d.rep.ndjson" % k)
        rows, summ = wirelib.run_wire(v, ["gen", seed * 100 + k, nmsgs, nsteps, tr, rep], "random scripts (shard %d)" % k, 400 if quick else 2400, "gen%d" % k, variant)
        wirelib.report_rows(v, rows, "random API script on the real Message", "gen%d" % k)
        if summ.get("aborted"): return
        add_trans(summ["item_count_transitions"])
        res = wirelib.validate_trace_slot(_tlc_slots, tr, "%s_g%d" % (tag, k), timeout=1500 if quick else 3000)
        with lock:
            gen["messages"] += summ["messages"]; gen["calls"] += summ["steps"]; gen["bytes"] += summ["bytes"]; gen["distinct"] += summ["distinct_encodings"]
            gen["max_message_bytes"] = max(gen["max_message_bytes"], summ["max_message_bytes"]); gen["max_items"] = max(gen["max_items"], summ["max_items_in_a_field"])
            gen["shards"] += 1; gen["tlc_s"] = max(gen["tlc_s"], res["wall"]); gen["status_differs"] += res["status_differs"]
            gen["lines_validated"] += res["lines"] if res["accepted"] else res["first_rejected"] - 1
        if res["accepted"]:
            with lock: gen["accepted_shards"] += 1
            if k == 0:
                with lock: samples.append({"kind": "recorded call validated by TLC", "line": {kk: x for kk, x in json.loads(open(tr).readlines()[7]).items() if kk != "b"}})
            os.remove(tr); os.remove(rep)
        else:
            ln = res["first_rejected"]; lines = open(tr).read().splitlines()
            keep = os.path.join(vlib.OUT, PID, "rejected-trace-%s-%d.ndjson" % (tier, k))
            start = max(i for i in range(ln) if lines[i].startswith('{"op":"New"'))
            with open(keep, "w") as f: f.write("\n".join(lines[start:ln]) + "\n")
            d = res["detail"] or {}
            v.violation("the bytes the real Message produced after call %d of a recorded script are not what the documented layout gives (line %d of %s; op %s; specification %s bytes, code %s bytes)" %
                        (ln - start - 1, ln, keep, d.get("op"), d.get("spec_z"), d.get("code_z")), {"trace": keep, "line": ln, "tlc": {kk: x for kk, x in d.items() if kk not in ("spec_b", "code_b")},
                         "spec_b": d.get("spec_b"), "code_b": d.get("code_b")}, tag="trace%d" % k)

    # the binding itself must notice one corrupted byte, in both directions
    def selftest():
        ok = {}
        # a behaviour with one expected byte changed must be reported by the harness
        name = mkcfg("Self", consts={"Inst": q("int8"), "MaxItems": 1, "RECORD": q("bytes")}, invs=["TypeOK"])
        dot = W("self.dot")
        r = tlc("WireMC", name, wirelib.FAM, workers=1, timeout=600, dump=dot, heap="2g")
        vlib.require_ok(r, "selftest graph")
        beh, st = wirelib.cover(dot); os.remove(dot)
        b = [json.loads(json.dumps(s)) for s in beh[len(beh) // 2]]
        b[-1]["b"][-1] ^= 1
        bf = W("self.beh.ndjson"); rep = W("self.rep.ndjson")
        vlib.write_ndjson(bf, [{"id": 0, "steps": b}])
        rc, out, err = vlib.run([vlib.binpath("plain", "wire"), "replay", bf, rep], timeout=120, env=wirelib.harness_env())
        rows = vlib.read_ndjson(rep) if os.path.exists(rep) else []
        ok["corrupted_behaviour_step_reported"] = any(x.get("violations") for x in rows)
        # a recorded line with one byte changed must be rejected by TLC, at that line
        tr = W("self.trace.ndjson"); rep2 = W("self2.rep.ndjson")
        rc, out, err = vlib.run([vlib.binpath("plain", "wire"), "gen", str(seed), "2", "12", tr, rep2], timeout=120, env=wirelib.harness_env())
        lines = open(tr).read().splitlines()
        k = 17; ln = json.loads(lines[k]); ln["b"][len(ln["b"]) // 2] ^= 4; lines[k] = json.dumps(ln, separators=(",", ":"))
        open(tr, "w").write("\n".join(lines) + "\n")
        res = wirelib.validate_trace_slot(_tlc_slots, tr, "%s_self" % tag, timeout=600)
        ok["corrupted_recorded_byte_rejected_at_its_line"] = (not res["accepted"]) and res["first_rejected"] == k + 1
        for f in (bf, rep, tr, rep2):
            try: os.remove(f)
            except OSError: pass
        if not all(ok.values()): raise vlib.MachineryError("self-test of the binding failed: %s" % ok)
        return ok

    maxitems = 3 if quick else 4
    t_start = time.time()
    try:
        with cf.ThreadPoolExecutor(max_workers=12) as ex:
            f_inst = [ex.submit(instance, i, maxitems) for i in wirelib.GEN_INSTANCES]
            scale = float(os.environ.get("VERIF_SCALE", "1"))           # < 1: a reduced thorough run
            f_misc = [ex.submit(mixed), ex.submit(simulate, 150 if quick else max(200, int(6000 * scale)), 24 if quick else 40)]
            f_misc += [ex.submit(whole_vectors, ["deep", "zero", "long", "all"])]
            f_misc += [ex.submit(heap, i, 120 if quick else max(200, int(4000 * scale)), 30 if quick else 45) for i in ("int16", "string", "raw")]
            f_misc += [ex.submit(heap_reach, t) for t in ("Reach_ZeroItemField", "Reach_SharedChildChanged")]
            f_wrong = [ex.submit(wrong, *w) for w in WRONG]
            f_reach = [ex.submit(reach, t) for t in ("Reach_ThreeItems", "Reach_BackToOne")]
            f_cov = ex.submit(action_coverage)
            f_self = ex.submit(selftest)
            nsh, nmsgs, nsteps = (4, 30, 60) if quick else (16, max(20, int(400 * scale)), 120)
            f_gen = [ex.submit(generate, k, nmsgs, nsteps) for k in range(nsh)]
            if not quick: f_gen.append(ex.submit(generate, 99, max(20, int(150 * scale)), 120, "asan"))
            # a machinery failure (a guard, a stage that cannot run) must not mask a violation already found on the real code: with a mutated
            # codec the self-test and the later stages can fail in their own ways
            errors = []
            for f in f_inst + f_misc + f_wrong + f_reach + f_gen:
                try: f.result()
                except Exception as ex: errors.append(ex)
            for key, f in (("actions_taken_in_the_coverage_run", f_cov), ("selftest", f_self)):
                try: notes["guards"][key] = f.result()
                except Exception as ex: errors.append(ex)
            if errors:
                if not v.violations: raise errors[0]
                vlib.log("note: %d machinery failures after a violation was found are not reported (first: %s)" % (len(errors), str(errors[0])[:300]))
    finally:
        for n in made_cfgs:
            try: os.remove(os.path.join(wirelib.SPECDIR, n))
            except OSError: pass
    if os.environ.get("VERIF_TIMING"): vlib.log("timing (cfg, waited for a slot, tlc wall): %s total %.1f" % (sorted(_timing, key=lambda x: -x[2])[:12], time.time() - t_start))
    notes["guards"]["wrong_codec_variants_violate"] = {b: i for b, i, _ in WRONG}
    notes["guards"]["reached"] = ["Reach_ThreeItems", "Reach_BackToOne"]
    # vacuity: the replayed calls crossed the representation boundary in both directions, for real
    need = ["0>1", "1>2", "2>1", "1>0", "2>3", "3>2"]
    if not v.violations and any(trans.get(k, 0) == 0 for k in need): raise vlib.MachineryError("vacuity guard: item-count transitions never exercised: %s (%s)" % ([k for k in need if not trans.get(k)], trans))
    if tot["followed"] == 0 and not v.violations: raise vlib.MachineryError("no behaviour could be followed")
    if not v.violations and min(heapnotes["zero_item_fields_serialised"], heapnotes["calls_on_an_object_other_messages_may_refer_to"], heapnotes["sharenames"]) == 0:
        raise vlib.MachineryError("vacuity guard: the aliasing histories never serialised a zero-item field / changed an object behind a reference / shared a field: %s" % heapnotes)
    notes["guards"]["reached"] += ["Reach_ZeroItemField", "Reach_SharedChildChanged"]
    if tot["status_differs"] or gen["status_differs"]:
        v.drift += 1
        vlib.log("DRIFT property=C01 %d replayed and %d recorded calls report another status than the documented one while every byte agrees" % (tot["status_differs"], gen["status_differs"]))
    notes["instances"].sort(key=lambda x: x["instance"])
    cov = {"states": tot["states"], "transitions": tot["transitions"],
           "traces_validated_against_impl": tot["followed"] + (gen["messages"] if gen["accepted_shards"] == gen["shards"] else 0),
           "behaviours_replayed": tot["behaviours"], "behaviours_followed_to_the_end": tot["followed"], "calls_replayed": tot["steps"], "bytes_compared_with_the_specification": tot["bytes"],
           "state_graph_transitions_covered": tot["graph_edges"],
           "random_scripts": gen["messages"], "random_calls": gen["calls"], "recorded_lines_validated_by_tlc": gen["lines_validated"], "recorded_bytes": gen["bytes"],
           "largest_recorded_message_bytes": gen["max_message_bytes"], "most_items_in_a_field": gen["max_items"], "tlc_validation_wall_s": round(gen["tlc_s"], 1),
           "item_count_transitions_exercised": dict(sorted(trans.items())),
           "aliasing_histories": heapnotes,
           "evaluations": tot["steps"] + gen["calls"], "distinct_nontrivial": tot["graph_edges"] + gen["distinct"],
           "rule": "replayed behaviours = path cover of EVERY transition (state, call, arguments) of the TLC state graphs of the %d WireMC instances (distinct by construction: one per transition; non-trivial = "
                   "followed to the end with every byte equal to the specification's) + TLC -simulate behaviours; random scripts: seeded, %d calls each, counted as distinct serialised encodings per shard" % (len(wirelib.GEN_INSTANCES), nsteps),
           "exhaustive": True, "instances": notes["instances"], "model_runs": notes["model_runs"], "guards": notes["guards"], "samples": samples[:5]}
    assumptions = ["little-endian host (the harness hands bit patterns to the typed API with memcpy)",
                   "strings and field names are C strings (no NUL byte inside); an empty raw buffer can only be added as a ByteBuffer object of type B_RAW_TYPE (AddData() refuses zero bytes)",
                   "operator== is compared against an identically built twin Message, because a Message short-cuts comparison with itself and a Message holding a NaN is not == to an identical one",
                   "the status a call reports is compared with the documented one but a difference alone is drift, not a violation of C01 (the bytes decide)",
                   "WireAbs.Unflatten is a strict parser; only Unflatten(Flatten(m)) is bound to the code here (hostile input is C02)"]
    return "model_checking", cov, assumptions
