"""C08 - all Message implementations agree on one wire format, byte for byte.

 spec/WireFormat/WireAbs.tla is the independent reference codec (written from the documented layout only), so a change that alters both
 the C++ writer and the C++ reader still disagrees with it.  Programs compared: muscle::Message (C++), the mini codec (MiniMessage.c), the
 micro codec (MicroMessage.c), message.py; MessageIOGateway, MiniMessageGateway.c, MicroMessageGateway.c, message_transceiver_thread.py.
 1. spec -> code: TLC enumerates the vectors of the common repertoire (WireVec.tla: every kind x 1..3 items, every ordered pair of fields
    in both orders, nesting 1..3 and 31 / 32 / 33 / 64 / 200, sub-Message arrays, odd names, fields with ZERO items of every kind) with their bytes and with Common(python / pynative, m); harness/wire.cpp
    builds each one through the C++ API - by a script that leaves the content but is NOT append-only for 5 of 6 variants (WireAbs.DetourOf:
    prepend onto the rest, first in first out, overwrite by Replace, shrink to one item and regrow; the item arrays get rotated, wrapped and
    regrown) - (bytes = specification bytes of the content), has the same bytes parsed and re-serialised by the mini codec, the
    micro codec (reader -> writer) and message.py, has each of them build the same content natively (MMPut* / UMAdd* / Put*), and has C++
    accept what they produce.  The C codecs are two separate helper programs (they define the same symbols), Python one long-lived process.
 2. code -> spec: seeded random contents (dozens of items, nesting <= 3, NaN patterns, non-UTF-8 strings, arbitrary raw type codes) go
    through every implementation; content, C++ bytes and the outcome per implementation are logged and TLC validates each line
    (WireTrace.tla): bytes = Flatten(content), and agreement wherever Common(impl, content) - the repertoire is the specification's decision.
 2b. native detours: each other implementation builds the content once more through ITS OWN mutating API; live message.py objects go through the
    aliasing histories of WireHeap.tla (size and bytes after every call); the Python transceiver also ORIGINATES frames of a status Message it
    keeps, changes through a sub-Message reference and resends; frame body sizes sweep 2030..2060, the mini gateway's 2 x (body + 8) growth and
    64 KiB shrink, with every gateway as sender and as receiver; Messages of 2 / 8 (/ 12) MB, which do not fit one send(), are echoed by the Python
    transceiver to a peer that reads in small pieces with pauses.  Non-flattenable fields (C++ AddPointer / AddTag, mini MMPutPointerField) are part
    of the vectors, next to ordinary fields and inside sub-Messages, through put / rename / move / copy / MMCloneMessage: they must leave no trace.
 3. frames: batches of Messages through MessageIOGateway / MGDoOutput / UGDoOutput into in-memory pipes with random slicing, each stream
    read back by the others; TLC validates stream = FrameStream(bytes).  Python transceiver thread: echo session over loopback TCP.
"""
import concurrent.futures as cf, json, os, subprocess, threading, time
import vlib, wirelib
from wirelib import q

PID = "C08"
_tlc_slots = threading.Semaphore(8)
KEYS = ["mini_u", "mini_b", "micro_u", "micro_b", "py_u", "py_b"]
KNOWN_TEXT = {"F38": "the micro reader cannot read a zero-length raw item that is the last item of its field",
              "F39": "message.py writes a wrong length for a sub-Message that has a non-ASCII field name",
              "F45mini": "mini codec, Message with a zero-item field: MMUnflattenMessage refuses the C++ bytes / MMPut*Field(.., 0) returns NULL",
              "F45micro": "micro writer, Message with a zero-item raw field: re-serialisation / native construction lose exactly that field (no call writes a raw field with zero items)"}


def run(v, tier, seed):
    quick = (tier == "quick")
    vlib.make("plain", "wire")
    helpers = wirelib.build_helpers("plain")
    tolerate = [f for f in ("F38", "F39", "F45mini", "F45micro") if v.is_listed(f)]          # open known findings about the other implementations
    tol = ",".join(tolerate) if tolerate else "-"
    W = lambda n: vlib.scratch(PID, "%d_%s" % (os.getpid(), n))
    tag = "q%d" % os.getpid()
    made_cfgs = []; lock = threading.Lock()
    hargs = [helpers["wire_mini"], helpers["wire_micro"], "python3", helpers["wire_py"]]
    tot = {"vectors": 0, "comparisons": 0, "frames": 0, "tlc_lines": 0, "distinct": 0, "states": 0, "asked": [0] * 6, "outside": [0] * 6, "pyok": 0, "pynative": 0, "restarts": 0}
    samples = []; notes = {"tlc": [], "random": {}, "python_transceiver": None}

    def mkcfg(name, **kw):
        n = wirelib.cfg("gen_%s_%s.cfg" % (tag, name), **kw); made_cfgs.append(n); return n

    def known(fid, text):
        if not v.known_finding(fid, text): v.violation("finding %s is not listed as open but reproduces: %s" % (fid, text), {"finding": fid}, tag="known_" + fid)

    def validate(tr, name, what):
        """TLC validates a recorded trace; a rejected line is a violation (the line is the replay)"""
        res = wirelib.validate_trace_slot(_tlc_slots, tr, "%s_%s" % (tag, name), deviations=tolerate, timeout=1500 if quick else 3000)
        with lock:
            tot["tlc_lines"] += res["lines"] if res["accepted"] else res["first_rejected"] - 1
            tot["pyok"] += res["pyok"]; tot["pynative"] += res["pynative"]
            notes["tlc"].append({"trace": name, "lines": res["lines"], "accepted": res["accepted"], "wall_s": round(res["wall"], 1)})
        for fid in ("F38", "F39", "F45mini", "F45micro"):
            if res[fid]: known(fid, "%s (%d recorded lines)" % (KNOWN_TEXT[fid], res[fid]))
        if not res["accepted"]:
            ln = res["first_rejected"]; line = open(tr).read().splitlines()[ln - 1]
            keep = os.path.join(vlib.OUT, PID, "rejected-line-%s-%s.json" % (tier, name))
            with open(keep, "w") as f: f.write(line + "\n")
            d = res["detail"] or {}
            try: rec = json.loads(line)
            except ValueError: rec = {}
            why = "bytes differ from the documented layout" if d.get("spec_b") is not None and d.get("spec_b") != d.get("code_b") else \
                  ("stream differs from the documented frames" if d.get("spec_stream") is not None and d.get("spec_stream") != d.get("code_stream") else "an implementation inside the common repertoire disagrees: %s" % (d.get("outcome"),))
            v.violation("%s: line %d (%s) is not explained by the specification: %s; notes %s" % (what, ln, rec.get("op"), why, str(rec.get("notes"))[:600]),
                        {"line_file": keep, "line": ln, "tlc": {k: x for k, x in d.items() if k not in ("spec_b", "code_b", "spec_stream", "code_stream")}, "spec_b": d.get("spec_b"), "code_b": d.get("code_b")}, tag="trace_" + name)
        return res

    # ---- 1: vectors enumerated by TLC
    def vectors(parts):
        def enum(part):
            name = mkcfg("Vec_" + part, consts={"Part": q(part)}, invs=["VecOK", "Emit"])
            with _tlc_slots: r = vlib.tlc("WireVec", name, wirelib.FAM, workers=1, timeout=1800, heap="3g")
            vlib.require_ok(r, "WireVec part %s" % part)
            if len(r.printed) != r.distinct or r.distinct == 0: raise vlib.MachineryError("WireVec %s: %d vectors printed for %d states" % (part, len(r.printed), r.distinct))
            with lock:
                tot["states"] += r.distinct
                notes["tlc"].append({"enumeration": part, "vectors": r.distinct, "wall_s": round(r.wall, 1)})
            return r.printed
        with cf.ThreadPoolExecutor(max_workers=len(parts)) as ex2: vec = [x for lst in ex2.map(enum, parts) for x in lst]
        for i, x in enumerate(vec): x["id"] = i
        vf = W("vec.ndjson"); tr = W("vec.trace.ndjson"); rep = W("vec.rep.ndjson")
        vlib.write_ndjson(vf, vec)
        rows, summ = wirelib.run_wire(v, ["x08vec", vf, tr, rep] + hargs + [tol], "TLC vectors through all implementations", 400 if quick else 2400, "vec")
        wirelib.report_rows(v, [r for r in rows if not r.get("known")], "vector enumerated by TLC", "vec")
        for r in rows:
            if r.get("known"): known(r["known"], "%s (%d vectors)" % (r["text"], r["times"]))
        if summ.get("aborted"): return
        with lock:
            tot["vectors"] += summ["vectors"]; tot["comparisons"] += summ["comparisons"]; tot["frames"] += summ["frame_batches"]; tot["distinct"] += summ["distinct_encodings"]; tot["restarts"] += summ["helper_restarts"]
            tot["detour"] = tot.get("detour", 0) + summ["built_by_a_detour"]
            for k in range(6): tot["asked"][k] += summ["asked"][k]; tot["outside"][k] += summ["outside_repertoire"][k]
            samples.append({"kind": "vector enumerated by TLC", "vector": vec[len(vec) // 3]})
            samples.append({"kind": "vector outside the repertoire of message.py", "vector": next((x for x in vec if not x["py"]), None)})
        if not v.violations: validate(tr, "vecframes", "gateway frames of the TLC vectors")
        for f in (vf, tr, rep):
            if not v.violations:
                try: os.remove(f)
                except OSError: pass

    # ---- 2: random contents, judged by TLC
    rnd = {"vectors": 0, "agree": {k: 0 for k in KEYS}, "differ_or_refused": {k: 0 for k in KEYS}, "bytes": 0}

    def random_vectors(k, n, variant="plain"):
        tr = W("gen%d.trace.ndjson" % k); rep = W("gen%d.rep.ndjson" % k)
        ha = hargs
        if variant == "asan":       # the C++ harness and both C codecs under ASan + UBSan: a report ends the helper, which is recorded as a disagreement
            vlib.make("asan", "wire"); h2 = wirelib.build_helpers("asan"); ha = [h2["wire_mini"], h2["wire_micro"], "python3", h2["wire_py"]]
        rows, summ = wirelib.run_wire(v, ["x08gen", seed * 100 + k, n, tr, rep] + ha, "random contents through all implementations (shard %d, %s build)" % (k, variant), 400 if quick else 2400, "gen%d" % k, variant)
        wirelib.report_rows(v, rows, "random content", "gen%d" % k)
        if summ.get("aborted"): return
        with lock:
            tot["vectors"] += summ["vectors"]; tot["comparisons"] += summ["comparisons"]; tot["frames"] += summ["frame_batches"]; tot["distinct"] += summ["distinct_encodings"]; tot["restarts"] += summ["helper_restarts"]
            rnd["vectors"] += summ["vectors"]; rnd["bytes"] += summ["bytes"]
            for kk in KEYS: rnd["agree"][kk] += summ["agree"][kk]; rnd["differ_or_refused"][kk] += summ["differ_or_refused"][kk]
        res = validate(tr, "gen%d" % k, "random contents (shard %d)" % k)
        if res["accepted"]:
            if k == 0:
                ln = json.loads(open(tr).readline())
                with lock: samples.append({"kind": "recorded line validated by TLC", "line": {kk: x for kk, x in ln.items() if kk != "b"}})
            os.remove(tr); os.remove(rep)

    # ---- 3a: frame body sizes across the receivers' internal thresholds, every gateway as sender and as receiver
    def sizes():
        tr = W("sizes.trace.ndjson"); rep = W("sizes.rep.ndjson")
        rows, summ = wirelib.run_wire(v, ["x08sizes", seed, tr, rep] + hargs, "frame size sweep", 400, "sizes")
        wirelib.report_rows(v, rows, "frames whose body size crosses a receiver's buffer threshold (2030..2060, 2 x (body + 8), 64 KiB)", "sizes")
        if summ.get("aborted"): return
        with lock:
            tot["comparisons"] += summ["comparisons"]; tot["frames"] += summ["sessions"]
            notes["frame_size_sweep"] = {"sessions": summ["sessions"], "messages": summ["messages"], "bytes": summ["bytes"]}
        if not v.violations:
            validate(tr, "sizes", "frame size sweep")
            os.remove(tr); os.remove(rep)

    # ---- 3b: aliasing histories on LIVE message.py objects (WireHeap): size and bytes after every call
    def pyheap(inst, n, depth):
        name = mkcfg("Heap_" + inst, consts={"Inst": q(inst), "NObj": 3, "MaxItems": 3, "MaxRefs": 3, "SimDepth": depth}, invs=["HeapOK", "Acyclic"])
        with _tlc_slots: r = vlib.tlc("WireHeap", name, wirelib.FAM, workers=1, timeout=3000, simulate=n, depth=depth + 3, seed=seed, heap="3g")
        vlib.require_ok(r, "WireHeap %s" % inst)
        beh = [b for b in r.printed if isinstance(b, list) and len(b) == depth + 1]
        if len(beh) < n // 2: raise vlib.MachineryError("WireHeap printed %d behaviours, expected %d" % (len(beh), n))
        bf = W("pyheap_%s.beh.ndjson" % inst); rep = W("pyheap_%s.rep.ndjson" % inst)
        vlib.write_ndjson(bf, [{"id": i, "steps": st} for i, st in enumerate(beh)])
        rows, summ = wirelib.run_wire(v, ["x08heap", bf, rep, "python3", helpers["wire_py"]], "aliasing histories on live message.py objects (%s)" % inst, 400 if quick else 2400, "pyheap_" + inst)
        wirelib.report_rows(v, rows, "history on live message.py objects (sub-Messages changed through aliases, lists changed in place; size and bytes after every call)", "pyheap_" + inst)
        if summ.get("aborted"): return
        with lock:
            tot["comparisons"] += summ["object_checks"]
            ph = notes.setdefault("python_live_object_histories", {"behaviours": 0, "followed": 0, "calls": 0, "object_checks": 0})
            ph["behaviours"] += summ["behaviours"]; ph["followed"] += summ["followed"]; ph["calls"] += summ["steps"]; ph["object_checks"] += summ["object_checks"]
        if not v.violations:
            os.remove(bf); os.remove(rep)

    # ---- 3: the Python transceiver thread, over loopback TCP
    def pyecho(n):
        def attempt(k):
            p = subprocess.Popen(["python3", "-u", helpers["wire_py"], "echo", os.path.join(vlib.REPO, "lang", "python3")], stdin=subprocess.PIPE, stdout=subprocess.PIPE, stderr=subprocess.DEVNULL, text=True)
            try:
                first = p.stdout.readline().strip()
                if not first.startswith("PORT "): return None, {"skipped": first or "the Python side did not start"}, None, None
                tr = W("echo%d.trace.ndjson" % k); rep = W("echo%d.rep.ndjson" % k)
                rows, summ = wirelib.run_wire(v, ["pyecho", first.split()[1], seed, n, tr, rep, tol, 2 if quick else 3], "echo through the Python transceiver thread", 900, "pyecho")
                return rows, summ, tr, rep
            finally:
                try: p.stdin.close(); p.wait(timeout=20)
                except Exception: p.kill()
        rows, summ, tr, rep = attempt(0)
        # the only time-dependent leg: a Message that is late (not one that comes back different) is tried once more before it is reported
        if rows is not None and any("is not echoed" in x for r in rows for x in r.get("violations", [])) and not any("other bytes" in x for r in rows for x in r.get("violations", [])):
            vlib.log("note: the echo session over loopback TCP did not complete in time; trying once more")
            rows, summ, tr, rep = attempt(1)
        if summ.get("skipped"):
            notes["python_transceiver"] = {"skipped": summ["skipped"]}; return
        wirelib.report_rows(v, rows, "echo through message_transceiver_thread.py", "pyecho")
        if summ.get("aborted"): return
        with lock:
            tot["comparisons"] += summ["sent"]
            notes["python_transceiver"] = {"sent": summ["sent"], "echoed_identically": summ["echoed_identically"], "bytes": summ["bytes"], "resent_status_frames_identical": summ["resent_status_frames_identical"], "frames_of_several_MB_identical": "%d of %d" % (summ["big_frames_identical"], summ["big_frames_sent"])}
        if not v.violations:
            validate(tr, "echo", "echo through the Python transceiver thread")
            os.remove(tr); os.remove(rep)
        # the same session with the roles at the socket level exchanged: the Python transceiver CONNECTS to the C++ side (its connecting socket is non-blocking, so the
        # first send() of a frame of several MB is partial)
        if not v.violations:
            tr2 = W("echoc.trace.ndjson"); rep2 = W("echoc.rep.ndjson")
            rows, summ = wirelib.run_wire(v, ["pyecho", "listen", seed + 1, max(10, n // 3), tr2, rep2, tol, 2 if quick else 3, "python3", helpers["wire_py"]], "echo session, Python transceiver connecting", 900, "pyechoc")
            if summ.get("skipped"): notes["python_transceiver"]["connecting"] = {"skipped": summ["skipped"]}
            else:
                wirelib.report_rows(v, rows, "echo through message_transceiver_thread.py (connecting side)", "pyechoc")
                if not summ.get("aborted"):
                    with lock:
                        tot["comparisons"] += summ["sent"]
                        notes["python_transceiver"]["connecting"] = {"sent": summ["sent"], "echoed_identically": summ["echoed_identically"], "frames_of_several_MB_identical": "%d of %d" % (summ["big_frames_identical"], summ["big_frames_sent"])}
                if not v.violations:
                    validate(tr2, "echoc", "echo session, Python transceiver connecting")
                    os.remove(tr2); os.remove(rep2)

    # the binding must notice a single disagreement / a single wrong byte in a recorded line
    def selftest():
        tr = W("self.trace.ndjson"); rep = W("self.rep.ndjson")
        rc, out, err = vlib.run([vlib.binpath("plain", "wire"), "x08gen", str(seed), "12", tr, rep] + hargs, timeout=200, env=wirelib.harness_env())
        if rc != 0: raise vlib.MachineryError("selftest: x08gen failed: %s" % err[-800:])
        lines = open(tr).read().splitlines()
        ok = {}
        for name, mut in (("flag", lambda ln: ln["o"].__setitem__("mini_u", 0)), ("byte", lambda ln: ln["b"].__setitem__(len(ln["b"]) - 1, ln["b"][-1] ^ 1))):
            k = max(i for i, l in enumerate(lines) if l.startswith('{"op":"Vec"'))
            cp = list(lines); ln = json.loads(cp[k]); mut(ln); cp[k] = json.dumps(ln, separators=(",", ":"))
            t2 = W("self_%s.trace.ndjson" % name); open(t2, "w").write("\n".join(cp) + "\n")
            res = wirelib.validate_trace_slot(_tlc_slots, t2, "%s_self%s" % (tag, name), deviations=tolerate, timeout=600)
            ok["corrupted_%s_rejected_at_its_line" % name] = (not res["accepted"]) and res["first_rejected"] == k + 1
            os.remove(t2)
        os.remove(tr); os.remove(rep)
        if not all(ok.values()): raise vlib.MachineryError("self-test of the binding failed: %s" % ok)
        return ok

    try:
        with cf.ThreadPoolExecutor(max_workers=12) as ex:
            fs = [ex.submit(vectors, ["all", "zero", "deep", "nonflat"] if quick else ["all", "zero", "deep", "nonflat", "triples"])]
            scale = float(os.environ.get("VERIF_SCALE", "1"))           # < 1: a reduced thorough run
            nsh, per = (4, 700) if quick else (8, max(200, int(40000 * scale)))
            fs += [ex.submit(random_vectors, k, per) for k in range(nsh)]
            if not quick: fs.append(ex.submit(random_vectors, 99, max(200, int(8000 * scale)), "asan"))
            fs.append(ex.submit(pyecho, 60 if quick else max(100, int(2000 * scale))))
            fs.append(ex.submit(sizes))
            fs += [ex.submit(pyheap, i, 100 if quick else max(200, int(3000 * scale)), 30 if quick else 45) for i in ("int16", "string", "raw")]
            f_self = ex.submit(selftest)
            errors = []          # a machinery failure must not mask a violation already found on the real code
            for f in fs:
                try: f.result()
                except Exception as ex: errors.append(ex)
            try: notes["selftest"] = f_self.result()
            except Exception as ex: errors.append(ex)
            if errors:
                if not v.violations: raise errors[0]
                vlib.log("note: %d machinery failures after a violation was found are not reported (first: %s)" % (len(errors), str(errors[0])[:300]))
    finally:
        for n in made_cfgs:
            try: os.remove(os.path.join(wirelib.SPECDIR, n))
            except OSError: pass
    notes["random"] = rnd
    if not v.violations:
        # vacuity guards: every leg was really asked, inside and outside the repertoire of message.py, and TLC saw lines where Common(python) holds
        if tot.get("detour", 0) == 0: raise vlib.MachineryError("vacuity guard: no TLC vector was built through a script that is not append-only")
        if min(tot["asked"]) == 0 or tot["outside"][4] == 0: raise vlib.MachineryError("vacuity guard: legs asked %s, outside the repertoire %s" % (tot["asked"], tot["outside"]))
        if tot["pyok"] == 0 or tot["pynative"] == 0: raise vlib.MachineryError("vacuity guard: no recorded line inside the repertoire of message.py")
        if min(rnd["agree"].values()) == 0: raise vlib.MachineryError("vacuity guard: an implementation never agreed on a random content: %s" % rnd)
        if tot["restarts"]: raise vlib.MachineryError("a helper process died without a violation being recorded")
    programs = 8 if (notes["python_transceiver"] or {}).get("sent") else 7
    cov = {"programs": programs, "disagreements_checked": tot["comparisons"] + tot["tlc_lines"],
           "vectors": tot["vectors"], "vectors_enumerated_by_tlc": tot["states"], "tlc_vectors_built_by_a_script_that_is_not_append_only": tot.get("detour", 0),
           "construction": "the C++ Message of every vector is built by an API script that leaves the vector's content (TLC vectors: WireAbs.DetourOf, 6 variants - append, prepend onto the rest, first-in-first-out behind junk, "
                           "junk overwritten by Replace, shrink to one item and regrow, prepends only; random contents: a random variant per field, the script is logged and TLC checks Build(script) = content); the other implementations build from the content", "random_vectors": rnd["vectors"], "frame_batches": tot["frames"],
           "byte_string_comparisons_in_the_harness": tot["comparisons"], "recorded_lines_validated_by_tlc": tot["tlc_lines"],
           "legs_asked_on_tlc_vectors": dict(zip(KEYS, tot["asked"])), "legs_outside_the_repertoire_on_tlc_vectors": dict(zip(KEYS, tot["outside"])),
           "recorded_lines_inside_python_repertoire": tot["pyok"], "recorded_lines_inside_python_native_repertoire": tot["pynative"],
           "random": rnd, "python_transceiver": notes["python_transceiver"], "frame_size_sweep": notes.get("frame_size_sweep"), "python_live_object_histories": notes.get("python_live_object_histories"),
           "native_construction": "every *_b leg = the content built once with the implementation's construction calls AND once more through its own mutating calls (mini: MMRenameField to a shorter / longer / "
                                  "equally long name, MMRemoveField, replace-by-put, MMMoveField / MMCopyField, retainOldData growth; micro: one call per item, UMSetWhatCode afterwards; message.py: put over an existing "
                                  "name, RemoveName, in-place list edits, sub-Messages filled through the parent's reference, sizing in the middle), the variant cycling per vector", "tlc_runs": notes["tlc"], "selftest": notes.get("selftest"),
           "evaluations": tot["vectors"], "distinct_nontrivial": tot["distinct"],
           "rule": "vectors = Message values enumerated by TLC (WireVec) + seeded random contents; distinct = distinct C++ encodings (per harness run), non-trivial = went through every implementation in whose repertoire it lies",
           "exhaustive": False, "programs_compared": ["muscle::Message (C++)", "MiniMessage.c", "MicroMessage.c", "message.py", "MessageIOGateway", "MiniMessageGateway.c", "MicroMessageGateway.c"] + (["message_transceiver_thread.py"] if programs == 8 else []),
           "samples": samples[:4]}
    assumptions = ["little-endian host; python3 of the sandbox runs lang/python3 unchanged",
                   "the repertoire common to C++ and message.py is WireAbs.Common: names and strings well-formed UTF-8, no float32 signalling NaN in a Point / Rect (and none in a float field for native construction from Python floats)",
                   "a field with zero items (C++: ShareName + removal through the other Message) is inside every implementation's repertoire; what the C codecs cannot do with it is the open known finding F45mini / F45micro, tolerated only in its listed form (mini: refuses / returns NULL; micro: the bytes without the zero-item raw fields)",
                   "gateway batches (MGDoOutput / UGDoOutput build natively) are drawn from vectors WITHOUT zero-item fields: a Message the mini codec refuses would tear down the whole batch",
                   "the micro codec is fed well-formed buffers only (its reader's missing bounds checks are finding F19 of C02); buffers of 8 MB",
                   "the Python transceiver has no separable framing helper: it is bound by an echo session over loopback TCP; if 127.0.0.1 cannot be used the leg is recorded as skipped, not as a violation",
                   "zlib encodings of MessageIOGateway are outside this property (default encoding only)"]
    return "translation_validation", cov, assumptions
