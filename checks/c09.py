"""C09 - Hashtable behaves as an ordered map and its iterators survive any mutation.

 1. TLC model-checks spec/OrderedMap/MapAbs.tla (ideal ordered map + robust iterators [tab, pos, scratch, dir], every public call of
    util/Hashtable.h an action with its documented result): TypeOK, IterSafe (a cursor is never linked to a removed entry), NoSkip /
    NoTwice (a traversal that no reordering operation crossed visits everything that was present throughout, nothing twice),
    StaysSorted (auto-sorting classes, ties free).  Vacuity: per-call coverage, and deliberately wrong variants of the
    specification must violate IterSafe / NoSkip / NoTwice.
 2. spec -> code: spec/OrderedMap/MapGen.tla (two-step version of MapAbs: one graph node per transition) is dumped for several small
    instances, tools/pathcover.py covers EVERY (state, call, arguments); harness/ht.cpp replays each behaviour on a real
    Hashtable<int,int> (ASan+UBSan build) with a normal and an all-colliding hash functor, several initial capacities, and prefill blocks
    of 253 / 65533 untouched entries (table sizes 253..257 and 65533..65537: the index width switches at 255 and 65535), comparing
    after every step the result, the forward and backward order of both tables and what every iterator shows.  Deep random behaviours
    from TLC -simulate (keys {1,2,3}, values {1,2}, 2 iterators, all calls) are replayed too.
 3. code -> spec: seeded random long runs on Hashtable, OrderedKeysHashtable, OrderedValuesHashtable (both hash functors, the three
    prefills, 3 iterators), logged call by call, validated line by line by TLC against MapAbs (spec/OrderedMap/MapTrace.tla), with the
    invariants of 1.

 Verdict: a wrong result / wrong contents / wrong order, a sanitizer report, or a breach of the iterator clauses seen by the harness
 monitor (ht.cpp `Monitor`: shows an entry of its table or the copy it kept; ++ lands on an existing entry; no skip / no twice in a
 traversal no reordering crossed) is a VIOLATION.  An iterator that merely shows something else than the as-coded iterator model of
 MapAbs says, with the monitor silent, is DRIFT (a rejected log is validated a second time without the iterator columns to tell the two).
"""
import concurrent.futures as cf, json, os, re, shutil, subprocess, sys, threading, time
import vlib

FAM = "OrderedMap"
TABLE_OPS = ["Put", "PutPrev", "PutIfAbsent", "GetOrPut", "PutOrRemove", "PutAtFront", "PutAtBack", "PutBefore", "PutBehind", "PutAtPosition",
             "GetAndMoveToFront", "GetAndMoveToBack", "Remove", "RemoveGet", "RemoveFirst", "RemoveLast",
             "MoveToFront", "MoveToBack", "MoveToBefore", "MoveToBehind", "MoveToPosition",
             "SortByKey", "SortByValue", "SortSelf", "Reposition", "Swap", "Clear", "Destroy", "AssignFrom", "AssignTo", "PutAll", "MoveToTable",
             "RemoveAll", "Intersect", "EnsureSize", "ShrinkToFit", "SetAutoSort", "EnsureCanPut", "CopyToTable", "Self"]
QUERY_OPS = ["Get", "IndexOfKey", "IndexOfValue", "GetKeyAt", "GetValueAt", "GetFirstKey", "GetLastKey", "GetKeyBefore", "GetKeyAfter", "ContainsValue", "NumItems", "IsEqualTo"]
ITER_OPS = ["ItNew", "ItNewAt", "ItAdv", "ItRet", "ItFlip", "ItDel", "ItCopy"]
ALL_OPS = [o for o in TABLE_OPS if o != "SetAutoSort"] + QUERY_OPS + ITER_OPS        # plain Hashtable: no auto-sort switch
SORTED_OPS = ["Put", "PutPrev", "PutIfAbsent", "GetOrPut", "PutOrRemove", "Remove", "RemoveGet", "RemoveFirst", "RemoveLast", "SortSelf", "Reposition",
              "Swap", "Clear", "Destroy", "AssignFrom", "AssignTo", "PutAll", "MoveToTable", "RemoveAll", "Intersect", "EnsureSize", "ShrinkToFit",
              "SetAutoSort", "MoveToFront", "MoveToBack", "MoveToBefore", "MoveToBehind", "MoveToPosition", "PutAtFront", "EnsureCanPut", "CopyToTable", "Self"] + QUERY_OPS + ITER_OPS
INVS = ["TypeOK", "IterSafe", "NoSkip", "NoTwice", "StaysSorted"]
# calls whose effect on the table is representative of every other one (model checking of the iterator clauses)
MC_OPS = ["Put", "PutAtFront", "PutBefore", "PutBehind", "PutAtPosition", "Remove", "RemoveFirst", "RemoveLast", "MoveToFront", "MoveToBack", "MoveToBefore",
          "MoveToBehind", "MoveToPosition", "SortByKey", "SortByValue", "Swap", "Clear", "AssignFrom", "AssignTo", "PutAll", "MoveToTable", "RemoveAll", "Intersect",
          "ItNew", "ItNewAt", "ItAdv", "ItRet", "ItFlip", "ItDel"]
MC_SINGLE = ["Put", "PutPrev", "PutIfAbsent", "GetOrPut", "PutOrRemove", "PutAtFront", "PutAtBack", "PutBefore", "PutBehind", "PutAtPosition", "GetAndMoveToFront", "GetAndMoveToBack",
             "Remove", "RemoveGet", "RemoveFirst", "RemoveLast", "MoveToFront", "MoveToBack", "MoveToBefore", "MoveToBehind", "MoveToPosition", "SortByKey", "SortByValue", "SortSelf",
             "Clear", "Destroy", "EnsureSize", "ShrinkToFit", "EnsureCanPut", "Self", "ItNew", "ItNewAt", "ItAdv", "ItRet", "ItFlip", "ItDel"]
MC_TWO = ["Put", "PutOrRemove", "PutAtFront", "PutBefore", "PutAtPosition", "Remove", "RemoveFirst", "RemoveLast", "MoveToFront", "MoveToBack", "MoveToBehind", "MoveToPosition", "SortByKey",
          "Swap", "Clear", "AssignFrom", "AssignTo", "PutAll", "MoveToTable", "CopyToTable", "RemoveAll", "Intersect", "ItNew", "ItNewAt", "ItAdv", "ItRet", "ItFlip", "ItDel"]
MC_SORTED = ["Put", "PutOrRemove", "Remove", "RemoveFirst", "RemoveLast", "SortSelf", "Reposition", "Swap", "Clear", "AssignFrom", "PutAll", "MoveToTable", "RemoveAll", "Intersect",
             "ItNew", "ItNewAt", "ItAdv", "ItDel"]
# sorting classes with auto-sort switched off / explicit moves (order currently not the sorted one) followed by calls that reallocate
MC_LOOSE = ["Put", "Remove", "SortSelf", "Reposition", "Clear", "Destroy", "SetAutoSort", "MoveToFront", "MoveToBack", "MoveToBefore", "PutAtFront", "EnsureSize", "ItNew", "ItAdv", "ItDel"]
MC_SORTED_FULL = MC_SORTED + ["SetAutoSort", "MoveToFront", "MoveToBack", "MoveToBefore", "PutAtFront", "EnsureSize"]
G_ORDERED = ["Put", "Remove", "SortSelf", "Reposition", "Clear", "SetAutoSort", "MoveToFront", "MoveToBack", "MoveToBefore", "MoveToBehind", "MoveToPosition", "PutAtFront", "EnsureSize", "ShrinkToFit"]
# every uint32 position / index / count parameter with the boundary values of its type (0x7FFFFFFF, 0x80000000, 0xFFFFFFFE, 0xFFFFFFFF), on empty, 1- and 2-entry
# tables (and next to the prefill blocks), with a live iterator
G_BIGARGS = ["Put", "Remove", "PutAtPosition", "MoveToPosition", "GetKeyAt", "GetValueAt", "EnsureSize", "ShrinkToFit", "EnsureCanPut", "ItNew", "ItAdv", "ItDel"]
# generation instances (spec -> code)
G_SINGLE = ["Put", "PutAtFront", "PutAtBack", "PutBefore", "PutBehind", "PutAtPosition", "GetAndMoveToFront", "GetAndMoveToBack", "Remove", "RemoveFirst", "RemoveLast",
            "MoveToFront", "MoveToBack", "MoveToBefore", "MoveToBehind", "MoveToPosition", "SortByKey", "Clear", "ItNew", "ItNewAt", "ItAdv", "ItRet", "ItFlip", "ItDel"]
G_TWO = ["Put", "PutPrev", "PutIfAbsent", "GetOrPut", "PutOrRemove", "Remove", "RemoveGet", "SortSelf", "Swap", "Clear", "Destroy", "AssignFrom", "AssignTo", "PutAll",
         "MoveToTable", "CopyToTable", "Self", "RemoveAll", "Intersect", "ItNew", "ItNewAt", "ItAdv", "ItDel"]
G_TWO_BIG = ["Put", "PutOrRemove", "Remove", "SortByValue", "Swap", "Clear", "AssignFrom", "PutAll", "MoveToTable", "RemoveAll", "Intersect", "ItNew", "ItAdv", "ItDel"]
G_VALS = ["Put", "PutPrev", "PutIfAbsent", "GetOrPut", "PutOrRemove", "Remove", "RemoveGet", "SortByValue", "Clear", "ItNew", "ItNewAt", "ItAdv", "ItDel"]
G_BLOCK = ["Put", "PutAtBack", "PutBefore", "PutBehind", "PutAtPosition", "GetAndMoveToBack", "Remove", "RemoveLast", "MoveToBack", "MoveToBefore", "MoveToBehind",
           "MoveToPosition", "SortByKey", "EnsureSize", "ShrinkToFit", "ItNew", "ItNewAt", "ItAdv", "ItDel"]
G_TWOIT = ["Put", "Remove", "MoveToBack", "Clear", "EnsureSize", "ItNew", "ItAdv", "ItDel", "ItCopy"]
G_TWOIT_BIG = ["Put", "Remove", "MoveToBack", "Swap", "ItNew", "ItAdv", "ItDel"]


def tset(xs): return "{" + ", ".join('"%s"' % x for x in xs) + "}"
def iset(xs): return "{" + ", ".join(str(x) for x in xs) + "}"


TIER = ["q"]
CFGS = []


def cfg(name, spec, keys, vals, maxit, sorted_, ops, ghost, record, invs=None, wrong=(), extra="", putvals="any", big=False):
    name = name.replace("gen_", "gen_%s%d_" % (TIER[0], os.getpid() % 100000), 1)      # several runs of this check may be going on (mutant trials)
    p = os.path.join(vlib.SPEC, FAM, name)
    CFGS.append(p)
    with open(p, "w") as f:
        f.write("SPECIFICATION %s\nCONSTANTS\n  Keys = %s\n  Vals = %s\n  MaxIt = %d\n  Sorted = \"%s\"\n  Ops = %s\n  PutVals = \"%s\"\n  BigArgs = %s\n  Wrong = %s\n  GHOST = %s\n  RECORD = %s\n" %
                (spec, iset(keys), iset(vals), maxit, sorted_, tset(ops), putvals, "TRUE" if big else "FALSE", tset(wrong), "TRUE" if ghost else "FALSE", "TRUE" if record else "FALSE"))
        if invs: f.write("INVARIANTS " + " ".join(invs) + "\n")
        f.write(extra)
    return name


NOTE = ["-noGenerateSpecTE"]
# hash argument of harness/ht.cpp
HNAME = {0: "default", 1: "all keys in one bucket", 2: "boundary hash codes (guard value 0xFFFFFFFF, 0, 0xFFFFFFFE, 1; shared)", 3: "distinct codes colliding modulo the table size",
         4: "default functor, key 2 = 1621770658 whose hash code is the guard value 0xFFFFFFFF", 6: "boundary hash codes + key offset"}


T0 = [time.time()]
JTMP = ["/tmp"]


class _Pool:
    """At most `n` TLC workers at a time over all the TLC processes of this check."""
    def __init__(self, n): self.n = n; self.c = threading.Condition()
    def run(self, w, *a, **kw):
        with self.c:
            while self.n < w: self.c.wait()
            self.n -= w
        t0 = time.time()
        env = dict(kw.pop("env", None) or {}); env["JAVA_TOOL_OPTIONS"] = "-Djava.io.tmpdir=" + JTMP[0]    # TLC unpacks its standard modules into java.io.tmpdir and leaves them there
        try: return vlib.tlc(*a, workers=w, env=env, **kw)
        finally:
            if os.environ.get("C09_TIMING"): vlib.log("  [t+%.0fs] tlc %s %s w=%d took %.1fs" % (time.time() - T0[0], a[0], a[1], w, time.time() - t0))
            with self.c: self.n += w; self.c.notify_all()


def run(v, tier, seed):
    quick = (tier == "quick"); TIER[0] = tier[0]; del CFGS[:]
    JTMP[0] = os.path.join(vlib.BUILD, "work", "C09", "jtmp%d" % os.getpid()); os.makedirs(JTMP[0], exist_ok=True)
    try: return _run(v, tier, seed, quick)
    finally:
        shutil.rmtree(JTMP[0], ignore_errors=True)
        for p in CFGS:
            try: os.remove(p)
            except OSError: pass


def _run(v, tier, seed, quick):
    W = lambda n: vlib.scratch("C09", n)
    ht = vlib.binpath("asan", "ht")
    build_ex = cf.ThreadPoolExecutor(max_workers=1)
    htc = vlib.binpath("asan", "htc")      # same program, keys and values of an owning non-trivial type
    f_build = build_ex.submit(vlib.make, "asan", "ht", "htc")       # the TLC work does not have to wait for the compiler
    pool = _Pool(8)
    tot = {"states": 0, "transitions": 0, "behaviours": 0, "followed": 0, "cut": 0, "drift": 0, "steps": 0, "itchecks": 0, "replays": 0,
           "runs": 0, "calls": 0, "lines": 0, "lines_ok": 0, "runs_ok": 0}
    notes = {"model_runs": [], "generation": [], "replay_configs": [], "random_configs": [], "vacuity": []}
    samples = []
    T0[0] = time.time()

    # ---------------------------------------------------------------------------------------- 1. model checking
    def model_check(tag, keys, vals, maxit, sorted_, ops, workers):
        name = cfg("gen_MC_%s.cfg" % tag, "Spec", keys, vals, maxit, sorted_, ops, True, False, INVS, big=(tag == "2keys_two_tables"))
        r = pool.run(workers, "MapAbs", name, FAM, coverage=True, timeout=3000, heap="6g", extra=NOTE)
        vlib.require_ok(r, "MapAbs model check %s" % tag)
        missing = [o for o in ops if r.coverage.get("a" + o, (0, 0))[1] == 0]
        if missing: raise vlib.MachineryError("MapAbs %s: vacuity guard: calls never made: %s" % (tag, missing))
        return tag, r

    def wrong_variant(w, inv):
        if w == "moves_keep_tight": name = cfg("gen_Wrong_%s_%s.cfg" % (w, inv), "Spec", [1, 2], [1, 2], 0, "key", ["Put", "MoveToFront", "SetAutoSort"], True, False, [inv], wrong=[w])
        else: name = cfg("gen_Wrong_%s_%s.cfg" % (w, inv), "Spec", [1, 2], [1], 1, "none", ["Put", "Remove", "MoveToBack", "ItNew", "ItAdv", "ItDel"], True, False, [inv], wrong=[w])
        r = pool.run(1, "MapAbs", name, FAM, timeout=600, heap="2g", extra=NOTE)
        if r.error and not r.violated: raise vlib.MachineryError("wrong variant %s: %s" % (w, r.error))
        return w, inv, r.violated == inv

    # ---------------------------------------------------------------------------------------- 2. spec -> code
    def generate(tag, keys, vals, maxit, ops):
        ordered = (tag == "ordered")     # tie-free instance of a sorting class (values = keys: sorted by key = sorted by value), replayed on both sorting classes
        name = cfg("gen_Gen_%s.cfg" % tag, "GenSpec", keys, vals, maxit, "key" if ordered else "none", ops, False, True, ["TypeOK"], putvals="key" if ordered else "any", big=(tag == "bigargs"))
        dot = W("g_%s.dot" % tag); bf = W("beh_%s.ndjson" % tag)
        r = pool.run(2, "MapGen", name, FAM, timeout=3000, heap="6g", dump=dot, extra=NOTE)
        vlib.require_ok(r, "MapGen graph dump %s" % tag)
        t0 = time.time()
        with open(bf, "w") as f:      # pathcover in its own process (CPU-bound Python)
            p = subprocess.run([sys.executable, os.path.join(vlib.VERIF, "tools", "pathcover.py"), dot], stdout=f, stderr=subprocess.PIPE, text=True, timeout=3000)
        os.remove(dot)
        if p.returncode != 0: raise vlib.MachineryError("pathcover %s failed: %s" % (tag, p.stderr[-1500:]))
        st = json.loads(p.stderr.strip().splitlines()[-1])
        if st["edges_covered"] != st["graph_edges"]: raise vlib.MachineryError("path cover incomplete: %s" % st)
        nb = st["paths"]
        if os.environ.get("C09_TIMING"): vlib.log("  [t+%.0fs] pathcover %s took %.1fs" % (time.time() - T0[0], tag, time.time() - t0))
        notes["generation"].append({"instance": tag, "keys": keys, "vals": vals, "iterators": maxit, "calls": ops, "graph_nodes": r.distinct, "graph_edges": st["graph_edges"],
                                    "transitions_of_MapAbs": st["graph_edges"] // 2, "behaviours": nb, "tlc_s": round(r.wall, 1), "pathcover_s": round(time.time() - t0, 1)})
        return tag, bf, nb

    def simulate(tag, n, depth, workers):
        name = cfg("gen_Sim_%s.cfg" % tag, "SimSpec", [1, 2, 3], [1, 2], 2, "none", ALL_OPS, False, True, ["TypeOK"], extra="CONSTANTS SimDepth = %d\n" % depth, big=True)
        r = pool.run(workers, "MapSim", name, FAM, timeout=3000, heap="4g", simulate=n // workers, depth=depth + 2, seed=seed, extra=NOTE)
        if r.error: raise vlib.MachineryError("MapSim: " + r.error)
        if r.violated: raise vlib.MachineryError("MapSim violates %s" % r.violated)
        beh = [b for b in r.printed if isinstance(b, list) and len(b) == depth][:n]
        if len(beh) < n // 2: raise vlib.MachineryError("MapSim produced %d behaviours, wanted %d" % (len(beh), n))
        bf = W("beh_%s.ndjson" % tag)
        vlib.write_ndjson(bf, [{"id": i, "steps": s} for i, s in enumerate(beh)])
        notes["generation"].append({"instance": tag, "mode": "TLC -simulate", "keys": [1, 2, 3], "vals": [1, 2], "iterators": 2, "calls": "all %d" % len(ALL_OPS), "behaviours": len(beh), "depth": depth, "tlc_s": round(r.wall, 1)})
        return tag, bf, len(beh)

    def subset(bf, tag, every):
        if every <= 1: return bf
        out = W("sub_%s_%d.ndjson" % (tag, every))
        with open(bf) as f, open(out, "w") as g:
            for i, line in enumerate(f):
                if i % every == 0: g.write(line)
        return out

    def replay(tag, bf, bad, P, slack, cls=0, canary=0, alias=None):
        if alias is None: alias = (bad + slack + cls + canary) % 2           # aliasing arguments in about half of the configurations
        rep = W("rep_%s_%d_%d_%d_%d_%d%d.ndjson" % (tag.replace("/", "-"), bad, P, slack, cls, canary, alias)); prog = rep + ".progress"
        f_build.result(); t0 = time.time()
        exe = htc if canary else ht
        rc, out, err = vlib.run([exe, "replay", bf, rep, str(bad), str(P), str(slack), prog, str(cls), str(alias * (7 + bad + slack))], timeout=3000)
        info = {"instance": tag, "class": ["Hashtable", "OrderedKeysHashtable", "OrderedValuesHashtable"][cls], "hash": HNAME[bad], "prefill": P, "slack": slack,
                "key_value_type": "owning non-trivial" if canary else "int", "aliasing_arguments": bool(alias), "wall_s": round(time.time() - t0, 1)}
        if os.environ.get("C09_TIMING"): vlib.log("  [t+%.0fs] replay %s took %.1fs" % (time.time() - T0[0], info, time.time() - t0))
        if rc != 0:
            cur = open(prog).read().strip() if os.path.exists(prog) else "?"
            if rc in (66, 67) or rc < 0 or "Sanitizer" in err or "runtime error" in err:
                return info, None, {"what": "sanitizer report / crash (rc=%s) while replaying behaviour %s of %s (hash=%d prefill=%d slack=%d): %s" % (rc, cur, bf, bad, P, slack, _first_report(err)),
                                    "replay": {"behaviours": bf, "behaviour": cur, "argv": [exe, "replay", bf, rep, str(bad), str(P), str(slack), prog, str(cls), str(alias * (7 + bad + slack))], "stderr": err[-3000:]}}
            raise vlib.MachineryError("ht replay failed rc=%s: %s %s" % (rc, out[-300:], err[-1500:]))
        return info, vlib.read_ndjson(rep), None

    def directed_known():
        """Known finding HputBeforeAlias: the directed case, in both builds and both calls; a sanitizer report reproduces it, a clean run with the documented result means it is repaired."""
        f_build.result(); hits = []; clean = 0
        for exe in (ht, htc):
            for behind in ("0", "1"):
                rc, out, err = vlib.run([exe, "directed", "putbefore-alias", behind], timeout=300)
                if rc in (66, 67) or rc < 0 or "Sanitizer" in err: hits.append(_first_report(err))
                elif rc == 0: clean += 1
                else: hits.append("wrong result: " + out.strip()[:200])
        return hits, clean

    # ---------------------------------------------------------------------------------------- 3. code -> spec
    K, V, NIT = 5, 3, 3

    def random_runs(idx, cls, bad, P, slack, runs, nops):
        canary = 1 if idx % 5 in (1, 3) else 0; alias = 0 if idx % 4 == 0 else 3 + idx; exe = htc if canary else ht
        rep = W("rnd_%d.ndjson" % idx); tr = W("trace_%d.ndjson" % idx)
        f_build.result(); t0 = time.time()
        rc, out, err = vlib.run([exe, "random", rep, tr, str(seed * 131 + idx), str(runs), str(nops), str(cls), str(bad), str(P), str(slack), str(K), str(V), str(NIT), str(alias)], timeout=3000)
        info = {"class": ["Hashtable", "OrderedKeysHashtable", "OrderedValuesHashtable"][cls], "hash": HNAME[bad], "prefill": P, "slack": slack, "runs": runs, "calls_per_run": nops,
                "key_value_type": "owning non-trivial" if canary else "int", "aliasing_arguments": bool(alias)}
        if rc != 0:
            if rc in (66, 67) or rc < 0 or "Sanitizer" in err or "runtime error" in err:
                return info, None, None, {"what": "sanitizer report / crash (rc=%s) in a random run (%s): %s" % (rc, info, _first_report(err)),
                                          "replay": {"argv": [exe, "random", rep, tr, str(seed * 131 + idx), str(runs), str(nops), str(cls), str(bad), str(P), str(slack), str(K), str(V), str(NIT), str(alias)], "stderr": err[-3000:]}}
            raise vlib.MachineryError("ht random failed rc=%s: %s %s" % (rc, out[-300:], err[-1500:]))
        rows = vlib.read_ndjson(rep)
        if os.environ.get("C09_TIMING"): vlib.log("  [t+%.0fs] random %s took %.1fs" % (time.time() - T0[0], info, time.time() - t0))
        # validate with TLC; a rejected log is looked at a second time without the iterator columns
        nlines = sum(1 for _ in open(tr))
        def validate(match_iters):
            name = cfg("gen_Trace_%d_%d.cfg" % (idx, int(match_iters)), "TraceSpec", range(1, K + 1), range(1, V + 1), NIT, ["none", "key", "val"][cls], ALL_OPS if cls == 0 else SORTED_OPS, True, False, INVS,
                       extra="CONSTANTS MatchIters = %s\nCONSTRAINT Track\nPOSTCONDITION Report\n" % ("TRUE" if match_iters else "FALSE"), big=True)
            r = pool.run(1, "MapTrace", name, FAM, timeout=3000, heap="3g", env={"TRACE": tr}, keep_out=True, extra=NOTE)
            m = re.search(r'"maxline", (\d+), "of", (\d+)', r.out)
            if r.violated: return {"violated": r.violated}
            if r.error or not m: raise vlib.MachineryError("MapTrace (%s): %s" % (info, r.error or r.out[-1500:]))
            return {"maxline": int(m.group(1)), "of": int(m.group(2))}
        res = validate(True)
        if "maxline" in res and res["maxline"] <= res["of"]:
            res2 = validate(False)
            if "maxline" in res2 and res2["maxline"] > res2["of"]: res["iterators_only"] = True     # the ordered-map part of every line is explained
            elif "maxline" in res2: res = res2
        info["wall_s"] = round(time.time() - t0, 1); info["lines"] = nlines
        return info, rows, (res, tr, nlines), None

    # ---------------------------------------------------------------------------------------- schedule
    if quick:
        mc_jobs = [("3keys_single_table", [1, 2, 3], [1], 1, "none", MC_SINGLE, 2), ("2keys_two_tables", [1, 2], [1], 1, "none", MC_TWO, 2),
                   ("sorted_key", [1, 2], [1, 2], 1, "key", MC_SORTED, 2), ("sorted_val", [1, 2], [1, 2], 1, "val", [o for o in MC_SORTED if o not in ("Swap", "RemoveAll", "Intersect", "RemoveLast")], 2),
                   ("loose_key", [1, 2], [1, 2], 1, "key", MC_LOOSE, 1), ("loose_val", [1, 2], [1, 2], 1, "val", MC_LOOSE, 1)]
        gen_jobs = [("single", [1, 2, 3], [1], 1, G_SINGLE), ("two", [1, 2], [1], 1, G_TWO), ("vals", [1, 2], [1, 2], 1, G_VALS), ("block", [1, 2, 3], [1], 1, G_BLOCK), ("twoit", [1, 2], [1], 2, G_TWOIT),
                    ("ordered", [1, 2, 3], [1, 2, 3], 0, G_ORDERED), ("bigargs", [1, 2], [1], 1, G_BIGARGS)]
        sim_job = ("sim", 60, 30, 1)      # one worker: the behaviours are a function of VERIF_SEED
        big_every = 16
        rnd = []   # (cls, bad, P, slack, runs, ops)
        for cls in (0, 1, 2):
            rnd += [(cls, 0, 0, 0, 12 if cls == 0 else 8, 300), (cls, 1, 0, 2, 12 if cls == 0 else 8, 300), (cls, cls % 2, 253, (cls + 1) % 4, 10, 300), (cls, (cls + 1) % 2, 253, (cls + 3) % 4, 10, 300)]
        rnd += [(0, 1, 65533, 1, 2, 150), (1, 0, 65533, 3, 1, 150), (2, 0, 65533, 2, 1, 150)]
        rnd += [(0, 2, 0, 1, 8, 300), (0, 4, 0, 0, 8, 300), (1, 4, 0, 1, 6, 300), (2, 2, 0, 2, 6, 300), (0, 6, 253, 0, 6, 300), (1 + seed % 2, 3 - seed % 2 if False else 2, 253, 1, 6, 300)]
    else:
        mc_jobs = [("3keys_single_table", [1, 2, 3], [1], 1, "none", MC_SINGLE, 2), ("3keys_1it", [1, 2, 3], [1], 1, "none", MC_OPS, 4), ("2keys_2vals_1it_all", [1, 2], [1, 2], 1, "none", [o for o in ALL_OPS if o != "ItCopy"], 4),
                   ("2keys_2its", [1, 2], [1], 2, "none", ["Put", "Remove", "MoveToBack", "MoveToBefore", "PutAtPosition", "Clear", "Swap", "MoveToTable", "ItNew", "ItNewAt", "ItAdv", "ItRet", "ItDel", "ItCopy"], 4)]
        gen_jobs = [("single", [1, 2, 3], [1], 1, G_SINGLE), ("two", [1, 2], [1], 1, G_TWO), ("vals", [1, 2], [1, 2], 1, G_VALS), ("block", [1, 2, 3], [1], 1, G_BLOCK), ("twoit", [1, 2], [1], 2, G_TWOIT),
                    ("two_big", [1, 2], [1, 2], 1, G_TWO_BIG), ("twoit_big", [1, 2], [1], 2, G_TWOIT_BIG), ("ordered", [1, 2, 3], [1, 2, 3], 0, G_ORDERED), ("bigargs", [1, 2], [1], 1, G_BIGARGS)]
        sim_job = ("sim", 4000, 50, 4)
        big_every = 2
        rnd = []
        for cls in (0, 1, 2):
            for bad in (0, 1):
                rnd += [(cls, bad, 0, s, 150, 400) for s in (0, 1, 2, 3)] + [(cls, bad, 253, s, 150, 400) for s in (0, 1, 2, 3)] + [(cls, bad, 65533, s, 6, 300) for s in (1, 2, 3)]
            for h in ((2, 3, 4, 6) if cls == 0 else (2, 4, 6)):
                rnd += [(cls, h, 0, s, 100, 400) for s in (0, 1, 3)] + [(cls, h, 253, s, 100, 400) for s in (0, 2)] + [(cls, h, 65533, 2, 4, 300)]
    sorted_mc = []
    if not quick:
        so = MC_SORTED_FULL
        sorted_mc = [("sorted_key", [1, 2], [1, 2], 1, "key", so, 4), ("sorted_val", [1, 2], [1, 2], 1, "val", so, 4),
                     ("loose_val_3keys", [1, 2, 3], [1, 2], 1, "val", ["Put", "PutOrRemove", "Remove", "RemoveFirst", "SortSelf", "Reposition", "Clear", "Destroy", "ItNew", "ItNewAt", "ItAdv", "ItDel", "SetAutoSort", "MoveToFront", "MoveToBack", "MoveToBefore", "MoveToBehind", "MoveToPosition", "PutAtFront", "EnsureSize", "ShrinkToFit"], 4),
                     ("sorted_val_3keys", [1, 2, 3], [1, 2], 1, "val", ["Put", "Remove", "RemoveFirst", "Reposition", "Clear", "PutAll", "MoveToTable", "ItNew", "ItNewAt", "ItAdv", "ItDel"], 4)]

    viol_seen = set()
    def violation(what, replay_obj, tag):
        key = what[:120]
        if key in viol_seen and len(v.violations) >= 3: return
        viol_seen.add(key); v.violation(what, replay_obj, tag=tag)

    with cf.ThreadPoolExecutor(max_workers=12) as ex:
        # the generation instances first: dump -> path cover -> replays is the longest chain
        f_gen = [ex.submit(generate, *j) for j in sorted(gen_jobs, key=lambda j: j[0] not in ("single", "block", "two_big", "twoit_big"))] + [ex.submit(simulate, *sim_job)]
        f_mc = [ex.submit(model_check, *j) for j in mc_jobs + sorted_mc]
        f_wr = [ex.submit(wrong_variant, w, inv) for w, inv in (("remove_no_fixup", "IterSafe"), ("no_reorder_exemption", "NoSkip"), ("no_reorder_exemption", "NoTwice"), ("moves_keep_tight", "StaysSorted"))]
        f_rnd = [ex.submit(random_runs, i, *j) for i, j in enumerate(rnd)]
        f_dir = ex.submit(directed_known)
        f_rep = []
        for f in cf.as_completed(f_gen):
            tag, bf, nb = f.result()
            tot["behaviours"] += nb
            with open(bf) as fh: first = json.loads(fh.readline())
            samples.append({"kind": "behaviour replayed (%s)" % tag, "steps": [s for s in first["steps"] if s.get("op") != "-"][:6]})
            if tag == "bigargs":
                for h, slack in ((0, 0), (1, 1), (2, 2), (4, 3)): f_rep.append(ex.submit(replay, tag, bf, h, 0, slack, 0, h % 2))
                for slack in (0, 1, 2, 3): f_rep.append(ex.submit(replay, tag, bf, (0, 2, 1, 4)[slack], 253, slack))
                for slack in ((2,) if quick else (0, 1, 2, 3)): f_rep.append(ex.submit(replay, tag + "/%d" % (8 if quick else 2), subset(bf, tag, 8 if quick else 2), slack % 2, 65533, slack))
            elif tag == "ordered":
                for cls in (1, 2):
                    for bad, slack in (((0, 1), (1, 2), (0, 0)) if quick else [(h, sl) for h in (0, 1) for sl in (0, 1, 2, 3)]): f_rep.append(ex.submit(replay, tag, bf, bad, 0, slack, cls, bad))
                    f_rep.append(ex.submit(replay, tag, bf, cls % 2, 253, cls, cls))
                    f_rep.append(ex.submit(replay, tag, bf, 2 if cls == 1 else 4, 0, 2, cls)); f_rep.append(ex.submit(replay, tag, bf, 4 if cls == 1 else 2, 0, 1, cls))
            elif tag == "block":
                for P in (253,):
                    for slack in (0, 1, 2, 3): f_rep.append(ex.submit(replay, tag, bf, (0, 2, 1, 4)[slack], P, slack, 0, 1 if slack == 2 else 0))
                    if not quick:
                        for slack in (0, 1, 2, 3): f_rep.append(ex.submit(replay, tag, bf, (slack + 1) % 2, P, slack))
                sub = subset(bf, tag, big_every)
                for slack in ((1, 3) if quick else (0, 1, 2, 3)): f_rep.append(ex.submit(replay, tag + "/%d" % big_every, sub, (slack // 2) % 2, 65533, slack))
                if not quick: f_rep.append(ex.submit(replay, tag, bf, 0, 0, 0)); f_rep.append(ex.submit(replay, tag, bf, 2, 253, 1)); f_rep.append(ex.submit(replay, tag, bf, 4, 253, 3))
            else:
                for bad, slack in (((0, 0), (1, 1)) if quick else [(h, sl) for h in (0, 1) for sl in (0, 1, 2, 3)]): f_rep.append(ex.submit(replay, tag, bf, bad, 0, slack, 0, bad, bad))
                if not quick:
                    for bad, slack in ((0, 1), (2, 0), (4, 2)): f_rep.append(ex.submit(replay, tag, bf, bad, 0, slack, 0, 1, 1))
                # adversarial hash layouts: boundary hash codes, the key whose default hash code is the guard value, codes colliding modulo the table size
                for h, slack in ({"single": ((2, 1), (3, 2)), "two": ((4, 0), (2, 2)), "vals": ((4, 1), (3, 0)), "twoit": ((2, 0), (4, 2)), "sim": ((2, 1), (4, 0), (3, 2))}.get(tag, ((2, 1), (4, 0))) if quick or tag.endswith("_big") else [(h, sl) for h in (2, 3, 4, 6) for sl in (0, 1, 2)]): f_rep.append(ex.submit(replay, tag, bf, h, 0, slack))
                if not (quick and tag == "single"): f_rep.append(ex.submit(replay, tag, bf, 1, 253, 1))     # most behaviours are cut at a call that is not applicable next to a block; the rest still counts
                if tag in ("twoit", "two"): f_rep.append(ex.submit(replay, tag + "/%d" % big_every, subset(bf, tag, big_every), 0, 65533, 2))
        for f in f_mc:
            tag, r = f.result(); tot["states"] += r.distinct; tot["transitions"] += r.generated
            notes["model_runs"].append({"instance": tag, "distinct": r.distinct, "generated": r.generated, "depth": r.depth, "wall_s": round(r.wall, 1)})
        for f in f_wr:
            w, inv, ok = f.result(); notes["vacuity"].append({"wrong_variant": w, "violates": inv, "confirmed": ok})
            if not ok: raise vlib.MachineryError("vacuity guard: the wrong specification variant %s does not violate %s" % (w, inv))
        for f in f_rep:
            info, rows, crash = f.result(); tot["replays"] += 1
            if crash: violation(crash["what"], crash["replay"], "replay-crash"); notes["replay_configs"].append(dict(info, crashed=True)); continue
            summ = [r for r in rows if r.get("summary")][0]
            tot["followed"] += summ["followed"]; tot["cut"] += summ["cut_not_applicable"]; tot["steps"] += summ["steps"]; tot["itchecks"] += summ["iterator_checks"]; tot["drift"] += summ["drifted"]
            notes["replay_configs"].append(dict(info, behaviours=summ["behaviours"], followed=summ["followed"], cut=summ["cut_not_applicable"], steps=summ["steps"], slots=[summ["min_slots"], summ["max_slots"]]))
            for r in rows:
                if r.get("summary"): continue
                if r.get("violations"): violation("replay of a MapAbs behaviour (%s hash=%s prefill=%d slack=%d): %s" % (info["instance"], info["hash"], info["prefill"], info["slack"], "; ".join(r["violations"])), r, "replay")
                elif r.get("drift"):
                    v.drift += 1
                    if v.drift <= 3: vlib.log("DRIFT property=C09 behaviour %s of %s: %s" % (r.get("behaviour"), info["instance"], r["drift"][:300]))
        hits, clean = f_dir.result()
        notes["known_finding_directed"] = {"id": "HputBeforeAlias", "reproduced": len(hits), "clean": clean}
        if hits:       # the finding is repaired (known_findings.json: fixed): judged like every other case
            if not v.known_finding("HputBeforeAlias", "PutBefore / PutBehind with a reference key that aliases the table's own key storage, Put reallocates: " + hits[0][:200]):
                violation("directed case PutBefore(k, *t.GetFirstKey(), v) / PutBehind on a full table (finding HputBeforeAlias): " + hits[0], {"argv": [ht, "directed", "putbefore-alias"]}, "directed")
        for f in f_rnd:
            info, rows, val, crash = f.result()
            if crash: violation(crash["what"], crash["replay"], "random-crash"); notes["random_configs"].append(dict(info, crashed=True)); continue
            summ = [r for r in rows if r.get("summary")][0]
            tot["runs"] += summ["runs"]; tot["calls"] += summ["calls"]
            for r in rows:
                if r.get("violations"): violation("random run (%s): %s" % (info, "; ".join(r["violations"])), dict(r, config=info), "random")
            res, tr, nlines = val; tot["lines"] += nlines
            if "violated" in res:
                violation("a recorded execution of the real code (%s) violates %s of MapAbs (trace %s)" % (info, res["violated"], tr), {"trace": tr, "invariant": res["violated"], "config": info}, "trace")
            elif res["maxline"] <= res["of"]:
                bad_line = _line(tr, res["maxline"])
                if res.get("iterators_only"):
                    # results and contents agree with the ordered map on every line; what an iterator shows differs from the as-coded iterator
                    # model.  Whether that breaks the property is decided by the harness monitor (reported above if it does): drift.
                    v.drift += 1
                    if v.drift <= 3: vlib.log("DRIFT property=C09 recorded run (%s): line %d of %s: an iterator shows something else than MapAbs says: %s" % (info, res["maxline"], tr, json.dumps(bad_line)[:300]))
                else:
                    violation("recorded call is not a behaviour of the ordered map MapAbs (%s): line %d of %s: %s" % (info, res["maxline"], tr, json.dumps(bad_line)[:400]),
                              {"trace": tr, "line": res["maxline"], "record": bad_line, "previous": _line(tr, res["maxline"] - 1), "config": info}, "trace")
                tot["lines_ok"] += res["maxline"] - 1
            else:
                tot["lines_ok"] += nlines
                if summ["violated"] == 0: tot["runs_ok"] += summ["runs"]
            notes["random_configs"].append(dict(info, accepted=("maxline" in res and res["maxline"] > res["of"]), slots=[summ["min_slots"], summ["max_slots"]], distinct_calls=summ["distinct_calls"]))
    if tot["followed"] == 0: raise vlib.MachineryError("no behaviour could be followed")
    if os.path.exists(W("trace_0.ndjson")): samples.append({"kind": "recorded call validated by TLC", "line": _line(W("trace_0.ndjson"), 40)})
    cov = {"states": tot["states"], "transitions": tot["transitions"],
           "traces_validated_against_impl": tot["followed"] + tot["runs_ok"],
           "behaviours_generated": tot["behaviours"], "replays": tot["replays"], "behaviours_followed_to_the_end": tot["followed"], "behaviours_cut_at_a_call_not_applicable_next_to_the_prefill_block": tot["cut"],
           "replay_steps": tot["steps"], "iterator_states_compared": tot["itchecks"],
           "random_runs": tot["runs"], "random_calls": tot["calls"], "trace_lines_given_to_tlc": tot["lines"], "trace_lines_accepted": tot["lines_ok"], "runs_accepted_by_tlc": tot["runs_ok"],
           "evaluations": tot["steps"] + tot["calls"], "distinct_nontrivial": tot["behaviours"] + tot["runs_ok"],
           "rule": "behaviours = path cover of EVERY (state, call, arguments) of the MapGen instances listed under generation (distinct by construction: each adds an uncovered transition) + TLC -simulate behaviours; "
                   "each is replayed under several (hash functor, prefill, initial capacity) configurations; random runs = distinct seeds, counted when TLC accepts every line",
           "exhaustive": True, "samples": samples[:5]}
    cov.update(notes)
    assumptions = ["keys and values are ints: the table never has to destroy / default-assign non-trivial objects (Hashtable clears slots of non-trivial types only)",
                   "single thread: the iterator registration is documented as same-thread only",
                   "prefill blocks: positions / indices are translated by the block length; calls that would move an entry in front of the block, detach iterators parked inside it, or merge two blocks are not made while the block is there (counted as cut)",
                   "what an iterator whose scratch copy is overwritten by Clear() shows (the copy of the entry it was about to continue with) is modelled as coded; the property-level monitor accepts either copy",
                   "a traversal crossed by a reordering operation that took effect (an entry unlinked and relinked, even to the same place) is only required to be safe, as DESIGN.md C09 reads the property"]
    return "model_checking", cov, assumptions


def _line(path, n):
    try:
        with open(path) as f:
            for i, line in enumerate(f, 1):
                if i == n: return json.loads(line)
    except Exception: pass
    return None


def _first_report(err):
    m = re.search(r"(ERROR: \w+Sanitizer: [^\n]*|runtime error: [^\n]*)", err)
    return m.group(1)[:300] if m else err.strip().splitlines()[-1][:300] if err.strip() else "no output"
