"""C13 - an ordered child index replayed from its update log equals the server's index.

 1. TLC model-checks spec/Reflector/IndexImpl.tla (DataNode.cpp InsertOrderedChild / ReorderChild / RemoveChild / RemoveIndexEntry /
    InsertIndexEntryAt, the add-to-index flag of SetDataNode, the snapshot of GetDataCallback, CloneDataNodeSubtree, save + restore, as
    coded; every change appends (opcode, position, name) to the log of every path-subscribed session, the subscribers replay it) against
    IndexAbs: ReplayOK, OpsFit, EntriesAreChildren, NoDuplicates; every invariant is shown to be violable (deviations F26, pos1, prelen,
    silentrm, staleentry; Reach_* witnesses).  The model also has: inserts / sets refused by the server's per-node child limit, every
    pair of owner commands sent as ONE PR_COMMAND_BATCH (incl. change + snapshot request), wildcard removal of all children, quiet
    subscribes / removals, departure and return of the owner's session.
 2. spec -> code: the same TLC runs print EVERY transition (state, command, expected server index / children / index mirrors); they are
    turned into behaviours that take every transition and replayed by harness/refl.cpp on an in-process ReflectServer: after EVERY
    command each client's index mirror (replayed from the PR_RESULT_INDEXUPDATED opcodes it received) is compared with the expectation
    and with the server's index, and IndexAbs's server-side clauses (entries are children, none twice) are evaluated on the real nodes.
 3. code -> spec: seeded random histories (3-4 sessions, ordered inserts before named siblings / at the end, reorders incl. remove-from-
    index and wildcards, plain and add-to-index sets, removals, clones and restores between and onto indexed nodes, BATCH Messages,
    subscribers joining and leaving at any point, filters, quiet flags, disconnects; a third of the histories on a server with a
    per-node child limit of 2..4; BATCHes that start or end with a GETDATA / subscribe / unsubscribe), same oracle after every command; a subset is logged
    with the opcodes every client received and validated by TLC against IndexAbs (spec/Reflector/IndexTrace.tla, linear).
"""
import concurrent.futures as cf, os, re
import vlib, reflcommon as rc

INVS = ["TypeOK", "ReplayOK", "OpsFit", "EntriesAreChildren", "NoDuplicates"]
BASE = {"Owner": '"W"', "Subs": '{"S"}', "Parents": '{"p"}', "Explicit": '{"x", "I1"}', "MaxGen": 3, "MaxKids": 4, "PPayloads": "{1}", "Filters": "{0}",
        "Befores": '{"zz"}', "Clones": "FALSE", "Refusals": "FALSE", "Batches": "FALSE", "Churn": "FALSE", "QuietOps": "FALSE", "Deviations": "{}", "RECORD": "FALSE"}


def inst(sessions, need, **kw):
    c = dict(BASE); c.update(kw)
    return {"sessions": sessions, "need": need, "c": c}


QUICK = {
    # one parent, explicit names x and I1 (a generated name must skip it), a server child limit of 3: refused inserts / sets
    "single":  inst(["W", "S"], ["insert", "insert-refused", "reorder", "remove", "set", "set-idx", "subscribe", "unsubscribe"], MaxKids=3, Refusals="TRUE"),
    # payload filters, the owner subscribed to its own node, quiet subscribes / removals, and every pair of owner commands as ONE BATCH
    "filter":  inst(["W", "S"], ["subscribe", "quiet-subscribe", "quiet-remove", "getdata", "insert", "batch-first"], PPayloads="{1, 2}", Filters="{0, 1}", Explicit='{"x"}', MaxGen=2, MaxKids=2,
                    Subs='{"S", "W"}', Batches="TRUE", QuietOps="TRUE"),
    "two":     inst(["W", "S"], ["clone", "restore", "insert", "reorder"], Parents='{"p", "q"}', Explicit="{}", MaxGen=2, MaxKids=2, Clones="TRUE"),
    # two subscribers joining and leaving at any point, the owner's session departing and coming back
    "joiners": inst(["W", "S", "S2"], ["subscribe", "unsubscribe", "insert", "disconnect", "connect"], Subs='{"S", "S2"}', Explicit="{}", MaxGen=3, MaxKids=3, Churn="TRUE"),
}
THOROUGH = {
    "single5": inst(["W", "S"], ["insert", "insert-refused", "reorder", "remove"], MaxGen=4, MaxKids=4, Refusals="TRUE"),
    "filter3": inst(["W", "S"], ["subscribe", "getdata", "batch-first"], PPayloads="{1, 2}", Filters="{0, 1}", Explicit='{"x"}', MaxGen=2, MaxKids=3, Subs='{"S", "W"}', Batches="TRUE", QuietOps="TRUE", Refusals="TRUE"),
    "two3":    inst(["W", "S"], ["clone", "restore"], Parents='{"p", "q"}', Explicit='{"x"}', MaxGen=2, MaxKids=3, Clones="TRUE"),
}
REACH = [("F26", {"Parents": '{"p", "q"}', "Explicit": "{}", "MaxGen": 2, "MaxKids": 2, "Clones": "TRUE", "Deviations": '{"F26"}'}, ["NoDuplicates"]),
         ("pos1", {"Deviations": '{"pos1"}'}, ["ReplayOK"]), ("prelen", {"Deviations": '{"prelen"}'}, ["OpsFit"]), ("silentrm", {"Deviations": '{"silentrm"}'}, ["ReplayOK"]),
         ("staleentry", {"Deviations": '{"staleentry"}'}, ["EntriesAreChildren"]),
         ("Untracked", {"PPayloads": "{1, 2}", "Filters": "{0, 1}"}, ["Reach_Untracked"]), ("Skip", {}, ["Reach_Skip"]), ("Long", {}, ["Reach_Long"])]


def opname(cmd):
    if cmd.get("hold"): return "batch-first"
    if cmd.get("refused"): return cmd["op"] + "-refused"
    if cmd.get("quiet"): return "quiet-" + cmd["op"]
    if cmd["op"] == "set" and cmd.get("idx"): return "set-idx"
    return cmd["op"]


def run(v, tier, seed):
    rc.build_refl()
    W = lambda n: vlib.scratch("C13", n)
    insts = dict(QUICK)
    if tier == "thorough": insts.update(THOROUGH)
    tot = {"states": 0, "transitions": 0, "edges": 0, "walks": 0, "followed": 0, "steps": 0, "exp": 0, "oracle": 0, "msgs": 0, "nontrivial": 0}
    notes = []; samples = []

    def model_and_replay(name, I):
        c = dict(I["c"]); c["RECORD"] = "TRUE"
        cfg = rc.write_cfg("gen_C13_%s.cfg" % name, "Spec", c, INVS, view="view")
        r = vlib.tlc("IndexImpl", cfg, rc.FAMILY, workers=(2 if tier == "quick" else 4), timeout=(600 if tier == "quick" else 3000), heap="6g")
        vlib.require_ok(r, "IndexImpl instance %s" % name)
        if not r.printed: raise vlib.MachineryError("IndexImpl instance %s printed no transitions" % name)
        walks, st = rc.cover_walks(r.printed, maxlen=150)
        if st["edges_covered"] != st["graph_edges"] or st["graph_states"] != r.distinct:
            raise vlib.MachineryError("instance %s: transition cover incomplete: %s, TLC found %d states" % (name, st, r.distinct))
        ops = {}
        for e in r.printed: ops[opname(e["step"]["cmd"])] = ops.get(opname(e["step"]["cmd"]), 0) + 1
        missing = [o for o in I["need"] if not ops.get(o)]
        if missing: raise vlib.MachineryError("instance %s: vacuity guard: commands never taken: %s" % (name, missing))
        seen = set(); nontrivial = 0       # transitions that change the state
        for e in r.printed:
            k = (e["pre"], str(e["step"]["cmd"]))
            if k in seen: continue
            seen.add(k)
            if e["pre"] != e["post"]: nontrivial += 1
        smp = [w for w in walks if len(w) >= 5][:1]
        del r.printed[:]
        bf = W("beh_%s.ndjson" % name); rep = W("rep_%s.ndjson" % name)
        vlib.write_ndjson(bf, [{"id": i, "kind": "index", "sessions": I["sessions"], "connect": I["sessions"], "maxkids": (int(c["MaxKids"]) if c["Refusals"] == "TRUE" else 0), "steps": w} for i, w in enumerate(walks)])
        rc.run_refl(["replay", bf, rep], timeout=(300 if tier == "quick" else 2400))
        rows = vlib.read_ndjson(rep)
        os.remove(bf)
        return name, r, st, ops, nontrivial, rows, smp

    def model_only(name, I):
        cfg = rc.write_cfg("gen_C13_MC_%s.cfg" % name, "Spec", I["c"], INVS)
        r = vlib.tlc("IndexImpl", cfg, rc.FAMILY, workers=6, timeout=3000, heap="8g")
        vlib.require_ok(r, "IndexImpl instance %s" % name)
        return name, r

    def reach(tag, over, invs):
        c = dict(BASE); c.update(over)
        cfg = rc.write_cfg("gen_C13_Reach_%s.cfg" % tag, "Spec", c, invs)
        r = vlib.tlc("IndexImpl", cfg, rc.FAMILY, workers=1, timeout=600, heap="2g")
        if r.error: raise vlib.MachineryError("Reach %s: %s" % (tag, r.error))
        return tag, invs[0], r.violated

    def explore(histories, ncmds, ntraces):
        rep = W("explore.ndjson"); tr = W("trace.ndjson")
        rc.run_refl(["explore", "c13", histories, ncmds, seed, rep, tr, ntraces], timeout=(300 if tier == "quick" else 2400))
        rows = vlib.read_ndjson(rep)
        if any(r.get("hang") for r in rows): return rows, "NotAccepted", None, tr      # ended by the watchdog (reported from the rows): the trace file is cut off
        if not os.path.exists(os.path.join(vlib.SPEC, rc.FAMILY, "IndexTrace.cfg")): raise vlib.MachineryError("spec/Reflector/IndexTrace.cfg is missing")
        r = vlib.tlc("IndexTrace", "IndexTrace.cfg", rc.FAMILY, workers=1, timeout=(600 if tier == "quick" else 3000), env={"TRACE": tr}, keep_out=True, heap="6g")
        if r.error and not r.violated: raise vlib.MachineryError("IndexTrace: " + r.error)
        m = re.search(r'"maxline", (\d+), "of", (\d+)', r.out)
        lines = [int(x) for x in re.findall(r"^/\\ l = (\d+)", r.out, re.M)]
        verdict = r.violated or ("NotAccepted" if (m and int(m.group(1)) == int(m.group(2)) + 1) else "stuck")
        line = (max(lines) - 1) if lines else (int(m.group(1)) if m else None)
        r.out = ""
        return rows, verdict, line, tr

    nh, nc, nt = (500, 200, 20) if tier == "quick" else (12000, 300, 120)      # histories, commands per history, histories logged for TLC
    big = {}
    if tier == "thorough": big["two3"] = insts.pop("two3")     # 2.8 million transitions: model-checked, not printed
    with cf.ThreadPoolExecutor(max_workers=(5 if tier == "quick" else 4)) as ex:
        f_ex = ex.submit(explore, nh, nc, nt)
        f_in = [ex.submit(model_and_replay, n, I) for n, I in sorted(insts.items())]
        f_mc = [ex.submit(model_only, n, I) for n, I in big.items()]
        f_re = [ex.submit(reach, *x) for x in REACH]
        for f in f_re:
            tag, inv, violated = f.result()
            if violated != inv: raise vlib.MachineryError("vacuity guard: the variant %s of IndexImpl does not violate %s (TLC: %s)" % (tag, inv, violated))
        for f in f_in:
            name, r, st, ops, nontrivial, rows, smp = f.result()
            summ = rc.judge_rows(v, rows, "C13", "replay of a behaviour of IndexImpl (instance %s)" % name, "replay-" + name)
            tot["states"] += r.distinct; tot["transitions"] += r.generated; tot["edges"] += st["graph_edges"]; tot["walks"] += summ["behaviours"]
            tot["followed"] += summ["followed"]; tot["steps"] += summ["steps"]; tot["exp"] += summ["expectations_compared"]; tot["oracle"] += summ["oracle_evaluations"]; tot["msgs"] += summ["messages_received"]
            tot["nontrivial"] += nontrivial
            notes.append({"instance": name, "distinct": r.distinct, "generated": r.generated, "depth": r.depth, "tlc_wall_s": round(r.wall, 1), "transitions_covered": st["graph_edges"],
                          "behaviours": summ["behaviours"], "followed": summ["followed"], "commands": ops})
            samples += [{"kind": "behaviour of IndexImpl replayed (instance %s)" % name, "steps": s[:5]} for s in smp]
        for f in f_mc:
            name, r = f.result()
            tot["states"] += r.distinct; tot["transitions"] += r.generated
            notes.append({"instance": name + " (model-checked only)", "distinct": r.distinct, "generated": r.generated, "depth": r.depth, "tlc_wall_s": round(r.wall, 1)})
        rows, tviol, tline, tr = f_ex.result()
        esum = rc.judge_rows(v, rows, "C13", "random history", "explore")
        accepted = (tviol == "NotAccepted")
        if tviol in ("ReplayOK", "OpsFit", "ServerIndexOK"):
            v.violation("recorded history violates %s of IndexAbs at line %s of %s" % (tviol, tline, tr), {"trace": tr, "line": tline, "invariant": tviol}, tag="trace")
        elif not accepted:
            v.drift += 1; vlib.log("DRIFT property=C13 recorded histories are not accepted by IndexTrace (%s), line %s of %s" % (tviol, tline, tr))
    if tot["followed"] == 0: raise vlib.MachineryError("no behaviour could be followed")
    cov = {"states": tot["states"], "transitions": tot["transitions"],
           "traces_validated_against_impl": tot["followed"] + (esum["traces_written"] if accepted else 0),
           "behaviours_replayed": tot["walks"], "behaviours_followed_to_the_end": tot["followed"], "replay_steps": tot["steps"],
           "model_transitions_covered_by_replay": tot["edges"], "index_expectations_compared": tot["exp"],
           "oracle_evaluations_on_server_state": tot["oracle"] + esum["oracle_evaluations"], "update_messages_received": tot["msgs"] + esum["messages_received"],
           "random_histories": esum["histories"], "random_commands": esum["commands"], "random_command_mix": esum["ops"], "index_mirror_checks": esum["index_mirror_checks"],
           "histories_validated_by_tlc": esum["traces_written"] if accepted else 0, "trace_lines_validated_by_tlc": esum["trace_lines"] if accepted else 0,
           "evaluations": tot["steps"] + esum["commands"], "distinct_nontrivial": tot["nontrivial"],
           "rule": "one case = one transition (state, command) of an IndexImpl instance; all of them are replayed (distinct by construction); non-trivial = the command changes the state (an index, the children or payload of an indexed node, a subscriber's view)",
           "exhaustive": True, "model_runs": notes, "samples": samples[:4]}
    assumptions = ["C13 precondition (DESIGN.md): index updates go to every path-subscribed session regardless of filters, the snapshot is part of the FILTERED data result: a client tracks a node's index from the moment it is path-subscribed AND has the snapshot or the index was empty; untracked nodes are not judged",
                   "quiet removals change an index silently (documented): the node is untracked until the next snapshot",
                   "IndexImpl starts the generated-name counter of every new node at 0, as DataNode::Init does since the repair of F40; the harness touches no private state",
                   "a snapshot (clear opcode) replaces the client's index, later opcodes are applied to it; quiet removals are not put into BATCHes (what follows them there cannot be replayed); a subscribe / request inside a BATCH is its first or its last part",
                   "single-threaded pumping of the server to quiescence after every command"]
    return "model_checking", cov, assumptions
