"""C17 - String behaves as an ideal byte string across its small-buffer boundary.

 spec/ByteString/ByteString.tla is the ideal, always NUL-terminated byte string: every String operation of the property's list
 with its DOCUMENTED result (header comments of util/String.h), `Either` (not determined) where the header is silent, operands
 that alias the String itself = a copy taken before the call, Flatten = bytes + NUL, Unflatten rejects unterminated input.

 0. the header's own examples evaluate to the documented results (BSExamples.tla), and TLC model-checks the algebraic laws of
    the oracle (BSMachine.tla: LawRoundTrip, LawSplit, LawSearch, LawReplace, LawCase, LawTrim, LawReverse, LawCompare,
    LawInsert, LawArg, LawNumber, TypeOK) in every reachable state of the exhaustive instance; each law is shown to fail
    when one deliberate error is planted in the oracle (CONSTANT Bug: vacuity guard).
 1. spec -> code, exhaustive: TLC dumps the graph of "build a String of a length around the inline capacity, inline or on the
    heap; then any one call with any operand of the menus"; tools/pathcover.py covers EVERY transition; harness/st.cpp
    replays them on the real String (asan variant) and compares after every step Length(), the Cstr() bytes incl. the NUL,
    strlen(), the second String and the returned value.
 2. spec -> code, deep: TLC -simulate generates seeded random behaviours (12 calls, full menus, lengths up to 31+), same replay.
 3. code -> spec: a seeded random driver makes long call sequences on the real String with operands around the boundary incl.
    self-aliasing (the object, Cstr(), Cstr()+k), logs every call; TLC validates every line against ByteString (BSTrace.tla).
 Storage-mode transitions (inline <-> heap) before / after every call are recorded by the harness and required as coverage.
"""
import concurrent.futures as cf, json, os, re
import vlib, pathcover

FINDINGS = ("F29", "F30", "F33")
LAWS = ["LawRoundTrip", "LawSplit", "LawSearch", "LawReplace", "LawCase", "LawTrim", "LawReverse", "LawCompare", "LawInsert", "LawArg", "LawNumber"]
# planted error -> the law that must catch it, and an instance on which it shows
BUGS = {"unflatten": ("LawRoundTrip", "{2}", "{1, 16}"), "substr": ("LawSplit", "{2}", "{1, 16}"), "index": ("LawSearch", "{1}", "{7, 16}"),
        "replace": ("LawReplace", "{1}", "{7, 16}"), "case": ("LawCase", "{2}", "{7, 16}"), "trim": ("LawTrim", "{2}", "{15}"),
        "reverse": ("LawReverse", "{2}", "{7}"), "compare": ("LawCompare", "{2}", "{7, 16}"), "insert": ("LawInsert", "{2}", "{7}"),
        "arg": ("LawArg", "{4}", "{7}"), "number": ("LawNumber", "{2}", "{1}")}
SPECDIR = "ByteString"


def trace_cfg(path, dev):
    with open(path, "w") as f: f.write('SPECIFICATION TraceSpec\nCONSTANTS\n  Deviations = %s\n  Bug = "none"\nCONSTRAINT Track\nPOSTCONDITION Report\n' % dev)
    return path


def validate_trace(cfgpath, tr):
    """TLC on one recorded trace.  Returns (first unexplained line or None if accepted, number of lines, F29, F30, TLCResult)"""
    r = vlib.tlc("BSTrace", cfgpath, SPECDIR, workers=1, timeout=3000, heap="4g", env={"TRACE": tr}, keep_out=True, extra=["-noGenerateSpecTE"])
    m = re.search(r'<<"maxline", (\d+), "of", (\d+), "F29", (\d+), "F30", (\d+)>>', r.out)
    if r.error or r.violated or not m: raise vlib.MachineryError("BSTrace on %s: %s" % (tr, r.error or r.violated or r.out[-2000:]))
    maxline, n, d29, d30 = (int(x) for x in m.groups())
    return (None if maxline > n else maxline), n, d29, d30, r


def selftest(st, dev, W, seed):
    """The binding rejects what it must: one corrupted field of a recorded call, one corrupted step of a behaviour."""
    prefix = W("self"); rep = W("self_rep.ndjson"); tr = prefix + ".0.ndjson"
    rc, out, err = vlib.run([st, "explore", "12", "200", str(seed + 7), prefix, "1", rep, "0"], timeout=600, env={"C17_TOLERATE": dev})
    if rc in (66, 67) or rc < 0 or rc > 128: return 0, {"line": None, "trace": tr, "explain": {"crash": rc, "stderr": err[-6000:]}}
    if rc != 0: raise vlib.MachineryError("selftest: st explore rc=%s %s" % (rc, err[-800:]))
    lines = open(tr).read().splitlines()
    c = trace_cfg(W("self.cfg"), dev)
    hits = 0
    first, n, _, _, r = validate_trace(c, tr)       # the recording as it is: a rejection here is a verdict on the code, not on the self-test
    if first is not None: return hits, {"line": first, "trace": tr, "explain": r.printed[0] if r.printed else None}
    # (a) a changed byte of the recorded contents, (b) a returned number off by one: TLC must stop exactly there
    SAFE_RI = ("Length", "CompareToStr", "CompareToCstr", "EqStr", "EqCstr", "StartsWithStr", "EndsWithStr", "StartsWithChar", "EndsWithChar", "IndexOfChar", "LtStr", "GeCstr", "CharAt")
    for kind in ("rs", "ri"):
        def usable(line):
            if ('"%s":' % kind) not in line: return False
            op = json.loads(line)["op"]
            return (op in SAFE_RI) if kind == "ri" else ('"rs":[]' not in line and "Replace" not in op and "Unflatten" not in op)
        k = next(i for i in range(len(lines) // 2, len(lines)) if usable(lines[i]))
        row = json.loads(lines[k])
        if kind == "rs": row["rs"][-1] = 98 if row["rs"][-1] != 98 else 97
        else: row["ri"] += 1
        bad = lines[:k] + [json.dumps(row, separators=(",", ":"))] + lines[k + 1:]
        bt = W("self_bad.ndjson")
        with open(bt, "w") as f: f.write("\n".join(bad) + "\n")
        first, n, _, _, r = validate_trace(c, bt)
        if first != k + 1: raise vlib.MachineryError("selftest: a recorded call with a corrupted '%s' (line %d, %s) was not rejected there (first unexplained line: %s)" % (kind, k + 1, row["op"], first))
        hits += 1
        os.remove(bt)
    for p in (tr, rep, c):
        try: os.remove(p)
        except OSError: pass
    return hits, None


def run(v, tier, seed):
    vlib.make("asan", "st")
    st = vlib.binpath("asan", "st")
    W = lambda n: vlib.scratch("C17", "%d_%s" % (os.getpid(), n))
    listed = [f for f in FINDINGS if v.is_listed(f)]
    dev = "{" + ", ".join('"%s"' % f for f in listed) + "}"
    rc, out, err = vlib.run([st, "ops"], timeout=60)
    if rc != 0: raise vlib.MachineryError("st ops failed: rc=%s %s" % (rc, err[-500:]))
    allops = out.split()
    thorough = (tier == "thorough")
    made = []

    def cfg(name, record, gen, steps, pats, lens, idx="{0, 1, 16}", cnts="{1}", ops=None, invs=None, bug="none", maxlen=120):
        p = W(name + ".cfg"); made.append(p)
        with open(p, "w") as f:
            f.write('SPECIFICATION Spec\nCONSTANTS\n  Deviations = %s\n  Bug = "%s"\n  RECORD = "%s"\n  GEN = "%s"\n  MaxSteps = %d\n  MaxLen = %d\n  Lens = %s\n  Pats = %s\n  IdxBase = %s\n  Cnts = %s\n' %
                    (dev, bug, record, gen, steps, maxlen, lens, pats, idx, cnts))
            f.write("  Ops <- AllOps\n" if ops is None else "  Ops = {%s}\n" % ", ".join('"%s"' % o for o in ops))
            if invs: f.write("INVARIANTS " + " ".join(invs) + "\n")
        return p

    # ---- 0. the oracle itself --------------------------------------------------------------------------------------------
    def examples():
        r = vlib.tlc("BSExamples", "BSExamples.cfg", SPECDIR, workers=1, timeout=300, heap="2g", keep_out=True)
        vlib.require_ok(r, "BSExamples")
        m = re.search(r'<<"examples", (\d+)>>', r.out)
        if "FAILED EXAMPLE" in r.out or not m:
            raise vlib.MachineryError("BSExamples: the oracle does not reproduce the header's examples:\n" + "\n".join(l for l in r.out.splitlines() if "EXAMPLE" in l)[:2000])
        return int(m.group(1))

    def laws():
        c = cfg("laws", "none", "all", 2, "{1, 2, 4}", "{1, 7, 16}" if not thorough else "{0, 1, 2, 7, 14, 15, 16, 17, 31}", invs=["TypeOK"] + LAWS)
        r = vlib.tlc("BSMachine", c, SPECDIR, coverage=True, workers=6, timeout=3000, heap="6g")
        vlib.require_ok(r, "BSMachine laws")
        vlib.require_coverage(r, ["Setup", "Step"], "BSMachine laws")
        return r

    def reach(bug):
        law, pats, lens = BUGS[bug]
        c = cfg("reach_" + bug, "none", "all", 2, pats, lens, invs=[law], bug=bug)
        r = vlib.tlc("BSMachine", c, SPECDIR, workers=2, timeout=900, heap="2g", extra=["-noGenerateSpecTE"])
        if r.error: raise vlib.MachineryError("Reach_%s: %s" % (bug, r.error))
        return r.violated == law

    # ---- 1./2. spec -> code ------------------------------------------------------------------------------------------------
    def replay(tag, beh):
        bf = W(tag + "_beh.ndjson"); rep = W(tag + "_rep.ndjson"); prog = W(tag + "_prog.txt")
        vlib.write_ndjson(bf, [{"id": i, "steps": s} for i, s in enumerate(beh)])
        rc, out, err = vlib.run([st, "replay", bf, rep, prog], timeout=3000)
        crash = None
        if rc != 0:
            if rc in (66, 67) or rc < 0 or rc > 128:
                try: bid = int(open(prog).read().split()[0])
                except Exception: bid = -1
                crash = {"rc": rc, "behaviour": beh[bid] if 0 <= bid < len(beh) else None, "stderr": err[-6000:]}
                return None, [], crash
            raise vlib.MachineryError("st replay (%s) failed rc=%s: %s %s" % (tag, rc, out[-500:], err[-1500:]))
        rows = vlib.read_ndjson(rep)
        for p in (bf, rep, prog):
            try: os.remove(p)
            except OSError: pass
        return [r for r in rows if r.get("summary")][0], [r for r in rows if not r.get("summary")], None

    def digest(beh):
        """distinct (contents before, operation, arguments) tuples of the steps, and which findings' cases occur"""
        hs = set(); fids = set()
        for b in beh:
            prev = []
            for s_ in b:
                hs.add(vlib.sha([prev, s_["op"], s_["x"], s_["xa"], s_["xk"], s_["y"], s_["ya"], s_["i"], s_["j"], s_["m"], s_["c"], s_["d"], s_["f"], s_["as"], s_["tk"], s_["tv"]]))
                prev = s_["es"]
                if s_.get("fid"): fids.add(s_["fid"])
        return hs, fids

    def gen_all(tag, pats, lens, ops=None):
        c = cfg("all_" + tag, "last", "all", 2, pats, lens, ops=ops, invs=["TypeOK"])
        dot = W("all_%s.dot" % tag)
        r = vlib.tlc("BSMachine", c, SPECDIR, workers=6, timeout=3000, heap="6g", dump=dot)
        vlib.require_ok(r, "BSMachine graph dump " + tag)
        beh, stt = pathcover.behaviours(dot)
        os.remove(dot)
        if stt["edges_covered"] != stt["graph_edges"]: raise vlib.MachineryError("path cover incomplete: %s" % stt)
        summ, rows, crash = replay("all_" + tag, beh)
        hs, fids = digest(beh)
        return r, stt, [beh[len(beh) // 3], beh[2 * len(beh) // 3]], hs, fids, summ, rows, crash

    def gen_sim(k, ntraces):
        c = cfg("sim%d" % k, "hist", "random", 12, "{1, 2, 3, 4, 5, 6}", "{0, 1, 2, 7, 14, 15, 16, 17, 31}", idx="{0, 1, 2, 7, 14, 15, 16, 17, 31}", cnts="{0, 1, 2, 16}")
        r = vlib.tlc("BSMachine", c, SPECDIR, workers=1, timeout=3000, heap="3g", simulate=ntraces, depth=20, seed=seed * 1000 + k)
        if r.error: raise vlib.MachineryError("BSMachine simulation %d: %s" % (k, r.error))
        beh = r.printed
        if not beh: raise vlib.MachineryError("BSMachine simulation %d printed no behaviour" % k)
        summ, rows, crash = replay("sim%d" % k, beh)
        hs, fids = digest(beh)
        r.printed = []; r.out = ""
        return r, len(beh), beh[0], hs, summ, rows, crash

    # ---- 3. code -> spec ---------------------------------------------------------------------------------------------------
    def explore(k, runs, steps):
        prefix = W("tr%d" % k); rep = W("ex%d_rep.ndjson" % k); tr = prefix + ".0.ndjson"
        cmd = [st, "explore", str(runs), str(steps), str(seed), prefix, "1", rep, str(k * runs)]
        rc, out, err = vlib.run(cmd, timeout=3000, env={"C17_TOLERATE": ",".join(listed)})
        if rc != 0:
            if rc in (66, 67) or rc < 0 or rc > 128:
                tail = open(tr, errors="replace").read()[-4000:] if os.path.exists(tr) else ""
                return None, {"crash": {"rc": rc, "cmd": " ".join(cmd), "stderr": err[-6000:], "last_lines_flushed": tail.splitlines()[-12:]}}
            raise vlib.MachineryError("st explore failed rc=%s: %s %s" % (rc, out[-500:], err[-1500:]))
        summ = [r for r in vlib.read_ndjson(rep) if r.get("summary")][0]
        c = trace_cfg(W("trace%d.cfg" % k), dev); made.append(c)
        first, n, d29, d30, r = validate_trace(c, tr)
        maxline = n + 1 if first is None else first
        res = {"lines": n, "accepted": maxline > n, "F29": d29, "F30": d30, "wall": r.wall, "cmd": " ".join(cmd)}
        if maxline <= n:
            lines = open(tr).read().splitlines()
            res["explain"] = r.printed[0] if r.printed else None
            res["context"] = lines[max(0, maxline - 8):maxline]
            keep = W("rejected_trace%d.ndjson" % k)
            with open(keep, "w") as f: f.write("\n".join(lines[:maxline]) + "\n")
            res["trace"] = keep
        else:
            res["sample"] = open(tr).read(20000).splitlines()[1:4]
        for p in (tr, rep):
            try: os.remove(p)
            except OSError: pass
        return summ, res

    nsim, simtraces = (6, 1500) if not thorough else (40, 5000)
    nshards, runs, steps = (8, 120, 200) if not thorough else (40, 1250, 200)
    if os.environ.get("C17_REDUCED"):     # a reduced thorough run (used while building the check)
        nsim, simtraces, nshards, runs = 8, 3000, 12, 500
    tot = {"states": 0, "transitions": 0, "behaviours": 0, "followed": 0, "steps": 0, "compared": 0, "undetermined": 0, "i2h": 0, "h2i": 0, "aliased": 0,
           "lines": 0, "runs": 0, "calls": 0, "ex_i2h": 0, "ex_h2i": 0, "ex_aliased": 0, "dev29": 0, "dev30": 0}
    modes_replay, modes_explore = {}, {}
    samples = []; notes = []; distinct = set()

    def addmodes(dst, m):
        for k2, c4 in m.items():
            d = dst.setdefault(k2, [0, 0, 0, 0])
            for q in range(4): d[q] += c4[q]

    def account(tag, hs, summ, rows, crash, directed=False):
        if crash:
            v.violation("sanitizer report / crash while replaying a behaviour of ByteString on the real String (%s): rc=%s" % (tag, crash["rc"]), crash, tag="crash_" + tag)
            return
        tot["behaviours"] += summ["behaviours"]; tot["followed"] += summ["followed"]; tot["steps"] += summ["steps"]; tot["compared"] += summ["compared"]
        tot["undetermined"] += summ["undetermined"]; tot["i2h"] += summ["inline_to_heap"]; tot["h2i"] += summ["heap_to_inline"]; tot["aliased"] += summ["aliased_calls"]
        addmodes(modes_replay, summ["modes"])
        distinct.update(hs)
        for r in rows:
            if r.get("violations"):
                v.violation("replay of a TLC behaviour of ByteString (%s), step %s: %s" % (tag, r.get("step"), "; ".join(r["violations"])), r, tag="replay_" + tag)
            if r.get("known") and directed:
                for kf in r["known"]: v.known_finding(kf.split(":")[0], kf)

    try:
        with cf.ThreadPoolExecutor(max_workers=10) as ex:
            f_ex = ex.submit(examples)
            f_laws = ex.submit(laws)
            f_all = [ex.submit(gen_all, "p2", "{2}", "{0, 1, 14, 15, 16, 17}")]
            if thorough:
                f_all += [ex.submit(gen_all, "p1", "{1}", "{0, 2, 14, 15, 16, 17, 31}"), ex.submit(gen_all, "p3", "{3}", "{1, 7, 15, 16, 31}"),
                          ex.submit(gen_all, "p4", "{4}", "{2, 7, 15, 16, 17}"), ex.submit(gen_all, "p6", "{6}", "{1, 14, 15, 16, 31}")]
            # the directed cases of the known findings: partial-match subject with the table {aab -> B}; LastIndexOf(str, from); LastIndexOfIgnoreCase(letter, NO_LIMIT)
            f_dir = ex.submit(gen_all, "directed", "{3}", "{7, 16}", ["WithReplacementsTable", "ReplaceTable", "LastIndexOfCstrFrom", "LastIndexOfStrFrom", "LastIndexOfICChar"])
            f_sim = [ex.submit(gen_sim, k, simtraces) for k in range(nsim)]
            f_tr = [ex.submit(explore, k, runs, steps) for k in range(nshards)]
            f_reach = {b: ex.submit(reach, b) for b in sorted(BUGS)}
            f_self = ex.submit(selftest, st, dev, W, seed)

            nex = f_ex.result()
            r = f_laws.result(); tot["states"] += r.distinct; tot["transitions"] += r.generated
            notes.append({"run": "laws", "distinct": r.distinct, "generated": r.generated, "wall_s": round(r.wall, 1)})
            for b, f in f_reach.items():
                if not f.result(): raise vlib.MachineryError("vacuity guard: with the planted error '%s' the oracle does not violate %s" % (b, BUGS[b][0]))
            for f in f_all:
                r, stt, smp, hs, fids, summ, rows, crash = f.result(); tot["states"] += r.distinct; tot["transitions"] += r.generated
                notes.append({"run": "exhaustive", "graph": stt, "wall_s": round(r.wall, 1)})
                account("exhaustive", hs, summ, rows, crash)
                if not samples: samples += [{"kind": "exhaustive behaviour replayed", "steps": b} for b in smp]
            r, stt, smp, hs, fids, summ, rows, crash = f_dir.result(); tot["states"] += r.distinct; tot["transitions"] += r.generated
            for fid in listed:
                if fid not in fids: raise vlib.MachineryError("the directed instance does not contain a case of " + fid)
            account("directed", hs, summ, rows, crash, directed=True)
            dir_clean = (not crash) and not any(r_.get("violations") for r_ in rows)
            dir_sample = smp[0]
            simn = 0
            for f in f_sim:
                r, nb, smp, hs, summ, rows, crash = f.result(); simn += nb
                if len(notes) < 12: notes.append({"run": "simulation", "behaviours": nb, "wall_s": round(r.wall, 1)})
                account("simulation", hs, summ, rows, crash)
                if len(samples) < 3: samples.append({"kind": "simulated behaviour replayed", "steps": smp})
            notes.append({"run": "simulations", "processes": len(f_sim), "behaviours": simn})
            for k, f in enumerate(f_tr):
                summ, res = f.result()
                if summ is None:
                    v.violation("sanitizer report / crash in the random driver on the real String (shard %d): rc=%s" % (k, res["crash"]["rc"]), res["crash"], tag="crash_explore")
                    continue
                tot["lines"] += res["lines"]; tot["calls"] += summ["calls"]; tot["ex_i2h"] += summ["inline_to_heap"]; tot["ex_h2i"] += summ["heap_to_inline"]
                tot["ex_aliased"] += summ["aliased_calls"]; tot["dev29"] += res["F29"]; tot["dev30"] += res["F30"]
                addmodes(modes_explore, summ["modes"])
                if res["accepted"]:
                    tot["runs"] += summ["runs"]
                    if len(samples) < 4: samples.append({"kind": "recorded calls validated by TLC", "lines": res["sample"]})
                else:
                    e = res.get("explain") or {}
                    what = "recorded call is not what ByteString allows: line %s of %s: observed %s; before the call s=%s; the documentation gives %s" % (
                        e.get("line"), res.get("trace"), json.dumps(e.get("observed"))[:400], json.dumps(e.get("before_s")), json.dumps(e.get("expected"))[:400])
                    v.violation(what, res, tag="trace%d" % k)
            # ---- self-tests of the binding (after everything else: a defect of the code must surface as a violation, not as their failure)
            def selftests():
                if dir_clean:   # a behaviour whose last step expects one byte more must be flagged by the replay, at that step
                    bad = json.loads(json.dumps(dir_sample)); bad[-1]["es"] = bad[-1]["es"] + [97]
                    _, brows, bcrash = replay("selfcorrupt", [bad])
                    if bcrash or len(brows) != 1 or brows[0].get("step") != len(bad) - 1 or not brows[0].get("violations"):
                        raise vlib.MachineryError("selftest: a behaviour with a corrupted expected value was not flagged by the replay: %s" % (brows or bcrash))
                hits, rejected = f_self.result()
                if rejected:
                    v.violation("recorded call is not what ByteString allows (self-test trace): line %s of %s: %s" % (rejected["line"], rejected["trace"], json.dumps(rejected["explain"])[:600]), rejected, tag="trace_self")
                return hits
            try: hits = selftests() + 1
            except vlib.MachineryError as ex:
                if not v.violations: raise
                vlib.log("NOTE property=C17 self-test of the binding not completed because the code already violates the property: %s" % str(ex)[:300]); hits = 0
    finally:
        for p in made:
            try: os.remove(p)
            except OSError: pass

    # ---- vacuity guards on what was exercised -----------------------------------------------------------------------------
    if not v.violations:
        for name, modes, i2h, h2i in (("replay", modes_replay, tot["i2h"], tot["h2i"]), ("random driver", modes_explore, tot["ex_i2h"], tot["ex_h2i"])):
            never = [o for o in allops if sum(modes.get(o, [0])) == 0]
            if never: raise vlib.MachineryError("vacuity guard (%s): operations never executed: %s" % (name, never))
            onemode = [o for o in allops if modes[o][0] + modes[o][1] == 0 or modes[o][2] + modes[o][3] == 0]
            if onemode: raise vlib.MachineryError("vacuity guard (%s): operations not executed in both storage modes: %s" % (name, onemode))
            if i2h == 0 or h2i == 0: raise vlib.MachineryError("vacuity guard (%s): storage-mode transitions inline->heap %d, heap->inline %d" % (name, i2h, h2i))
        if tot["followed"] == 0 or tot["runs"] == 0: raise vlib.MachineryError("nothing was replayed / validated")

    crossing_ops = sorted(o for o in allops if modes_replay.get(o, [0, 0, 0, 0])[1] + modes_explore.get(o, [0, 0, 0, 0])[1] > 0)
    cov = {"states": tot["states"], "transitions": tot["transitions"],
           "traces_validated_against_impl": tot["followed"] + tot["runs"],
           "behaviours_replayed": tot["behaviours"], "behaviours_followed_to_the_end": tot["followed"], "replay_steps": tot["steps"],
           "fields_compared_with_the_spec": tot["compared"], "fields_not_determined_by_the_documentation": tot["undetermined"],
           "replay_inline_to_heap": tot["i2h"], "replay_heap_to_inline": tot["h2i"], "replay_aliased_calls": tot["aliased"],
           "random_runs_validated_by_tlc": tot["runs"], "recorded_calls": tot["calls"], "trace_lines_validated_by_tlc": tot["lines"],
           "driver_inline_to_heap": tot["ex_i2h"], "driver_heap_to_inline": tot["ex_h2i"], "driver_aliased_calls": tot["ex_aliased"],
           "lines_accepted_only_as_F29": tot["dev29"], "lines_accepted_only_as_F30": tot["dev30"],
           "operations": len(allops), "operations_that_moved_inline_to_heap": len(crossing_ops),
           "corrupted_recordings_rejected_by_selftest": hits, "header_examples_evaluated": nex, "laws_checked": LAWS, "planted_errors_caught": sorted(BUGS),
           "evaluations": tot["steps"] + tot["calls"], "distinct_nontrivial": len(distinct),
           "rule": "distinct (contents before, operation, arguments) tuples among the replayed TLC steps (exhaustive instance: every transition of the graph "
                   "'String of length 0/1/14/15/16/17 inline or on the heap, then any one of the %d calls with any operand of the menus'; plus seeded "
                   "simulation of 12-call behaviours); recorded random calls are counted under evaluations only" % len(allops),
           "exhaustive": True, "model_runs": notes, "samples": samples[:4]}
    assumptions = ["the oracle is the header documentation of util/String.h; where it is silent (empty needle, overlapping occurrences, separator 'if necessary', numbers beyond 9 digits, "
                   "white space / leading zeros / non-ASCII bytes in the natural-order compare, word boundaries of ToMixedCase after non-letters, ambiguous %N token texts) only safety is checked",
                   "bytes >= 0x80 are opaque (no case, compare as unsigned) - 'C' locale; the alphabet is a b A B blank tab % - 1 2 and 0xC3",
                   "allocation failure paths (B_OUT_OF_MEMORY) and lengths beyond a few hundred bytes are out of scope; tolerated deviations: %s" % (listed or "none")]
    return "model_checking", cov, assumptions
