"""Shared machinery of C01 and C08 (spec family WireFormat, harness programs wire / wire_mini / wire_micro / wire_py.py)."""
import collections, json, os, re, subprocess, sys, time
import vlib, pathcover

sys.setrecursionlimit(max(sys.getrecursionlimit(), 20000))     # vectors with 200 levels of sub-Messages are JSON values about 1000 levels deep

FAM = "WireFormat"
SPECDIR = os.path.join(vlib.SPEC, FAM)
KINDS = ["bool", "int8", "int16", "int32", "int64", "float", "double", "string", "point", "rect", "raw", "message"]
GEN_INSTANCES = KINDS + ["nonflat"]
MC_INVS = ["TypeOK", "RoundTrip", "SizeExact", "Idempotent", "NonFlatInvisible", "FrameOK"]
MC_ACTIONS = ["DoAdd", "DoPrepend", "DoSide", "DoRemove", "DoReplace", "DoRemoveName"]


def cfg(name, spec="Spec", consts=None, invs=None, extra=""):
    """writes spec/WireFormat/<name> (generated configs are prefixed gen_<pid tag>_ by the caller)"""
    c = {"Bug": '"none"'}
    c.update(consts or {})
    p = os.path.join(SPECDIR, name)
    with open(p, "w") as f:
        f.write("SPECIFICATION %s\nCONSTANTS\n" % spec)
        for k, v in c.items(): f.write("  %s = %s\n" % (k, v))
        if invs: f.write("INVARIANTS " + " ".join(invs) + "\n")
        f.write(extra)
    return name


def q(s): return '"%s"' % s


# ----------------------------------------------------------------------------------------------
# a path cover of every transition of a dumped state graph (the generic one in tools/pathcover.py is quadratic in the path length)

def cover(dot, maxlen=48):
    inits, nodes, adj = pathcover.load_graph(dot)
    parent = {}; order = []
    dq = collections.deque()
    for i in inits: parent[i] = None; dq.append(i)
    while dq:
        u = dq.popleft(); order.append(u)
        for (v, _) in adj.get(u, ()):
            if v not in parent: parent[v] = u; dq.append(v)
    covered = set(); ptr = collections.defaultdict(int); paths = []
    nedges = sum(1 for u in adj for (v, _) in adj[u] if v != u)

    def next_uncovered(u):
        out = adj.get(u, ())
        k = ptr[u]
        while k < len(out) and (out[k][0] == u or (u, out[k][0]) in covered): k += 1
        ptr[u] = k
        return out[k][0] if k < len(out) else None

    for u in order:
        while True:
            v = next_uncovered(u)
            if v is None: break
            p = []; x = u
            while x is not None: p.append(x); x = parent[x]
            p.reverse()
            cur = u
            while v is not None and len(p) < maxlen:
                covered.add((cur, v)); p.append(v); cur = v
                v = next_uncovered(cur)
            paths.append(p)
    beh = []
    for p in paths:
        steps = [nodes[n] for n in p]
        if any(s is None for s in steps): raise vlib.MachineryError("state without a 'last' record on a path")
        beh.append(steps)
    return beh, {"graph_states": len(nodes), "graph_edges": nedges, "edges_covered": len(covered), "paths": len(paths), "steps": sum(len(p) for p in paths)}


# ----------------------------------------------------------------------------------------------
# helper programs of the other implementations (C codecs: two programs, MiniMessage.c and MicroMessage.c define the same symbols)

def build_helpers(variant="plain"):
    """gcc harness/wire_mini.c + lang/c/minimessage/*.c -> bin/wire_mini; same for micro.  Sources of the codecs from vlib.REPO."""
    bindir = os.path.join(vlib.BUILD, variant, "bin"); os.makedirs(bindir, exist_ok=True)
    san = ["-fsanitize=address,undefined", "-fno-sanitize=bounds,alignment", "-fno-omit-frame-pointer"] if variant == "asan" else []
    out = {}
    for name, sub, srcs in (("wire_mini", "minimessage", ["MiniMessage.c", "MiniMessageGateway.c"]), ("wire_micro", "micromessage", ["MicroMessage.c", "MicroMessageGateway.c"])):
        exe = os.path.join(bindir, name)
        src = [os.path.join(vlib.VERIF, "harness", name + ".c")] + [os.path.join(vlib.REPO, "lang", "c", sub, s) for s in srcs]
        newest = max(os.path.getmtime(s) for s in src)
        if not os.path.exists(exe) or os.path.getmtime(exe) < newest:
            cmd = ["gcc", "-g1", "-O1", "-w", "-I" + vlib.REPO, "-I" + os.path.join(vlib.REPO, "lang", "c", sub)] + san + src + ["-o", exe + ".tmp%d" % os.getpid()]
            r = subprocess.run(cmd, stdout=subprocess.PIPE, stderr=subprocess.STDOUT, text=True)
            if r.returncode != 0: raise vlib.MachineryError("cannot build %s:\n%s" % (name, r.stdout[-3000:]))
            os.replace(exe + ".tmp%d" % os.getpid(), exe)
        out[name] = exe
    out["wire_py"] = os.path.join(vlib.VERIF, "harness", "wire_py.py")
    return out


def harness_env():
    return {"VERIF_REPO": vlib.REPO}


# ----------------------------------------------------------------------------------------------
# running the harness and reading its report

def run_wire(v, args, what, timeout, tag, variant="plain"):
    """runs bin/wire; returns (rows, summary).  A sanitizer report / crash / missing summary on the real code is reported by the caller."""
    rc, out, err = vlib.run([vlib.binpath(variant, "wire")] + [str(a) for a in args], timeout=timeout, env=harness_env())
    rep = [a for a in args if str(a).endswith(".rep.ndjson")]
    rows = vlib.read_ndjson(rep[0]) if rep and os.path.exists(rep[0]) else []
    summ = [r for r in rows if r.get("summary")]
    if rc in (66, 67) or rc < 0 and rc != -999:
        v.violation("%s: sanitizer report / crash in the harness process on the real code (rc=%s): %s" % (what, rc, err[-1500:]), {"cmd": args, "stderr": err[-4000:]}, tag=tag + "_crash")
        return rows, (summ[0] if summ else {"aborted": True})
    if rc == -999:
        v.violation("%s: the harness did not finish within %d s (hang in the real code?)" % (what, timeout), {"cmd": args, "stderr": err[-2000:]}, tag=tag + "_hang")
        return rows, (summ[0] if summ else {"aborted": True})
    if rc != 0:
        vlib.harness_failed(v, rc, out, err, what, tag + "_crash")          # a crash of the real code is a VIOLATION, anything else a machinery error
        return rows, (summ[0] if summ else {"aborted": True})
    if not summ: raise vlib.MachineryError("%s: wire wrote no summary: %s %s" % (what, out[-500:], err[-1500:]))
    for r in rows:      # a helper process that died (sanitizer report in a C codec, Python traceback): keep what it said
        if any("helper died" in x for x in r.get("violations", [])): r["helper_stderr"] = err[-3000:]
    return rows, summ[0]


def report_rows(v, rows, what, tag):
    """turns the noteworthy lines of a harness report into verdicts"""
    for r in rows:
        if r.get("summary"): continue
        if r.get("violations"):
            v.violation("%s: %s" % (what, "; ".join(r["violations"])[:1200]), r, tag=tag)
        elif r.get("drift"):
            v.drift += 1
            if v.drift <= 3: vlib.log("DRIFT property=%s %s: %s" % (v.pid, what, str(r)[:300]))


# ----------------------------------------------------------------------------------------------
# TLC as validator of recorded lines (WireTrace.tla), sharded

def split_trace(path, nshards, starts=("New", "Vec", "Frames", "PyEcho")):
    """splits an ndjson trace into <= nshards files of about equal size, cutting only before a line that starts a new case"""
    lines = open(path).read().splitlines()
    if not lines: return []
    per = max(1, (len(lines) + nshards - 1) // nshards)
    files = []; cur = []
    pat = re.compile(r'^\{"op":"(%s)"' % "|".join(starts))
    for ln in lines:
        if len(cur) >= per and pat.match(ln) and len(files) < nshards - 1:
            files.append(cur); cur = []
        cur.append(ln)
    if cur: files.append(cur)
    out = []
    for k, ls in enumerate(files):
        p = "%s.s%d" % (path, k)
        with open(p, "w") as f: f.write("\n".join(ls) + "\n")
        out.append((p, len(ls)))
    return out


def validate_trace(path, tag, deviations=(), timeout=1500, heap="3g"):
    """returns dict(lines, accepted, first_rejected (1-based or None), status_differs, wall, detail)"""
    name = cfg("gen_%s_Trace.cfg" % tag, spec="TraceSpec", consts={"Deviations": "{%s}" % ", ".join(q(d) for d in deviations)}, invs=[], extra="CONSTRAINT Track\nPOSTCONDITION Report\n")
    for attempt in range(5):      # a Java StackOverflowError in TLC's evaluator was seen once on a trace that validates in every other run (JIT-dependent frame sizes): run again
        r = vlib.tlc("WireTrace", name, FAM, workers=1, timeout=timeout, heap=heap, env={"TRACE": path}, keep_out=True)
        if "StackOverflowError" not in (r.error or "") and "StackOverflowError" not in r.out: break
        vlib.log("note: TLC ended with a Java StackOverflowError on %s (attempt %d); running it again" % (path, attempt + 1))
    try: os.remove(os.path.join(SPECDIR, name))
    except OSError: pass
    m = re.search(r'<<\s*"maxline",\s*(\d+),\s*"of",\s*(\d+),\s*"statusdiffers",\s*(\d+),\s*"pyok",\s*(\d+),\s*"pynative",\s*(\d+),\s*"F38",\s*(\d+),\s*"F39",\s*(\d+),\s*"F45mini",\s*(\d+),\s*"F45micro",\s*(\d+)\s*>>', r.out)
    if r.error or r.violated or not m: raise vlib.MachineryError("WireTrace on %s: %s" % (path, r.error or r.violated or r.out[-2500:]))
    maxline, n, sd, pyok, pyn, f38, f39, f45a, f45b = (int(x) for x in m.groups())
    return {"lines": n, "accepted": maxline > n, "first_rejected": None if maxline > n else maxline, "status_differs": sd, "pyok": pyok, "pynative": pyn, "F38": f38, "F39": f39, "F45mini": f45a, "F45micro": f45b, "wall": r.wall,
            "detail": r.printed[-1] if r.printed else None}


def validate_trace_slot(sem, path, tag, deviations=(), timeout=1500, heap="3g", chunk=8000):
    """validate_trace under the caller's limit on concurrent TLC processes.  A long trace is cut (before a line that starts a new case) into pieces of
    about `chunk` lines that are validated one after the other: TLC holds the whole deserialised file in memory."""
    nlines = sum(1 for _ in open(path))
    if nlines <= chunk * 3 // 2:
        with sem: return validate_trace(path, tag, deviations=deviations, timeout=timeout, heap=heap)
    pieces = split_trace(path, (nlines + chunk - 1) // chunk)
    tot = {"lines": nlines, "accepted": True, "first_rejected": None, "status_differs": 0, "pyok": 0, "pynative": 0, "F38": 0, "F39": 0, "F45mini": 0, "F45micro": 0, "wall": 0.0, "detail": None}
    offset = 0
    try:
        for k, (pf, n) in enumerate(pieces):
            with sem: r = validate_trace(pf, "%s_p%d" % (tag, k), deviations=deviations, timeout=timeout, heap=heap)
            for key in ("status_differs", "pyok", "pynative", "F38", "F39", "F45mini", "F45micro", "wall"): tot[key] += r[key]
            if not r["accepted"]:
                tot["accepted"] = False; tot["first_rejected"] = offset + r["first_rejected"]; tot["detail"] = r["detail"]
                break
            offset += n
    finally:
        for pf, _ in pieces:
            try: os.remove(pf)
            except OSError: pass
    return tot


def build_tsan():
    """bin/wire and the library compiled with clang++ -fsanitize=thread into BUILD/tsan (thorough tier only; the harness Makefile has no such variant).
    Returns the path of the binary, or None with a reason when the toolchain cannot do it."""
    import concurrent.futures as cf, glob, shutil
    cxx = shutil.which("clang++") or shutil.which("clang++-14")
    if not cxx: return None, "no clang++"
    root = os.path.join(vlib.BUILD, "tsan"); exe = os.path.join(root, "bin", "wire")
    srcs = [f for d in ("dataio", "iogateway", "message", "reflector", "regex", "syslog", "system", "util", "zlib") for f in sorted(glob.glob(os.path.join(vlib.REPO, d, "*.cpp"))) if "SSL" not in f]
    srcs.append(os.path.join(vlib.VERIF, "harness", "wire.cpp"))
    flags = ["-std=c++11", "-g1", "-O1", "-w", "-fsanitize=thread", "-I" + vlib.REPO, "-I" + os.path.join(vlib.VERIF, "harness"), "-DMUSCLE_VERIF_HOOKS", "-DMUSCLE_ENABLE_ZLIB_ENCODING", "-DMUSCLE_NO_EXCEPTIONS"]
    objs = []

    def cc(src):
        rel = os.path.relpath(src, vlib.REPO if src.startswith(vlib.REPO) else vlib.VERIF).replace("/", "_")
        obj = os.path.join(root, "obj", rel + ".o"); objs.append(obj)
        if os.path.exists(obj) and os.path.getmtime(obj) >= os.path.getmtime(src): return None
        os.makedirs(os.path.dirname(obj), exist_ok=True)
        r = subprocess.run([cxx] + flags + ["-c", src, "-o", obj], stdout=subprocess.PIPE, stderr=subprocess.STDOUT, text=True)
        return None if r.returncode == 0 else "%s: %s" % (src, r.stdout[-600:])
    with cf.ThreadPoolExecutor(max_workers=min(12, vlib.NCPU)) as ex: errs = [e for e in ex.map(cc, srcs) if e]
    if errs: return None, "clang++ -fsanitize=thread does not compile the tree: " + errs[0]
    os.makedirs(os.path.dirname(exe), exist_ok=True)
    lib = os.path.join(root, "libmuscle.a"); wire_o = [o for o in objs if o.endswith("harness_wire.cpp.o")]
    if os.path.exists(lib): os.remove(lib)
    subprocess.run(["ar", "rcs", lib] + [o for o in objs if o not in wire_o], check=True)          # an archive: only the members that are needed get linked
    r = subprocess.run([cxx, "-fsanitize=thread"] + wire_o + [lib, "-lz", "-lutil", "-lpthread", "-o", exe], stdout=subprocess.PIPE, stderr=subprocess.STDOUT, text=True)
    if r.returncode != 0: return None, "link failed: " + r.stdout[-600:]
    return exe, None
