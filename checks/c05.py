"""C05 - a routed Message reaches exactly the sessions its patterns select, once each.

 Specifications (spec/Traversal/):
   Traversal.tla  NodePathMatcher::DoTraversal / DoTraversalAux / DoDirectChildLookup / CheckChildForTraversal AS CODED (per level: hash
                  lookups with alreadyDid when every clause of every longer pattern is a literal or a list of literals, else iterate the
                  children; matched / recursed; the callbacks' early-exit depth protocol; the conspiracy guard; the entry table of
                  PathMatcher with its normalisation and "later filter wins").  Invariants TraversalExact (visited set = brute-force match
                  set, nothing twice), RouteOnce (skip-to-next-session callback: one callback per session owning a match), StopOnce.
   Route.tla      routing of client-to-client Messages on top of it (keys / default route / broadcast, reflect-to-self, sender-identity
                  overwrite, per-pair queues): RouteExact, PairFIFO, SenderTrue, stated from the brute-force definition only.
 1. function-oracle direction: harness/route.cpp enumerates in C++ the same bounded (tree, pattern-sequence, callback mode) space as
    Traversal.tla (CaseOf), runs the REAL DoTraversal on every case and records case + visit list + brute-force MatchesPath set; TLC
    (TraversalTrace.tla, one state per line, sharded) re-derives every case from its number, checks the three invariants ON THE MODEL for
    that case, and compares the code with the model (visit list, order included) and with the property.  A self-enumerating model check
    of the same universe (Init of Traversal.tla, SHARD / NSHARDS) runs besides (quick: two shards; thorough: all).  Seeded random cases of
    a wider space (3 sessions, 1-3 patterns, filters, relative / absolute forms, the same path twice) are validated the same way.
 2. routing: seeded random, small exhaustive and directed histories of real commands and routed Messages through an in-process
    ReflectServer with real client gateways (code -> spec), and histories that cover EVERY transition of a small instance of Route.tla
    (spec -> code, tools/pathcover.py); everything each client received is validated by TLC against the property of Route.tla
    (RouteTrace.tla) and judged by a direct monitor in the harness.
 3. vacuity: the reverse patches of F2, F24 (Traversal) and F23 (Route) and the removal of F25's exemption must violate the invariants
    (plus, thorough, every deliberately wrong variant); corrupted recorded lines must be rejected.
 Known finding F25 (session-node key + deeper key for the same receiver: 2 copies): one directed history; kept out of the generators.
"""
import concurrent.futures as cf, json, os, re, random, threading
import vlib, pathcover

SPECDIR = "Traversal"
TRAV_INVS = ["TraversalExact", "RouteOnce", "StopOnce"]
ROUTE_ACTIONS = ["ASet", "ARm", "Refl", "Def", "DefClear", "Send"]      # the names TLC gives the actions of RNext (it expands the quantifiers over the constant Senders)
BAD_TEXT = {"prop": "the walk of the real code breaks the property (visited set # brute-force set / a node twice / not one callback per selected session / not one callback)",
            "brute": "PathMatcher::MatchesPath, asked node by node, does not give the set the patterns denote",
            "algo": "the real walk differs from the algorithm-level model (order of callbacks)"}


_cfg_lock = threading.Lock(); _cfg_done = {}


def _cfg(name, text):
    with _cfg_lock:
        if _cfg_done.get(name) == text: return name
        p = os.path.join(vlib.SPEC, SPECDIR, name)
        tmp = p + ".%d.tmp" % os.getpid()
        with open(tmp, "w") as f: f.write(text)
        os.replace(tmp, p)           # atomic: a scratch run of the same tier may be reading the same (identical) file
        _cfg_done[name] = text
    return name


def _set(xs):
    return "{" + ", ".join('"%s"' % x for x in xs) + "}"


def trav_cfg(name, spec, dev, universe, shard, nshards, invs, post):
    return _cfg(name, "SPECIFICATION %s\nCONSTANTS\n  Deviations = %s\n  UNIVERSE = \"%s\"\n  SHARD = %d\n  NSHARDS = %d\nINVARIANTS %s\n%s" %
                (spec, _set(dev), universe, shard, nshards, " ".join(invs), ("POSTCONDITION %s\n" % post) if post else ""))


def route_cfg(name, spec, dev, n, senders, km, dm, sm, rm, forges, sends, ops, record, invs, post=None):
    return _cfg(name, "SPECIFICATION %s\nCONSTANTS\n  Deviations = %s\n  UNIVERSE = \"none\"\n  SHARD = 0\n  NSHARDS = 1\n  N = %d\n  Senders = %s\n  KeyMenu <- %s\n  DefMenu <- %s\n  SetMenu <- %s\n  RmMenu <- %s\n"
                "  Forges = %s\n  MaxSends = %d\n  MaxOps = %d\n  RECORD = %s\nINVARIANTS %s\n%s" %
                (spec, _set(dev), n, _set(senders), km, dm, sm, rm, _set(forges), sends, ops, "TRUE" if record else "FALSE", " ".join(invs), ("POSTCONDITION %s\n" % post) if post else ""))


def _violated_all(out):
    return set(re.findall(r"Invariant (\S+) is violated", out))


def _coverage(out):
    cov = {}
    for m in re.finditer(r"^<(\w+) line \d+, col \d+ to line \d+, col \d+ of module \w+(?: \([\d ]+\))?>: (\d+):(\d+)", out, re.M):
        a, t, g = m.group(1), int(m.group(2)), int(m.group(3)); t0, g0 = cov.get(a, (0, 0)); cov[a] = (t0 + t, g0 + g)
    return cov


def run(v, tier, seed):
    vlib.make("plain", "route")
    exe = vlib.binpath("plain", "route")
    W = lambda n: vlib.scratch("C05", "%s_%d_%s" % (tier, os.getpid(), n))
    scale = float(os.environ.get("C05_SCALE", "1"))
    quick = tier == "quick"
    DEV = sorted(k["id"] for k in v.known if k["id"] == "F25")        # the open findings the code is known to have
    if not DEV: vlib.log("NOTE property=C05 F25 is not listed as open: its exemption is off")
    jenv = {"JAVA_TOOL_OPTIONS": "-XX:ParallelGCThreads=2"}
    tot = {"states": 0, "transitions": 0}
    notes = {"tlc_runs": [], "harness_runs": []}
    samples = []
    made = []          # scratch files to remove at the end

    def harness(args, rep, what, timeout=300):
        rc, out, err = vlib.run([exe] + [str(a) for a in args], timeout=timeout)
        rows = []
        if os.path.exists(rep):
            for l in open(rep):
                try:
                    if l.strip(): rows.append(json.loads(l))
                except ValueError: pass        # a line cut short by a crash of the code under test
        made.append(rep)
        hang = [r for r in rows if r.get("hang")]
        crash = [r for r in rows if r.get("crash")]
        if rc == 5 or crash or (rc is not None and rc < 0 and rc != -999):
            v.violation("%s: the real code crashed (signal %s) in %s" % (what, crash[0]["crash"] if crash else -rc, crash[0]["where"] if crash else "?"), {"args": args, "where": crash[0]["where"] if crash else None}, tag="crash")
            return rows, None
        if rc == 4 or hang:
            v.violation("%s: the real code did not come back within 20 s (%s)" % (what, (hang[0]["where"] if hang else "?")), {"args": args, "where": hang[0]["where"] if hang else None}, tag="hang")
            return rows, None
        if rc == -999: raise vlib.MachineryError("%s: harness timeout: %s" % (what, err[-500:]))
        if rc != 0: raise vlib.MachineryError("%s: harness failed rc=%s: %s %s" % (what, rc, out[-500:], err[-1500:]))
        summ = [r for r in rows if r.get("summary")]
        if not summ: raise vlib.MachineryError("%s: no summary" % what)
        notes["harness_runs"].append({k: x for k, x in summ[0].items() if k != "files"})
        for f in summ[0].get("files", []): made.append(f)
        return rows, summ[0]

    def judge_rows(rows, what):
        for r in rows:
            if r.get("violations"):
                v.violation("%s: %s" % (what, "; ".join(r["violations"])[:600]), r, tag="monitor")
            if r.get("known"):
                v.known_finding("F25", "directed history %s: %s (keys /*/<id> + a deeper key matching a node of the same session)" % (r.get("history"), r["known"][0]))

    # ------------------------------------------------------------------ TLC jobs
    def trav_trace(path, universe, shard=None):
        name = trav_cfg("gen_%s_TTrace_%s.cfg" % (tier, universe), "TSpec", DEV, universe, 0, 1, TRAV_INVS + ["Count", "LineOK"], "TSummary")
        r = vlib.tlc("TraversalTrace", name, SPECDIR, workers=1, timeout=3000, env=dict(jenv, TRACE=path), extra=["-continue"], heap="3g", keep_out=True)
        if r.error: raise vlib.MachineryError("TraversalTrace %s: %s" % (path, r.error))
        viol = _violated_all(r.out)
        if viol - {"LineOK"}: raise vlib.MachineryError("TraversalTrace %s: the MODEL violates %s on a recorded case (model bug, not a verdict on the code):\n%s" % (path, sorted(viol - {"LineOK"}), r.out[-2500:]))
        summ = [x for x in r.printed if x.get("summary")]
        if len(summ) != 1: raise vlib.MachineryError("TraversalTrace %s: no summary:\n%s" % (path, r.out[-1500:]))
        s = summ[0]; bad = [x for x in r.printed if not x.get("summary")]
        if not s["table_ok"]: raise vlib.MachineryError("the real StringMatcher does not answer like the clause table of Traversal.tla on the menu's clauses (clause-level matching is C15's business): see line 1 of %s" % path)
        if s["cases"] != s["lines"] or r.distinct != s["lines"]: raise vlib.MachineryError("TraversalTrace %s: %d lines, %d states, %d judged" % (path, s["lines"], r.distinct, s["cases"]))
        if s["bad_lines"] != len(bad) or (("LineOK" in viol) != bool(bad)): raise vlib.MachineryError("TraversalTrace %s: verdict and reports differ" % path)
        if any("space" in x["bad"] for x in bad): raise vlib.MachineryError("harness and specification do not enumerate the same space: %s" % json.dumps(bad[0])[:800])
        # the harness ran every case of the shard: as many lines as the SPECIFICATION's universe has case numbers in the shard (and LineOK re-derived each case from its number)
        if shard is not None and not bad and not v.violations and s["lines"] != len(range(shard[0], s["total"], shard[1])):
            raise vlib.MachineryError("TraversalTrace %s: %d lines recorded, the universe of Traversal.tla has %d cases in shard %d/%d" % (path, s["lines"], len(range(shard[0], s["total"], shard[1])), shard[0], shard[1]))
        tot["states"] += r.distinct; tot["transitions"] += r.generated
        notes["tlc_runs"].append({"what": "TraversalTrace " + os.path.basename(path), "states": r.distinct, "wall_s": round(r.wall, 1)})
        return s, bad, path

    def trav_mc(universe, shard, nshards):
        name = trav_cfg("gen_%s_MC_%s_%d.cfg" % (tier, universe, shard), "Spec", DEV, universe, shard, nshards, TRAV_INVS + ["Count"], "Summary")
        r = vlib.tlc("Traversal", name, SPECDIR, workers=1, timeout=3000, env=jenv, heap="3g")
        vlib.require_ok(r, "Traversal model check %s shard %d/%d" % (universe, shard, nshards))
        summ = [x for x in r.printed if x.get("summary")]
        if len(summ) != 1 or summ[0]["cases"] != r.distinct: raise vlib.MachineryError("Traversal model check %s shard %d: no / wrong summary" % (universe, shard))
        tot["states"] += r.distinct; tot["transitions"] += r.generated
        notes["tlc_runs"].append({"what": "Traversal MC %s shard %d/%d" % (universe, shard, nshards), "states": r.distinct, "wall_s": round(r.wall, 1)})
        return summ[0]

    def trav_guard(dev, inv):
        un, sh, nsh = ("lists", seed % 4, 4) if "ScratchPerBucket" in dev else ("core", seed % 8, 8)
        name = trav_cfg("gen_%s_Reach_%s_%s.cfg" % (tier, "_".join(dev) or "none", inv), "Spec", dev, un, sh, nsh, [inv], None)
        r = vlib.tlc("Traversal", name, SPECDIR, workers=1, timeout=900, env=jenv, heap="2g")
        if r.error: raise vlib.MachineryError("vacuity guard %s: %s" % (dev, r.error))
        if r.violated != inv: raise vlib.MachineryError("vacuity guard: Traversal.tla with Deviations = %s does not violate %s" % (dev, inv))
        return "%s violates %s" % ("+".join(dev) or "no exemption for F25", inv)

    RFULL = dict(n=3, senders=["0", "1"], km="KM_full", dm="DM_full", sm="SM_full", rm="RM_full", forges=["none", "1", "nonstr"])

    def route_guard(dev, inv, sends=1, ops=3, km="KM_full"):
        a = dict(RFULL, km=km)
        name = route_cfg("gen_%s_RReach_%s_%s.cfg" % (tier, "_".join(dev) or "none", inv), "RSpec", dev, a["n"], a["senders"], a["km"], a["dm"], a["sm"], a["rm"], a["forges"], sends, ops, False, [inv])
        r = vlib.tlc("RouteMC", name, SPECDIR, workers=2, timeout=900, env=jenv, heap="2g")
        if r.error: raise vlib.MachineryError("vacuity guard %s: %s" % (dev, r.error))
        if r.violated != inv: raise vlib.MachineryError("vacuity guard: Route.tla with Deviations = %s does not violate %s" % (dev, inv))
        return "%s violates %s" % ("+".join(dev) or "no exemption for F25", inv)

    def route_mc(tag, sends, ops, km, forges, workers):
        a = dict(RFULL, km=km, forges=forges)
        name = route_cfg("gen_%s_RMC_%s.cfg" % (tier, tag), "RSpec", DEV, a["n"], a["senders"], a["km"], a["dm"], a["sm"], a["rm"], a["forges"], sends, ops, False, ["RTypeOK", "RouteExact", "PairFIFO", "SenderTrue"])
        r = vlib.tlc("RouteMC", name, SPECDIR, workers=workers, timeout=3000, env=jenv, heap="6g", coverage=True, keep_out=True)
        vlib.require_ok(r, "Route model check " + tag)
        r.coverage = _coverage(r.out)
        vlib.require_coverage(r, [x for x in ROUTE_ACTIONS if ops >= 2 or x not in ("ARm", "DefClear")], "Route model check " + tag)       # with one command there is nothing to remove / clear yet
        tot["states"] += r.distinct; tot["transitions"] += r.generated
        notes["tlc_runs"].append({"what": "Route MC " + tag, "states": r.distinct, "generated": r.generated, "depth": r.depth, "wall_s": round(r.wall, 1), "taken": {x: r.coverage.get(x, (0, 0))[0] for x in ROUTE_ACTIONS}})
        return r.distinct

    def route_trace(path, what):
        name = route_cfg("gen_%s_RTrace.cfg" % tier, "TraceSpec", DEV, 4, [], "KM_fifo", "DM_one", "RM_none", "RM_none", [], 0, 0, False, ["Track"], "Report")
        r = vlib.tlc("RouteTrace", name, SPECDIR, workers=1, timeout=3000, env=dict(jenv, TRACE=path), heap="3g")
        if r.error or r.violated: raise vlib.MachineryError("RouteTrace %s: %s" % (path, r.error or r.violated))
        summ = [x for x in r.printed if x.get("summary")]
        if len(summ) != 1: raise vlib.MachineryError("RouteTrace %s: no summary" % path)
        s = summ[0]
        if not s["table_ok"]: raise vlib.MachineryError("the real StringMatcher does not answer like the clause table of Traversal.tla (C15's business): line 1 of %s" % path)
        tot["states"] += r.distinct; tot["transitions"] += r.generated
        notes["tlc_runs"].append({"what": "RouteTrace " + os.path.basename(path), "lines": s["lines"], "wall_s": round(r.wall, 1)})
        return s["maxline"] == s["lines"] + 1, s["maxline"], s["lines"], path, what

    def route_gen(tag, sends, ops, km, dm, sm, forges):
        name = route_cfg("gen_%s_RGen_%s.cfg" % (tier, tag), "RSpec", DEV, 3, ["0", "1"], km, dm, sm, "RM_none", forges, sends, ops, True, ["RTypeOK", "RouteExact"])
        dot = W("gen_%s.dot" % tag)
        r = vlib.tlc("RouteMC", name, SPECDIR, workers=2, timeout=1800, env=jenv, heap="4g", dump=dot)
        vlib.require_ok(r, "Route graph dump " + tag)
        beh, st = pathcover.behaviours(dot)
        os.remove(dot)
        if st["edges_covered"] != st["graph_edges"]: raise vlib.MachineryError("path cover incomplete: %s" % st)
        tot["states"] += r.distinct; tot["transitions"] += r.generated
        hist = []
        for i, steps in enumerate(beh):
            ss = []
            for s in steps:
                e = dict(s); e["e"] = e.pop("a"); e.pop("n", None)
                if e["e"] == "Send": e["burst"] = 0
                ss.append(e)
            hist.append({"id": i, "nsess": 3, "steps": ss})
        bf = W("beh_%s.ndjson" % tag); vlib.write_ndjson(bf, hist); made.append(bf)
        rows, summ = harness(["replay", bf, W("rep_" + tag), W("rep_%s_report.ndjson" % tag)], W("rep_%s_report.ndjson" % tag), "replay of TLC behaviours (%s)" % tag)
        return tag, st, rows, summ, hist[:1] + hist[len(hist) // 2: len(hist) // 2 + 1]

    # ------------------------------------------------------------------ corrupted records must be rejected
    def corruption_guard(core_path, dir_path):
        lines = []
        with open(core_path) as f:
            for n, l in enumerate(f):
                lines.append(l.rstrip("\n"))
                if n >= 600: break
        rows = [None] + [json.loads(l) for l in lines[1:]]
        rnd = random.Random(seed); want = {}
        def pick(pred):
            c = [i for i in range(1, len(rows)) if (i + 1) not in want and pred(rows[i])]
            if not c: raise vlib.MachineryError("corruption guard: no suitable recorded line")
            return rnd.choice(c)
        i = pick(lambda r: r["m"] == "all" and len(r["v"]) >= 2); rows[i]["v"] = rows[i]["v"][:-1]; rows[i]["n"] -= 1; want[i + 1] = {"prop", "algo"}                 # a matching node not visited
        i = pick(lambda r: r["m"] == "all" and len(r["v"]) >= 1); rows[i]["v"] = rows[i]["v"] + rows[i]["v"][:1]; rows[i]["n"] += 1; want[i + 1] = {"prop", "algo"}     # a node visited twice
        i = pick(lambda r: r["m"] == "skip" and len(r["v"]) >= 1 and len(r["v"][0]) >= 3); rows[i]["v"] = rows[i]["v"][1:]; rows[i]["n"] -= 1; want[i + 1] = {"prop", "algo"}   # a selected session left out
        i = pick(lambda r: r["m"] == "all" and len(r["v"]) >= 2 and r["v"][0] != r["v"][1]); rows[i]["v"][0], rows[i]["v"][1] = rows[i]["v"][1], rows[i]["v"][0]; want[i + 1] = {"algo"}     # order only
        i = pick(lambda r: len(r["b"]) >= 1); rows[i]["b"] = rows[i]["b"][1:]; want[i + 1] = {"brute"}
        i = pick(lambda r: r["m"] == "stop" and len(r["v"]) == 1); rows[i]["n"] = 2; want[i + 1] = {"prop"}                                                             # the returned count
        path = W("corrupt_trav.ndjson"); made.append(path)
        with open(path, "w") as f:
            f.write(lines[0] + "\n")
            for r in rows[1:]: f.write(json.dumps(r, separators=(",", ":")) + "\n")
        name = trav_cfg("gen_%s_TTrace_corrupt.cfg" % tier, "TSpec", DEV, uni, 0, 1, ["LineOK"], "TSummary")
        r = vlib.tlc("TraversalTrace", name, SPECDIR, workers=1, timeout=900, env=dict(jenv, TRACE=path), extra=["-continue"], heap="2g")
        if r.error: raise vlib.MachineryError("corruption guard: " + r.error)
        got = {x["line"]: set(x["bad"]) for x in r.printed if not x.get("summary")}
        if got != want: raise vlib.MachineryError("corruption guard: corrupted lines %s, LineOK rejected %s" % (want, got))
        # routing: a lost copy, an extra copy, a wrong identity field, a copy for another session
        ev = [l.rstrip("\n") for l in open(dir_path)]
        recv = [k for k, l in enumerate(ev) if '"e":"Recv"' in l and '"sid":"none"' in l]
        k = recv[len(recv) // 2]; n = 0
        variants = (("lost", lambda a: a.pop(k)), ("extra", lambda a: a.insert(k, a[k])),
                    ("identity", lambda a: a.__setitem__(k, a[k].replace('"sid":"none"', '"sid":"2"'))),
                    ("receiver", lambda a: a.__setitem__(k, json.dumps(dict(json.loads(a[k]), r=("2" if json.loads(a[k])["r"] != "2" else "1"))))))
        for tag, fn in (variants[seed % 2::2] if quick else variants):
            a = list(ev); fn(a); p = W("corrupt_route_%s.ndjson" % tag); made.append(p)
            with open(p, "w") as f: f.write("\n".join(a) + "\n")
            ok, maxline, nl, _, _ = route_trace(p, "corruption guard")
            if ok or not (k <= maxline <= k + 2): raise vlib.MachineryError("corruption guard: a routing log with a %s copy at line %d was %s (first unexplained line %d)" % (tag, k + 1, "accepted" if ok else "rejected elsewhere", maxline))
            n += 1
        return len(want) + n

    # ------------------------------------------------------------------ sizes
    NSH = 8
    if quick:
        uni = "core"; uni_shards = list(range(8)); uni_nsh = 8
        mc_jobs = [("core", seed % 8, 8)]
        n_wide = int(16000 * scale); wide_files = 2
        n_rand, n_steps, rand_files = int(300 * scale), 40, 2
        n_small, small_files = int(2000 * scale), 1
        tguards = [(DEV + ["F2"], "TraversalExact"), (DEV + ["F24"], "RouteOnce"), ([], "RouteOnce"), (DEV + ["ScratchPerBucket"], "TraversalExact")]
        rguards = [(DEV + ["F23"], "RouteExact", 1, 3, "KM_full")]
        rmc = [("ops3", 1, 3, "KM_full", ["none", "1"], 3), ("fifo", 2, 1, "KM_fifo", ["none", "1", "nonstr"], 1)]
        gens = [("a", 1, 2, "KM_noF25", "DM_one", "SM_small", ["none", "1"])]
    else:
        uni = "full"; uni_nsh = 64; uni_shards = list(range(int(64 * min(1.0, scale)) or 1))
        mc_jobs = [("core", k, 8) for k in range(8)] + [("tri", (seed + 4 * k) % 64, 64) for k in range(int(16 * min(4.0, scale)) or 1)]      # a quarter of the three-pattern universe, moving with the seed
        n_wide = int(200000 * scale); wide_files = 16
        n_rand, n_steps, rand_files = int(10000 * scale), 60, 8
        n_small, small_files = (0 if scale >= 1 else int(42750 * scale)), 8          # 0 = the whole small space
        tguards = [(DEV + ["F2"], "TraversalExact"), (DEV + ["F24"], "RouteOnce"), ([], "RouteOnce"), (DEV + ["F24"], "StopOnce"), (DEV + ["NoAlreadyDid"], "TraversalExact"),
                   (DEV + ["FastPathFirstEntry"], "TraversalExact"), (DEV + ["ScratchPerBucket"], "TraversalExact"), (DEV + ["ScratchPerBucket"], "RouteOnce")]
        rguards = [(DEV + ["F23"], "RouteExact", 1, 3, "KM_full"), (DEV + ["F24"], "RouteExact", 1, 3, "KM_full"), (DEV + ["F2"], "RouteExact", 1, 3, "KM_full"), ([], "RouteExact", 1, 3, "KM_full"),
                   (DEV + ["ReflectInverted"], "RouteExact", 1, 3, "KM_full"), (DEV + ["KeepForged"], "SenderTrue", 1, 3, "KM_full"), (DEV + ["HeadQueue"], "PairFIFO", 2, 1, "KM_fifo"),
                   (DEV + ["FirstKeyFilter"], "RouteExact", 1, 3, "KM_full")]
        rmc = [("ops4", 1, 4, "KM_full", ["none", "1", "nonstr"], 4) if scale >= 0.5 else ("ops3", 1, 3, "KM_full", ["none", "1", "nonstr"], 3), ("fifo", 3, 2, "KM_fifo", ["none", "1"], 2)]
        gens = [("a", 1, 2, "KM_noF25", "DM_one", "SM_small", ["none", "1"]), ("b", 2, 1, "KM_fifo", "DM_one", "SM_small", ["none"])]

    # ------------------------------------------------------------------ the real code, recorded (seconds)
    uni_prefix = W("trav_" + uni)
    rows_u, su = harness(["trav", uni, uni_nsh, ",".join(str(k) for k in uni_shards), uni_prefix, W("trav_%s_report.ndjson" % uni)], W("trav_%s_report.ndjson" % uni), "traversal enumeration (%s)" % uni, timeout=1500)
    judge_rows(rows_u, "traversal (%s universe)" % uni)
    # the universe of comma-list patterns: sequences of 1-3 patterns that all have a list-of-literals clause, several of one depth (always complete)
    LNSH = 4; lists_prefix = W("trav_lists")
    rows_l, sl = harness(["trav", "lists", LNSH, ",".join(str(k) for k in range(LNSH)), lists_prefix, W("trav_lists_report.ndjson")], W("trav_lists_report.ndjson"), "traversal enumeration (lists)", timeout=1500)
    judge_rows(rows_l, "traversal (lists universe)")
    # the universe with a node name that contains a backslash and clauses with an ESCAPED backslash in front of a real wildcard / list comma (always complete)
    bs_prefix = W("trav_bs")
    rows_b, sb = harness(["trav", "bs", 1, "0", bs_prefix, W("trav_bs_report.ndjson")], W("trav_bs_report.ndjson"), "traversal enumeration (bs)", timeout=600)
    judge_rows(rows_b, "traversal (bs universe)")
    wide_prefix = W("trav_wide")
    rows_w, sw = harness(["trav", "wide", n_wide, seed, wide_files, wide_prefix, W("trav_wide_report.ndjson")], W("trav_wide_report.ndjson"), "traversal, random wide cases", timeout=1500)
    judge_rows(rows_w, "traversal (random wide case)")
    hist = {}
    for mode, cnt, steps, nf in (("directed", 0, 0, 1), ("random", n_rand, n_steps, rand_files), ("small", n_small, 0, small_files)):
        rows_h, sh = harness(["hist", mode, cnt, steps, seed, nf, W("hist_" + mode), W("hist_%s_report.ndjson" % mode)], W("hist_%s_report.ndjson" % mode), "routing histories (%s)" % mode, timeout=1500)
        judge_rows(rows_h, "routing history (%s)" % mode)
        for r in rows_h:
            if "small_space" in r and sh: notes["harness_runs"][-1].update(r)
        hist[mode] = (rows_h, sh)

    # ------------------------------------------------------------------ TLC
    def settle(fut, default=None):
        """result of a job; once the real code has been seen to break the property, a failing later stage must not turn the verdict into ERROR"""
        try: return fut.result()
        except vlib.MachineryError as ex:
            if not v.violations: raise
            vlib.log("NOTE property=C05 a later stage failed after the violation(s) above: %s" % str(ex)[:300])
            return default

    guards_shown = []; f25_lines = 0; lines_validated = 0; cases_nonempty = 0; drift_lines = 0; route_lines = 0; route_hist = 0; replayed = 0
    trav_counts = {"cases": 0, "nonempty": 0, "multi": 0, "f25": 0, "lookup": 0, "samedepth": 0}
    with cf.ThreadPoolExecutor(max_workers=8) as ex:
        futs_tt = []
        if su:
            for k in uni_shards:      # (a harness that found 25 violating cases stops early: then there are fewer files)
                if "%s.%d.ndjson" % (uni_prefix, k) in su["files"]: futs_tt.append(ex.submit(trav_trace, "%s.%d.ndjson" % (uni_prefix, k), uni, (k, uni_nsh)))
        if sl:
            for k in range(LNSH):
                if "%s.%d.ndjson" % (lists_prefix, k) in sl["files"]: futs_tt.append(ex.submit(trav_trace, "%s.%d.ndjson" % (lists_prefix, k), "lists", (k, LNSH)))
        if sb and ("%s.0.ndjson" % bs_prefix) in sb["files"]: futs_tt.append(ex.submit(trav_trace, "%s.0.ndjson" % bs_prefix, "bs", (0, 1)))
        if sw:
            for p in sw["files"]: futs_tt.append(ex.submit(trav_trace, p, "none"))
        futs_rt = []
        for mode, (rows_h, sh) in hist.items():
            if sh:
                for p in sh["files"]: futs_rt.append(ex.submit(route_trace, p, mode))
        futs_gen = [ex.submit(route_gen, *g) for g in gens]
        futs_mc = [ex.submit(trav_mc, *j) for j in mc_jobs]
        futs_rmc = [ex.submit(route_mc, *j) for j in rmc]
        futs_g = [ex.submit(trav_guard, d, i) for d, i in tguards] + [ex.submit(route_guard, *g) for g in rguards]
        f_corr = ex.submit(corruption_guard, "%s.%d.ndjson" % (uni_prefix, uni_shards[0]), hist["directed"][1]["files"][0]) if (su and hist["directed"][1] and not v.violations) else None

        nviol = 0
        for f in futs_tt:
            res = settle(f)
            if res is None: continue
            s, bad, path = res
            lines_validated += s["lines"]; f25_lines += s["f25_twice"]
            for k in trav_counts: trav_counts[k] += s[k]
            for x in bad:
                kinds = sorted(x["bad"])
                if "prop" in kinds or "brute" in kinds:
                    nviol += 1
                    if nviol <= 12:
                        v.violation("traversal case %s (%s mode, keys %s): %s" % (x["i"], x["m"], ["/".join(p["cl"]) + ("" if p["abs"] else " (relative)") + (" filter what=%d" % p["f"] if p["f"] else "") for p in x["p"]],
                                                                                  "; ".join(BAD_TEXT[k] for k in kinds if k != "algo")),
                                    dict(x, trace=path, spec="spec/Traversal/TraversalTrace.tla LineOK", reproduce="build/plain/bin/route trav ... (the line carries the whole case: t = subtree codes, p = keys, m = callback mode)"), tag="line")
                else:
                    drift_lines += 1; v.drift += 1
                    if drift_lines <= 3: vlib.log("DRIFT property=C05 traversal case %s: the callbacks came in another order than in Traversal.tla: code %s model %s" % (x["i"], x["v"], x["model"]))
        for f in futs_rt:
            res = settle(f)
            if res is None: continue
            ok, maxline, nl, path, mode = res
            route_lines += nl
            if not ok:
                # the history with the first unexplained line
                ev = [l for l in open(path)]
                start = max(k for k in range(min(maxline, len(ev))) if '"e":"Reset"' in ev[k] or k == 0)
                end = next((k for k in range(maxline, len(ev)) if '"e":"Reset"' in ev[k]), len(ev))
                v.violation("routing history (%s): what the clients received is not what Route.tla allows: first unexplained line %d of %s: %s" % (mode, maxline, path, ev[maxline - 1].strip()[:300] if maxline - 1 < len(ev) else "end of log"),
                            {"trace": path, "line": maxline, "history": [json.loads(l) for l in ev[start:end]], "spec": "spec/Traversal/RouteTrace.tla"}, tag="trace")
        for f in futs_gen:
            res = settle(f)
            if res is None: continue
            tag, st, rows_r, sr, smp = res
            judge_rows(rows_r, "replay of a TLC behaviour of Route.tla")
            if sr:
                replayed += sr["histories"]
                try: ok, maxline, nl, path, _ = route_trace(sr["files"][0], "replay")
                except vlib.MachineryError:
                    if not v.violations: raise
                    continue
                route_lines += nl
                if not ok:
                    ev = [l for l in open(path)]
                    v.violation("replay of TLC behaviours of Route.tla: the clients did not receive what the specification says: first unexplained line %d of %s: %s" % (maxline, path, ev[maxline - 1].strip()[:300] if maxline - 1 < len(ev) else "end of log"),
                                {"trace": path, "line": maxline, "spec": "spec/Traversal/RouteTrace.tla"}, tag="replay")
                notes["harness_runs"][-1]["path_cover"] = st
            samples += [{"kind": "behaviour of Route.tla replayed on the real server", "steps": s["steps"]} for s in smp[:1]]
        mc_cases = 0
        for f in futs_mc: mc_cases += (settle(f) or {"cases": 0})["cases"]
        route_states = sum((settle(f) or 0) for f in futs_rmc)
        for f in futs_g: guards_shown.append(settle(f))
        ncorr = (settle(f_corr) or 0) if f_corr else 0

    # the space: every shard complete
    if su and not v.violations:
        per = {}
        for k in uni_shards:
            n = sum(1 for _ in open("%s.%d.ndjson" % (uni_prefix, k))) - 1; per[k] = n
        if sum(per.values()) != su["cases"]: raise vlib.MachineryError("traversal files hold %d lines, the harness ran %d cases" % (sum(per.values()), su["cases"]))
    for mode, (rows_h, sh) in hist.items():
        if sh: route_hist += sh["histories"]
        if sh and sh["tree_mismatch"]: vlib.log("NOTE property=C05 %d bursts ran on a server tree that differs from the logged commands (reported as violations above)" % sh["tree_mismatch"])
    # samples
    try:
        with open("%s.%d.ndjson" % (uni_prefix, uni_shards[0])) as f:
            ls = [next(f) for _ in range(400)]
        samples.append({"kind": "traversal case: t = subtree codes of the 3 sessions, p = keys, m = callback mode, v = nodes the real DoTraversal called back, b = brute-force MatchesPath set", "line": json.loads(ls[-1])})
        with open(hist["random"][1]["files"][0]) as f:
            ls = [json.loads(next(f)) for _ in range(40)][1:]
        samples.append({"kind": "routing history (events as logged: commands sent, Messages received)", "events": ls[:25]})
    except Exception:
        pass
    if v.violations:
        by = {}
        for _, p in v.violations:
            k = re.sub(r"^violation-(.*)-\d+\.json$", r"\1", os.path.basename(p)); by[k] = by.get(k, 0) + 1
        vlib.log("NOTE property=C05 reports by stage (monitor = the harness's direct monitor, line = TLC LineOK on a recorded traversal, trace / replay = TLC RouteTrace, hang / crash = watchdog): %s; the recorded files stay in %s" % (by, os.path.dirname(W("x"))))
    else:
        for p in made:
            try: os.remove(p)
            except OSError: pass
        for p in os.listdir(os.path.dirname(W("x"))):
            if p.startswith("%s_%d_" % (tier, os.getpid())):
                try: os.remove(os.path.join(os.path.dirname(W("x")), p))
                except OSError: pass

    sends = sum(sh["sends"] for _, sh in hist.values() if sh)
    cov = {"states": tot["states"], "transitions": tot["transitions"],
           "traces_validated_against_impl": lines_validated + route_hist + replayed,
           "traversal_cases_run_on_the_real_code_and_validated_by_tlc": lines_validated,
           "traversal_universe": {"name": uni, "shards_run": len(uni_shards), "of": uni_nsh, "cases": su["cases"] if su else 0, "lists_universe_cases_all_shards": sl["cases"] if sl else 0, "bs_universe_cases": sb["cases"] if sb else 0, "random_wide_cases": sw["cases"] if sw else 0},
           "traversal_counters": trav_counts, "traversal_lines_where_F25_showed": f25_lines,
           "self_enumerated_model_check_cases": mc_cases,
           "route_model_states": route_states,
           "routing_histories": route_hist, "routed_messages": sends, "routing_log_lines_validated_by_tlc": route_lines, "tlc_behaviours_replayed": replayed,
           "vacuity_guards": guards_shown, "corrupted_records_rejected": ncorr, "drift_lines": drift_lines,
           "evaluations": lines_validated + sends + replayed,
           "distinct_nontrivial": trav_counts["nonempty"],
           "rule": "traversal: one case = (tree, key sequence, callback mode); the %s universe is enumerated by case number (every case once; %s), the wide cases are seeded random; the lists universe (8 trees x every sequence of 1-3 of 7 patterns with a comma-list clause x 3 modes) always completely; non-trivial = the brute-force match set of the case is not empty (counted by TLC, register 2); "
                   "routing: seeded random histories (3-4 sessions, %d steps), a spread of the small exhaustive space (125 trees x the key sets x reflect on/off: see harness_runs small_space), 9 directed histories, and a path cover of every transition of a Route.tla instance" % (uni, "all shards" if len(uni_shards) == uni_nsh else "%d of %d shards" % (len(uni_shards), uni_nsh), n_steps),
           "exhaustive": len(uni_shards) == uni_nsh, "samples": samples[:4]}
    cov.update(notes)
    assumptions = ["clause-level matching is taken from the table in Traversal.tla (13 clause tokens over the names in use); every run checks that the real StringMatcher answers like the table (C15 owns its general correctness)",
                   "one host node; session ids are those of a fresh server; routing flags PR_NAME_ROUTE_* stay at their defaults (on); no session connects or disconnects inside a history",
                   "filters are what-code filters attached to keys of depth >= 3; every Message carries either no filters field or one entry per key (the header is silent on shorter filter lists)",
                   "tree commands (SETDATA / REMOVEDATA) are assumed to do what C04 / C13 check; the harness compares the server's tree with the logged commands before every routed Message",
                   "F25's key combination is kept out of the generated routed Messages; RouteTrace tolerates a second copy only inside F25's predicate"]
    return "model_checking", cov, assumptions
