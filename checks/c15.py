"""C15 - wildcard patterns match exactly the strings their documented syntax denotes.

 The specification spec/Wildcard/Wildcard.tla IS the documented function (a three-valued oracle: T / F / Either):
 Matches(p, s), Escape, RemoveEscapes, IsUnique, IsUVList, WellFormed, written from the header comments of
 regex/StringMatcher.h and the statement of C15, not from StringMatcher.cpp.

 1. TLC model-checks the laws of the oracle on the oracle itself (WildcardLaws.tla: Matches(Escape(s), t) <=> t = s,
    RemoveEscapes(Escape(s)) = s, "cannot match multiple" => at most one string matches, the list-of-unique-values law,
    and the denotational reading of every construct: atoms, concatenation, alternation, groups, negation, classes,
    numeric ranges against integer arithmetic); vacuity counters say how often each antecedent was true, and
    deliberately wrong variants of the oracle (constant Wrong) show that each law can fail.
 2. code -> spec: harness/wc.cpp enumerates EVERY string up to a length over the 21-character pattern alphabet (plus a
    seeded sample of the next length, seeded grammar-directed longer patterns and directed cases), asks the real
    StringMatcher / EscapeRegexTokens / RemoveEscapeChars about each (SetPattern status, Match() for every subject string
    up to a length over the 8-character subject alphabet, IsPatternUnique, IsPatternListOfUniqueValues,
    CanWildcardStringMatchMultipleValues, HasRegexTokens, escape / unescape bytes), and TLC validates every recorded line
    against the oracle (WildcardTrace.tla, invariant LineOK, one state per line, 8 shards = 8 TLC processes).
    The oracle decides which strings are judged as patterns (WellFormed); the inputs of the three open known findings
    (F9, F10, F11: predicates over the pattern, in Wildcard.tla) are counted, not judged; their directed cases are
    evaluated and reported as KNOWN-FINDING while they reproduce.  Any other disagreement is a VIOLATION.
 3. a copy of a few recorded lines with one field corrupted each must be rejected by LineOK (the binding can fail).
 4. SegmentedStringMatcher (segment-by-segment matching, regex/SegmentedStringMatcher.h): oracle SegMatch3 in Wildcard.tla built from Match3 per
    segment (token counts equal, or subject not shorter with prefixMatchOkay; leading ~ negates; soft / hard separators as StringTokenizer.h
    documents; Either for leading / trailing separators, the empty subject under a hard separator, empty patterns, segments beginning with ~ or `);
    laws L_SegOne / L_SegCount / L_SegStar / L_SegCompose / L_SegPrefix / L_SegNeg; the harness records patterns of 1..3 clauses x both separator
    kinds x subjects of 0..4 tokens (and variants with empty segments, leading / trailing separators) for both prefix modes plus IsPatternUnique,
    the lines ride in the same shard files and are validated by the same invariant (SegLineOK).
"""
import concurrent.futures as cf, json, os, random, shutil
import vlib

PAT_ALPHABET = 'ab12*?[]-(|),~<>\\.+^`'
SUBJ_ALPHABET = 'ab12,*\\.'
KNOWN = ("F9", "F10", "F11")
NSHARDS = 8
GUARDS = [("escape_forgets_bar", "L_Escape"), ("unique_ignores_qmark", "L_Unique"), ("lit_no_backtrack", "L_Concat"),
          ("unescape_drops_escaped", "L_RoundTrip"), ("uvlist_allows_star", "L_UVList"), ("star_needs_one", "L_Atoms"),
          ("alt_first_only", "L_Alt"), ("group_first_only", "L_Group"), ("class_neg_ignored", "L_Class"),
          ("range_hi_exclusive", "L_Range"), ("neg_ignored_for_ranges", "L_Neg"), ("seg_star_skips_count", "L_SegCount")]
LAWS = ["L_Escape", "L_RoundTrip", "L_Unique", "L_UVList", "L_Atoms", "L_Concat", "L_Alt", "L_Group", "L_Neg", "L_Class", "L_Range", "L_SegOne", "L_SegCount", "L_SegStar", "L_SegCompose", "L_SegPrefix", "L_SegNeg"]
FIELD = {"m": "Match()", "st": "SetPattern() status", "u": "IsPatternUnique()", "v": "IsPatternListOfUniqueValues()", "c": "CanWildcardStringMatchMultipleValues()",
         "h": "HasRegexTokens()", "r": "RemoveEscapeChars()", "e": "EscapeRegexTokens()", "es": "StringMatcher(EscapeRegexTokens(s)) matches s and nothing else",
         "m0": "SegmentedStringMatcher::Match(s, false)", "m1": "SegmentedStringMatcher::Match(s, true)",
         "ru": "a recycled matcher answers like a new one", "cp": "a copied StringMatcher answers like the original"}


def S(codes):
    return "".join(chr(c) for c in codes)


def tlaset(xs):
    return "{" + ", ".join(xs) + "}"


def run(v, tier, seed):
    vlib.make("plain", "wc")
    wc = vlib.binpath("plain", "wc")
    W = lambda n: vlib.scratch("C15", n)
    tmp = W("tmp-%d" % os.getpid()); os.makedirs(tmp, exist_ok=True)
    jenv = {"JAVA_TOOL_OPTIONS": "-XX:ParallelGCThreads=2 -Djava.io.tmpdir=" + tmp}     # 8+ JVMs side by side: keep their GC threads down; TLC's unpacked modules go to scratch
    deviations = sorted(k["id"] for k in v.known if k["id"] in KNOWN)
    spec = os.path.join(vlib.SPEC, "Wildcard")
    notes = []

    def cfg(name, text):
        with open(os.path.join(spec, name), "w") as f: f.write(text)
        return name

    # ---------------------------------------------------------------- 1. laws of the oracle
    def laws_cfg(name, wrong, invs, maxpat, maxstr, maxsubj, nsh, sh, post=True):
        return cfg(name, "SPECIFICATION Spec\nCONSTANTS\n  Deviations = {}\n  Wrong = %s\n  PatAlphabet = %s\n  SubjAlphabet = %s\n  MaxPat = %d\n  MaxStr = %d\n  MaxSubj = %d\n  NShards = %d\n  Shard = %d\nINVARIANTS %s\n%s" %
                   (tlaset('"%s"' % w for w in wrong), tlaset(str(ord(c)) for c in PAT_ALPHABET), tlaset(str(ord(c)) for c in SUBJ_ALPHABET), maxpat, maxstr, maxsubj, nsh, sh, " ".join(invs), "POSTCONDITION Summary\n" if post else ""))

    def laws(maxpat, maxstr, maxsubj, nsh, sh):
        name = laws_cfg("gen_Laws_%s_%d.cfg" % (tier, sh), [], LAWS, maxpat, maxstr, maxsubj, nsh, sh)
        r = vlib.tlc("WildcardLaws", name, "Wildcard", workers=1, timeout=2400, env=jenv, extra=["-noGenerateSpecTE"], heap="3g")
        vlib.require_ok(r, "WildcardLaws shard %d" % sh)
        if len(r.printed) != 1: raise vlib.MachineryError("WildcardLaws shard %d: no summary printed" % sh)
        return r

    def guard(wrong, inv):
        # the deliberately wrong oracle must violate the law (each law can fail)
        name = laws_cfg("gen_Guard_%s.cfg" % wrong, [wrong], [inv], 3, 2, 2, 1, 0, post=False)
        r = vlib.tlc("WildcardLaws", name, "Wildcard", workers=1, timeout=900, env=jenv, extra=["-noGenerateSpecTE"], heap="2g")
        if r.error: raise vlib.MachineryError("guard %s: %s" % (wrong, r.error))
        if r.violated != inv: raise vlib.MachineryError("vacuity guard: the wrong oracle variant '%s' does not violate %s (violated: %s)" % (wrong, inv, r.violated))
        return wrong

    # ---------------------------------------------------------------- 2. the real code, recorded and validated
    trace_cfg = cfg("gen_Trace.cfg", "SPECIFICATION Spec\nCONSTANTS\n  Deviations = %s\n  Wrong = {}\nINVARIANT LineOK\nPOSTCONDITION Summary\n" % tlaset('"%s"' % d for d in deviations))

    def record(tag, full, slen, scount, gcount, gmax, subjlen, directed):
        prefix = W("rec_" + tag)
        def part(k):      # one harness process per shard (each enumerates the same strings and records the ones of its shard)
            rep = W("rep_%s_%d.ndjson" % (tag, k))
            rc, out, err = vlib.run([wc, "enum", str(full), str(slen), str(scount), str(gcount), str(gmax), str(subjlen), str(seed), str(NSHARDS), prefix, rep, str(directed), str(k)], timeout=2400)
            if rc != 0: raise vlib.MachineryError("wc enum failed rc=%s: %s %s" % (rc, out[-500:], err[-1500:]))
            s = [r for r in vlib.read_ndjson(rep) if r.get("summary")][0]; os.remove(rep)
            return s
        with cf.ThreadPoolExecutor(max_workers=NSHARDS) as px: parts = list(px.map(part, range(NSHARDS)))
        summ = dict(parts[0])
        for k in ("patterns", "match_calls", "matched", "setpattern_errors", "unique", "uvlist"): summ[k] = sum(p[k] for p in parts)
        for k in ("lines_per_shard", "patterns_by_length"): summ[k] = [sum(x) for x in zip(*[p[k] for p in parts])]
        if summ["patterns"] != summ["strings_enumerated"]: raise vlib.MachineryError("harness shards recorded %d of %d strings" % (summ["patterns"], summ["strings_enumerated"]))
        if tag in ("q", "t4"):
            # SegmentedStringMatcher lines: recorded by one more harness run and merged into the same shard files (same TLC processes)
            rep = W("rep_%s_seg.ndjson" % tag)
            rc, out, err = vlib.run([wc, "seg", "1" if tier == "quick" else "2", str(NSHARDS), prefix, rep], timeout=1200)
            if rc != 0: raise vlib.MachineryError("wc seg failed rc=%s: %s %s" % (rc, out[-500:], err[-1500:]))
            summ.update([r for r in vlib.read_ndjson(rep) if r.get("summary")][0]); os.remove(rep)
            hdr = json.load(open(prefix + ".seg.hdr.json")); os.remove(prefix + ".seg.hdr.json")
            for k in range(NSHARDS):
                pth = "%s.%d.ndjson" % (prefix, k); seg = "%s.seg.%d.ndjson" % (prefix, k)
                with open(pth) as f: first = json.loads(f.readline()); rest = f.read()
                first["segsubjects"] = hdr["segsubjects"]
                with open(pth, "w") as f:
                    f.write(json.dumps(first, separators=(",", ":")) + "\n"); f.write(rest); f.write(open(seg).read())
                os.remove(seg)
        return prefix, summ

    def validate(path, timeout=2400):
        r = vlib.tlc("WildcardTrace", trace_cfg, "Wildcard", workers=1, timeout=timeout, env=dict(jenv, TRACE=path), extra=["-continue", "-noGenerateSpecTE"], heap="3g")
        if r.error: raise vlib.MachineryError("WildcardTrace %s: %s" % (path, r.error))
        if r.violated not in (None, "LineOK"): raise vlib.MachineryError("WildcardTrace %s: unexpected %s" % (path, r.violated))
        summ = [x for x in r.printed if x.get("summary")]
        if len(summ) != 1: raise vlib.MachineryError("WildcardTrace %s: no summary printed:\n%s" % (path, r.out[-1500:]))
        bad = [x for x in r.printed if not x.get("summary")]
        nlines = sum(1 for _ in open(path)) - 1
        if summ[0]["lines"] != nlines or r.distinct != nlines: raise vlib.MachineryError("WildcardTrace %s: %d lines recorded, %d states, %d lines judged" % (path, nlines, r.distinct, summ[0]["lines"]))
        if summ[0]["disagreeing_lines"] != len(bad): raise vlib.MachineryError("WildcardTrace %s: %d disagreeing lines counted, %d reported" % (path, summ[0]["disagreeing_lines"], len(bad)))
        if (r.violated == "LineOK") != any(x["unexcused"] for x in bad): raise vlib.MachineryError("WildcardTrace %s: invariant verdict and reported lines differ" % path)
        return r, summ[0], bad

    def line_at(path, i):
        with open(path) as f:
            for n, l in enumerate(f, 1):
                if n == i: return json.loads(l)
        return None

    # ---------------------------------------------------------------- 3. corrupted records must be rejected
    def corruption_guard(prefix):
        src = prefix + ".0.ndjson"
        lines = []
        with open(src) as f:
            for n, l in enumerate(f):
                lines.append(l)
                if n >= 400: break
        rows = [None] + [json.loads(l) for l in lines[1:]]
        rnd = random.Random(seed)
        def pick(pred):
            c = [i for i in range(1, len(rows)) if rows[i]["tag"] == "" and pred(S(rows[i]["p"]), rows[i])]
            if not c: raise vlib.MachineryError("corruption guard: no suitable recorded line")
            return rnd.choice(c)
        plain = lambda p, r: p.isalnum() and len(p) >= 2
        used = set(); want = {}
        def corrupt(pred, field, fn):
            for _ in range(50):
                i = pick(pred)
                if i not in used: break
            used.add(i); fn(rows[i]); want[i + 1] = field        # +1: TLC line numbers are 1-based, line 1 is the header
        corrupt(lambda p, r: plain(p, r) and r["ng"] == 0 and len(r["m"]) == 1, "m", lambda r: r.update(m=[]))                 # the literal no longer matches itself
        corrupt(lambda p, r: plain(p, r) and r["ng"] == 0, "m", lambda r: r.update(m=sorted(set(r["m"]) | {1})))                  # ... also matches the empty string
        corrupt(lambda p, r: p in ("?", "a?", "?a", "a*", "*", "*a", "b?", "?b"), "u", lambda r: r.update(u=1))                   # a wildcard reported unique
        corrupt(lambda p, r: plain(p, r), "u", lambda r: r.update(u=0))                                                           # plain text reported not unique
        corrupt(lambda p, r: "|" in p and "\\" not in p and "`" != p[0], "e", lambda r: r.update(e=r["p"]))                         # escape forgot the bar
        corrupt(lambda p, r: p.count("\\") == 1 and not p.endswith("\\") and len(p) >= 2, "r", lambda r: r.update(r=r["p"]))       # unescape kept the backslash
        corrupt(lambda p, r: r["st"] == 1 and r["u"] == 1 and p.isalnum(), "st", lambda r: r.update(st=0))
        corrupt(lambda p, r: p.isalnum() and len(p) >= 1, "h", lambda r: r.update(h=1))
        path = W("corrupt_%s.ndjson" % tier)
        with open(path, "w") as f:
            f.write(lines[0])
            for r in rows[1:]: f.write(json.dumps(r, separators=(",", ":")) + "\n")
        r, summ, bad = validate(path, timeout=900)
        got = {x["i"]: x for x in bad if x["unexcused"]}
        for i, field in want.items():
            if i not in got or field not in got[i]["unexcused"]:
                raise vlib.MachineryError("corruption guard: recorded line %d (%r) with a corrupted '%s' field was accepted by LineOK" % (i, S(rows[i - 1]["p"]), field))
        if r.violated != "LineOK": raise vlib.MachineryError("corruption guard: LineOK not violated")
        # (other lines of the copy that are rejected are genuine disagreements: the same lines are in shard 0 and are reported from there)
        return len(want), len(set(got) - set(want))

    # ---------------------------------------------------------------- run
    if tier == "quick":
        plans = [("q", 3, 4, 40000, 2000, 8, 3, 1)]
        law_args = (3, 2, 2, 3); guards = GUARDS[:3] + GUARDS[-1:]
    else:
        plans = [("t4", 4, 0, 0, 0, 0, 4, 1), ("t5", 0, 5, int(os.environ.get("C15_SAMPLE5", "1200000")), 40000, 10, 3, 0)]
        law_args = (4, 3, 2, 8); guards = GUARDS

    tot = {"states": 0, "transitions": 0, "lines": 0, "judged": 0, "unjudged_syntax": 0, "unjudged_known": 0, "escape_unjudged_known": 0, "evaluations": 0, "disagreeing": 0,
           "match_calls": 0, "patterns": 0}
    law_hits = {}; samples = []; harness = []; reproduced = {}; nviol = 0; tlc_wall = []
    with cf.ThreadPoolExecutor(max_workers=9) as ex:
        first = record(*plans[0])
        f_laws = [ex.submit(laws, law_args[0], law_args[1], law_args[2], law_args[3], sh) for sh in range(law_args[3])] if tier == "quick" else []
        f_guard = [ex.submit(guard, w, inv) for w, inv in guards] if tier == "quick" else []
        f_corr = ex.submit(corruption_guard, first[0])
        for pi, plan in enumerate(plans):
            prefix, hs = first if pi == 0 else record(*plan)
            harness.append(hs)
            tot["match_calls"] += hs["match_calls"]; tot["patterns"] += hs["patterns"]
            paths = ["%s.%d.ndjson" % (prefix, k) for k in range(NSHARDS)]
            res = list(ex.map(validate, paths))
            for path, (r, summ, bad) in zip(paths, res):
                tot["states"] += r.distinct; tot["transitions"] += r.generated; tlc_wall.append(round(r.wall, 1))
                tot["lines"] += summ["lines"]; tot["judged"] += summ["judged"]; tot["unjudged_syntax"] += summ["unjudged_syntax"]; tot["unjudged_known"] += summ["unjudged_known"]
                tot["escape_unjudged_known"] += summ["escape_unjudged_known"]; tot["evaluations"] += summ["evaluations"]; tot["disagreeing"] += summ["disagreeing_lines"]
                if summ["subjects"] != hs["subjects"]: raise vlib.MachineryError("subject universe mismatch")
                for x in bad:
                    pat = S(x["p"]); fields = sorted(x["unexcused"] or x["bad"])
                    what = "%spattern %r disagrees with the documented syntax on: %s" % ("segmented " if x.get("k") == "s" else "", pat, "; ".join(FIELD[f] for f in fields))
                    excused = sorted(set(x["bad"]) - set(x["unexcused"]))
                    if x["tag"] and excused:      # the directed case of an open finding reproduces
                        reproduced[x["tag"]] = "pattern %r disagrees with the documented syntax on: %s" % (pat, "; ".join(FIELD[f] for f in excused))
                    if x["unexcused"]:
                        nviol += 1
                        if nviol <= 25:
                            v.violation(what, {"pattern": pat, "pattern_bytes": x["p"], "fields": fields, "recorded": line_at(path, x["i"]), "trace": path, "line": x["i"],
                                               "reproduce": "build/plain/bin/wc one '<pattern>' [subjects]; oracle: spec/Wildcard/Wildcard.tla (Match3, OK_* in WildcardTrace.tla)"}, tag="line")
                    elif not x["tag"]:
                        raise vlib.MachineryError("a disagreement inside a known-finding predicate was evaluated for an untagged line: %s" % x)
            if tier == "quick" or pi == 0:
                allr = vlib.read_ndjson(paths[1])[1:]
                rr = [r for r in allr if r["k"] == "p"]; sg = [r for r in allr if r["k"] == "s"]
                samples += [{"segmented_pattern": S(r["p"]), "hard_separator": r["hard"], "unique": r["u"], "subjects_matched_exact" if not r["ng0"] else "subjects_not_matched_exact": len(r["m0"]),
                             "subjects_matched_prefix_ok" if not r["ng1"] else "subjects_not_matched_prefix_ok": len(r["m1"])} for r in sg[40:42]]
                samples += [{"pattern": S(r["p"]), "SetPattern_ok": r["st"], "subjects_matched" if not r["ng"] else "subjects_not_matched": len(r["m"]), "unique": r["u"], "uvlist": r["v"],
                             "can_match_multiple": r["c"], "escape": S(r["e"]), "unescape": S(r["r"])} for r in rr[1:4] + rr[-3:]]
            for p in paths: os.remove(p)
        if tier != "quick":
            # the trace shards are done: now the (bigger) law universe and all the guards, 8 processes at a time
            f_laws = [ex.submit(laws, law_args[0], law_args[1], law_args[2], law_args[3], sh) for sh in range(law_args[3])]
            f_guard = [ex.submit(guard, w, inv) for w, inv in guards]
        law_runs = []
        for f in f_laws:
            r = f.result(); tot["states"] += r.distinct; tot["transitions"] += r.generated
            for k, n in r.printed[0].items(): law_hits[k] = law_hits.get(k, 0) + n
            law_runs.append({"distinct": r.distinct, "wall_s": round(r.wall, 1)})
        zero = [k for k, n in law_hits.items() if n == 0]
        if zero or len(law_hits) != 14: raise vlib.MachineryError("vacuity guard: antecedent of a law never true: %s (%s)" % (zero, law_hits))
        guards_ok = [f.result() for f in f_guard]
        try:
            ncorr, nother = f_corr.result()
            if nother and not nviol: raise vlib.MachineryError("corruption guard: %d uncorrupted lines rejected although the real shards are clean" % nother)
        except vlib.MachineryError as ex:
            # with genuine violations on the table the guard's choice of lines to corrupt may not work out: the violations are the verdict
            if not nviol: raise
            ncorr = 0; notes.append("corruption guard not conclusive on this run (%s)" % str(ex)[:200])
    shutil.rmtree(tmp, ignore_errors=True)
    if nviol > 25: vlib.log("... %d disagreeing lines in total (first 25 reported)" % nviol)

    for fid in KNOWN:
        if fid in reproduced: v.known_finding(fid, reproduced[fid] + " (directed case; every input inside the entry's predicate is counted, not judged)")
        elif v.is_listed(fid): notes.append("%s is listed open but its directed case did not reproduce: the inputs inside its predicate were NOT judged in this run; mark the entry fixed" % fid)
    for n in notes: vlib.log("NOTE property=C15 " + n)
    if tot["judged"] == 0: raise vlib.MachineryError("no recorded line was judged")

    cov = {"states": tot["states"], "transitions": tot["transitions"],
           "traces_validated_against_impl": tot["lines"],
           "recorded_lines_validated_by_tlc": tot["lines"], "lines_judged_as_patterns": tot["judged"],
           "lines_outside_documented_syntax_not_judged": tot["unjudged_syntax"], "lines_inside_F9_F10_predicates_counted_not_judged": tot["unjudged_known"],
           "escape_inputs_inside_F11_predicate_counted_not_judged": tot["escape_unjudged_known"],
           "escape_unescape_hasregextokens_answers_judged": tot["lines"], "lines_disagreeing_incl_directed_known": tot["disagreeing"],
           "real_Match_calls_recorded": tot["match_calls"], "oracle_Matches_evaluations_compared": tot["evaluations"],
           "evaluations": tot["lines"], "distinct_nontrivial": tot["judged"],
           "rule": "one case = one distinct pattern string (the harness emits every string once: EVERY string up to length %d over the 21-character pattern alphabet%s, directed cases); "
                   "non-trivial = WellFormed per Wildcard.tla, not empty / raw-regex, outside the F9 / F10 predicates: "
                   "its Match() answers for ALL %d subjects (every string up to length %d over the 8-character subject alphabet), SetPattern status, IsPatternUnique, IsPatternListOfUniqueValues and "
                   "CanWildcardStringMatchMultipleValues were compared with the oracle by TLC; EscapeRegexTokens / RemoveEscapeChars / HasRegexTokens are judged on every line"
                   % (plans[0][1], ", a seeded sample of length %d, seeded grammar-directed patterns up to length %d" % ((plans[0][2], plans[0][5]) if tier == "quick" else (plans[1][2], plans[1][5])), harness[0]["subjects"], plans[0][6]),
           "exhaustive": True, "harness_runs": harness, "tlc_shard_wall_s": tlc_wall,
           "oracle_law_antecedent_hits": law_hits, "oracle_law_runs": law_runs, "wrong_oracle_variants_rejected": guards_ok, "corrupted_records_rejected": ncorr,
           "segmented_lines_recorded": sum(h.get("seg_lines", 0) for h in harness), "segmented_subjects": max(h.get("seg_subjects", 0) for h in harness),
           "segmented_real_Match_calls": sum(h.get("seg_match_calls", 0) for h in harness),
           "deviations_not_judged": deviations, "samples": samples[:8]}
    assumptions = ["pattern alphabet {a b 1 2 * ? [ ] - ( | ) , ~ < > \\ . + ^ `}, subject alphabet {a b 1 2 , * \\ .}: behaviour that depends on other bytes (upper case, UTF-8, $ { } =, ':' classes) is out of scope",
                   "the oracle is three-valued; not judged (documentation silent or self-contradictory): the empty pattern, raw-regex (backtick) patterns, empty alternatives, unbalanced [ ] ( ), trailing backslash, "
                   "backslash or [ inside a class, reversed ranges, unescaped ^ outside a class, a leading < that is not a well-formed range list; for <..> patterns only canonical decimal subjects < 2^32 and non-numeric subjects are definite",
                   "',' and '|' are read as the same alternation operator at any nesting depth ((a,b) = (a|b), a|b = a,b): the documentation lists both characters as wildcard characters without distinguishing them",
                   "class ranges a-b are by character code (the harness runs in the C locale)",
                   "IsPatternUnique / CanWildcardStringMatchMultipleValues: must say 'unique' only for letters, digits and escaped characters; for other plain characters (- . + ~ < >) either answer is accepted as long as 'unique' is sound; "
                   "IsPatternListOfUniqueValues on a single plain item (comment says 'one or more', the code answers false, IsPatternUnique covers the case) is Either",
                   "RemoveEscapeChars is judged where the two readings of its comment (drop escaping backslashes / drop backslashes not preceded by a backslash) agree",
                   "EscapeRegexTokens is judged semantically (output = input with backslashes inserted, and plain text as a pattern), not byte-for-byte against a fixed list of special characters",
                   "SegmentedStringMatcher: Either (documentation silent) for a leading or trailing separator in pattern or subject, the empty subject under a hard separator, patterns without a segment, "
                   "segments that begin with ~ or a backtick or are not judged simple patterns; IsPatternUnique is judged on token sequences (a//b and a/b are the same sequence of segments under a soft separator)",
                   "known findings F9, F10, F11 (known_findings.json): inputs inside their predicates are counted, not judged"]
    return "model_checking", cov, assumptions + notes
