"""C07 - one client's traffic can never hang or crash the server.

 1. Termination model checking: spec/ReflectorSafety/OutQueue.tla models the commands that walk or edit the sender's OWN outgoing queue while earlier
    replies are still queued for a client that is not reading (PR_COMMAND_JETTISONRESULTS with no keys / keys / keys + filters,
    PR_COMMAND_JETTISONDATATREES with / without request ids, PR_COMMAND_BATCH around them), every loop with its loop variable; TLC checks
    Terminates (<>done under weak fairness), ResultIsAbs (the queue ends as the functional definition says), OthersStay, NoEmptyItems for every
    (queue state of 0..3 result Messages x command shape x filter shape).  With the deviation "F1" (the defect found here and repaired in the
    repository: the inner loop removed by the OUTER index) Terminates must be violated - the vacuity guard.
 2. spec -> code (model-directed): the same enumeration is replayed into an in-process ReflectServer (harness/srv.cpp, asan) whose victim session's
    socket the harness does not read (replies pile up in the gateway's queue): every pump of the event loop under a watchdog (a hang is a
    VIOLATION written by the watchdog, never an endless run), a witness client's PR_COMMAND_PING must be answered after every command, ASan/UBSan
    clean; the queue after the command (read in-process, and again by opening the valve and looking at what arrives) is compared with the
    specification's (a difference is DRIFT: queue contents are the algorithm's business, not the property's).
 3. The hostile Message space (HostileSpace.tla: every PR_COMMAND_* and out-of-range what-codes x reserved field names x right / wrong type / empty /
    several items x the pattern menu with the C15 metacharacters x valid and damaged filter archives) is enumerated by TLC and injected Message by
    Message from a client whose valve is closed, then in seeded random sequences from two clients, with the same monitors.
"""
import concurrent.futures as cf, json, os, random
import vlib

FAM = "ReflectorSafety"
ACTIONS = ["Dispatch", "Outer", "Rem", "Fields", "Inner", "After", "TreesLoop"]


def cfg(name, spec, dev, maxlen, shapes, invs, props=None):
    p = os.path.join(vlib.SPEC, FAM, name)
    with open(p, "w") as f:
        f.write('SPECIFICATION %s\nCONSTANTS\n  Deviations = {%s}\n  MaxLen = %d\n  ShapeKind = "%s"\n  MaxNest = 100\n' % (spec, ", ".join('"%s"' % d for d in dev), maxlen, shapes))
        if invs: f.write("INVARIANTS " + " ".join(invs) + "\n")
        if props: f.write("PROPERTIES " + " ".join(props) + "\n")
    return name


def run(v, tier, seed):
    vlib.make("asan", "srv")
    srv = vlib.binpath("asan", "srv")
    W = lambda n: vlib.scratch("C07", n)
    quick = tier == "quick"
    to = 280 if quick else 2400
    env = {"SRV_WATCHDOG": "5"}

    # ------------------------------------------------------------------------------------------------ 1. model checking (+ generation of the cases)
    def model_check():
        name = cfg("gen_OQ_MC.cfg", "FairSpec", [], 3 if quick else 4, "all", ["TypeOK", "ResultIsAbs", "OthersStay", "NoEmptyItems", "Emit"], ["Terminates"])
        r = vlib.tlc("OQGen", name, FAM, coverage=True, workers=6, timeout=2400, heap="8g")
        vlib.require_ok(r, "OutQueue model check")
        vlib.require_coverage(r, ACTIONS, "OutQueue")
        seen = {}
        for c in r.printed: seen[vlib.sha([c["q0"], c["cmd"]])] = c
        return r, list(seen.values())

    def reach_f1():
        name = cfg("gen_OQ_ReachF1.cfg", "FairSpec", ["F1"], 3, "all", ["TypeOK"], ["Terminates"])
        r = vlib.tlc("OutQueue", name, FAM, workers=4, timeout=1200, heap="6g", keep_out=True)
        return "Temporal property Terminates was violated" in r.out or "Temporal properties were violated" in r.out

    def hostile_space():
        out = W("hostile.ndjson")
        if os.path.exists(out): os.remove(out)
        r = vlib.tlc("HostileSpace", "HostileSpace_kf.cfg" if quick else "HostileSpace_all.cfg", FAM, workers=1, timeout=1800, heap="8g", env={"OUT": out})
        vlib.require_ok(r, "HostileSpace enumeration")
        if not r.printed or not os.path.exists(out): raise vlib.MachineryError("HostileSpace produced nothing")
        return out, r.printed[0]

    # ------------------------------------------------------------------------------------------------ 2. / 3. harness runs
    def harness(args, tag, rep):
        rc, out, err = vlib.run([srv] + args, timeout=to, env=env)
        rows = vlib.read_ndjson(rep) if os.path.exists(rep) else []
        cur = None
        if rc != 0 or any(r.get("hang") for r in rows):
            try: cur = json.loads(open(rep + ".cur").read())
            except Exception:
                try: cur = open(rep + ".cur").read()[:3000]
                except Exception: cur = None
        return {"tag": tag, "rc": rc, "rows": rows, "stderr": err[-6000:], "cur": cur}

    def oq_replay(cases, k, is_rerun=False):
        cf_ = W("oq%s.ndjson" % k); rep = W("oq_rep%s.ndjson" % k)
        vlib.write_ndjson(cf_, cases)
        res = harness(["oq", cf_, rep], "oq%s" % k, rep)
        if not is_rerun and isinstance(res["cur"], dict): res["rerun"] = lambda: oq_replay([res["cur"]], "%s-rerun" % k, True)
        return res

    def hostile_run(path, k, n, nseq, seqlen, is_rerun=False):
        rep = W("host_rep%s.ndjson" % k)
        if is_rerun: res = harness(["hostile", path, rep, str(seed), "100000", "0", "0"], "hostile%s" % k, rep)
        else:        res = harness(["hostile", path, rep, str(seed), "150", str(nseq), str(seqlen), str(k), str(n)], "hostile%d" % k, rep)
        if not is_rerun and isinstance(res["cur"], dict) and res["cur"].get("history"):
            def again():
                hp = W("host_rerun%s.ndjson" % k)
                first = open(path).readline()      # the prelude / epilogue line of HostileSpace's output goes with every re-run
                vlib.write_ndjson(hp, ([json.loads(first)] if '"prelude"' in first else []) + [dict(h["case"], **{"from": h["from"]}) for h in res["cur"]["history"]])
                return hostile_run(hp, "%s-rerun" % k, 1, 0, 0, True)
            res["rerun"] = again
        return res

    def reproduced(res):
        """a watchdog report is time-dependent: the case / the history is run once more, alone, before it is believed"""
        if "rerun" not in res: return True
        rr = res["rerun"]()
        again = rr["rc"] not in (0,) or any(r.get("hang") or r.get("violations") for r in rr["rows"])
        if not again: vlib.log("NOTE property=C07 the watchdog fired once in %s but the case ran normally when repeated alone (machine overloaded?): not reported" % res["tag"])
        return again

    def judge(res, what):
        summ = [r for r in res["rows"] if r.get("summary")]
        for r in res["rows"]:
            if r.get("summary"): continue
            if r.get("hang"):
                if not reproduced(res): return None
                r = dict(r, case=res["cur"])
            if r.get("violations"):
                v.violation("%s: %s" % (what, "; ".join(r["violations"][:2])), r, tag=res["tag"])
            elif r.get("drift"):
                v.drift += 1
                if v.drift <= 3: vlib.log("DRIFT property=C07 %s: %s" % (what, "; ".join(r["drift"][:2])[:500]))
        if res["rc"] != 0:
            if res["rc"] == -999: raise vlib.MachineryError("srv %s: timeout of the whole run (the in-harness watchdog did not fire): %s" % (res["tag"], res["stderr"][-800:]))
            if res["rc"] == -9: raise vlib.MachineryError("srv %s was killed from outside (out of memory?)" % res["tag"])
            if summ and summ[-1].get("hang"): return summ[-1]
            kind = "sanitizer report" if res["rc"] in (66, 67) else "crash (exit %s)" % res["rc"]
            v.violation("%s: %s of the server: %s" % (what, kind, " | ".join(l.strip() for l in res["stderr"].splitlines() if "ERROR" in l or "SUMMARY" in l or "runtime error" in l)[:600]),
                        {"case": res["cur"], "exit": res["rc"], "stderr": res["stderr"]}, tag=res["tag"] + "-crash")
            return None
        if not summ: raise vlib.MachineryError("srv %s wrote no summary: %s" % (res["tag"], res["stderr"][-800:]))
        return summ[-1]

    nshard = 4 if quick else 8
    with cf.ThreadPoolExecutor(max_workers=16) as ex:
        f_mc = ex.submit(model_check); f_f1 = ex.submit(reach_f1); f_hs = ex.submit(hostile_space)
        hpath, hmeta = f_hs.result()
        f_host = [ex.submit(hostile_run, hpath, k, nshard, 30 if quick else 1500, 40 if quick else 60) for k in range(nshard)]
        r, cases = f_mc.result()
        if len(cases) < 1000: raise vlib.MachineryError("OutQueue produced only %d cases" % len(cases))
        cases.sort(key=lambda c: json.dumps(c, sort_keys=True))
        for i, c in enumerate(cases): c["id"] = i
        f_oq = [ex.submit(oq_replay, cases[k::nshard], k) for k in range(nshard)]
        # self-test: a case whose expected end queue was corrupted must be reported (as drift) by the harness
        bad = json.loads(json.dumps(next(x for x in cases if len(x["q0"]) == 2 and x["q"] == x["q0"]))); bad["q"] = bad["q"][:1]
        f_bad = ex.submit(oq_replay, [bad], "selftest", True)
        if not f_f1.result(): raise vlib.MachineryError("vacuity guard: OutQueue with the deviation F1 does not violate Terminates")
        oq = {"cases": 0, "followed": 0, "drifted": 0, "messages_queued": 0, "messages_arrived": 0, "pumps": 0}; slow = 0
        for f in f_oq:
            s = judge(f.result(), "OutQueue case replayed with the victim's valve closed")
            if s:
                for k in oq: oq[k] += s.get(k, 0)
                slow = max(slow, s.get("slowest_pump_us", 0))
        if not any(x.get("drift") for x in f_bad.result()["rows"]): raise vlib.MachineryError("self-test: an OutQueue case with a corrupted expected queue was not reported by the harness")
        hs = {"injected": 0, "servers": 0, "pings_answered": 0, "senders_lost": 0, "pumps": 0}; backlog = 0
        for f in f_host:
            s = judge(f.result(), "hostile Message")
            if s:
                for k in hs: hs[k] += s.get(k, 0)
                slow = max(slow, s.get("slowest_pump_us", 0)); backlog = max(backlog, s.get("max_backlog", 0))
    if oq["followed"] == 0 and not v.violations: raise vlib.MachineryError("no OutQueue case could be followed")
    if hs["injected"] < hmeta["cases"] and not v.violations: raise vlib.MachineryError("hostile: %d Messages enumerated, only %d injected" % (hmeta["cases"], hs["injected"]))
    hang_cases = sum(1 for c in cases if c["cmd"][0]["kind"] == "JR" and any(f in ("w1", "w2") for p in c["cmd"] for f in p["filt"]) and len(c["q0"]) >= 2)
    cov = {"evaluations": oq["cases"] + hs["injected"], "distinct_nontrivial": oq["followed"],
           "rule": "OutQueue cases = every (queue of 0..%d result Messages over 8 shapes)" % (3 if quick else 4) + " x (19 command Messages: JETTISONRESULTS without keys / with keys / with keys + filters incl. a rejected archive, JETTISONDATATREES without / with ids, BATCHes nested up to 101) reachable in the TLC model, distinct by construction; non-trivial = the real server built exactly that queue behind a closed valve, handled the command within the watchdog, answered the witness's ping, and ended with the specification's queue both in-process and on the wire; hostile Messages = HostileSpace's enumeration, each once from a non-reading client plus seeded random sequences from two clients",
           "exhaustive": True,
           "states": r.distinct, "transitions": r.generated, "model_wall_s": round(r.wall, 1), "actions_taken": {a: r.coverage.get(a, (0, 0))[0] for a in ACTIONS},
           "outqueue_cases": len(cases), "cases_replayed": oq["cases"], "cases_followed": oq["followed"], "cases_drifted": oq["drifted"],
           "cases_in_the_F1_region": hang_cases, "result_messages_queued": oq["messages_queued"], "result_messages_received_after_opening_the_valve": oq["messages_arrived"],
           "hostile_space": hmeta, "hostile_messages_injected": hs["injected"], "server_instances": hs["servers"] + oq["cases"], "witness_pings_answered": hs["pings_answered"] + 2 * oq["followed"],
           "senders_disconnected_by_their_own_message": hs["senders_lost"], "max_backlog_of_the_non_reading_client": backlog, "event_loop_pumps": oq["pumps"] + hs["pumps"], "slowest_pump_us": slow, "watchdog_cpu_s": 5, "watchdog_wall_s": 120,
           "vacuity_guards": ["Deviations={F1} -> Terminates violated"],
           "samples": [{"kind": "OutQueue case", "case": cases[len(cases) // 3]}, {"kind": "OutQueue case", "case": cases[-1]}] + [{"kind": "hostile Message", "case": json.loads(l)} for l in open(hpath).readlines()[1000:1002]]}
    # the session life cycle of ReflectServer (spec/ServerLifecycle): sessions added, connected, replaced, reconnected, ended from inside callbacks ...;
    # a crash, hang, leaked or doubly detached session or a callback after detachment is a VIOLATION of this property, a different callback order is DRIFT
    try:
        import lifecycle
        cov["session_life_cycle"] = lifecycle.stage(v, tier, seed)
    except vlib.MachineryError:
        raise
    assumptions = ["bounded time = every pump of the single-threaded event loop (ServerProcessLoop(0)) returns within a watchdog of 5 s CPU time and 120 s wall-clock time (normally well under a millisecond), for the enumerated Messages; a hang reachable only by a shape outside HostileSpace / OutQueue is not excluded",
                   "the model's loops terminate (TLC, weak fairness) for queues of at most 3 (thorough: 4) result Messages over the 8 shapes; longer queues are covered by the injection passes only (backlog up to the number reported)",
                   "queue contents after a command are compared with OutQueue as DRIFT: the documentation says only 'removes data from outgoing result messages'",
                   "Messages nested deeper than ~1500 are not sent (F7, C02: the parser's recursion overflows the stack before any handler runs)"]
    return "exploration", cov, assumptions
