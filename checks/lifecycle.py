"""LIFECYCLE - the session life cycle of ReflectServer (a stage of C07 "one client's traffic can never hang or crash the server" and
C06 "... leaves no trace when it departs"; it also runs stand-alone: tools/check LIFECYCLE quick).

 1. TLC model-checks spec/ServerLifecycle/LifeImpl.tla (the server's session table, lame-duck table, each session's life-cycle state, its gateway
    and socket connection, one accept factory, one action per step the server takes, sessions acting on themselves and on each other from inside
    their callbacks) against the documented protocol (20 clauses, each quoting its header sentence) on several focused instances; 20 named wrong
    designs (`Deviations`) must each violate the clause they are aimed at (vacuity guards, run every time).
 2. spec -> code: the same runs dump their state graphs; tools/pathcover.py turns each into behaviours covering EVERY transition; harness/life.cpp
    (asan) replays each on a real ReflectServer driven through its public API (sessions over socket pairs / loopback TCP, ServerProcessLoop(0)), and
    compares after every call the callbacks observed (session, callback, IsAttachedToServer, IsFullyAttachedToServer, IsConnected, number of
    sessions), the result and the snapshot (GetSessions() in order, per-session flags, which connection each session holds, which connections the
    server closed) with the specification's.
 3. code -> spec: seeded random histories (scripted actions inside callbacks included) on the asan build; TLC validates the recorded traces
    against LifeImpl (LifeTrace.tla), one line per call.
 Verdicts: a crash / sanitizer report / assertion of the real server, a hang (watchdog), a session never detached / never destroyed after Cleanup()
 and destruction of the server, detached twice, destroyed while attached, or called back after AboutToDetachFromServer() returned is a VIOLATION
 (judged by a monitor in the harness that does not involve the specification).  Any other difference in callback order / count / state is DRIFT.
"""
import concurrent.futures as cf, json, os, re, random, subprocess, sys, threading
sys.path.insert(0, os.path.join(os.path.dirname(os.path.abspath(__file__)), "..", "tools"))
import vlib, pathcover
_cover_slots = threading.Semaphore(6)

# never more than 8 TLC workers at a time, whatever the thread pools do
_permits = threading.Semaphore(8); _grab = threading.Lock()


def tlc(module, name, workers=1, **kw):
    with _grab:
        for _ in range(workers): _permits.acquire()
    try: return vlib.tlc(module, name, FAM, workers=workers, **kw)
    finally:
        for _ in range(workers): _permits.release()


FAM = "ServerLifecycle"
PID = "LIFECYCLE"
DRIVER = ["AddSock", "AddBare", "AddConn", "AddDorm", "Ext", "Send", "Close", "PConn", "PutFac", "RemFac", "Arm", "Clock", "Wp", "Pump", "Cleanup"]
INNER = ["iDetach", "iPrep", "iPulse", "iMsg", "iRdErr", "iWrite", "iAccept", "iEnd", "cDet", "cFree"]
CLAUSES = ["TypeOK", "AttachOnce", "AttachFirst", "DetachOnce", "DetachOnlyAttached", "NoCallbackAfterDetach", "TableAgrees", "FullFlag", "DestroyedDetached", "NoLeak",
           "MustGo", "CCCResult", "CCCOncePerConn", "ConnectOutcomeOnce", "PumpFlushesDucks", "Replace", "Dormant", "AutoReconnect", "NullCreatesNothing", "QuitStopsLoop"]

# instance = (tag, N, driver steps, Ops, Pers, MsgMenu, ExtMenu, ArmMenu, Dests, FacModes)
QUICK = [("core3", 2, 3, "core", "all", "small", "core", "core2", '{"up"}', '{"ok"}'),
         ("msg4", 3, 4, "msg", "plain", "core", "none", "none", '{"up"}', '{"ok"}'),
         ("arm4", 2, 4, "core", "att", "small", "none", "core2", '{"up"}', '{"ok"}'),
         ("conn4", 2, 4, "conn", "plain", "none", "conn", "conn2", '{"up", "down"}', '{"ok"}'),
         ("conn5", 2, 5, "connx", "plain", "none", "none", "none", '{"up", "down"}', '{"ok"}'),
         ("fac5", 2, 5, "fac", "plain", "small", "none", "none", '{"up"}', '{"ok", "null", "bad"}')]
THOROUGH = [("core3w", 3, 3, "core", "all", "core", "core", "core", '{"up"}', '{"ok"}'),
            ("msg5", 3, 5, "msg", "plain", "core", "none", "none", '{"up"}', '{"ok"}'),
            ("arm4w", 3, 4, "core", "att", "small", "small", "core", '{"up"}', '{"ok"}'),
            ("conn4w", 2, 4, "conn", "plain", "none", "small", "conn", '{"up", "down"}', '{"ok"}'),
            ("conn5w", 2, 5, "connx", "ccc", "none", "none", "none", '{"up", "down"}', '{"ok"}'),
            ("fac5w", 3, 5, "fac", "plain", "small", "small", "none", '{"up"}', '{"ok", "null", "bad"}')]
# model checking only (no graph dump): deeper / wider
MC_THOROUGH = [(("all4", 3, 4, "all", "all", "core", "core", "core", '{"up", "down"}', '{"ok", "null", "bad"}'), ("async", "async")),
               (("conn5s", 2, 5, "conn", "ccc", "small", "conn", "conn", '{"up", "down"}', '{"ok"}'), ("sync", "refused")),      # the other way connect() may complete (not this machine's)
               (("conn5m", 2, 5, "conn", "ccc", "small", "conn", "conn", '{"up", "down"}', '{"ok"}'), ("async", "async")),
               (("core5", 3, 5, "core", "ok", "small", "small", "core2", '{"up"}', '{"ok"}'), ("async", "async")),
               (("arm6", 3, 6, "core", "att", "small", "small", "core", '{"up"}', '{"ok"}'), ("async", "async")),
               (("fac7", 3, 7, "fac", "plain", "small", "small", "none", '{"up"}', '{"ok", "null", "bad"}'), ("async", "async")),
               (("msg7", 3, 7, "msg", "plain", "core", "none", "none", '{"up"}', '{"ok"}'), ("async", "async")),
               (("conn6", 2, 6, "conn", "plain", "none", "conn", "conn2", '{"up", "down"}', '{"ok"}'), ("async", "async")),
               (("all4", 3, 4, "all", "all", "core", "core", "core", '{"up", "down"}', '{"ok", "null", "bad"}'), ("sync", "refused"))]

# wrong design -> (clause it must violate, instance in which it shows)
REACH = [("DetachTwiceOnCleanup", "DetachOnce", (2, 2, "msg", "plain", "none", "none", "none")),
         ("NoDetachOnCleanupForDucks", "NoLeak", (2, 3, "core", "plain", "none", "small", "none")),
         ("EndRemovesFromTable", "TableAgrees", (2, 2, "core", "plain", "none", "small", "none")),
         ("CallbackAfterDetach", "NoCallbackAfterDetach", (2, 4, "core", "plain", "none", "small", "none")),
         ("DoubleCCC", "CCCOncePerConn", (2, 4, "msg", "ccc", "none", "none", "none")),
         ("CCCTrueStays", "MustGo", (2, 3, "msg", "plain", "none", "none", "none")),
         ("ReplaceKeepsOld", "Replace", (2, 2, "core", "plain", "none", "core", "none")),
         ("ReplaceFailTouchesOld", "Replace", (2, 2, "core", "plain", "none", "core", "none")),
         ("FullBeforeAttach", "FullFlag", (2, 1, "msg", "plain", "none", "none", "none")),
         ("DormantConnects", "Dormant", (2, 1, "conn", "plain", "none", "none", "none")),
         ("NoReconnectOnPulse", "AutoReconnect", (2, 4, "connx", "plain", "none", "none", "none")),
         ("NoPlanForReconnect", "CCCResult", (2, 2, "connx", "plain", "none", "none", "none")),
         ("NullCreatesSession", "NullCreatesNothing", (2, 3, "fac", "plain", "none", "none", "none")),
         ("DucksNotFlushedAtEnd", "PumpFlushesDucks", (2, 3, "msg", "plain", "small", "none", "none")),
         ("FreeWhileAttached", "DestroyedDetached", (2, 2, "msg", "plain", "none", "none", "none")),
         ("QuitIgnored", "QuitStopsLoop", (2, 2, "core", "plain", "none", "small", "none")),
         ("AttachTwice", "AttachOnce", (2, 1, "msg", "plain", "none", "none", "none")),
         ("ConnectBeforeAttach", "AttachFirst", (2, 1, "conn", "plain", "none", "none", "none")),
         ("DetachWithoutAttach", "DetachOnlyAttached", (2, 1, "msg", "att", "none", "none", "none")),
         ("FinalizeBySocket", "ConnectOutcomeOnce", (2, 3, "conn", "ccc", "none", "none", "conn"))]


def cfg(name, N, steps, ops, pers, msg, ext, arm, dests, fac, modes, record, invs, dev=()):
    p = os.path.join(vlib.SPEC, FAM, name)
    with open(p, "w") as f:
        f.write('SPECIFICATION Spec\nCONSTANTS\n  N = %d\n  MaxSteps = %d\n  MaxQ = 2\n  Ops <- Ops_%s\n  Pers <- Pers_%s\n  Dests = %s\n  MsgMenu <- Msg_%s\n  ExtMenu <- Ext_%s\n  ArmMenu <- Arm_%s\n'
                '  FacModes = %s\n  UpMode = "%s"\n  DownMode = "%s"\n  Deviations = {%s}\n  RECORD = %s\n' %
                (N, steps, ops, pers, dests, msg, ext, arm, fac, modes[0], modes[1], ", ".join('"%s"' % d for d in dev), "TRUE" if record else "FALSE"))
        if invs: f.write("INVARIANTS " + " ".join(invs) + "\n")
    return name


def trace_cfg(name, N, modes):
    p = os.path.join(vlib.SPEC, FAM, name)
    with open(p, "w") as f:
        f.write('SPECIFICATION TraceSpec\nCONSTANTS\n  N = %d\n  MaxSteps = 100000000\n  MaxQ = 100000000\n  Ops <- Ops_all\n  Pers <- Pers_all\n  Dests = {"up", "down"}\n  MsgMenu <- Msg_none\n  ExtMenu <- Ext_none\n'
                '  ArmMenu <- Arm_none\n  FacModes = {"ok", "null", "bad"}\n  UpMode = "%s"\n  DownMode = "%s"\n  Deviations = {}\n  RECORD = TRUE\nINVARIANTS %s\n' %
                (N, modes[0], modes[1], " ".join(CLAUSES)))
    return name


def flat(s):
    """a `last` record of LifeImpl -> the step the harness reads (arguments at the top level)"""
    d = dict(s.get("g") or {})
    d.update(a=s["a"], r=s["r"], ev=s["ev"], pc=s["pc"], snap=s["snap"])
    return d


def brief(steps):
    out = []
    for s in steps:
        a = s.get("a")
        if a in ("Pump", "Cleanup", "Clock", "PutFac", "RemFac"): out.append(a)
        elif a in ("Ext",): out.append("Ext:%s(%s)" % (s.get("op"), s.get("t")))
        elif a == "Send": out.append("Send[c%s]:%s(%s)" % (s.get("c"), s.get("act"), s.get("t")))
        elif a == "Arm": out.append("Arm:s%s.%s->%s(%s)" % (s.get("s"), s.get("cb"), s.get("act"), s.get("t")))
        elif a and a[0] in "ic" and a[1:2].isupper(): continue
        else: out.append("%s(%s)" % (a, ",".join("%s=%s" % (k, s[k]) for k in ("s", "c", "ok", "ccc", "ds", "dest", "ard", "m") if k in s)))
    return out


def _cover_worker(dot, tag, N, nshard, prefix):
    """loads one dumped state graph, covers every transition by paths, writes the behaviours as <prefix>_<k>.ndjson; returns the measured numbers"""
    inits, nodes, adj = pathcover.load_graph(dot)
    os.remove(dot)
    paths, ncov, nedges = pathcover.cover(inits, nodes, adj)
    taken = {}
    for n_, rec in nodes.items():
        if rec and rec.get("a") != "Init": taken[rec["a"]] = taken.get(rec["a"], 0) + 1
    files = ["%s_%d.ndjson" % (prefix, k) for k in range(nshard)]
    fh = [open(f, "w") for f in files]
    sample = None; cand = None
    for i, p in enumerate(paths):
        row = {"id": "%s/%d" % (tag, i), "N": N, "steps": [flat(nodes[n]) for n in p[1:]]}
        fh[i % nshard].write(json.dumps(row, separators=(",", ":")) + "\n")
        if i == len(paths) // 2: sample = {"kind": "behaviour replayed (%s)" % tag, "steps": brief(row["steps"]), "callbacks_of_last_call": row["steps"][-1]["ev"]}
        if cand is None and any(s["ev"] for s in row["steps"]): cand = row
    for f in fh: f.close()
    return {"files": files, "paths": len(paths), "covered": ncov, "edges": nedges, "states": len(nodes), "taken": taken, "sample": sample, "cand": cand}


def stage(v, tier, seed):
    vlib.make("asan", "life")
    life = vlib.binpath("asan", "life")
    W = lambda n: vlib.scratch(PID, n)
    quick = tier == "quick"
    prop = "C07"
    env = {"LIFE_WATCHDOG": "5"}
    to = 280 if quick else 2400

    # ------------------------------------------------------------------------------------------------ how does loopback connect() behave here?
    rc, out, err = vlib.run([life, "probe"], timeout=60)
    if rc != 0: vlib.harness_failed(v, rc, out, err, "life probe", "probe")
    try: pr = json.loads(out.strip().splitlines()[-1])
    except Exception: raise vlib.MachineryError("life probe printed %r" % out[-300:])
    modes = ("sync" if pr["up"] == "sync" else "async", "refused" if pr["down"] == "refused" else "async")

    # informational: the directed case of the descriptor-number-reuse finding (a callback count / order difference: never a verdict)
    rc, out, err = vlib.run([life, "fdreuse"], timeout=120, env=env)
    if rc != 0: vlib.harness_failed(v, rc, out, err, "life fdreuse", "fdreuse")
    try: fdr = json.loads(out.strip().splitlines()[-1])
    except Exception: fdr = {"unreadable": out[-200:]}
    if fdr.get("with_the_kernels_numbers"):
        vlib.log("NOTE property=%s descriptor-number reuse (reported finding, informational): a session that calls Reconnect() during HandleEvents() inherits the multiplexer's answer about a socket closed earlier in the same iteration "
                 "and is told ClientConnectionClosed() although its connect is still in progress; the stages below give every server-side socket a never-used number" % prop)

    # ------------------------------------------------------------------------------------------------ 1. + 2. model checking and graph dump
    nshard = 2 if quick else 4

    def generate(inst):
        tag, N = inst[0], inst[1]
        name = cfg("gen_Gen_%s.cfg" % tag, *inst[1:], modes=modes, record=True, invs=CLAUSES)
        dot = W("g_%s.dot" % tag)
        r = tlc("LifeMC", name, workers=1 if quick else 2, timeout=2400, heap="6g", dump=dot)
        vlib.require_ok(r, "LifeImpl model check + graph dump %s" % tag)
        # the path cover runs in a process of its own (pure Python: threads would serialise on the interpreter lock; and no fork() from this threaded process)
        with _cover_slots:
            pr_ = subprocess.run([sys.executable, os.path.abspath(__file__), "cover", dot, tag, str(N), str(nshard), W("beh_%s" % tag)], stdout=subprocess.PIPE, stderr=subprocess.PIPE, text=True, timeout=3000)
        if pr_.returncode != 0: raise vlib.MachineryError("path cover %s failed: %s" % (tag, pr_.stderr[-1500:]))
        c = json.loads(pr_.stdout)
        if c["covered"] != c["edges"]: raise vlib.MachineryError("path cover incomplete (%s): %d of %d" % (tag, c["covered"], c["edges"]))
        return dict(c, tag=tag, N=N, distinct=r.distinct, generated=r.generated, depth=r.depth, wall=round(r.wall, 1))

    def model_check(inst, mm):
        tag = inst[0] + "_" + mm[0] + "_" + mm[1]
        name = cfg("gen_MC_%s.cfg" % tag, *inst[1:], modes=mm, record=False, invs=CLAUSES)
        r = tlc("LifeMC", name, workers=8, timeout=3000, heap="12g")
        vlib.require_ok(r, "LifeImpl model check %s" % tag)
        return {"tag": tag, "distinct": r.distinct, "generated": r.generated, "depth": r.depth, "wall": round(r.wall, 1)}

    def reach(i, dev, want, a):
        name = cfg("gen_Reach_%d_%s.cfg" % (i, dev), a[0], a[1], a[2], a[3], a[4], a[5], a[6], '{"up", "down"}', '{"ok", "null", "bad"}', ("async", "async"), False, [want], dev=[dev])
        r = tlc("LifeMC", name, workers=1, timeout=600, heap="2g")
        if r.error and not r.violated: raise vlib.MachineryError("Reach %s: %s" % (dev, r.error))
        return dev, want, r.violated

    # ------------------------------------------------------------------------------------------------ harness runs
    def harness(args, tag, rep):
        rc, out, err = vlib.run([life] + args, timeout=to, env=env)
        rows = vlib.read_ndjson(rep) if os.path.exists(rep) else []
        cur = None
        if rc != 0 or any(r.get("hang") for r in rows):
            try: cur = json.loads(open(rep + ".cur").read())
            except Exception: cur = None
        return {"tag": tag, "rc": rc, "rows": rows, "stderr": (out[-1500:] + "\n" + err[-6000:]) if rc != 0 else err[-2000:], "cur": cur}

    def replay(rows, tag, is_rerun=False):
        """rows: a list of behaviours, or the name of a file that holds them"""
        rep = W("rep_%s.ndjson" % tag)
        if isinstance(rows, str): bf = rows
        else:
            bf = W("beh_%s.ndjson" % tag); vlib.write_ndjson(bf, rows)
        res = harness(["replay", bf, rep], tag, rep)
        if not is_rerun and isinstance(res["cur"], dict) and "steps" in res["cur"]: res["rerun"] = lambda: replay([res["cur"]], tag + "-rerun", True)
        return res

    def validate(tr, N, tag):
        name = trace_cfg("gen_Trace_%s.cfg" % tag, N, modes)
        r = tlc("LifeTrace", name, workers=1, timeout=2400, heap="4g", env={"TRACE": tr})
        if r.error and not r.violated: raise vlib.MachineryError("LifeTrace %s: %s" % (tag, r.error))
        nlines = sum(1 for _ in open(tr))
        return {"accepted": r.violated is None and any(isinstance(p_, dict) and p_.get("accepted") for p_ in r.printed), "other": r.violated, "states": r.distinct, "lines": nlines, "trace": tr}

    def random_histories(nh, ns, N, shard, is_rerun=False):
        rep = W("rep_rand%d.ndjson" % shard); tr = W("trace_rand%d.ndjson" % shard)
        res = harness(["random", str(nh), str(ns), str(seed * 1000 + shard), str(N), rep, tr, modes[0]], "rand%d" % shard, rep)
        if not is_rerun and res["cur"] is not None: res["rerun"] = lambda: random_histories(nh, ns, N, shard, True)[0]
        hung = any(r.get("hang") for r in res["rows"])          # (the trace file of a run the watchdog ended is cut short)
        val = validate(tr, N, "rand%d" % shard) if (res["rc"] == 0 and not hung and os.path.exists(tr) and os.path.getsize(tr) > 0) else None
        return res, val

    def first_unexplained(tr, N, lines_ok):
        """finds the first line of a rejected trace the specification cannot explain (bisection on whole histories would be dearer: the states explored tell)"""
        lines = open(tr).read().splitlines()
        # validation is linear: distinct states grow with explained lines; re-run on the history that contains the break
        starts = [i for i, l in enumerate(lines) if l.startswith('{"a":"Reset"')]
        lo, hi = 0, len(starts)
        while hi - lo > 1:           # largest prefix of whole histories that is accepted
            mid = (lo + hi) // 2
            bt = W("trace_bisect.ndjson"); open(bt, "w").write("\n".join(lines[:starts[mid]]) + "\n")
            if validate(bt, N, "bisect")["accepted"]: lo = mid
            else: hi = mid
        h0 = starts[lo]; h1 = starts[lo + 1] if lo + 1 < len(starts) else len(lines)
        hist = lines[h0:h1]
        for k in range(2, len(hist) + 1):
            bt = W("trace_bisect.ndjson"); open(bt, "w").write("\n".join(hist[:k]) + "\n")
            if not validate(bt, N, "bisect")["accepted"]:
                return {"history": json.loads(hist[0]).get("h"), "line": k, "step": json.loads(hist[k - 1]), "before": brief([json.loads(x) for x in hist[1:k - 1]])}
        return {"history": json.loads(hist[0]).get("h"), "line": None}

    def reproduced(res):
        if "rerun" not in res: return True
        rr = res["rerun"]()
        again = rr["rc"] not in (0,) or any(r.get("hang") or r.get("violations") for r in rr["rows"])
        if not again: vlib.log("NOTE property=%s the watchdog fired once in %s but the case ran normally when repeated alone (machine overloaded?): not reported" % (prop, res["tag"]))
        return again

    ndrift = [0]

    def judge(res, what):
        summ = [r for r in res["rows"] if r.get("summary")]
        for r in res["rows"]:
            if r.get("summary"): continue
            if r.get("hang"):
                if not reproduced(res): return None
                r = dict(r, case=res["cur"], steps=(res["cur"].get("steps", []) if isinstance(res["cur"], dict) else (res["cur"] or [])))
            if r.get("violations"):
                v.violation("%s %s: %s" % (what, brief(r.get("steps", [])), "; ".join(r["violations"][:3])), r, tag=res["tag"])
            elif r.get("drift"):
                v.drift += 1; ndrift[0] += 1
                if ndrift[0] <= 5: vlib.log("DRIFT property=%s %s %s: %s" % (prop, what, brief(r.get("steps", [])), "; ".join(r["drift"][:2])[:600]))
        if res["rc"] != 0:
            if res["rc"] == -999: raise vlib.MachineryError("life %s: timeout of the whole run (the in-harness watchdog did not fire): %s" % (res["tag"], res["stderr"][-800:]))
            if res["rc"] == -9: raise vlib.MachineryError("life %s was killed from outside (out of memory?)" % res["tag"])
            if summ and summ[-1].get("hang"): return summ[-1]
            kind = "sanitizer report" if res["rc"] in (66, 67) else "crash (exit %s)" % res["rc"]
            cur = res["cur"]
            v.violation("%s: %s of the server while running %s: %s" % (what, kind, brief(cur["steps"]) if isinstance(cur, dict) and "steps" in cur else (brief(cur) if isinstance(cur, list) else "?"),
                                                                          " | ".join(l.strip() for l in res["stderr"].splitlines() if "ERROR" in l or "SUMMARY" in l or "runtime error" in l or "ASSERTION" in l or "Assertion" in l)[:600]),
                        {"case": cur, "exit": res["rc"], "stderr": res["stderr"]}, tag=res["tag"] + "-crash")
            return None
        if not summ: raise vlib.MachineryError("life %s wrote no summary: %s" % (res["tag"], res["stderr"][-800:]))
        return summ[-1]

    # ================================================================================================ schedule
    insts = QUICK if quick else THOROUGH
    nh, ns, NR = (250, 30, 4) if quick else (6000, 40, 5)
    rshards = 4 if quick else 8
    gens = []; mcs = []; guards = []
    agg = {"behaviours": 0, "followed": 0, "drifted": 0, "steps": 0, "calls": 0, "callbacks": 0, "sessions": 0}
    ragg = {"histories": 0, "clean": 0, "steps": 0, "callbacks": 0, "trace_lines": 0, "sessions": 0, "nested_actions_fired": 0}
    accepted_hist = 0; tstates = 0; samples = []; first_trace = None
    with cf.ThreadPoolExecutor(max_workers=8) as ex, cf.ThreadPoolExecutor(max_workers=8) as hx:
        f_rand = [hx.submit(random_histories, nh, ns, NR, k) for k in range(rshards)]
        f_gen = [ex.submit(generate, i) for i in insts]
        f_reach = [ex.submit(reach, i, d, w_, a) for i, (d, w_, a) in enumerate(REACH)]
        f_mc = [ex.submit(model_check, i, mm) for (i, mm) in MC_THOROUGH] if not quick else []
        f_rep = []; bad_submitted = None
        for f in cf.as_completed(f_gen):
            g = f.result(); gens.append(g)
            if len(samples) < 3 and g["sample"]: samples.append(g["sample"])
            f_rep += [hx.submit(replay, bf, "%s_%d" % (g["tag"], k)) for k, bf in enumerate(g["files"])]
            if bad_submitted is None and g["cand"]:
                # self-test: a behaviour with one expected callback removed must be reported (as drift) by the harness
                bad = json.loads(json.dumps(g["cand"])); st = next(s for s in bad["steps"] if s["ev"]); st["ev"] = st["ev"][:-1]
                bad_submitted = hx.submit(replay, [bad], "selftest", True)
            del g["cand"]
        for f in f_reach:
            dev, want, got = f.result(); guards.append("%s->%s" % (dev, got))
            if got != want: raise vlib.MachineryError("vacuity guard: LifeImpl with the wrong design %s does not violate %s (TLC says: %s)" % (dev, want, got))
        for f in f_rep:
            s = judge(f.result(), "replay of a TLC behaviour")
            if s:
                for k in agg: agg[k] += s.get(k, 0)
        if bad_submitted is not None and not any(r.get("drift") for r in bad_submitted.result()["rows"]) and not v.violations:
            raise vlib.MachineryError("self-test: a behaviour with a removed expected callback was not reported by the harness")
        for f in f_rand:
            res, val = f.result()
            s = judge(res, "random history")
            if s:
                for k in ragg: ragg[k] += s.get(k, 0)
            if val:
                first_trace = first_trace or val["trace"]; tstates += val["states"]
                if val["other"]:
                    # the recorded execution of the real server breaks a documented clause that the monitor does not judge: drift (see the verdict rule)
                    v.drift += 1
                    vlib.log("DRIFT property=%s recorded execution violates the documented clause %s of LifeImpl (trace %s)" % (prop, val["other"], val["trace"]))
                elif not val["accepted"]:
                    v.drift += 1
                    where = first_unexplained(val["trace"], NR, val["states"])
                    vlib.log("DRIFT property=%s recorded histories are not behaviours of LifeImpl (%s): history %s, first unexplained call %s after %s" %
                             (prop, val["trace"], where.get("history"), json.dumps(where.get("step"))[:700], where.get("before")))
                else: accepted_hist += s.get("clean", 0) if s else 0
        for f in f_mc: mcs.append(f.result())
        # self-test: one corrupted callback in a recorded trace must make TLC reject it
        if first_trace:
            lines = open(first_trace).read().splitlines()[:60]; done = False
            for i, l in enumerate(lines):
                j = json.loads(l)
                if j.get("ev") and any(e["c"] == "Att" for e in j["ev"]):
                    j["ev"] = [e for e in j["ev"] if e["c"] != "Att"]; lines[i] = json.dumps(j, separators=(",", ":")); done = True; break
            if done:
                bt = W("trace_corrupt.ndjson"); open(bt, "w").write("\n".join(lines) + "\n")
                if validate(bt, NR, "corrupt")["accepted"]: raise vlib.MachineryError("self-test: a trace with a removed AttachedToServer() callback was accepted by LifeTrace")

    # vacuity: every action of the specification was taken in the generated graphs
    taken = {}
    for g in gens:
        for a, n in g["taken"].items(): taken[a] = taken.get(a, 0) + n
    res = vlib.TLCResult(); res.coverage = {a: (n, n) for a, n in taken.items()}
    vlib.require_coverage(res, DRIVER + INNER, "LifeImpl (transitions of the generated graphs by action)")
    if agg["followed"] == 0 and not v.violations: raise vlib.MachineryError("no behaviour could be followed")
    states = sum(g["distinct"] for g in gens) + sum(m["distinct"] for m in mcs)
    trans = sum(g["generated"] for g in gens) + sum(m["generated"] for m in mcs)
    cov = {"states": states, "transitions": trans,
           "traces_validated_against_impl": agg["followed"] + accepted_hist,
           "behaviours_replayed": agg["behaviours"], "behaviours_followed_to_the_end": agg["followed"], "behaviours_drifted": agg["drifted"], "replay_steps": agg["steps"], "calls_into_the_server": agg["calls"] + ragg["steps"],
           "callbacks_compared": agg["callbacks"], "session_objects": agg["sessions"] + ragg["sessions"],
           "graph_edges": sum(g["edges"] for g in gens), "graph_states": sum(g["states"] for g in gens),
           "random_histories": ragg["histories"], "random_steps": ragg["steps"], "random_callbacks": ragg["callbacks"], "armed_callback_actions_fired": ragg["nested_actions_fired"],
           "histories_validated_by_tlc": accepted_hist, "trace_lines": ragg["trace_lines"], "trace_states": tstates,
           "connect_modes_of_this_machine": {"up": modes[0], "down": modes[1]}, "descriptor_number_reuse_case": fdr,
           "vacuity_guards": guards, "actions_taken": taken, "clauses": CLAUSES,
           "model_runs": [{k: g[k] for k in ("tag", "distinct", "generated", "depth", "wall", "edges")} for g in gens] + mcs,
           "evaluations": agg["behaviours"] + ragg["histories"], "distinct_nontrivial": agg["followed"],
           "rule": "behaviours = path covers of EVERY transition of the TLC state graphs of LifeImpl (%s), distinct by construction (each adds an uncovered transition); non-trivial = followed to the end on a real ReflectServer with every call's callbacks, result and snapshot equal to the specification's and the monitor silent; random histories: %d steps over %d session objects, validated line by line by TLC" % (", ".join("%s: %d edges" % (g["tag"], g["edges"]) for g in gens), ns, NR),
           "exhaustive": True, "samples": samples}
    return cov


ASSUMPTIONS = ["single-threaded server pumped with ServerProcessLoop(0); the server's clock is moved with SetPerProcessRunTime64Offset() (the reconnect delay is one hour of that clock, so a timer fires exactly when the specification says the clock passed it)",
               "outgoing connections go to a loopback listener of the harness (accepted at once) or to a bound, non-listening loopback port (refused); the way connect() completes on this machine is probed first and fixed in the specification's UpMode / DownMode; a connect is assumed to have completed / failed by the next iteration",
               "the multiplexer's answers are modelled per socket object, not per descriptor number (a descriptor number reused within one iteration is not modelled); I/O policies, output stalls, SSL, memory tracking, the sleep / wake-up calls and SignalHandlerSession are outside the model",
               "callback ORDER and COUNT differences are DRIFT unless they amount to: crash, hang, a session never detached / destroyed, detached twice, destroyed while attached, or called back after AboutToDetachFromServer() returned",
               "sessions created by scripted actions (ReplaceSession, AddNewSession inside a callback, the factory) have the default personality (base-class ClientConnectionClosed(), no default socket); one armed callback action at a time"]


def run(v, tier, seed):
    cov = stage(v, tier, seed)
    return "model_checking", cov, ASSUMPTIONS


if __name__ == "__main__" and len(sys.argv) > 6 and sys.argv[1] == "cover":
    print(json.dumps(_cover_worker(sys.argv[2], sys.argv[3], int(sys.argv[4]), int(sys.argv[5]), sys.argv[6])))
