"""C19 - a thread pool handles each client's Messages once, in order, one at a time.

 1. TLC model-checks spec/ThreadPool/TPImpl.tla (system/ThreadPool.cpp as coded, one action per _poolLock critical section or
    per step of a pool thread outside the lock): OneAtATime, ThreadLimit, InOrder, Conservation, FlagExact, UnregisterWaits, NoHandlerAfterUnregister and,
    under weak fairness of the library's steps, UnregisterReturns, ShutdownTerminates, AllHandled.
 2. code -> spec: seeded random workloads on a real ThreadPool under the controlled scheduler (every hooked operation is a
    pre-emption point): PoolAbs monitor + deadlock detector; the recorded traces of a subset (critical-section events emitted by
    the code, handler calls, wake-ups and joins observed by the scheduler) are validated line by line against TPImpl by TLC.
 3. free-running: bigger workloads (pool of 1-4 threads, 1-6 clients, up to 40 Messages each) on real threads without the scheduler
    (real blocking, timing noise at the hooks, a third of the runs with a concurrent shutdown); the same clauses evaluated with
    atomics, a watchdog for an UnregisterClient / Shutdown that never returns.
"""
import concurrent.futures as cf, os, re
import vlib

ACTIONS = ["Submit", "Receive", "Handle", "Finish", "UnregBegin", "UnregWake", "UnregEnd", "ShutFlag", "SwapAvail", "SwapActive", "ShutStop", "ShutFinal"]
INVS = ["OneAtATime", "ThreadLimit", "InOrder", "Conservation", "FlagExact", "UnregisterWaits", "NoHandlerAfterUnregister"]


def cfg(name, spec, clients, maxthreads, nmsgs, shutdown, invs=None, props=None):
    p = os.path.join(vlib.SPEC, "ThreadPool", name)
    with open(p, "w") as f:
        f.write("SPECIFICATION %s\nCONSTANTS\n  Clients = {%s}\n  MaxThreads = %d\n  NMsgs = %d\n  AllowShutdown = %s\n  RECORD = FALSE\n" %
                (spec, ", ".join(str(i) for i in range(1, clients + 1)), maxthreads, nmsgs, "TRUE" if shutdown else "FALSE"))
        if invs: f.write("INVARIANTS " + " ".join(invs) + "\n")
        if props: f.write("PROPERTIES " + " ".join(props) + "\n")
    return name


def run(v, tier, seed):
    vlib.make("plain", "tp")
    tp = vlib.binpath("plain", "tp")
    W = lambda n: vlib.scratch("C19", n)
    tot = {"states": 0, "transitions": 0}; mc_notes = []; samples = []

    def model_check(tag, clients, maxthreads, nmsgs, shutdown):
        name = cfg("gen_MC_%s.cfg" % tag, "FairSpec", clients, maxthreads, nmsgs, shutdown, INVS, ["UnregisterReturns", "ShutdownTerminates", "AllHandled"])
        r = vlib.tlc("TPImpl", name, "ThreadPool", coverage=True, workers=6, timeout=3400, heap="10g")
        vlib.require_ok(r, "TPImpl model check %s" % tag)
        vlib.require_coverage(r, [a for a in ACTIONS if shutdown or not a.startswith(("Shut", "Swap"))], "TPImpl %s" % tag)
        return tag, r

    def explore(iters, ntraces):
        rep = W("ex.ndjson"); trp = W("trace")
        rc, out, err = vlib.run([tp, "explore", str(iters), str(seed), rep, trp, str(ntraces)], timeout=(1200 if tier == "quick" else 3400))
        if rc != 0:
            vlib.harness_failed(v, rc, out, err, "tp explore (seed %d)" % seed, "crash")
            return [{"summary": True, "executions": 0, "yields": 0, "events": 0, "traces_written": 0, "trace_lines": 0, "messages_handled": 0, "messages_dropped_by_shutdown": 0, "distinct_plans": 0}], None
        return vlib.read_ndjson(rep), trp

    def free(fiters):
        # real pool threads without the scheduler: real blocking, timing noise at the hooks, a third of the runs with a concurrent shutdown
        rep = W("free.ndjson")
        rc, out, err = vlib.run([tp, "free", str(fiters), str(seed), rep], timeout=(900 if tier == "quick" else 3400))
        if rc != 0:
            vlib.harness_failed(v, rc, out, err, "tp free (seed %d)" % seed, "crashfree")
            return [{"summary": True, "executions": 0, "messages_handled": 0}]
        return vlib.read_ndjson(rep)

    def validate(trp, k):
        tr = "%s_%d.ndjson" % (trp, k)
        if not os.path.exists(tr) or os.path.getsize(tr) == 0: return k, True, None, None, tr, []
        r = vlib.tlc("TPTrace", "Trace_%d.cfg" % k, "ThreadPool", workers=1, timeout=1800, env={"TRACE": tr}, keep_out=True)
        accepted = (r.violated == "NotAccepted")
        other = r.violated if (r.violated and r.violated != "NotAccepted") else None
        m = re.search(r'"maxline", (\d+)', r.out); maxline = int(m.group(1)) if m else None
        if r.error and not r.violated: raise vlib.MachineryError("TPTrace: " + r.error)
        first = [l.strip() for i, l in zip(range(12), open(tr))]
        return k, accepted, other, maxline, tr, first

    iters = 3000 if tier == "quick" else 60000
    ntr = 450 if tier == "quick" else 4000
    with cf.ThreadPoolExecutor(max_workers=6) as ex:
        # 2 clients x 2 Messages with a pool of 1 and of 2 threads and destruction at any moment; thorough adds 3 clients and 3 Messages
        jobs = [ex.submit(model_check, "2c2t", 2, 2, 2, True), ex.submit(model_check, "2c1t", 2, 1, 2, True)]
        if tier == "thorough":
            jobs += [ex.submit(model_check, "3c2t", 3, 2, 2, True), ex.submit(model_check, "2c2t3m", 2, 2, 3, True), ex.submit(model_check, "3c3t_noshut", 3, 3, 2, False)]
        f_ex = ex.submit(explore, iters, ntr)
        f_fr = ex.submit(free, 1500 if tier == "quick" else 40000)
        rows, trp = f_ex.result()
        f_val = [ex.submit(validate, trp, k) for k in (1, 2, 3)] if trp else []
        for f in jobs:
            tag, r = f.result(); tot["states"] += r.distinct; tot["transitions"] += r.generated
            mc_notes.append({"instance": tag, "distinct": r.distinct, "generated": r.generated, "depth": r.depth, "wall_s": round(r.wall, 1), "taken": {a: r.coverage.get(a, (0, 0))[0] for a in ACTIONS}})
        summ = [r for r in rows if r.get("summary")][0]
        for r in rows:
            if r.get("summary"): continue
            if r.get("violations"): v.violation("random schedule: " + "; ".join(r["violations"]), r, tag="explore")
        for f in f_val:
            k, accepted, other, maxline, tr, first = f.result()
            if first: samples.append({"kind": "first lines of a recorded execution validated by TLC", "pool_threads": k, "lines": first})
            if other: v.violation("recorded execution (pool of %d) violates %s of TPImpl (trace %s)" % (k, other, tr), {"trace": tr, "invariant": other}, tag="trace%d" % k)
            elif not accepted:
                v.drift += 1
                vlib.log("DRIFT property=C19 recorded trace (pool of %d) is not a behaviour of TPImpl: first unexplained line %s in %s" % (k, maxline, tr))
        frows = f_fr.result(); fsumm = [r for r in frows if r.get("summary")][0]
        for r in frows:
            if r.get("violations"): v.violation("free-running threads: " + "; ".join(r["violations"]), r, tag="free")
    if summ["executions"] == 0 and not v.violations: raise vlib.MachineryError("nothing explored")
    cov = {"states": tot["states"], "transitions": tot["transitions"], "traces_validated_against_impl": summ["traces_written"],
           "random_executions": summ["executions"], "scheduling_decisions": summ["yields"], "events_checked": summ["events"],
           "trace_lines_validated_by_tlc": summ["trace_lines"], "messages_handled": summ["messages_handled"], "messages_dropped_by_shutdown": summ["messages_dropped_by_shutdown"],
           "free_running_executions": fsumm["executions"], "free_running_messages_handled": fsumm["messages_handled"],
           "evaluations": summ["executions"], "distinct_nontrivial": summ["distinct_plans"],
           "rule": "executions = seeded random workloads (pool of 1-3 threads, 1-3 clients, 0-3 Messages each, two submitting threads, random subset of clients unregistered while work is outstanding, in half of them a third thread shuts the pool down at a random moment, pool destroyed at the end) x seeded random schedule; distinct = distinct workloads (a lower bound: schedules differ too)",
           "exhaustive": False, "model_runs": mc_notes, "samples": samples}
    assumptions = ["sequential consistency: the scheduler serialises threads at the hooked operations; weak-memory effects are out of scope",
                   "the pool is destroyed only after the submitting threads have made their last SendMessageToThreadPool call (destroying it earlier is a use-after-free by the caller, not a pool property); the model allows destruction at any moment",
                   "recorded traces given to TLC keep _poolLock critical sections atomic; all other executions are pre-empted at every hooked operation",
                   "the Message channel to a pool thread is C11's and is abstracted in TPImpl"]
    return "model_checking", cov, assumptions
