"""C14 - query filters evaluate as documented, survive archiving, tolerate bad archives.

 1. TLC model-checks laws of the oracle spec/QueryFilter/QueryFilter.tla (QFLaws.tla: archive round trip, field order,
    convenience classes = threshold classes, complement, De Morgan, unary/binary cases, operator algebra, assumed default,
    expression grammar Parse(Tokens(f)) = f and the documented mixed-operator error); a second small run gives action coverage;
    Reach_* runs with one deliberately wrong reading each must violate the law that guards it (vacuity guard).
 2. code -> spec: harness/qf.cpp (asan variant) evaluates an enumeration of filter trees (all kinds x all operators x operand
    menu x index {0,1,5}; combinators of depth <= 2) plus seeded random trees on a Message menu with the REAL classes and
    records the verdicts of the original, of the filter restored from its archive and of the filter parsed from the rendered
    expression; TLC (QFTrace.tla, one process per shard) judges every line against Eval.
 3. hostile archives: TLC derives them from the specification's Archive form (QFHostile.tla), the asan harness feeds them to
    the factory; a sanitizer report / crash is a VIOLATION.  Plus seeded random damage (qf fuzz).
 4. hostile expression strings: TLC spells them from the token alphabet of QFParse.tla (QFExprHostile.tla: every cast x every
    literal shape x every name/index/default shape, token soup), the asan harness adds seeded soup and damaged valid expressions and
    feeds all to CreateQueryFilterFromExpression (qf hx, resumable: every crashing string is reported, the run continues after it).
 Known finding F22 (zero-length assumed default of a RawDataQueryFilter is lost by SaveToArchive) is carried as a directed case.
"""
import concurrent.futures as cf, json, os, threading, time
import vlib

FAM = "QueryFilter"
LAWS = ["TypeOK", "RoundTrip", "RestoredDecidesAlike", "FieldOrder", "Convenience", "Complement", "DeMorgan", "Small", "OpAlgebra", "Default", "Grammar", "Mixed"]
ACTIONS = ["Empty", "Wrap1", "Wrap2", "Wrap3", "WrapMsg"]
# wrong reading -> the law that must catch it
REACH = [("or_empty_false", "Convenience"), ("xor_even", "Small"), ("archive_drops_idx", "RoundTrip"), ("archive_drops_idx", "RestoredDecidesAlike"),
         ("le_is_lt", "OpAlgebra"), ("num_default_ignored", "Default"), ("lookup_first_field", "FieldOrder"), ("nand_is_nor", "DeMorgan"),
         ("thr_no_clamp", "Complement"), ("dot_means_float", "Grammar"), ("mixed_accepted", "Mixed")]
PROPERTY_INVS = ("EvalOK", "UnchangedOK", "ArchiveOK", "ExprOK", "MixedOK")
WHAT = {"EvalOK": "Matches() of the real filter contradicts the documented meaning (Eval)",
        "UnchangedOK": "evaluation changed the flattened bytes of a Message",
        "ArchiveOK": "the filter restored by SaveToArchive -> CreateQueryFilter decides differently from the original (or could not be restored)",
        "ExprOK": "the filter CreateQueryFilterFromExpression built from the expression decides differently from the tree the grammar denotes (or the expression was refused)",
        "MixedOK": "an expression that mixes && / || / ^ on one level was accepted although the documentation calls it an error"}


def is_f22(t):
    """predicate of known finding F22: a RawDataQueryFilter with a zero-length assumed default somewhere in the tree"""
    if not isinstance(t, dict): return False
    if t.get("k") == "raw" and t.get("hd") and t.get("d") == []: return True
    return any(is_f22(k) for k in t.get("kids", []))


def crashed(rc):
    return rc in (66, 67) or (rc is not None and rc < 0 and rc != -999)


def san_summary(err):
    """the telling lines of a sanitizer report / crash"""
    keep = [l.strip() for l in err.splitlines() if ("runtime error" in l or "SUMMARY:" in l or "ERROR: AddressSanitizer" in l or "DEADLYSIGNAL" in l)]
    return " | ".join(keep[:3])[:500] if keep else err[-300:].replace("\n", " ")


def run(v, tier, seed):
    quick = (tier == "quick")
    W = lambda n: vlib.scratch("C14", n)
    jtmp = W("jtmp"); os.makedirs(jtmp, exist_ok=True)
    JENV = {"JAVA_TOOL_OPTIONS": "-Djava.io.tmpdir=" + jtmp}      # TLC unpacks its standard modules into java.io.tmpdir and leaves them there
    NOTE = ["-noGenerateSpecTE"]
    vlib.make("plain", "qf"); vlib.make("asan", "qf")
    qf_plain, qf_asan = vlib.binpath("plain", "qf"), vlib.binpath("asan", "qf")
    slots = threading.BoundedSemaphore(8)                          # TLC workers in flight
    stage = {}                                                     # wall seconds per stage (goes into the evidence)
    vlock = threading.RLock()                                      # the stages run in threads; Verdict is not thread-safe

    def viol(what, replay_obj, tag=None):
        with vlock: v.violation(what, replay_obj, tag=tag)

    def timed(name, fn, *a):
        t0 = time.time()
        try: return fn(*a)
        finally: stage[name] = round(stage.get(name, 0) + time.time() - t0, 1)

    class Slots:
        def __init__(self, n): self.n = n
        def __enter__(self):
            for _ in range(self.n): slots.acquire()
        def __exit__(self, *a):
            for _ in range(self.n): slots.release()

    def cfg(name, text):
        with open(os.path.join(vlib.SPEC, FAM, name), "w") as f: f.write(text)
        return name

    def laws_cfg(name, wrong, depth, size, invs):
        return cfg(name, "SPECIFICATION Spec\nCONSTANTS\n  Wrong = {%s}\n  MaxDepth = %d\n  Size = \"%s\"\nINVARIANTS %s\n" %
                   (('"%s"' % wrong) if wrong else "", depth, size, " ".join(invs)))

    # ------------------------------------------------------------------------------------------ 1. laws of the oracle
    def laws_mc():
        w = 4 if quick else 6
        with Slots(w):
            r = vlib.tlc("QFLaws", laws_cfg("gen_MC_Laws.cfg", None, 2, "quick" if quick else "deep", LAWS), FAM, workers=w, timeout=3000, heap="8g", env=JENV)
        vlib.require_ok(r, "QFLaws model check")
        if r.distinct < 1000: raise vlib.MachineryError("QFLaws: suspiciously small state space: %d" % r.distinct)
        return r

    def laws_cov():
        # -coverage runs out of memory on the mutually recursive Parse* operators: a second run without the two grammar laws
        with Slots(1):
            r = vlib.tlc("QFLaws", laws_cfg("gen_Cov_Laws.cfg", None, 1, "tiny", [x for x in LAWS if x not in ("Grammar", "Mixed")]), FAM, workers=1, timeout=900, heap="3g", coverage=True, env=JENV)
        vlib.require_ok(r, "QFLaws coverage run")
        vlib.require_coverage(r, ACTIONS, "QFLaws")
        return r

    def reach(wrong, law):
        with Slots(1):
            r = vlib.tlc("QFLaws", laws_cfg("gen_Reach_%s_%s.cfg" % (wrong, law), wrong, 1, "quick", [law]), FAM, workers=1, timeout=900, heap="2g", env=JENV, extra=NOTE)
        if r.error: raise vlib.MachineryError("Reach %s: %s" % (wrong, r.error))
        if r.violated != law: raise vlib.MachineryError("vacuity guard: with the wrong reading '%s' the law %s is not violated (violated: %s)" % (wrong, law, r.violated))
        return True

    # ------------------------------------------------------------------------------------------ 2. code -> spec
    def harness(args, what, timeout=1800, variant_bin=None):
        rc, out, err = vlib.run([variant_bin or qf_asan] + [str(a) for a in args], timeout=timeout)
        return rc, out, err

    def validate(path):
        """TLC judges one shard; returns (TLCResult, reports, summary)"""
        with Slots(1):
            r = vlib.tlc("QFTrace", "QFTrace.cfg", FAM, workers=1, timeout=3000, heap="3g", env=dict(JENV, TRACE=path), extra=["-continue"] + NOTE)
        if r.error: raise vlib.MachineryError("QFTrace on %s: %s" % (path, r.error))
        reports = [p for p in r.printed if "inv" in p]
        summ = [p for p in r.printed if p.get("summary")]
        if not summ: raise vlib.MachineryError("QFTrace on %s: no summary printed:\n%s" % (path, r.out[-2000:]))
        if r.violated and not reports: raise vlib.MachineryError("QFTrace on %s: %s violated but nothing reported:\n%s" % (path, r.violated, r.out[-2000:]))
        return r, reports, summ[0]

    def judge(path, reports, tag):
        """turns TLC's reports about one shard into violations / known findings / drift"""
        if not reports: return
        with vlock: judge_locked(path, reports, tag)

    def judge_locked(path, reports, tag):
        lines = open(path).read().split("\n")
        menu = json.loads(lines[0])["menu"]
        nprop = 0
        for rp in reports:
            ln = json.loads(lines[rp["line"] - 1]); inv = rp["inv"]; bad = sorted(rp.get("bad") or [])
            if inv in PROPERTY_INVS:
                if inv == "ArchiveOK" and is_f22(ln["f"]) and v.is_listed("F22"):
                    v.known_finding("F22", "RawDataQueryFilter with a zero-length assumed default: the filter restored from its archive has no default and decides differently (e.g. operator %s on a Message without the field: original %s, restored %s)" %
                                    (ln["f"].get("op"), ln["v"][bad[0] - 1] if bad else "?", ln["va"][bad[0] - 1] if bad and ln["va"] else "?"))
                    continue
                nprop += 1
                if nprop > 25: continue
                j = bad[0] - 1 if bad else None
                rec = {"invariant": inv, "tree": ln["f"], "expression": ln.get("x"), "style": ln.get("st"), "mixed_expression": ln.get("mx"),
                       "message": menu[j] if j is not None else None, "messages_affected": len(bad),
                       "recorded": {k: (ln[k][j] if (j is not None and len(ln.get(k, [])) > j) else None) for k in ("v", "va", "vx")},
                       "documented_verdict": (1 - ln["v"][j]) if (inv == "EvalOK" and j is not None) else None,
                       "flags": {k: ln.get(k) for k in ("aok", "xok", "xerr", "same", "mxrej")}, "archive": ln.get("a"),
                       "replay": "echo '{\"f\":<tree>,\"m\":<message>,\"st\":<style>}' > case.ndjson; build/asan/bin/qf eval case.ndjson   (shard: %s line %d)" % (path, rp["line"])}
                viol("%s: tree %s%s" % (WHAT[inv], json.dumps(ln["f"], separators=(",", ":"))[:160], (" on Message %s" % json.dumps(menu[j], separators=(",", ":"))[:120]) if j is not None else ""), rec, tag="%s-%s" % (tag, inv))
            elif inv == "ArchiveForm":
                if is_f22(ln["f"]) and v.is_listed("F22"): continue          # the missing "def" field IS the known finding
                v.drift += 1
                if v.drift <= 3: vlib.log("DRIFT property=C14 the archive SaveToArchive() wrote differs from the specification's Archive form: tree %s archive %s" % (json.dumps(ln["f"])[:200], json.dumps(ln["a"])[:300]))
            elif inv == "UnparseOK":
                raise vlib.MachineryError("the harness rendered %r for tree %s but QFExpr!Unparse disagrees (renderer and specification grammar out of step)" % (ln.get("x"), json.dumps(ln["f"])[:300]))
            else:
                raise vlib.MachineryError("unexpected report %s" % rp)

    tot = {"lines": 0, "evaluations": 0, "judged": 0, "trees": 0, "discriminating": 0, "expressions": 0, "true": 0, "tlc_states": 0, "tlc_generated": 0, "rounds": 0}
    samples = []

    def gen_round(rnd, nrandom, nshards, gseed):
        prefix = W("g%d" % rnd); rep = W("gen%d.ndjson" % rnd)
        rc, out, err = harness(["gen", tier if rnd == 0 else "random", gseed, nshards, prefix, rep, nrandom], "gen")
        if crashed(rc):
            viol("sanitizer report / crash while evaluating well-formed filter trees (exit %s): %s" % (rc, san_summary(err)), {"exit": rc, "stderr": err[-6000:], "cmd": "build/asan/bin/qf gen %s %s %d %s %s %d" % (tier if rnd == 0 else "random", gseed, nshards, prefix, rep, nrandom)}, tag="gen-crash")
            return
        if rc != 0: raise vlib.MachineryError("qf gen failed rc=%s: %s %s" % (rc, out[-500:], err[-1500:]))
        summ = [r for r in vlib.read_ndjson(rep) if r.get("summary")][0]
        paths = ["%s.%d.ndjson" % (prefix, s) for s in range(nshards)]
        with cf.ThreadPoolExecutor(max_workers=nshards) as ex:
            res = list(ex.map(validate, paths))
        nlines = 0
        for p, (r, reports, s) in zip(paths, res):
            judge(p, reports, "r%d" % rnd)
            nlines += s["lines"]; tot["judged"] += s["judged"]; tot["tlc_states"] += r.distinct; tot["tlc_generated"] += r.generated
        if nlines != summ["lines"]: raise vlib.MachineryError("TLC judged %d lines but the harness wrote %d" % (nlines, summ["lines"]))
        tot["lines"] += nlines; tot["evaluations"] += summ["evaluations"]; tot["trees"] += summ["trees"]; tot["discriminating"] += summ["discriminating"]
        tot["expressions"] += summ["expressions"]; tot["true"] += summ["true"]; tot["rounds"] += 1; tot["menu"] = summ["menu"]
        if rnd == 0:
            with open(paths[0]) as f:
                f.readline()
                for k, line in enumerate(f):
                    if k in (3, 400, 900):
                        ln = json.loads(line); samples.append({"kind": "recorded line", "tree": ln["f"], "expression": ln["x"], "verdicts_on_menu": "".join(str(b) for b in ln["v"]), "restored_same": ln["va"] == ln["v"], "archive": ln["a"]})
        if not v.violations:
            for p in paths: os.remove(p)

    def selftest():
        """corrupting one recorded field per line must be rejected, by the right invariant, at the right place"""
        prefix = W("st"); rep = W("st.ndjson")
        rc, out, err = harness(["gen", "quick", seed, 1, prefix, rep, 0], "gen", variant_bin=qf_plain)
        if crashed(rc):
            viol("crash while evaluating well-formed filter trees (plain build, exit %s): %s" % (rc, san_summary(err)), {"exit": rc, "stderr": err[-4000:], "cmd": "build/plain/bin/qf gen quick %d 1 %s %s 0" % (seed, prefix, rep)}, tag="gen-crash-plain")
            return 0
        if rc != 0: raise vlib.MachineryError("qf gen (selftest) failed rc=%s %s" % (rc, err[-800:]))
        lines = open(prefix + ".0.ndjson").read().split("\n")
        out_lines = [lines[0]]; expect = {}
        what_lines = [l for l in lines[1:] if l.startswith('{"f":{"k":"what"') and '"x":"what' in l][:4]
        if len(what_lines) < 4: raise vlib.MachineryError("selftest: not enough what-code lines")
        for k, (l, field) in enumerate(zip(what_lines, ("v", "va", "vx", "same"))):
            ln = json.loads(l)
            if field == "same": ln["same"] = False
            elif field == "v":
                for fld in ("v", "va", "vx"): ln[fld][2] = 1 - ln[fld][2]
            else: ln[field][1] = 1 - ln[field][1]
            out_lines.append(json.dumps(ln, separators=(",", ":")))
            expect[k + 2] = {"v": ("EvalOK", [3]), "va": ("ArchiveOK", [2]), "vx": ("ExprOK", [2]), "same": ("UnchangedOK", [])}[field]
        ln = json.loads(what_lines[0]); out_lines.append(json.dumps(ln, separators=(",", ":")))      # an untouched line stays accepted
        p = W("st_corrupt.ndjson"); open(p, "w").write("\n".join(out_lines) + "\n")
        r, reports, s = validate(p)
        got = {rp["line"]: (rp["inv"], sorted(rp.get("bad") or [])) for rp in reports}
        if got != expect: raise vlib.MachineryError("selftest: corrupted lines were not rejected as expected: got %s, expected %s" % (got, expect))
        os.remove(p); os.remove(prefix + ".0.ndjson")
        return len(expect)

    def f22():
        p = W("f22.ndjson")
        rc, out, err = harness(["f22", p], "f22", variant_bin=qf_plain)      # plain: UBSan flags memcmp(NULL, ., 0) on the ORIGINAL filter, which is part of F22
        if crashed(rc):
            viol("crash in the directed case of F22 (plain build, exit %s): %s" % (rc, san_summary(err)), {"exit": rc, "stderr": err[-4000:], "cmd": "build/plain/bin/qf f22 " + p}, tag="f22-crash")
            return 0, 0
        if rc != 0: raise vlib.MachineryError("qf f22 failed rc=%s %s" % (rc, err[-800:]))
        r, reports, s = validate(p)
        judge(p, reports, "f22")
        return s["lines"], sum(1 for rp in reports if rp["inv"] == "ArchiveOK")

    # ------------------------------------------------------------------------------------------ 3. hostile archives
    def hostile():
        out = W("hostile.ndjson"); rep = W("hostile_rep.ndjson")
        if os.path.exists(out): os.remove(out)
        with Slots(1):
            r = vlib.tlc("QFHostile", "QFHostile.cfg", FAM, workers=1, timeout=1200, heap="4g", env=dict(JENV, OUT=out))
        vlib.require_ok(r, "QFHostile generation")
        meta = [p for p in r.printed if "cases" in p]
        if not meta or meta[0]["cases"] < 500 or not os.path.exists(out): raise vlib.MachineryError("QFHostile produced no archives")
        rc, so, se = harness(["hostile", out, seed, rep], "hostile")
        rows = vlib.read_ndjson(rep) if os.path.exists(rep) else []
        summ = [x for x in rows if x.get("summary")]
        if rc != 0 or not summ:
            last = [x for x in rows if "at" in x][-1:] or [{}]
            case = None
            for line in open(out):
                c = json.loads(line)
                if c.get("id") == last[0].get("at"): case = c; break
            if crashed(rc):
                viol("hostile archive (%s) makes the factory / the restored filter crash or trip the sanitizer (exit %s): %s" % (last[0].get("mut"), rc, san_summary(se)),
                            {"case": case, "exit": rc, "stderr": se[-6000:], "replay": "put the case on one line of a file; build/asan/bin/qf hostile <file> %d <report>" % seed}, tag="hostile")
                return {"archives": meta[0]["cases"], "accepted": 0, "rejected": 0, "evaluations": 0}, r
            raise vlib.MachineryError("qf hostile failed rc=%s: %s" % (rc, se[-1500:]))
        for x in rows:
            if x.get("summary"): continue
            if "unstable" in x: viol("a filter the factory built from a hostile archive (%s) and the filter restored from ITS archive decide differently" % x.get("mut"), x, tag="hostile-unstable")
            if "ok_rejected" in x:
                with vlock: v.drift += 1
                vlib.log("DRIFT property=C14 the factory refuses the specification's Archive form: %s" % json.dumps(x.get("a"))[:300])
            if "changed" in x: viol("evaluating the filter built from a hostile archive (%s) changed a Message" % x.get("mut"), x, tag="hostile-changed")
        if summ[0]["archives"] != meta[0]["cases"]: raise vlib.MachineryError("hostile: %d archives generated, %d processed" % (meta[0]["cases"], summ[0]["archives"]))
        return summ[0], r

    def hostile_expr(nrandom):
        """hostile expression strings: spelled by TLC from the specification's token alphabet + seeded soup; resumable after a crash"""
        out = W("hx.ndjson"); rep = W("hx_rep.ndjson")
        for pth in (out, rep, rep + ".at"):
            if os.path.exists(pth): os.remove(pth)
        with Slots(1):
            r = vlib.tlc("QFExprHostile", "QFExprHostile.cfg", FAM, workers=1, timeout=1200, heap="4g", env=dict(JENV, OUT=out))
        vlib.require_ok(r, "QFExprHostile generation")
        meta = [p for p in r.printed if "cases" in p]
        if not meta or meta[0]["cases"] < 5000 or not os.path.exists(out): raise vlib.MachineryError("QFExprHostile produced no strings")
        start = 0; crashes = 0; acc = {"strings": 0, "from_spec": meta[0]["cases"], "parsed": 0, "refused": 0, "evaluations": 0, "crashes": 0}
        while True:
            rc, so, se = harness(["hx", out, nrandom, seed, start, rep], "hx", timeout=3000)
            if rc == 0: break
            at = {}
            try: at = json.loads(open(rep + ".at").read())
            except Exception: pass
            if "at" not in at: raise vlib.MachineryError("qf hx failed rc=%s without a progress marker: %s" % (rc, se[-1500:]))
            crashes += 1
            with vlock:
                vlib.harness_failed(v, rc, so, se[-3000:], "CreateQueryFilterFromExpression(%s) [string #%d of the hostile-expression stage; replay: build/asan/bin/qf hx %s %d %d %d <report>] %s" %
                                    (json.dumps(at.get("x")), at["at"], out, nrandom, seed, at["at"], san_summary(se)), "hx")
            if crashes >= 12:
                vlib.log("NOTE property=C14 hostile-expression stage stopped after %d crashing strings" % crashes); break
            start = at["at"] + 1
        rows = vlib.read_ndjson(rep) if os.path.exists(rep) else []
        for x in rows:
            if x.get("summary"):
                for k in ("parsed", "refused", "evaluations"): acc[k] += x[k]
                acc["strings"] = x["strings"]
                if x.get("message_changed"): viol("evaluating filters parsed from hostile expression strings changed a Message", x, tag="hx-changed")
            elif "unstable" in x: viol("the filter parsed from %s and the filter restored from its archive decide differently" % json.dumps(x.get("x")), x, tag="hx-unstable")
        acc["crashes"] = crashes
        if crashes == 0 and acc["strings"] != meta[0]["cases"] + nrandom: raise vlib.MachineryError("hx: %d strings expected, %d processed" % (meta[0]["cases"] + nrandom, acc["strings"]))
        return acc

    def fuzz(n):
        rep = W("fuzz_rep.ndjson")
        rc, so, se = harness(["fuzz", n, seed, rep], "fuzz")
        rows = vlib.read_ndjson(rep) if os.path.exists(rep) else []
        summ = [x for x in rows if x.get("summary")]
        if rc != 0 or not summ:
            last = [x for x in rows if "at" in x][-1:]
            if crashed(rc):
                viol("randomly damaged archive makes the factory / the restored filter crash or trip the sanitizer (exit %s): %s" % (rc, san_summary(se)),
                            {"case": last, "exit": rc, "stderr": se[-6000:], "replay": "build/asan/bin/qf fuzz %d %d <report>" % (n, seed)}, tag="fuzz")
                return {"archives": 0, "accepted": 0, "rejected": 0, "evaluations": 0}
            raise vlib.MachineryError("qf fuzz failed rc=%s: %s" % (rc, se[-1500:]))
        if summ[0].get("message_changed"): viol("evaluating filters built from damaged archives changed a Message", summ[0], tag="fuzz-changed")
        return summ[0]

    # ------------------------------------------------------------------------------------------ schedule
    # measured: one TLC process judges ~20 000 (tree, Message) evaluations per second (JSON loading included) after ~2 s of start-up
    nshards = 4 if quick else 8
    reach_list = [REACH[0], REACH[2], REACH[4], REACH[9]] if quick else REACH
    with cf.ThreadPoolExecutor(max_workers=16) as ex:
        f_gen = ex.submit(timed, "record_and_validate", gen_round, 0, 4000 if quick else 12000, nshards, seed)
        f_host = ex.submit(timed, "hostile", hostile)
        f_f22 = ex.submit(timed, "f22", f22)
        f_self = ex.submit(timed, "selftest", selftest)
        f_fuzz = ex.submit(timed, "fuzz", fuzz, 5000 if quick else 200000)
        f_hx = ex.submit(timed, "hostile_expressions", hostile_expr, 20000 if quick else 1000000)
        f_cov = ex.submit(timed, "laws_coverage", laws_cov)
        f_reach = [ex.submit(timed, "reach_" + w + "_" + l, reach, w, l) for (w, l) in reach_list]
        if not quick: f_gen.result()
        f_laws = ex.submit(timed, "laws_model_check", laws_mc)
        f_gen.result()
        if not quick:
            for rnd in range(1, 1 + int(os.environ.get("VERIF_C14_ROUNDS", "8"))): timed("record_and_validate", gen_round, rnd, 30000, nshards, seed * 1000 + rnd)
        r_laws = f_laws.result(); r_cov = f_cov.result()
        for f in f_reach: f.result()
        hs, r_h = f_host.result(); fz = f_fuzz.result()
        hx = f_hx.result()
        f22_lines, f22_hits = f_f22.result()
        corrupted = f_self.result()
    corrupted = corrupted or 0
    import shutil; shutil.rmtree(jtmp, ignore_errors=True)
    if tot["lines"] == 0 and not v.violations: raise vlib.MachineryError("nothing was validated")
    if f22_hits == 0 and v.is_listed("F22"): vlib.log("NOTE property=C14 known finding F22 was not reproduced by its directed case (fixed?)")

    cov = {"states": r_laws.distinct + tot["tlc_states"], "transitions": r_laws.generated + tot["tlc_generated"],
           "traces_validated_against_impl": tot["lines"],
           "evaluations": tot["evaluations"], "distinct_nontrivial": tot["discriminating"],
           "rule": "one case = one distinct filter tree (by its JSON) evaluated on the whole Message menu (%d Messages: fields f,g x 12 types x 1-2 items, sub-Messages, both field orders); enumeration: every leaf kind x every operator code (incl. codes outside the enumerations) x operand menu x index {0,1,5} x default/mask variants, Message filters, every combinator / threshold over {0,1,2,3} children from a 12-filter pool incl. a NULL child, depth-2 combinators, expression-oriented trees, plus seeded random trees of depth <= 2; non-trivial = the tree's verdict vector over the menu contains both true and false" % tot.get("menu", 0),
           "exhaustive": False,
           "laws_model": {"distinct": r_laws.distinct, "generated": r_laws.generated, "wall_s": round(r_laws.wall, 1), "laws": LAWS, "max_depth": 2, "size": "quick" if quick else "deep"},
           "laws_action_coverage": {a: r_cov.coverage.get(a, (0, 0))[0] for a in ACTIONS},
           "wrong_readings_caught": ["%s -> %s" % x for x in reach_list],
           "filter_trees_judged_by_tlc": tot["trees"], "evaluations_with_fixed_verdict": tot["judged"], "evaluations_true": tot["true"],
           "expressions_parsed": tot["expressions"], "rounds": tot["rounds"], "corrupted_lines_rejected": corrupted,
           "hostile_archives_from_spec": hs.get("archives", 0), "hostile_accepted": hs.get("accepted", 0), "hostile_rejected": hs.get("rejected", 0), "hostile_evaluations": hs.get("evaluations", 0),
           "fuzzed_archives": fz.get("archives", 0), "fuzzed_accepted": fz.get("accepted", 0), "fuzzed_evaluations": fz.get("evaluations", 0),
           "hostile_expression_strings": hx["strings"], "hostile_expression_strings_from_spec": hx["from_spec"], "hostile_expressions_parsed": hx["parsed"], "hostile_expressions_refused": hx["refused"],
           "hostile_expression_evaluations": hx["evaluations"], "hostile_expression_crashes": hx["crashes"],
           "f22_directed_lines": f22_lines, "f22_lines_deciding_differently_after_round_trip": f22_hits,
           "stage_wall_s": stage,
           "samples": samples[:3] or [{"kind": "none (violations were found before sampling)"}]}
    assumptions = ["Eval is written from the class documentation in regex/QueryFilter.h (and StringMatcher.h for the two pattern operators); where it is silent the verdict is Either and only agreement (original = restored = parsed) and memory safety are judged: mask on float/point/rect, <,>,<=,>= on Point/Rect, contains/substring-of with an empty needle, raw regular expressions, non-plain wildcard patterns and the empty pattern, raw-data filter on a non-raw item, NodeName/ChildCount filters (no DataNode in the harness)",
                   "numbers are small: integers in -128..127 (bit operations are width-independent there), floats from a table of tokens (NaN, -0, +-inf, -1, 0, 0.5, 1, 2, 2.5); strings over {a, b, A, B, *, ?, [, ]}",
                   "zero-length raw items in Messages are not generated (Message::FindData does not find them: F12); a zero-length assumed default only in the directed case of F22",
                   "the two undocumented parser restrictions (a group holding only a group; unquoted words containing keywords) are kept out of the generated expressions",
                   "point / rect literals and every other spelling outside the Beginner's Guide grammar have no documented meaning: for them only 'refused or evaluates safely, archives and restores to a filter that decides alike' is judged",
                   "hostile archives: accepted filters are evaluated on the menu, printed, checksummed, compared and re-archived under ASan/UBSan; no verdict oracle there"]
    return "model_checking", cov, assumptions
