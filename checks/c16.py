"""C16 - Queue behaves as an ideal double-ended sequence under every operation sequence.

 The property-level oracle is spec/Deque/Deque.tla: the sequence of items and NOTHING else (no capacity, no head offset), one action per
 public call of util/Queue.h with the result and failure condition its header comment documents (88 calls; Either / Undocumented where the
 header is silent; documented preconditions respected).

 1. TLC model-checks Deque.tla (GenSpec: every call, arguments from small menus, values {1,2,3} + the default item 0, length <= 4; thorough:
    <= 5) against the laws of an ideal sequence stated independently of the definitions (FailureExact, QueriesPure, BagLaw, LenLaw, OrderLaw,
    SortLaw, ReverseLaw, DefaultLaw, SearchLaw, CmpLaw, TypeOK); every law is shown violable by one deliberately wrong definition (Wrong = ...;
    four of the twelve in the quick tier).
 2. spec -> code: the same run dumps the state graph; every transition (= every (contents, call, arguments) of the instance) is put on a walk
    from the empty sequence; harness/qu.cpp replays every walk on Queue<int>, Queue<String> (owning, move = swap) and Queue<Tok> (owning,
    copy-only, serial numbers make Sort's stability visible), each from 4 start configurations (nothing allocated / smallest heap array / used
    inline buffer / larger heap array), under ASan+UBSan, comparing status, result, iterator output, the other queue and the FULL contents after every step, reading
    the contents through every public route, and (owning types) every slot of the internal array outside the window, which must hold the
    default item.
 3. code -> spec: seeded random call sequences (ring episodes that put the head offset in every class of the inline capacity and of the first
    two heap capacities - MEASURED on the library as compiled: 3, 4, 8 with the default SMALL_QUEUE_SIZE and growth policy - before a
    multi-insert / growing reallocation / Normalize / ...; sizes up to ~22 so that Sort's merge step runs) are logged call by call and
    validated line by line by TLC against Deque.tla (DequeTrace.tla; a rejected log is cut to its execution and re-run with DiagSpec to
    show what the specification expected).  The ring positions met are measured and required (coverage guard).
 Guards: one changed field of one recorded line / one behaviour step must be rejected exactly there (every run); a call that does not return
 within 20 s stops the harness (exit 68, confirmed by a second run); sanitizer reports are violations.
 Known findings (known_findings.json): QswapStale is open (directed case; recognised and undone by its exact predicate); F16realloc,
 QshrinkOverflow, QaddHeadSelf, QaddHeadStartSign, QextraOverflow, QextraIgnored were found here and are repaired in /repo: their inputs are generated and
 judged normally, their directed cases are ordinary judged cases (a reproduction is a VIOLATION).

"""
import concurrent.futures as cf, json, os, random, re, collections
import vlib, pathcover

LAWS = ["TypeOK", "FailureExact", "QueriesPure", "BagLaw", "LenLaw", "OrderLaw", "SortLaw", "ReverseLaw", "DefaultLaw", "SearchLaw", "CmpLaw"]
GROUPS = ["Ack", "GenAdd", "GenRemove", "GenIndex", "GenSize", "GenQuery", "GenArrange", "GenWhole"]
# deliberately wrong definition -> a law it must violate (vacuity guard of the laws)
WRONG = {"failchanges": "FailureExact", "insertfails": "FailureExact", "querymutates": "QueriesPure", "removeall": "BagLaw", "slice": "LenLaw",
         "addhead": "OrderLaw", "sortfrom": "SortLaw", "revto": "ReverseLaw", "stale": "DefaultLaw", "indexofend": "SearchLaw", "cmpprefix": "CmpLaw", "type": "TypeOK"}
# calls that are not generated from the specification's menus (bound by the random driver only)
NOT_GENERATED = {"FastClear", "AddTailMultiOwnArr", "AddHeadMultiOwnArr"}
TYPES = ["int", "String", "Tok", "uint8", "uint16"]     # uint8 / uint16: the inline buffer has 8 / 4 slots (sizeof-dependent), not SMALL_QUEUE_SIZE
KNOWN_TEXT = {
    "F16realloc": "Queue<int>::EnsureSize(n, true) that has to reallocate adds items that are not default items (the new array is left as the allocator delivered it)",
    "QswapStale": "copy-only owning item type: SwapContents / Plunder / move-assignment between a Queue in its inline buffer and one on the heap leaves copies of the items in the inline buffer; after the Queue shrinks back into it they are outside the window, and EnsureSize(n, true) shows them as 'default' items",
    "QshrinkOverflow": "EnsureSize(numSlots, false, extra, allowShrink = true) with numSlots + extra smaller than the number of items writes all items into the smaller new array (heap-buffer-overflow reported by ASan)",
    "QaddHeadStartSign": "q.AddHeadMulti(queue, startIndex = 0x80000000, n) reads queue[0x7FFFFFFF] (MASSERT 'Invalid index', abort; out of bounds without assertions) instead of adding nothing: the int32 loop counter starts at INT32_MAX for exactly this startIndex",
    "QextraOverflow": "EnsureSize(numSlots, false, extraReallocItems) adds numSlots + extraReallocItems in 32 bits: EnsureSize(20, false, 0xFFFFFFF0) on 8 items allocates 4 slots and copies 8 items into them (heap-buffer-overflow reported by ASan)",
    "QextraIgnored": "EnsureSize(n, true, extraReallocItems, ...) does not ignore extraReallocItems as documented: with n + extra beyond 32 bits it returns B_RESOURCE_LIMIT, and with n below the item count it has truncated the Queue before it fails",
    "QaddHeadSelf": "q.AddHeadMulti(q) (also q.InsertItemsAt(0, q)) with two or more items and enough spare slots prepends the wrong items: the indices it reads from move with every item it prepends",
}


def write_cfg(name, spec, vals, maxlen, srcs, wrong, invs, extra=""):
    p = os.path.join(vlib.SPEC, "Deque", name)
    with open(p, "w") as f:
        f.write("SPECIFICATION %s\nCONSTANTS\n  Vals = {%s}\n  MaxLen = %d\n  Srcs <- %s\n  RECORD = TRUE\n  Wrong = \"%s\"\n" % (spec, ", ".join(str(x) for x in vals), maxlen, srcs, wrong))
        if invs: f.write("INVARIANTS " + " ".join(invs) + "\n")
        f.write(extra)
    return name


# ------------------------------------------------------------------------------------------------------------------------------------------
# state graph -> walks that cover every transition

_node_re = re.compile(r'^(-?\d+) \[label="(.*?)",(?:tooltip|style)')
_edge_re = re.compile(r'^(-?\d+) -> (-?\d+) \[label="(\w+)"')
_key_re = re.compile(r'(\w+) \|->')


def _record(label):
    """the `last` record of a node label as a dict (flat record of ints, strings and tuples of ints: rewritten to JSON)"""
    i = label.find("last = ")
    txt = label[i + 7:].replace("\\n", " ").replace('\\"', '"').replace("\\\\", "\\").strip()
    txt = _key_re.sub(r'"\1":', txt.replace("<<", "[").replace(">>", "]"))
    return json.loads("{" + txt[1:-1] + "}")


def load_graph(dot):
    """the dump has 'idle' states (one per contents) and 'done' states (one per transition: its record includes the contents before).
    returns (init idle id, {idle id: [(record, next idle id)]})"""
    idle = set(); done = {}; init = None; pred = {}; succ = {}
    with open(dot, errors="replace") as f:
        for line in f:
            m = _edge_re.match(line)
            if m:
                a, b = int(m.group(1)), int(m.group(2))
                if m.group(3) == "Ack": succ[a] = b
                else: pred[b] = a
                continue
            m = _node_re.match(line)
            if m:
                nid = int(m.group(1))
                if nid in idle or nid in done: continue
                lab = m.group(2)
                if 'op |-> \\"idle\\"' in lab:
                    idle.add(nid)
                    if line.rstrip().endswith("style = filled]"): init = nid
                else: done[nid] = _record(lab)
    out = collections.defaultdict(list)
    for d, rec in done.items():
        if d not in pred or d not in succ: raise vlib.MachineryError("state graph: transition state %d without predecessor / acknowledgement" % d)
        out[pred[d]].append((rec, succ[d]))
    if init is None: raise vlib.MachineryError("state graph: no initial state")
    return init, out, len(idle), len(done)


def cover_walks(init, out, maxlen, rnd):
    """walks from the initial state that together take EVERY transition at least once; a walk that has nothing new to take where it stands
    goes to the nearest state that has (re-taking transitions on the way), and ends after maxlen steps"""
    unused = {}
    for n in sorted(out):
        e = sorted(out[n], key=lambda x: json.dumps(x[0], sort_keys=True)); rnd.shuffle(e); unused[n] = e
    link = {}                                    # one connecting transition per (state, neighbouring state)
    for n in sorted(out):
        link[n] = {}
        for rec, dst in sorted(out[n], key=lambda x: json.dumps(x[0], sort_keys=True)):
            if dst != n and dst not in link[n]: link[n][dst] = rec
    remaining = sum(len(e) for e in unused.values()); total = remaining
    walks = []; reused = 0
    while remaining > 0:
        cur = init; walk = []
        while len(walk) < maxlen and remaining > 0:
            if unused.get(cur):
                rec, dst = unused[cur].pop(); remaining -= 1
                walk.append(rec); cur = dst; continue
            prev = {cur: None}; dq = collections.deque([cur]); goal = None
            while dq and goal is None:
                u = dq.popleft()
                for dst in link.get(u, {}):
                    if dst not in prev:
                        prev[dst] = u
                        if unused.get(dst): goal = dst; break
                        dq.append(dst)
            if goal is None: raise vlib.MachineryError("path cover: %d transitions cannot be reached" % remaining)
            hop = []; x = goal
            while prev[x] is not None: hop.append(link[prev[x]][x]); x = prev[x]
            hop.reverse(); walk.extend(hop); reused += len(hop); cur = goal
        walks.append(walk)
    return walks, total, reused


def run(v, tier, seed):
    vlib.make("asan", "qu")
    qu = vlib.binpath("asan", "qu")
    W = lambda n: vlib.scratch("C16", n)
    quick = (tier == "quick")
    notes = {}; samples = []

    # ---- 1 + 2: model check, dump, cover, replay ------------------------------------------------------------------------------------------
    def gen_and_replay():
        vals, maxlen = ([1, 2, 3], 4) if quick else ([1, 2, 3], 5)
        name = write_cfg("gen_MC.cfg", "GenSpec", vals, maxlen, "Srcs3", "none", LAWS)
        dot = W("graph.dot")
        r = vlib.tlc("Deque", name, "Deque", coverage=True, workers=6, timeout=2400, dump=dot, heap="12g", extra=["-noGenerateSpecTE"])
        vlib.require_ok(r, "Deque model check (values %s, length <= %d)" % (vals, maxlen))
        vlib.require_coverage(r, GROUPS, "Deque GenSpec")
        init, out, nidle, ndone = load_graph(dot)
        os.remove(dot)
        walks, total, reused = cover_walks(init, out, 250 if quick else 400, random.Random(seed))
        if total != ndone: raise vlib.MachineryError("path cover: %d transitions in the graph, %d in the cover" % (ndone, total))
        ops = collections.Counter(s["op"] for w in walks for s in w)
        bf = W("behaviours.ndjson")
        with open(bf, "w") as f:
            for i, w in enumerate(walks):
                f.write(json.dumps({"id": i, "steps": [{k: x for k, x in s.items() if k != "pre"} for s in w]}, separators=(",", ":")) + "\n")
        def replay(typ):
            rp = W("replay_%s.ndjson" % typ)
            if os.path.exists(rp): os.remove(rp)
            rc, so, se = _run_harness([qu, "replay", bf, rp, typ], 600 if quick else 2400)
            return typ, rc, se, (_rows(rp) if os.path.exists(rp) else [])
        with cf.ThreadPoolExecutor(max_workers=5) as ex2: reps = list(ex2.map(replay, TYPES))
        # sensitivity guard: ONE field of ONE step of a behaviour changed -> the replay must report exactly that step
        guard = []
        int_clean = all(rc == 0 and not [x for x in rows if x.get("violations")] for typ, rc, se, rows in reps if typ == "int")
        for kind, wi, frac in ((("contents", 0, 0.5), ("result", len(walks) // 2, 0.8)) if int_clean else ()):     # (judged only when the unchanged behaviours pass)
            w = [dict(s) for s in walks[wi]]; k = int(len(w) * frac)
            if kind == "contents": w[k]["q"] = list(w[k]["q"]) + [3]
            else: w[k]["lo"] = w[k]["hi"] = w[k]["hi"] + 1
            cb = W("corrupt_behaviour.ndjson"); cr = W("corrupt_replay.ndjson")
            with open(cb, "w") as f: f.write(json.dumps({"id": wi, "steps": [{kk: x for kk, x in s.items() if kk != "pre"} for s in w]}, separators=(",", ":")) + "\n")
            rc, so, se = vlib.run([qu, "replay", cb, cr, "int"], timeout=300)
            rows = _rows(cr) if os.path.exists(cr) else []
            hit = [x for x in rows if x.get("violations")]
            if rc != 0 or len(hit) != 4 or any(x["step"] != k for x in hit):
                raise vlib.MachineryError("sensitivity guard: a behaviour with a changed expected %s at step %d was not reported there by the replay (rc=%s, reported steps %s)" % (kind, k, rc, [x.get("step") for x in hit]))
            guard.append("%s of step %d of behaviour %d" % (kind, k, wi))
        info = {"values": vals, "max_length": maxlen, "distinct": r.distinct, "generated": r.generated, "depth": r.depth, "tlc_wall_s": round(r.wall, 1),
                "contents_states": nidle, "transitions": ndone, "walks": len(walks), "walk_steps": sum(len(w) for w in walks), "steps_retaken_to_connect": reused,
                "calls_generated": len(ops), "corrupted_behaviours_rejected": guard, "taken": {a: r.coverage.get(a, (0, 0))[0] for a in GROUPS}}
        return r, info, ops, reps, walks[:1] + walks[len(walks) // 2: len(walks) // 2 + 1], bf

    def reach(wrong, law):
        # vacuity guard: with ONE deliberately wrong definition the model must violate the law that is there to catch it
        name = write_cfg("gen_Reach_%s.cfg" % wrong, "GenSpec", [1, 2], 3, "Srcs2", wrong, [law])
        r = vlib.tlc("Deque", name, "Deque", workers=2, timeout=600, heap="2g", extra=["-noGenerateSpecTE"])
        if r.error: raise vlib.MachineryError("Reach_%s: %s" % (wrong, r.error))
        return wrong, law, r.violated

    # ---- 3: random call sequences, validated by TLC ---------------------------------------------------------------------------------------
    def random_and_validate(typ, shard, runs, nops):
        tr = W("trace_%s_%d.ndjson" % (typ, shard)); rep = W("random_%s_%d.ndjson" % (typ, shard))
        sd = seed * 1000 + shard * 10 + TYPES.index(typ)
        cmd = [qu, "random", typ, str(sd), str(runs), str(nops), tr, rep]
        rc, so, se = _run_harness(cmd, 300 if quick else 1200)
        rows = _rows(rep) if os.path.exists(rep) else []
        if rc != 0: return {"typ": typ, "shard": shard, "rc": rc, "stderr": se, "rows": rows, "cmd": cmd, "trace": tr}
        r = vlib.tlc("DequeTrace", "Trace.cfg", "Deque", workers=1, timeout=2400, env={"TRACE": tr}, keep_out=True, heap="6g", extra=["-noGenerateSpecTE"])
        m = re.search(r'"maxline", (\d+), "of", (\d+)', r.out)
        if r.error or r.violated or not m: raise vlib.MachineryError("DequeTrace (%s shard %d): %s" % (typ, shard, r.error or r.violated or r.out[-1500:]))
        reached, n = int(m.group(1)), int(m.group(2))
        res = {"typ": typ, "shard": shard, "rc": 0, "rows": rows, "lines": n, "accepted": reached == n + 1, "tlc_wall_s": round(r.wall, 1), "trace": tr, "cmd": cmd, "distinct": r.distinct}
        if not res["accepted"]:
            # the execution that holds the first unexplained line, and what the specification expected there
            lines = open(tr).read().splitlines(); k = reached; j = k - 1
            while j > 0 and '"op":"Reset"' not in lines[j]: j -= 1
            cut = os.path.join(vlib.OUT, "C16", "rejected-%s-%d.ndjson" % (typ, shard))
            with open(cut, "w") as f: f.write("\n".join(lines[j:k]) + "\n")
            d = vlib.tlc("DequeTrace", "TraceDiag.cfg", "Deque", workers=1, timeout=600, env={"TRACE": cut}, keep_out=True, heap="2g", extra=["-noGenerateSpecTE"])
            exp = None; i = d.out.rfind("/\\ last = ")
            if d.violated == "NoDifference" and i >= 0:
                try: exp = pathcover.parse_tla(d.out[i + 10:d.out.find("/\\ bad", i)].strip())
                except Exception: exp = None
            res.update({"line": k, "observed": json.loads(lines[k - 1]), "expected": exp, "execution": cut, "calls_before": k - 1 - j})
        else:
            if shard == 0:
                with open(tr) as f: res["sample"] = [json.loads(next(f)) for _ in range(6)][1:]
                if typ == "int" or not quick: res["corruptions_rejected"] = corrupted_traces_are_rejected(tr, typ)
            os.remove(tr)
        return res

    def corrupted_traces_are_rejected(tr, typ):
        # sensitivity guard: ONE field of ONE recorded line changed -> TLC must stop exactly at that line
        lines = open(tr).read().splitlines()[:20000]; done = []
        for kind, frac in (("contents", 0.5), ("result", 0.7), ("status", 0.9)):
            k = int(len(lines) * frac)
            while True:
                ln = json.loads(lines[k])
                if ln["op"] != "Reset" and (kind != "contents" or ln["q"]) and (kind != "status" or ln["st"] == "ok"): break
                k += 1
            if kind == "contents": ln["q"][len(ln["q"]) // 2] += 1
            elif kind == "result": ln["r"] += 1
            else: ln["st"] = "badarg"
            bad = W("corrupt_%s_%s.ndjson" % (typ, kind))
            with open(bad, "w") as f: f.write("\n".join(lines[:k] + [json.dumps(ln, separators=(",", ":"))] + lines[k + 1:]) + "\n")
            r = vlib.tlc("DequeTrace", "Trace.cfg", "Deque", workers=1, timeout=600, env={"TRACE": bad}, keep_out=True, heap="4g", extra=["-noGenerateSpecTE"])
            m = re.search(r'"maxline", (\d+), "of", (\d+)', r.out)
            if r.error or not m: raise vlib.MachineryError("sensitivity guard (trace): %s" % (r.error or r.out[-800:]))
            if int(m.group(1)) != k + 1: raise vlib.MachineryError("sensitivity guard: a recorded line with a changed %s (line %d of a Queue<%s> log) was not rejected there (TLC stopped at line %s)" % (kind, k + 1, typ, m.group(1)))
            os.remove(bad); done.append("%s of line %d" % (kind, k + 1))
        return done

    def directed(case):
        rep = W("directed_%s.ndjson" % case)
        if os.path.exists(rep): os.remove(rep)
        rc, so, se = vlib.run([qu, "directed", case, rep], timeout=120)
        rows = _rows(rep) if os.path.exists(rep) else []
        return case, rc, se, (rows[0] if rows else None)

    if quick: shards, runs, nops = 2, 150, 300
    else: shards, runs, nops = int(os.environ.get("C16_SHARDS", "64")), 600, 400
    with cf.ThreadPoolExecutor(max_workers=7) as ex:
        f_gen = ex.submit(gen_and_replay)
        f_dir = [ex.submit(directed, c) for c in ("swapstale", "shrinkoverflow", "addheadself", "ensuresizerealloc", "addheadstart", "extraoverflow", "extraignored")]
        f_rnd = [ex.submit(random_and_validate, t, s, runs, nops) for s in range(shards) for t in TYPES]
        # quick: four of the twelve wrong definitions; thorough: all
        f_reach = [ex.submit(reach, w, l) for w, l in sorted(WRONG.items()) if (not quick) or w in ("failchanges", "stale", "addhead", "indexofend")]

        # vacuity guards of the laws
        for f in f_reach:
            wrong, law, violated = f.result()
            if violated != law: raise vlib.MachineryError("vacuity guard: with the wrong definition '%s' the model violates %s, expected %s" % (wrong, violated, law))

        # known findings: directed cases
        for f in f_dir:
            case, rc, se, row = f.result()
            fid = {"swapstale": "QswapStale", "shrinkoverflow": "QshrinkOverflow", "addheadself": "QaddHeadSelf", "ensuresizerealloc": "F16realloc", "addheadstart": "QaddHeadStartSign", "extraoverflow": "QextraOverflow", "extraignored": "QextraIgnored"}[case]
            crashed = _stopped(rc)
            if rc != 0 and not crashed: raise vlib.MachineryError("qu directed %s failed rc=%s: %s" % (case, rc, se[-1500:]))
            reproduced = crashed or (row is not None and row.get("reproduced"))
            notes["directed_" + case] = {"reproduced": bool(reproduced), "sanitizer_stopped_it": crashed, "observed": (row or {}).get("observed"), "expected": (row or {}).get("expected")}
            if row is not None:
                for k in ("movable_type_ok", "with_reallocation_ok", "without_reallocation_ok", "neighbouring_values_ok"):
                    if k in row and not row[k]: v.violation("directed case %s: the neighbouring case that must work does not (%s)" % (case, k), row, tag="directed-" + case)
            if reproduced:
                text = KNOWN_TEXT[fid] + (" [directed case: expected %s, observed %s]" % (row.get("expected"), row.get("observed")) if row else " [directed case stopped: %s]" % (re.findall(r"ERROR: AddressSanitizer: [\w-]+", se) or re.findall(r"muscle::Crash\(\) was called from \S+", se) or ["?"])[0])
                if not v.known_finding(fid, text):
                    v.violation("directed case %s: %s" % (case, text), {"case": case, "row": row, "stderr": se[-3000:], "cmd": [qu, "directed", case, "<report>"]}, tag="directed-" + case)

        # spec -> code
        r, info, ops, reps, smp, bf = f_gen.result()
        notes["model"] = info
        missing = [o for o in _all_ops() if o not in ops and o not in NOT_GENERATED]
        if missing: raise vlib.MachineryError("vacuity guard: calls of Deque.tla that no generated transition makes: %s" % missing)
        rs = {"runs": 0, "followed": 0, "known": 0, "cut_short": 0, "steps": 0, "per_type": {}}
        for typ, rc, se, rows in reps:
            rsum = [x for x in rows if x.get("summary")]
            if _stopped(rc):
                v.violation("replay of TLC behaviours on Queue<%s>: %s (rc=%s): %s" % (typ, "a call did not return" if rc == 68 else ("an assertion of the library failed (abort)" if rc == 70 else "the sanitizer / a signal stopped the harness"), rc, _san(se)), {"cmd": [qu, "replay", bf, "<report>", typ], "stderr": se[-6000:]}, tag="replay-sanitizer-" + typ)
                continue
            if rc != 0 or not rsum: raise vlib.MachineryError("qu replay %s failed rc=%s: %s" % (typ, rc, se[-1500:]))
            for k in ("runs", "followed", "known", "cut_short", "steps"): rs[k] += rsum[0][k]
            rs["per_type"][typ] = {k: rsum[0].get(k) for k in ("runs", "followed", "known", "cut_short", "steps", "ring_tuples", "calls_on_wrapped_ring", "distinct_ops_on_wrapped_ring", "reallocations_growing", "calls_on_inline_buffer", "calls_on_heap_array", "ring_classes_hit", "ring_classes_wanted", "ring_classes_missing")}
            for x in rows:
                if x.get("summary"): continue
                if x.get("violations"):
                    v.violation("replay of a TLC behaviour (behaviour %s step %s, start configuration %s): %s" % (x.get("behaviour"), x.get("step"), x.get("start"), "; ".join(x["violations"])), dict(x, behaviours_file=bf), tag="replay-" + typ)
                elif x.get("known"):
                    if not v.known_finding("QswapStale", KNOWN_TEXT["QswapStale"] + " [behaviour %s step %s: %s]" % (x.get("behaviour"), x.get("step"), x["known"][0][:200])):
                        v.violation("replay: " + "; ".join(x["known"]), x, tag="replay-" + typ)
        samples += [{"kind": "behaviour replayed (first steps)", "steps": [{k: s[k] for k in ("op", "a", "b", "c", "v", "src", "st", "lo", "hi", "q")} for s in w[:5]]} for w in smp]

        # code -> spec
        tot = {"lines": 0, "runs": 0, "accepted": 0, "calls": 0, "tuples": 0, "wrapped": 0, "shards": 0, "tlc_wall": 0.0, "tlc_states": 0}
        missing_classes = None; per_type = {}
        for f in f_rnd:
            x = f.result(); tot["shards"] += 1
            if x["rc"] != 0:
                if _stopped(x["rc"]):
                    v.violation("random calls on Queue<%s>: %s (rc=%s): %s" % (x["typ"], "a call did not return" if x["rc"] == 68 else ("an assertion of the library failed (abort)" if x["rc"] == 70 else "the sanitizer / a signal stopped the harness"), x["rc"], _san(x["stderr"])), {"cmd": x["cmd"], "stderr": x["stderr"][-6000:]}, tag="random-sanitizer-%s%d" % (x["typ"], x["shard"]))
                    continue
                raise vlib.MachineryError("qu random failed rc=%s: %s" % (x["rc"], x["stderr"][-1500:]))
            s = [y for y in x["rows"] if y.get("summary")][0]
            tot["lines"] += x["lines"]; tot["runs"] += s["runs"]; tot["calls"] += s["calls"]; tot["wrapped"] += s["calls_on_wrapped_ring"]
            tot["tlc_wall"] += x["tlc_wall_s"]; tot["tlc_states"] += x["distinct"]
            pt = per_type.setdefault(x["typ"], {"calls": 0, "ring_tuples_max_per_shard": 0, "classes_missing": None})
            pt["calls"] += s["calls"]; pt["ring_tuples_max_per_shard"] = max(pt["ring_tuples_max_per_shard"], s["ring_tuples"])
            pt["inline_capacity_as_compiled"] = s.get("inline_capacity"); pt["ring_capacities_measured"] = s.get("ring_capacities"); pt["ring_classes_wanted"] = s.get("ring_classes_wanted")
            ms = set(s["ring_classes_missing"]); pt["classes_missing"] = ms if pt["classes_missing"] is None else (pt["classes_missing"] & ms)
            for y in x["rows"]:
                if y.get("summary"): continue
                if y.get("violations"): v.violation("random calls on Queue<%s> (run %s, line %s of %s): %s" % (x["typ"], y.get("run"), y.get("trace_line"), x["trace"], "; ".join(y["violations"])), dict(y, cmd=x["cmd"]), tag="random-%s%d" % (x["typ"], x["shard"]))
                elif y.get("known"):
                    if not v.known_finding("QswapStale", KNOWN_TEXT["QswapStale"]): v.violation("random calls: " + "; ".join(y["known"]), y, tag="random-%s%d" % (x["typ"], x["shard"]))
            if x["accepted"]: tot["accepted"] += s["runs"]
            else:
                o = x["observed"]; e = x["expected"] or {}
                what = "recorded calls on Queue<%s> are not a behaviour of the ideal sequence: after %d calls, %s(a=%s,b=%s,c=%s,v=%s,src=%s) returned status '%s' result %s iteration %s, other queue %s, contents %s; Deque.tla says status '%s' result %s..%s iteration %s, other queue %s, contents %s (contents before: %s)" % (
                    x["typ"], x["calls_before"], o["op"], o["a"], o["b"], o["c"], o["v"], o["src"], o["st"], o["r"], o["rs"], o["o"], o["q"],
                    e.get("st"), e.get("lo"), e.get("hi"), e.get("rs"), e.get("o"), e.get("q"), e.get("pre"))
                v.violation(what, {"execution": x["execution"], "line": x["line"], "observed": o, "expected": e, "cmd": x["cmd"], "validate": "TRACE=%s tlc -config TraceDiag.cfg DequeTrace.tla" % x["execution"]}, tag="trace-%s%d" % (x["typ"], x["shard"]))
            if "corruptions_rejected" in x: notes.setdefault("corrupted_trace_lines_rejected", {})[x["typ"]] = x["corruptions_rejected"]
            if "sample" in x: samples.append({"kind": "recorded calls validated by TLC (Queue<%s>)" % x["typ"], "lines": [{k: l[k] for k in ("op", "a", "b", "c", "v", "src", "st", "r", "q")} for l in x["sample"]]})
        for t, pt in per_type.items():
            pt["classes_missing"] = sorted(pt["classes_missing"] or [])
            if pt["classes_missing"] and not v.violations:
                raise vlib.MachineryError("coverage guard: Queue<%s>: ring classes (capacity/head offset/call group) never met by the random calls: %s" % (t, pt["classes_missing"]))
        if rs.get("followed", 0) == 0 and not v.violations: raise vlib.MachineryError("no behaviour could be followed to its end")

    cov = {"states": info["distinct"] + tot["tlc_states"], "transitions": info["generated"] + tot["tlc_states"],
           "traces_validated_against_impl": rs.get("followed", 0) + tot["accepted"],
           "model": info,
           "behaviours_replayed": rs.get("runs", 0), "behaviours_followed_to_the_end": rs.get("followed", 0), "behaviours_cut_short_by_known_finding": rs.get("cut_short", 0),
           "replay_steps_compared": rs.get("steps", 0), "replay_per_type": rs.get("per_type"), "known_QswapStale_hits_in_replay": rs.get("known", 0),
           "random_executions": tot["runs"], "random_executions_accepted_by_tlc": tot["accepted"], "random_calls": tot["calls"], "trace_lines_validated_by_tlc": tot["lines"],
           "random_calls_on_wrapped_ring": tot["wrapped"], "random_per_type": per_type, "random_ring_classes": "every wanted class (capacity x head offset x 9 call groups; capacities measured on the library as compiled: inline buffer, EnsureSize(inline+1), growth from the full inline buffer) met for every item type: " + ", ".join("%s %s of capacities %s" % (t, pt.get("ring_classes_wanted"), pt.get("ring_capacities_measured")) for t, pt in sorted(per_type.items())),
           "directed_cases": {k: x for k, x in notes.items() if k.startswith("directed_")},
           "laws_shown_violable_in_this_run": sorted((w, l) for w, l in WRONG.items() if (not quick) or w in ("failchanges", "stale", "addhead", "indexofend")), "corrupted_trace_lines_rejected_by_tlc": notes.get("corrupted_trace_lines_rejected"),
           "evaluations": rs.get("steps", 0) + tot["calls"], "distinct_nontrivial": info["transitions"],
           "rule": "distinct = transitions of the TLC state graph of Deque.tla (contents before, call, arguments; values %s + default, length <= %d, %d of the 88 calls), each taken at least once by a replayed walk and compared on 5 item types x 4 start configurations; non-trivial by construction (every call of the menu changes or queries a given contents). Random calls (all 88) are additional and not deduplicated." % (info["values"], info["max_length"], info["calls_generated"]),
           "exhaustive": True, "samples": samples[:5]}
    assumptions = ["values are small integers: 0 is the default item; Queue<String> items are 1 or 24 characters (inline / heap String storage); Sort stability is not observable with them",
                   "out-of-memory and B_RESOURCE_LIMIT results are not provoked (sizes stay far below MUSCLE_NO_LIMIT; 99 in the specification stands for it)",
                   "documented preconditions are respected by the generators (valid indices for Swap and operator[], sorted contents for InsertItemAtSortedPosition / RemoveSortedDuplicateItems, FastClear only for trivially copyable items); where the header is silent nothing is required: InsertItemsAt beyond the end accepts either reading, the contents of a moved-from Queue (move constructor / move assignment; Plunder is documented) are not judged, AdoptRawDataArray is given default items beyond validItemCount",
                   "an argument that aliases the Queue itself (q.AddTail(q[i]), q.InsertItemAt(i, q[j]), q.AddTailMulti(q), an array inside q's own storage) means 'a copy taken before the call' - the reading the code's own re-entrancy guards implement",
                   "the open finding QswapStale (known_findings.json) is recognised by its exact predicate (item type without move operations, history, Queue back in its inline buffer): the slots it left behind are counted and reset, everything else is judged normally; F16realloc, QshrinkOverflow, QaddHeadSelf, QaddHeadStartSign, QextraOverflow, QextraIgnored are repaired in /repo: their inputs are generated and judged like any other, their directed cases are ordinary cases",
                   "argument-type boundary values (0x7FFFFFFF, 0x80000000, 0xFFFFFFFE, 0xFFFFFFFF, INT32_MIN/MAX strides) are generated for every index / count / slot parameter (extraReallocItems with setNumItems = true is modelled as documented: ignored)",
                   "memory safety is judged by ASan+UBSan (asan build variant); trivially copyable items outside the window are not required to be default items (the library does not clear them by design)"]
    return "model_checking", cov, assumptions


def _run_harness(cmd, timeout):
    """runs qu; exit code 68 (its watchdog: one call did not return within 20 s) is confirmed by a second run before it is believed"""
    rc, so, se = vlib.run(cmd, timeout=timeout)
    if rc == 68:
        rc2, so2, se2 = vlib.run(cmd, timeout=timeout)
        if rc2 != 68: return rc2, so2, se2
    return rc, so, se


def _stopped(rc):
    return rc in (66, 67, 68, 70) or (rc is not None and rc < 0 and rc != -999)


def _rows(path):
    """report rows; a harness stopped by the sanitizer may leave a last line that is cut off"""
    out = []
    with open(path, errors="replace") as f:
        for line in f:
            line = line.strip()
            if not line: continue
            try: out.append(json.loads(line))
            except ValueError: pass
    return out


def _san(stderr):
    m = re.search(r"ERROR: (AddressSanitizer|UndefinedBehaviorSanitizer|LeakSanitizer)[^\n]*", stderr) or re.search(r"runtime error:[^\n]*", stderr)
    w = re.search(r"QU-(IN-PROGRESS|CALL-DOES-NOT-RETURN|ABORTED-IN): [^\n]*", stderr)
    return ((m.group(0) if m else "?") + " | " + (w.group(0) if w else ""))[:600]


def _all_ops():
    t = open(os.path.join(vlib.VERIF, "harness", "qu.cpp")).read()
    return re.findall(r"X\((\w+)\)", t[t.index("#define OPS(X)"):t.index("enum Op")])
