"""C12 - the packet tunnel never delivers a Message that was not sent.

 1. TLC model-checks spec/PacketTunnel/TunImpl.tla (PacketTunnelIOGateway.cpp as coded: fragmenting sender, per-source
    ReceiveState with the acceptance test of DoInputImplementation) and MiniTunImpl.tla (MiniPacketTunnelIOGateway.cpp) over
    the network of Net.tla against the property module TunAbs.tla:
      clause 1  NeverDeliversUnsent + AbsRefines for EVERY pattern of loss / duplication / reordering (ids modulo IDSPACE > number
                of Messages, with the wrap-around inside the behaviours);
      clause 2  PerfectInOrder + PerfectExactlyOnce on the perfect network for every MTU >= header + 1 of a sweep;
    vacuity: Reach_* configurations in which each invariant FAILS (id comparison / offset comparison / source key dropped from
    the acceptance test, IDSPACE = 2 = the one hole of the design, the code as it was before the repairs of F31 / F32 against clause 2).
 2. spec -> code: TLC dumps the state graph of small instances (RECORD = TRUE), tools/pathcover.py covers EVERY transition,
    harness/tun.cpp replays each behaviour on real sender / receiver gateways connected by a scripted PacketDataIO, with slave =
    exact raw-data style / RawDataMessageIOGateway / MessageIOGateway / none, compares packets, deliveries and the projected
    private state with every step (DRIFT) and evaluates TunAbs on what the receiver handed over (VIOLATION).
    thorough adds deeper instances and -simulate behaviours.
 3. code -> spec: seeded random long runs (about 20 packets, 1-3 senders, MTU sweep up to 4096, loss / duplication /
    reordering or perfect), TunAbs monitor on all of them, the event logs of a subset validated by TLC (TunAbsTrace.tla).
 4. directed cases: known findings F15 and F44 (zlib-encoding slave: dependent deflate); the inputs of the repaired findings F31
    and F32; two senders with equal ids and sizes whose fragments are read by ONE DoInput() call; id wrap-around at 2^32 and
    2^24; the id-collision hole (assumption).
 The receiver's socket may hold several packets of several senders for one DoInput() call (Net.tla: rxq, MaxBatch; actions Arrive /
 Deliver / ReadWaiting); the scripted PacketDataIO of the harness reports every packet's own source address.
"""
import concurrent.futures as cf, json, os, re, threading, time
import vlib, pathcover

FAM = "PacketTunnel"
ALLF = '{"Lose", "Dup", "Reorder"}'
ALLM = '{"all", "one", "hold"}'
TLC_ENV = {"JAVA_TOOL_OPTIONS": "-Djava.io.tmpdir=" + os.path.join(vlib.BUILD, "tlc", "tmp")}
NOTE = ["-noGenerateSpecTE"]


class Tokens:
    """at most n TLC workers at a time, over all the TLC processes this check starts"""
    def __init__(self, n): self.n = n; self.c = threading.Condition()
    def run(self, k, fn):
        with self.c:
            while self.n < k: self.c.wait()
            self.n -= k
        try: return fn()
        finally:
            with self.c: self.n += k; self.c.notify_all()


def sset(xs): return "{" + ", ".join(str(x) for x in xs) + "}"
def strset(xs): return "{" + ", ".join('"%s"' % x for x in xs) + "}"


def tun_cfg(name, senders=(1,), maxin=99, faults=ALLF, copies=2, batch=1, sizes=(0, 1, 2, 3), msgs=2, H=1, mtu=2, idspace=8, firstid=7,
            modes=ALLM, dev=(), record=False, hist=False, invs=(), props=(), spec="Spec"):
    p = os.path.join(vlib.SPEC, FAM, name)
    with open(p, "w") as f:
        f.write("SPECIFICATION %s\nCONSTANTS\n  Senders = %s\n  MaxIn = %d\n  Faults = %s\n  MaxCopies = %d\n  MaxBatch = %d\n  Sizes = %s\n  MaxMsgs = %d\n  H = %d\n  MTUs = %s\n"
                "  IDSPACE = %d\n  FirstID = %d\n  OutModes = %s\n  Deviations = %s\n  RECORD = %s\n  HIST = %s\n" %
                (spec, sset(senders), maxin, faults, copies, batch, sset(sizes), msgs, H, sset(mtu if isinstance(mtu, (tuple, list, range)) else (mtu,)), idspace, firstid, modes, strset(dev),
                 "TRUE" if record else "FALSE", "TRUE" if hist else "FALSE"))
        if invs: f.write("INVARIANTS " + " ".join(invs) + "\n")
        if props: f.write("PROPERTIES " + " ".join(props) + "\n")
    return name


def mini_cfg(name, senders=(1,), faults=ALLF, copies=2, batch=1, sizes=(0, 10, 20), msgs=2, PH=12, CH=4, mtu=40, pidspace=4, firstpid=3, levels=(0, 6),
             modes=ALLM, comp=True, dev=(), record=False, hist=False, invs=(), props=()):
    p = os.path.join(vlib.SPEC, FAM, name)
    with open(p, "w") as f:
        f.write("SPECIFICATION Spec\nCONSTANTS\n  Senders = %s\n  MaxIn = 0\n  Faults = %s\n  MaxCopies = %d\n  MaxBatch = %d\n  Sizes = %s\n  MaxMsgs = %d\n  PH = %d\n  CH = %d\n  MTUs = %s\n"
                "  PIDSPACE = %d\n  FirstPID = %d\n  Levels = %s\n  OutModes = %s\n  Compressible = %s\n  Deviations = %s\n  RECORD = %s\n  HIST = %s\n" %
                (sset(senders), faults, copies, batch, sset(sizes), msgs, PH, CH, sset(mtu if isinstance(mtu, (tuple, list, range)) else (mtu,)), pidspace, firstpid, sset(levels), modes, "TRUE" if comp else "FALSE", strset(dev),
                 "TRUE" if record else "FALSE", "TRUE" if hist else "FALSE"))
        if invs: f.write("INVARIANTS " + " ".join(invs) + "\n")
        if props: f.write("PROPERTIES " + " ".join(props) + "\n")
    return name


TUN_INVS = ["TypeOK", "NeverDeliversUnsent", "WithinMTU", "PerfectInOrder", "PerfectExactlyOnce", "AtMostOnceWithoutDup"]
MINI_INVS = ["TypeOK", "NeverDeliversUnsent", "WithinMTU", "PerfectInOrder", "PerfectExactlyOnce", "DropsOnlyTooLarge"]
ACTS = ["Send", "Out", "Receive"]


class Crashed(Exception):
    """the code under test crashed in both builds of the harness after a sanitizer report (already recorded as a violation)"""


def run(v, tier, seed):
    try:
        return _run(v, tier, seed)
    except Crashed as ex:
        if not v.violations: raise vlib.MachineryError("harness crashed: %s" % ex)
        return "model_checking", {"states": 0, "transitions": 0, "traces_validated_against_impl": 0, "evaluations": 0, "distinct_nontrivial": 0, "exhaustive": False,
                                  "rule": "run abandoned: the code under test crashed in stage '%s' after a sanitizer report" % ex, "samples": [{"kind": "crash", "stage": str(ex)}]}, []


def _run(v, tier, seed):
    quick = (tier == "quick")
    scale = float(os.environ.get("C12_SCALE", "1"))     # < 1: a reduced thorough run (smoke test of the tier)
    os.makedirs(TLC_ENV["JAVA_TOOL_OPTIONS"].split("=", 1)[1], exist_ok=True)
    # harness/tun.cpp also reads the gateways' private state (DRIFT-level comparisons).  If it does not compile against the tree under
    # test (a refactoring of private members), fall back to harness/tun_public.cpp = the same program on the public API only: the
    # property-level judging (TunAbs monitor on every delivery, exactly-once at quiet ends, trace validation) is unchanged.
    def build(variant):
        try:
            vlib.make(variant, "tun"); return vlib.binpath(variant, "tun"), True
        except vlib.MachineryError as ex1:
            try: vlib.make(variant, "tun_public")
            except vlib.MachineryError as ex2: raise vlib.MachineryError("neither harness/tun.cpp nor its public-API variant builds:\n%s\n%s" % (str(ex1)[-1500:], str(ex2)[-1500:]))
            err = [l for l in str(ex1).splitlines() if "error" in l]
            vlib.log("NOTE property=C12 harness/tun.cpp does not compile against this tree (%s): using the public-API build; private-state comparison (send cursor, ReceiveState) and id wrap-around cases are unavailable, property-level judging is complete" % (err[0].strip()[:220] if err else "see build log"))
            return vlib.binpath(variant, "tun_public"), False
    tun, priv1 = build("plain")
    tun_asan, priv2 = build("asan")
    private_state = priv1 and priv2
    W = lambda n: vlib.scratch("C12", n)
    tok = Tokens(8)
    tot = {"states": 0, "transitions": 0, "mc_runs": 0, "reach": 0, "gen_states": 0, "gen_edges": 0, "behaviours": 0, "replays": 0, "followed": 0, "drifted": 0,
           "steps": 0, "packets": 0, "deliveries": 0, "compressed": 0, "clause2": 0, "sim_behaviours": 0, "split_perfect": 0, "split_faulty": 0, "multi_source": 0}
    samples = []; mc_notes = []; gen_notes = []; infos = []

    T0 = time.time(); timing = bool(os.environ.get("C12_TIMING"))
    nviol = {}
    def viol(what, obj, tag):
        # one replay file per case, but not thousands of them when a defect shows in every behaviour
        nviol[tag] = nviol.get(tag, 0) + 1
        if nviol[tag] <= 12: v.violation(what, obj, tag=tag)

    def tlc(module, cfg, workers, timeout, **kw):
        def go():
            t = time.time()
            r = vlib.tlc(module, cfg, FAM, workers=workers, timeout=timeout, env=TLC_ENV, extra=NOTE, **kw)
            if timing: vlib.log("  [%.0fs] tlc %s %s: %.1fs, %d states" % (time.time() - T0, module, cfg, time.time() - t, r.distinct))
            return r
        return tok.run(workers, go)

    def run_h(args, what, timeout, asan):
        """Runs the harness (ASan+UBSan build if asan, else plain).  A sanitizer report or a crash inside the gateways is a defect of
        the code under test, not of the machinery: it is reported, and the stage is repeated in the other build so that the
        property-level verdict is still obtained if at all possible."""
        first, second = (tun_asan, tun) if asan else (tun, tun_asan)
        rc, out, err = vlib.run([first] + args, timeout=timeout)
        if rc == 0: return
        crashed = rc in (66, 67) or rc < 0 or rc in (134, 139)
        if not crashed: raise vlib.MachineryError("%s failed rc=%s: %s %s" % (what, rc, out[-500:], err[-2500:]))
        rc2, out2, err2 = vlib.run([second] + args, timeout=timeout)
        san = err if rc in (66, 67) else (err2 if rc2 in (66, 67) else None)
        if san is None:
            if rc2 == 0: raise vlib.MachineryError("%s crashed in one build only (rc=%s), no sanitizer report: %s" % (what, rc, err[-2500:]))
            raise vlib.MachineryError("%s crashed rc=%s / rc=%s without a sanitizer report: %s" % (what, rc, rc2, err[-2500:]))
        m = re.search(r"(ERROR: AddressSanitizer[^\n]*|runtime error:[^\n]*)", san)
        viol("%s: sanitizer report in the code under test while it handled the packets of well-behaved senders (%s): memory is corrupted, what the gateway hands over afterwards cannot be what was sent" % (what, (m.group(1) if m else "sanitizer exit code")[:200]),
             {"command": args, "stderr": san[-6000:]}, "sanitizer")
        if rc2 != 0 and not (rc in (66, 67) and rc2 == 0): raise Crashed(what)
    def run_san(args, what, timeout): run_h(args, what, timeout, True)

    # ---------------------------------------------------------------------------------------------------------------
    # 4. directed cases
    def directed():
        rep = W("directed.ndjson")
        run_san(["directed", rep], "tun directed", 300)
        return vlib.read_ndjson(rep)

    present = set()
    for r in directed():
        if r.get("summary"): continue
        for k in r.get("known", []):
            fid = k.split(":")[0]
            present.add(fid)
            if not v.known_finding(fid, "%s [directed case %s: %s]" % (k, r["case"], r["note"])):
                viol("directed case %s: %s (not a listed open known finding)" % (r["case"], k), r, "directed")
        if r.get("violations"): viol("directed case %s (%s): %s" % (r["case"], r.get("note", ""), "; ".join(r["violations"])), r, "directed")
        if r.get("drift"):
            v.drift += 1; vlib.log("DRIFT property=C12 directed case %s: %s" % (r["case"], "; ".join(r["drift"])[:400]))
        if r.get("info"): infos.append(r)
        samples.append({"kind": "directed case", "case": r["case"], "note": r.get("note"), "reproduced": r.get("reproduced")})
    # the model is the code as it is now: no named deviation (F31 and F32 are repaired; the switches remain for the vacuity guards)
    dev_tun = ()
    dev_mini = ()

    # ---------------------------------------------------------------------------------------------------------------
    # 1. model checking
    def mc(module, cfg, what, workers=4, timeout=1500, heap="6g"):
        r = tlc(module, cfg, workers, timeout, coverage=True, heap=heap)
        vlib.require_ok(r, what)
        vlib.require_coverage(r, ACTS, what)
        return what, r

    def reach(module, cfg, expect, what):
        r = tlc(module, cfg, 1, 600)
        if r.error: raise vlib.MachineryError("%s: %s" % (what, r.error))
        if r.violated != expect: raise vlib.MachineryError("vacuity guard %s: expected the model to violate %s, got %s" % (what, expect, r.violated))
        return what

    jobs_mc = []; jobs_reach = []
    with cf.ThreadPoolExecutor(max_workers=12) as ex:
        # -----------------------------------------------------------------------------------------------------------
        # 3. code -> spec
        def explore(iters, ntraces, lo, hi, tag, sd):
            rep = W("explore_%s.ndjson" % tag); tr = W("trace_%s.ndjson" % tag)
            t = time.time()
            run_san(["explore", str(iters), str(sd), rep, tr, str(ntraces), str(lo), str(hi)], "tun explore", 3000)
            if timing: vlib.log("  [%.0fs] explore %s: %.1fs" % (time.time() - T0, tag, time.time() - t))
            rows = vlib.read_ndjson(rep)
            r = tok.run(1, lambda: vlib.tlc("TunAbsTrace", "Trace.cfg", FAM, workers=1, timeout=2400, env=dict(TLC_ENV, TRACE=tr), extra=NOTE, heap="6g"))
            if r.error and not r.violated: raise vlib.MachineryError("TunAbsTrace: " + r.error)
            return rows, r, tr
        E = []
        if quick:
            E.append(ex.submit(explore, 6000, 250, 17, 4096, "a", seed))
        else:
            # the whole MTU range twice over (4080 values x 3 kinds of run ...), plus a dense pass over the small MTUs
            # 4080 MTUs x 12 kinds of run = 48960 iterations for one complete sweep of 17 .. 4096
            for i in range(6): E.append(ex.submit(explore, int(49000 * scale), int(1200 * scale), 17, 4096, "t%d" % i, seed * 100 + i))
            E.append(ex.submit(explore, int(60000 * scale), int(1200 * scale), 17, 140, "small", seed * 100 + 50))

        # -----------------------------------------------------------------------------------------------------------
        # 2. spec -> code
        def gen_and_replay(tag, module, cfgname, hcfg, slaves, workers=2, timeout=1500):
            """hcfg: the harness's view of the instance; slaves: list of (slave kind, filter) to replay under"""
            dot = W("g_%s.dot" % tag)
            r = tlc(module, cfgname, workers, timeout, dump=dot, heap="6g")
            vlib.require_ok(r, "graph dump " + tag)
            t = time.time()
            beh, st = pathcover.behaviours(dot)
            if timing: vlib.log("  [%.0fs] pathcover %s: %.1fs, %s" % (time.time() - T0, tag, time.time() - t, st))
            os.remove(dot)
            if st["edges_covered"] != st["graph_edges"]: raise vlib.MachineryError("path cover incomplete for %s: %s" % (tag, st))
            return replay(tag, hcfg, slaves, beh), st, r

        def replay(tag, hcfg, slaves, beh):
            out = []
            for sl in slaves:
                b = beh
                if sl == "raw": b = [s for s in beh if not any(x.get("a") == "Send" and x.get("z") == 0 for x in s)]   # RawDataMessageIOGateway does not send empty chunks
                if not b: continue
                bf = W("beh_%s_%s.ndjson" % (tag, sl)); rp = W("rep_%s_%s.ndjson" % (tag, sl))
                c = dict(hcfg); c["slave"] = sl
                vlib.write_ndjson(bf, [{"config": c}] + [{"id": i, "steps": s} for i, s in enumerate(b)])
                t = time.time()
                run_h(["replay", bf, rp], "tun replay %s/%s" % (tag, sl), 1800, False)
                if timing: vlib.log("  [%.0fs] replay %s/%s: %.1fs, %d behaviours" % (time.time() - T0, tag, sl, time.time() - t, len(b)))
                out.append((sl, vlib.read_ndjson(rp), len(b), max(b, key=lambda s: (sum(1 for x in s if x.get("dl")), len(s)))))
                os.remove(bf)
            return out

        def hc(kind, unit, mtu, senders=1, perfect=False, maxin=-1, idbase=0xFFFFFFFF, firstid=7, idspace=8, comp=False, addrmode=0):
            return {"kind": kind, "unit": unit, "mtu": mtu, "senders": senders, "perfect": perfect, "maxin": maxin, "idbase": idbase, "firstid": firstid, "idspace": idspace, "compressible": comp, "addrmode": addrmode}

        G = []
        def gen_tun(tag, slaves, unit, perfect=False, idbase=0xFFFFFFFF, addrmode=0, **kw):
            kw.setdefault("dev", dev_tun)
            name = tun_cfg("gen_Gen_%s.cfg" % tag, record=True, invs=["TypeOK"], faults="{}" if perfect else ALLF, **kw)
            h = hc("tun", unit, kw.get("mtu", 2), senders=len(kw.get("senders", (1,))), perfect=perfect, maxin=kw["maxin"] if kw.get("maxin", 99) < 99 else -1, idbase=idbase, firstid=kw.get("firstid", 7), idspace=kw.get("idspace", 8), addrmode=addrmode)
            G.append((tag, ex.submit(gen_and_replay, tag, "TunImpl", name, h, slaves)))
        def gen_mini(tag, slaves, unit, perfect=False, idbase=16777215, addrmode=0, **kw):
            kw.setdefault("dev", dev_mini)
            name = mini_cfg("gen_Gen_%s.cfg" % tag, record=True, invs=["TypeOK"], faults="{}" if perfect else ALLF, **kw)
            h = hc("mini", unit, kw.get("mtu", 40), senders=len(kw.get("senders", (1,))), perfect=perfect, idbase=idbase, firstid=kw.get("firstpid", 3), idspace=kw.get("pidspace", 4), comp=kw.get("comp", True), addrmode=addrmode)
            G.append((tag, ex.submit(gen_and_replay, tag, "MiniTunImpl", name, h, slaves)))

        # unit = 24 / H bytes: H units are the real fragment header.  Sizes 0..3 units, MTU 2..4 units, every packet 0, 1 or 2 times in any order
        gen_tun("u24_m2", ["exact", "raw"], 24, mtu=2, msgs=2, modes='{"all"}')
        gen_tun("u24_m3", ["exact", "raw"], 24, mtu=3, msgs=2)
        gen_tun("u24_m4", ["exact", "raw"], 24, mtu=4, msgs=3 if not quick else 2)
        if not quick: gen_tun("u24_m3_3", ["exact"], 24, mtu=3, sizes=(0, 1, 3), msgs=3, modes='{"all"}')
        # byte granularity at the minimum MTU (25 = header + 1) and where a second fragment just fits / just does not fit into a packet
        gen_tun("u1_m25", ["exact"], 1, H=24, mtu=25, sizes=(0, 1, 2), msgs=2, modes='{"all", "one"}', idbase=5)
        gen_tun("u1_m50", ["exact", "raw"], 1, H=24, mtu=50, sizes=(0, 1, 2, 3), msgs=2, idbase=5)
        gen_tun("u1_m49", ["exact"], 1, H=24, mtu=49, sizes=(0, 1, 25, 26), msgs=2, modes='{"all"}', idbase=0xFFFFFFFE)
        # slave = MessageIOGateway / no slave: the smallest encodable buffers are 2 units of 24 bytes
        if not quick: gen_tun("u24_msg_m2", ["msg", "none"], 24, mtu=2, sizes=(2, 3), msgs=2, modes='{"all"}')
        gen_tun("u24_msg_m4", ["msg", "none"], 24, mtu=4, sizes=(2, 3, 5), msgs=2)
        # several senders distinguished by source address: the two differ in the host only (u24_2s) / in the port only (u24_2sb)
        gen_tun("u24_2s", ["exact", "msg"], 24, senders=(1, 2), mtu=2, sizes=(2,), msgs=1, modes='{"all"}')
        # several packets of several senders read by ONE DoInput() call (MaxBatch > 1): both senders use the same message ids and sizes
        gen_tun("u24_2s_batch", ["exact", "msg"], 24, senders=(1, 2), mtu=2, sizes=(2,), msgs=1, batch=3, modes='{"all"}')
        gen_tun("u24_2s_batch_perfect", ["exact", "none"], 24, perfect=True, addrmode=1, senders=(1, 2), mtu=3, sizes=(2, 4), msgs=1, batch=3, modes='{"all"}')
        gen_tun("u24_2sb", ["exact"], 24, addrmode=1, senders=(1, 2), mtu=3, sizes=(0, 3), msgs=2 if not quick else 1, copies=1 if not quick else 2, modes='{"all"}')
        # receiver limit: an over-limit Message shares packets with Messages that fit (the circumstances of repaired F31)
        gen_tun("u24_lim", ["exact", "raw"], 24, maxin=2, mtu=5, sizes=(1, 2, 3), msgs=3 if not quick else 2, modes='{"all"}')
        # perfect network: clause 2 judged at the end of every behaviour that ends quiet
        # MTU 5 / 4: room is left after a short fragment, so packets are shared and the next Message is split by what is left
        gen_tun("u24_perfect", ["exact", "raw", "msg", "none"], 24, perfect=True, mtu=5, sizes=(2, 3, 5), msgs=3)
        gen_tun("u24_perfect0", ["exact"], 24, perfect=True, mtu=4, sizes=(0, 1, 2, 3), msgs=3)
        gen_tun("u24_perfect_m2", ["exact"], 24, perfect=True, mtu=2, sizes=(0, 1, 2, 3), msgs=2)
        gen_tun("u24_perfect_lim", ["exact"], 24, perfect=True, maxin=2, mtu=6, sizes=(0, 1, 3), msgs=3)
        gen_tun("u24_perfect_2s", ["exact", "none"], 24, perfect=True, senders=(1, 2), mtu=3, sizes=(2, 4), msgs=2, modes='{"all"}' if quick else '{"all", "one"}')
        # mini tunnel: unit = 1 byte (PH = 12, CH = 4), with and without compressible content
        for comp in (True, False):
            c = int(comp)
            gen_mini("mini_lossy_%d" % c, ["exact", "raw"], 1, sizes=(0, 40, 80), mtu=120, msgs=2, comp=comp)
            gen_mini("mini_perfect_%d" % c, ["exact", "raw"] if comp else ["exact"], 1, perfect=True, sizes=(50, 70, 110), mtu=140, msgs=3 if not quick else 2, comp=comp, modes=ALLM if quick else '{"all", "hold"}')
        # slave = MessageIOGateway / none: the Message headers deflate whatever the payload is, so these are replayed without compression (the random runs compress them)
        gen_mini("mini_msg", ["msg", "none"], 1, perfect=True, sizes=(50, 70, 110), mtu=140, msgs=3, comp=False, levels=(0,))
        gen_mini("mini_msg_lossy", ["msg", "none"], 1, sizes=(50, 80), mtu=120, msgs=2, comp=False, levels=(0,), modes='{"all"}')
        gen_mini("mini_drop", ["exact", "raw"], 1, perfect=True, sizes=(1, 84, 85), mtu=100, msgs=3, comp=False, levels=(0,), modes='{"all"}')
        gen_mini("mini_2s", ["exact"], 1, senders=(1, 2), sizes=(0, 60), mtu=100, msgs=1 if quick else 2, comp=True, levels=(6,), modes='{"all"}', copies=2 if quick else 1, batch=2)

        # thorough: -simulate behaviours of deeper instances
        S = []
        def simulate(tag, module, cfgname, hcfg, slaves, num):
            r = tlc(module, cfgname, 1, 1500, simulate=num, depth=60, seed=seed)
            if r.error: raise vlib.MachineryError("simulate %s: %s" % (tag, r.error))
            if r.violated: raise vlib.MachineryError("simulate %s: the model violates %s" % (tag, r.violated))
            # distinct behaviours only
            seen = set(); beh = []
            for b in r.printed:
                k = vlib.sha(b)
                if k not in seen: seen.add(k); beh.append(b)
            return replay(tag, hcfg, slaves, beh), len(r.printed), len(beh)
        if not quick:
            n = tun_cfg("gen_Sim_m2.cfg", record=True, hist=True, mtu=2, msgs=4, sizes=(0, 1, 2, 3), dev=dev_tun, invs=["PrintDone"])
            S.append(("sim_m2", ex.submit(simulate, "sim_m2", "TunImpl", n, hc("tun", 24, 2), ["exact", "raw"], int(6000 * scale))))
            n = tun_cfg("gen_Sim_3s.cfg", record=True, hist=True, senders=(1, 2, 3), mtu=3, msgs=3, sizes=(0, 2, 3, 5), dev=dev_tun, invs=["PrintDone"])
            S.append(("sim_3s", ex.submit(simulate, "sim_3s", "TunImpl", n, hc("tun", 24, 3, senders=3, addrmode=1), ["exact"], int(6000 * scale))))
            n = tun_cfg("gen_Sim_msg.cfg", record=True, hist=True, senders=(1, 2), mtu=3, msgs=4, sizes=(2, 3, 5, 7), dev=dev_tun, invs=["PrintDone"])
            S.append(("sim_msg", ex.submit(simulate, "sim_msg", "TunImpl", n, hc("tun", 24, 3, senders=2), ["msg", "none"], int(4000 * scale))))
            n = mini_cfg("gen_Sim_mini.cfg", record=True, hist=True, senders=(1, 2), sizes=(0, 40, 80, 120), mtu=200, msgs=4, comp=True, pidspace=64, firstpid=62, dev=dev_mini, invs=["PrintDone"])
            S.append(("sim_mini", ex.submit(simulate, "sim_mini", "MiniTunImpl", n, hc("mini", 1, 200, senders=2, idbase=16777214, firstid=62, idspace=64, comp=True), ["exact"], int(4000 * scale))))

        # -----------------------------------------------------------------------------------------------------------
        # the binding rejects corrupted inputs: one corrupted field of a behaviour step -> the replay reports it; one corrupted
        # field / one removed line of a recorded log -> TLC rejects the log with the clause of TunAbs concerned
        def selftest_replay():
            results, st, r = G[1][1].result()                      # u24_m3: shared packets, all DoOutput modes
            dot_beh = None
            for sl, rows, nb, smp in results:
                if sl == "exact": dot_beh = smp
            if dot_beh is None: raise vlib.MachineryError("self test: no sample behaviour")
            # find, among this instance's behaviours, one with a packet and one with a delivery: regenerate a few from the sample
            import copy
            cases = []
            b1 = copy.deepcopy(dot_beh)
            for x in b1:
                if x.get("a") == "Out" and x["pkts"]: x["pkts"][0][0]["len"] += 1; cases.append(("fragment length of a written packet + 1", b1)); break
            b2 = copy.deepcopy(dot_beh)
            for x in b2:
                if x.get("a") == "Deliver" and x["dl"]: x["dl"] = []; cases.append(("a delivery removed from a step", b2)); break
            b3 = copy.deepcopy(dot_beh)
            for x in b3:
                if private_state and x.get("a") == "Deliver": x["off"] += 1; cases.append(("expected offset of the ReceiveState + 1", b3)); break
            if len(cases) < 2: raise vlib.MachineryError("self test: the sample behaviour has no packet / no delivery to corrupt")
            bf = W("beh_selftest.ndjson"); rp = W("rep_selftest.ndjson")
            vlib.write_ndjson(bf, [{"config": dict(hc("tun", 24, 3), slave="exact")}] + [{"id": i, "steps": c[1]} for i, c in enumerate(cases)])
            rc, o, e = vlib.run([tun, "replay", bf, rp], timeout=300)
            if rc != 0: raise vlib.MachineryError("self test replay failed rc=%s %s" % (rc, e[-1000:]))
            rows = vlib.read_ndjson(rp)
            flagged = set(r["behaviour"] for r in rows if not r.get("summary") and (r.get("drift") or r.get("violations")))
            for i, c in enumerate(cases):
                if i not in flagged: raise vlib.MachineryError("self test: a behaviour with %s was replayed without any report" % c[0])
            return len(cases)

        def selftest_trace():
            rows, r, tr = E[0].result()
            lines = [l for l in open(tr).read().split("\n") if l]
            # cut out the first perfect execution that hands something over
            starts = [i for i, l in enumerate(lines) if l.startswith('{"e":"Reset"')] + [len(lines)]
            done = 0
            for a, b in zip(starts, starts[1:]):
                seg = [json.loads(l) for l in lines[a:b]]
                if not seg[0].get("perfect") or seg[-1].get("e") != "quiet": continue
                di = [i for i, x in enumerate(seg) if x["e"] == "deliver" and x["runs"]]
                if not di: continue
                c1 = json.loads(json.dumps(seg)); c1[di[0]]["runs"][0][1] += 1             # the bytes of another Message number
                c2 = json.loads(json.dumps(seg)); del c2[di[-1]]                           # one delivery missing
                c3 = json.loads(json.dumps(seg)); c3[di[0]]["runs"][0][3] -= 1; c3[di[0]]["runs"].append([c3[di[0]]["s"], c3[di[0]]["runs"][0][1] + 1, c3[di[0]]["runs"][0][3], 1])   # last byte from another Message
                for name, c, expect in (("c1", c1, "Clause1"), ("c2", c2, "Clause2"), ("c3", c3, "Clause1")):
                    f = W("trace_selftest_%s.ndjson" % name); vlib.write_ndjson(f, c)
                    rr = tok.run(1, lambda: vlib.tlc("TunAbsTrace", "Trace.cfg", FAM, workers=1, timeout=600, env=dict(TLC_ENV, TRACE=f), extra=NOTE, heap="2g"))
                    if rr.violated != expect: raise vlib.MachineryError("self test: a corrupted log (%s) was not rejected with %s but gave %s" % (name, expect, rr.violated or rr.error))
                    done += 1
                break
            if done == 0: raise vlib.MachineryError("self test: no perfect execution with a delivery in the recorded log")
            return done
        f_self = [ex.submit(selftest_replay), ex.submit(selftest_trace)]

        # -----------------------------------------------------------------------------------------------------------
        # model-checking jobs (submitted after the longer generate-and-replay jobs)
        # clause 1, every fault pattern (the full fault set contains every smaller one), ids wrap inside the behaviours
        big = [(3, 3), (4, 3)] if quick else [(2, 3), (3, 3), (4, 3)]
        for mtu, msgs in big:
            jobs_mc.append(ex.submit(mc, "TunImpl", tun_cfg("gen_MC_lossy_m%d.cfg" % mtu, mtu=mtu, msgs=msgs, modes='{"all"}', dev=dev_tun, invs=TUN_INVS, props=["AbsRefines"]),
                                     "TunImpl lossy MTU=%d %d Messages sizes 0..3" % (mtu, msgs), 8 if mtu == 2 else 4, 2400, "10g"))
        jobs_mc.append(ex.submit(mc, "TunImpl", tun_cfg("gen_MC_lossy_m2s.cfg", mtu=2, msgs=2, dev=dev_tun, invs=TUN_INVS, props=["AbsRefines"]), "TunImpl lossy MTU=2 2 Messages all DoOutput modes"))
        if not quick: jobs_mc.append(ex.submit(mc, "TunImpl", tun_cfg("gen_MC_lossy_modes.cfg", mtu=3, msgs=3 if not quick else 2, dev=dev_tun, invs=TUN_INVS, props=["AbsRefines"]), "TunImpl lossy MTU=3 all DoOutput modes"))
        if not quick: jobs_mc.append(ex.submit(mc, "TunImpl", tun_cfg("gen_MC_lossy_2s.cfg", senders=(1, 2), sizes=(1, 2), mtu=2, msgs=2 if not quick else 1, modes='{"all"}', dev=dev_tun, invs=TUN_INVS, props=["AbsRefines"]), "TunImpl lossy two senders"))
        jobs_mc.append(ex.submit(mc, "TunImpl", tun_cfg("gen_MC_lossy_2s_batch.cfg", senders=(1, 2), sizes=(1, 2), mtu=2, msgs=1, batch=3, modes='{"all"}', dev=dev_tun, invs=TUN_INVS, props=["AbsRefines"]), "TunImpl lossy two senders, up to 3 packets per DoInput call"))
        jobs_mc.append(ex.submit(mc, "TunImpl", tun_cfg("gen_MC_lossy_2sb.cfg", senders=(1, 2), sizes=(0, 2), mtu=2, msgs=2, copies=1, modes='{"all"}', dev=dev_tun, invs=TUN_INVS, props=["AbsRefines"]), "TunImpl lossy two senders 2 Messages each"))
        jobs_mc.append(ex.submit(mc, "TunImpl", tun_cfg("gen_MC_lossy_H2.cfg", H=2, sizes=(0, 1, 3, 4), mtu=4, msgs=2, dev=dev_tun, invs=TUN_INVS, props=["AbsRefines"]), "TunImpl lossy H=2 MTU=4"))
        jobs_mc.append(ex.submit(mc, "TunImpl", tun_cfg("gen_MC_lossy_lim.cfg", maxin=2, sizes=(1, 2, 3), mtu=5, msgs=3, modes='{"all"}', dev=dev_tun, invs=TUN_INVS, props=["AbsRefines"]), "TunImpl lossy with a receiver limit"))
        # clause 2, perfect network, MTU sweep from header + 1 (one TLC run per header size sweeps the MTUs: `mtu` is chosen in Init)
        for H, mtus in ((1, range(2, 8 if quick else 12)), (2, range(3, 7 if quick else 11)), (3, (4, 5, 8) if quick else range(4, 12))):
            jobs_mc.append(ex.submit(mc, "TunImpl", tun_cfg("gen_MC_perfect_H%d.cfg" % H, faults="{}", H=H, sizes=(0, 1, 2, 4, 7) if quick else (0, 1, 2, 3, 4, 5, 6, 7, 9, 13, 17), mtu=mtus, msgs=3, modes='{"all"}',
                                                            dev=dev_tun, invs=TUN_INVS, props=["AbsRefines"]), "TunImpl perfect H=%d MTU in %s, 3 Messages" % (H, list(mtus)), 2 if quick else 4, 1500, "6g"))
            if quick and H > 1: continue
            jobs_mc.append(ex.submit(mc, "TunImpl", tun_cfg("gen_MC_perfect_modes_H%d.cfg" % H, faults="{}", H=H, sizes=(0, 1, 3, 5) if quick else (0, 1, 2, 3, 5, 8, 13), mtu=mtus, msgs=2 if quick else 3,
                                                            dev=dev_tun, invs=TUN_INVS, props=["AbsRefines"]), "TunImpl perfect H=%d MTU in %s, all DoOutput modes" % (H, list(mtus)), 2 if quick else 4, 1500, "6g"))
        jobs_mc.append(ex.submit(mc, "TunImpl", tun_cfg("gen_MC_perfect_lim.cfg", faults="{}", maxin=2, sizes=(0, 1, 2, 3), mtu=5, msgs=3, dev=dev_tun, invs=TUN_INVS, props=["AbsRefines"]), "TunImpl perfect with a receiver limit", 2, 900, "3g"))
        jobs_mc.append(ex.submit(mc, "TunImpl", tun_cfg("gen_MC_perfect_2s.cfg", faults="{}", senders=(1, 2), sizes=(0, 1, 3), mtu=3, msgs=2, modes='{"all", "one"}', dev=dev_tun, invs=TUN_INVS, props=["AbsRefines"]), "TunImpl perfect two senders", 2, 900, "3g"))
        # mini tunnel
        jobs_mc.append(ex.submit(mc, "MiniTunImpl", mini_cfg("gen_MC_mini_lossy.cfg", sizes=(0, 10, 20, 30), mtu=40, msgs=3, modes='{"all", "hold"}', dev=dev_mini, invs=MINI_INVS, props=["AbsRefines"]), "MiniTunImpl lossy"))
        jobs_mc.append(ex.submit(mc, "MiniTunImpl", mini_cfg("gen_MC_mini_lossy_2s.cfg", senders=(1, 2), sizes=(0, 20), mtu=40, msgs=2, copies=1 if quick else 2, modes='{"all"}', levels=(0,), dev=dev_mini, invs=MINI_INVS, props=["AbsRefines"]), "MiniTunImpl lossy two senders"))
        for comp in (True, False):
            jobs_mc.append(ex.submit(mc, "MiniTunImpl", mini_cfg("gen_MC_mini_perfect_%d.cfg" % int(comp), faults="{}", sizes=(0, 1, 14, 15, 29) if quick else (0, 1, 2, 14, 15, 29, 30, 44), msgs=2 if quick else 3, comp=comp,
                                                                 mtu=(17, 18, 30, 31, 45) if quick else (17, 18, 19, 30, 31, 45, 46, 60),
                                                                 dev=dev_mini, invs=MINI_INVS, props=["AbsRefines"]), "MiniTunImpl perfect MTU sweep compressible=%s" % comp, 2, 1500, "4g"))
        # vacuity: every invariant can fail
        R = lambda *a: jobs_reach.append(ex.submit(reach, *a))
        R("TunImpl", tun_cfg("Reach_IdCollision.cfg", idspace=2, firstid=0, sizes=(1, 2), mtu=2, msgs=3, modes='{"all"}', dev=dev_tun, invs=["NeverDeliversUnsent"]), "NeverDeliversUnsent", "IDSPACE=2 (the hole of the design)")
        if not quick: R("TunImpl", tun_cfg("gen_Reach_IdCollision_step.cfg", idspace=2, firstid=0, sizes=(1, 2), mtu=2, msgs=3, modes='{"all"}', dev=dev_tun, props=["AbsRefines"]), "AbsRefines", "IDSPACE=2, step form")
        R("TunImpl", tun_cfg("gen_Reach_noid.cfg", sizes=(2,), mtu=2, msgs=2, modes='{"all"}', dev=dev_tun + ("noid",), invs=["NeverDeliversUnsent"]), "NeverDeliversUnsent", "acceptance test without the id comparison")
        R("TunImpl", tun_cfg("gen_Reach_nooff.cfg", sizes=(2,), mtu=2, msgs=1, modes='{"all"}', dev=dev_tun + ("nooff",), invs=["NeverDeliversUnsent"]), "NeverDeliversUnsent", "acceptance test without the offset comparison")
        R("TunImpl", tun_cfg("gen_Reach_srconce.cfg", senders=(1, 2), sizes=(2,), mtu=2, msgs=1, batch=2, modes='{"all"}', dev=dev_tun + ("srconce",), invs=["NeverDeliversUnsent"]), "NeverDeliversUnsent", "source address looked up once per DoInput call")
        R("MiniTunImpl", mini_cfg("gen_Reach_mini_srconce.cfg", senders=(1, 2), sizes=(20,), mtu=60, msgs=1, batch=2, levels=(0,), modes='{"all"}', dev=dev_mini + ("srconce",), invs=["NeverDeliversUnsent"]), "NeverDeliversUnsent", "mini tunnel: source address looked up once per DoInput call")
        R("TunImpl", tun_cfg("gen_Reach_nokey.cfg", senders=(1, 2), sizes=(2,), mtu=2, msgs=1, modes='{"all"}', dev=dev_tun + ("nokey",), invs=["NeverDeliversUnsent"]), "NeverDeliversUnsent", "one ReceiveState for all sources")
        if not quick: R("TunImpl", tun_cfg("gen_Reach_lossy_exactly_once.cfg", faults='{"Lose"}', sizes=(1,), mtu=2, msgs=2, modes='{"all"}', dev=dev_tun, invs=["PerfectExactlyOnceStrict"]), None, "control: the strict clause 2 is not claimed (and not violated) when the network may lose")
        R("TunImpl",
          tun_cfg("gen_Reach_F31.cfg", faults="{}", maxin=2, sizes=(1, 3), mtu=6, msgs=2, modes='{"all"}', dev=("F31",), invs=["PerfectExactlyOnceStrict"]), "PerfectExactlyOnceStrict", "the code before the repair of F31 against the property as stated")
        if not quick: R("TunImpl", tun_cfg("gen_Reach_F31_repaired.cfg", faults="{}", maxin=2, sizes=(1, 3), mtu=6, msgs=2, modes='{"all"}', dev=(), invs=["PerfectExactlyOnceStrict"]), None, "control: the code as it is now satisfies the property as stated")
        R("MiniTunImpl", mini_cfg("gen_Reach_F32.cfg", faults="{}", sizes=(0, 20), mtu=60, msgs=2, dev=("F32",), invs=["PerfectExactlyOnceStrict"]), "PerfectExactlyOnceStrict", "the code before the repair of F32 against the property as stated")
        if not quick: R("MiniTunImpl", mini_cfg("gen_Reach_F32_repaired.cfg", faults="{}", sizes=(0, 20), mtu=60, msgs=2, dev=(), invs=["PerfectExactlyOnceStrict"]), None, "control: the code as it is now satisfies the property as stated")
        R("MiniTunImpl", mini_cfg("gen_Reach_blind.cfg", faults="{}", sizes=(20,), mtu=60, msgs=1, dev=dev_mini + ("blind",), invs=["PerfectExactlyOnce"]), "PerfectExactlyOnce", "receiver ignoring the level byte")

        # -----------------------------------------------------------------------------------------------------------
        # collect
        for f in jobs_mc:
            what, r = f.result(); tot["states"] += r.distinct; tot["transitions"] += r.generated; tot["mc_runs"] += 1
            mc_notes.append({"instance": what, "distinct": r.distinct, "generated": r.generated, "depth": r.depth, "wall_s": round(r.wall, 1)})
        for f in jobs_reach:
            f.result(); tot["reach"] += 1

        def judge(tag, results):
            for sl, rows, nb, smp in results:
                summ = [r for r in rows if r.get("summary")]
                if not summ: raise vlib.MachineryError("no summary from tun replay %s/%s" % (tag, sl))
                s = summ[0]
                if s["behaviours"] != nb: raise vlib.MachineryError("tun replay %s/%s ran %s of %s behaviours" % (tag, sl, s["behaviours"], nb))
                tot["replays"] += s["behaviours"]; tot["followed"] += s["followed"]; tot["drifted"] += s["drifted"]; tot["steps"] += s["steps"]
                tot["packets"] += s["packets"]; tot["deliveries"] += s["deliveries"]; tot["compressed"] += s["compressed_packets"]; tot["clause2"] += s["clause2_judged"]
                tot["split_perfect"] += s["shared_split_packets_perfect"]; tot["split_faulty"] += s["shared_split_packets_faulty"]; tot["multi_source"] += s["multi_source_calls"]
                if len(samples) < 9: samples.append({"kind": "behaviour replayed", "instance": tag, "slave": sl, "steps": smp})
                for r in rows:
                    if r.get("summary"): continue
                    for k in r.get("known", []):
                        fid = k.split(":")[0]
                        if not v.known_finding(fid, k): viol("replay %s/%s behaviour %s: %s (not a listed open known finding)" % (tag, sl, r.get("behaviour"), k), r, "replay-" + tag)
                    if r.get("violations"): viol("replay of a TLC behaviour (%s, slave %s, behaviour %s): %s" % (tag, sl, r.get("behaviour"), "; ".join(r["violations"])), r, "replay-" + tag)
                    elif r.get("drift"):
                        v.drift += 1
                        if v.drift <= 5: vlib.log("DRIFT property=C12 %s/%s behaviour %s: %s" % (tag, sl, r.get("behaviour"), "; ".join(r["drift"])[:400]))
        for tag, f in G:
            results, st, r = f.result()
            tot["gen_states"] += st["graph_states"]; tot["gen_edges"] += st["graph_edges"]; tot["behaviours"] += st["paths"]
            gen_notes.append({"instance": tag, "graph_states": st["graph_states"], "graph_edges": st["graph_edges"], "behaviours": st["paths"], "replayed_under": [x[0] for x in results]})
            judge(tag, results)
        for tag, f in S:
            results, nprinted, ndistinct = f.result()
            tot["sim_behaviours"] += ndistinct; tot["behaviours"] += ndistinct
            gen_notes.append({"instance": tag, "simulated_behaviours": nprinted, "distinct": ndistinct, "replayed_under": [x[0] for x in results]})
            judge(tag, results)

        ex_notes = []
        ex_tot = {"runs": 0, "packets": 0, "deliveries": 0, "messages": 0, "clause2_judged": 0, "packets_lost": 0, "packets_duplicated": 0, "compressed_packets": 0, "traces_written": 0, "trace_lines": 0, "known": 0, "multi_source_calls": 0}
        for f in E:
            rows, r, tr = f.result()
            summ = [x for x in rows if x.get("summary")][0]
            for k in ex_tot: ex_tot[k] += summ.get(k, 0)
            ex_notes.append({"runs": summ["runs"], "distinct_mtus": summ.get("distinct_mtus"), "mtu_sweep_complete": summ.get("mtu_sweep_complete"), "trace_lines": summ["trace_lines"], "tlc_wall_s": round(r.wall, 1)})
            if len(samples) < 12: samples.append({"kind": "random run", "run": summ.get("sample")})
            for x in rows:
                if x.get("summary"): continue
                for k in x.get("known", []):
                    fid = k.split(":")[0]
                    if not v.known_finding(fid, k): viol("random run %s: %s (not a listed open known finding)" % (x.get("iteration"), k), x, "explore")
                if x.get("violations"): viol("random run (iteration %s, %s, slave %s, MTU %s, %s senders, %s network): %s" % (x.get("iteration"), x.get("kind"), x.get("slave"), x.get("mtu"), x.get("senders"), "perfect" if x.get("perfect") else "faulty", "; ".join(x["violations"])), x, "explore")
                elif x.get("drift"):
                    v.drift += 1
                    if v.drift <= 5: vlib.log("DRIFT property=C12 random run %s: %s" % (x.get("iteration"), "; ".join(x["drift"])[:400]))
            if r.violated == "NotAccepted": pass
            elif r.violated in ("Clause1", "Clause2", "Clause2Prefix"):
                # F31 / F32 / F15 losses are visible to TLC too (the log marks those Messages as not due), so this is a genuine disagreement
                viol("the recorded event log violates %s of TunAbs (trace %s)" % (r.violated, tr), {"trace": tr, "invariant": r.violated, "tlc": r.out[-1500:]}, "trace")
            elif r.violated == "PacketsOK":
                v.drift += 1; vlib.log("DRIFT property=C12 a recorded packet is larger than the MTU (trace %s)" % tr)
            else:
                raise vlib.MachineryError("TunAbsTrace did not consume the log %s: %s" % (tr, (r.violated or r.out[-800:])))
        n_selftests = sum(f.result() for f in f_self)
    if tot["followed"] == 0: raise vlib.MachineryError("no behaviour could be followed")
    if tot["split_perfect"] == 0 or tot["split_faulty"] == 0: raise vlib.MachineryError("vacuity guard: no replayed behaviour had a packet shared by several fragments with the last Message continuing in the next packet (perfect %d, faulty %d)" % (tot["split_perfect"], tot["split_faulty"]))
    if tot["multi_source"] == 0 or ex_tot["multi_source_calls"] == 0: raise vlib.MachineryError("vacuity guard: no DoInput() call read packets of several sources (replay %d, random runs %d)" % (tot["multi_source"], ex_tot["multi_source_calls"]))
    if tot["compressed"] + ex_tot["compressed_packets"] == 0: raise vlib.MachineryError("vacuity guard: no deflated mini-tunnel packet was ever on the wire")
    if ex_tot["packets_lost"] == 0 or ex_tot["packets_duplicated"] == 0 or ex_tot["clause2_judged"] == 0: raise vlib.MachineryError("vacuity guard: the random runs had no loss / duplication / perfect run: %s" % ex_tot)
    for i in infos: vlib.log("INFO property=C12 %s: %s" % (i["case"], i["note"]))
    cov = {"states": tot["states"], "transitions": tot["transitions"],
           "traces_validated_against_impl": tot["followed"] + ex_tot["traces_written"],
           "private_state_compared": private_state, "model_check_runs": tot["mc_runs"], "reach_configs": tot["reach"], "corrupted_inputs_rejected": n_selftests,
           "generation_graph_states": tot["gen_states"], "generation_graph_transitions": tot["gen_edges"],
           "behaviours_generated": tot["behaviours"], "behaviour_replays": tot["replays"], "replays_followed_to_the_end": tot["followed"], "replays_drifted": tot["drifted"],
           "replay_steps": tot["steps"], "replay_packets": tot["packets"], "replay_deliveries_checked": tot["deliveries"], "replay_clause2_judged": tot["clause2"], "replay_doinput_calls_reading_several_sources": tot["multi_source"], "random_doinput_calls_reading_several_sources": ex_tot["multi_source_calls"], "replay_packets_shared_and_split_perfect_net": tot["split_perfect"], "replay_packets_shared_and_split_faulty_net": tot["split_faulty"],
           "deflated_packets_on_the_wire": tot["compressed"] + ex_tot["compressed_packets"],
           "random_runs": ex_tot["runs"], "random_messages": ex_tot["messages"], "random_packets": ex_tot["packets"], "random_deliveries_checked": ex_tot["deliveries"],
           "random_packets_lost": ex_tot["packets_lost"], "random_packets_duplicated": ex_tot["packets_duplicated"], "random_perfect_runs_judged_exactly_once": ex_tot["clause2_judged"],
           "executions_validated_by_tlc": ex_tot["traces_written"], "trace_lines_validated_by_tlc": ex_tot["trace_lines"],
           "evaluations": tot["replays"] + ex_tot["runs"], "distinct_nontrivial": tot["followed"],
           "rule": "a case = (behaviour, slave gateway kind); behaviours = path cover of EVERY transition of the TLC state graphs of the generation instances of TunImpl / MiniTunImpl (distinct by construction: each adds an uncovered transition; simulated behaviours de-duplicated by hash), each replayed on real gateways under 1-4 slave kinds; non-trivial = followed to the end with every step's packets, deliveries and projected private state equal to the specification's and the TunAbs monitor silent; the seeded random runs are counted in evaluations only",
           "exhaustive": True, "random_run_batches": ex_notes, "model_runs": mc_notes, "generation_instances": gen_notes, "deviations_in_the_model": sorted(set(dev_tun + dev_mini)), "samples": samples[:12]}
    assumptions = ["message ids never collide among the Messages a receiver can still see: the acceptance test identifies a Message by its 32-bit id, total size and expected offset only, so after a full wrap of the id (2^32 consecutive Messages of one sender with every fragment in between lost) the head of an old Message and the tail of a new one of EQUAL size would be combined; TLC exhibits it with IDSPACE = 2 (Reach_IdCollision.cfg) and the harness reproduces it on the real code by winding the id counter back (directed case id-collision-hole); not claimed",
                   "the network loses, duplicates and reorders whole packets but does not corrupt them (hostile packets are property C02)",
                   "slave-encoded Messages stay at or below 1168 bytes in every configuration with a slave gateway (known finding F15); larger Messages are exercised without a slave",
                   "TLC instances: at most 3 Messages per sender, sizes up to 2 MTU + 1, at most 2 copies of a packet; the MTU sweep of the perfect network is H+1 .. H+10 in units (H = 1, 2, 3) in TLC and 17/25 .. 4096 bytes in the random runs",
                   "clause 2 is judged for every Message that fits the documented limits except those covered by the predicate of open known finding F15 (reported as KNOWN-FINDING when lost); Messages outside the limits (tunnel: larger than the receiver's maximum; mini tunnel: larger than a packet) may or may not arrive"]
    return "model_checking", cov, assumptions
