"""C18 - the reader/writer mutex excludes correctly and never strands a compliant thread.

 1. TLC model-checks spec/RWLock/RWImpl.tla (ReaderWriterMutex.cpp as coded, one action per critical section):
    Excl, Tables, CountsExact, FailLeavesStateUnchanged, DeadlineRespected, TryNeverWaits, NoOvertake, Quiescent,
    and under weak fairness NoStrand + Terminates; for both writer-preference settings.
 2. spec -> code: TLC dumps the state graph of the same model, tools/pathcover.py turns it into behaviours that cover
    EVERY transition, harness/rw.cpp replays each behaviour on a real ReaderWriterMutex with real threads under the
    controlled scheduler, stopping the threads at the stop points the specification's actions are made of, compares
    the events the code emits at its linearization points with the step, and runs the RWAbs monitor on them.
 4. free-running: 2, 4 and 7 real threads without the scheduler (real blocking in the real WaitCondition, real memory ordering,
    timing noise injected at the hooks); the holders themselves check exclusion, a watchdog checks that everybody finishes.
 3. code -> spec: seeded random programs (4 threads x 6 calls) under seeded random schedules; monitor + deadlock
    detector on all of them; the recorded event traces of a subset are validated against RWImpl by TLC (RWTrace.tla).
"""
import concurrent.futures as cf, json, os
import vlib, pathcover

ACTIONS = ["StartOp", "Cleanup", "WaitOK", "WaitTimeout", "RRecheck", "RTimeout", "WRecheck", "WTimeout", "RelWC", "UpRel", "UpLW", "UpRelock"]
ALLOPS = '{"LR", "LRtry", "LRtimed", "LW", "LWtry", "LWtimed", "UR", "UW"}'


def cfg(name, spec, T, prefer, maxops, record, invs, props=None, dev='{"F8timed"}', ops=ALLOPS, extra=""):
    p = os.path.join(vlib.SPEC, "RWLock", name)
    with open(p, "w") as f:
        f.write("SPECIFICATION %s\nCONSTANTS\n  T = {%s}\n  PreferWriters = %s\n  MaxOps = %d\n  MaxRec = 2\n  Ops = %s\n  Deviations = %s\n  RECORD = %s\n" %
                (spec, ", ".join(str(i) for i in range(1, T + 1)), "TRUE" if prefer else "FALSE", maxops, ops, dev, "TRUE" if record else "FALSE"))
        if invs: f.write("INVARIANTS " + " ".join(invs) + "\n")
        if props: f.write("PROPERTIES " + " ".join(props) + "\n")
        f.write(extra)
    return name


INVS = ["TypeOK", "Excl", "Tables", "CountsExact", "FailLeavesStateUnchanged", "DeadlineRespected", "TryNeverWaits", "NoOvertake", "Quiescent"]


def run(v, tier, seed):
    rwname, private_ok = vlib.make_with_fallback("plain", "rw")
    rw = vlib.binpath("plain", rwname)
    W = lambda n: vlib.scratch("C18", n)
    T, K = (2, 3)
    tot = {"states": 0, "transitions": 0, "behaviours": 0, "followed": 0, "drift": 0, "steps": 0, "events": 0, "explore": 0, "trace_lines": 0, "traces": 0, "yields": 0}
    samples = []; mc_notes = []

    def model_check(prefer, T, K, ops=ALLOPS, tag=""):
        name = cfg("gen_MC_%d%s.cfg" % (int(prefer), tag), "FairSpec", T, prefer, K, False, INVS, ["NoStrand", "Terminates"], ops=ops)
        r = vlib.tlc("RWImpl", name, "RWLock", coverage=True, workers=8, timeout=3000, heap="12g")
        vlib.require_ok(r, "RWImpl model check prefer=%s %dx%d%s" % (prefer, T, K, tag))
        vlib.require_coverage(r, [a for a in ACTIONS if not (tag and a in ("WaitTimeout", "RTimeout", "WTimeout"))], "RWImpl prefer=%s" % prefer)
        return r

    def reach(prefer):
        # vacuity guard for DeadlineRespected: without the named deviation the as-is model must violate it (known finding F8timed)
        name = cfg("gen_Reach_%d.cfg" % int(prefer), "Spec", 2, prefer, 3, False, ["DeadlineRespected"], dev="{}")
        r = vlib.tlc("RWImpl", name, "RWLock", workers=4, timeout=600)
        if r.error: raise vlib.MachineryError("Reach_F8timed: " + r.error)
        return r.violated == "DeadlineRespected"

    def gen_and_replay(prefer, T, K):
        if not private_ok:      # the replay stops threads at the private mutexes: not available in the public-API-only variant
            return {"graph_edges": 0, "edges_covered": 0}, [{"summary": True, "behaviours": 0, "followed": 0, "drifted": 0, "steps": 0, "events": 0, "yields": 0}], []
        name = cfg("gen_Gen_%d.cfg" % int(prefer), "Spec", T, prefer, K, True, ["TypeOK"])
        dot = W("g%d.dot" % int(prefer))
        r = vlib.tlc("RWImpl", name, "RWLock", workers=4, timeout=1800, dump=dot)
        vlib.require_ok(r, "RWImpl graph dump prefer=%s" % prefer)
        beh, st = pathcover.behaviours(dot)
        os.remove(dot)
        if st["edges_covered"] != st["graph_edges"]: raise vlib.MachineryError("path cover incomplete: %s" % st)
        bf = W("beh%d.ndjson" % int(prefer)); rep = W("rep%d.ndjson" % int(prefer))
        vlib.write_ndjson(bf, [{"id": i, "steps": s} for i, s in enumerate(beh)])
        rc, out, err = vlib.run([rw, "replay", bf, "1" if prefer else "0", rep], timeout=(1200 if tier == "quick" else 3400))
        if rc != 0:
            vlib.harness_failed(v, rc, out, err, "rw replay (prefer=%s)" % prefer, "crash")
            return st, [{"summary": True, "behaviours": 0, "followed": 0, "drifted": 0, "steps": 0, "events": 0, "yields": 0}], beh[:1]
        rows = vlib.read_ndjson(rep)
        return st, rows, beh[:1] + beh[len(beh) // 2: len(beh) // 2 + 1]

    def explore(prefer, iters, nt, nops, ntraces):
        rep = W("ex%d.ndjson" % int(prefer)); tr = W("trace%d.ndjson" % int(prefer))
        rc, out, err = vlib.run([rw, "explore", str(iters), str(nt), str(nops), str(seed), "1" if prefer else "0", rep, tr, str(ntraces)], timeout=(1200 if tier == "quick" else 3400))
        if rc != 0:
            vlib.harness_failed(v, rc, out, err, "rw explore (prefer=%s, seed %d)" % (prefer, seed), "crash")
            return [{"summary": True, "executions": 0, "yields": 0, "events": 0, "traces_written": 0}], True, None, None, 0, None
        rows = vlib.read_ndjson(rep)
        if not private_ok or not os.path.exists(tr) or os.path.getsize(tr) == 0:
            return rows, True, None, None, 0, tr
        # validate the recorded traces against the specification
        name = "Trace_prefer%d.cfg" % int(prefer)
        r = vlib.tlc("RWTrace", name, "RWLock", workers=1, timeout=1800, env={"TRACE": tr}, keep_out=True)
        nlines = sum(1 for _ in open(tr))
        accepted = (r.violated == "NotAccepted")
        other = r.violated if (r.violated and r.violated != "NotAccepted") else None
        maxline = None
        import re
        m = re.search(r'"maxline", (\d+)', r.out)
        if m: maxline = int(m.group(1))
        if r.error and not r.violated: raise vlib.MachineryError("RWTrace: " + r.error)
        return rows, accepted, other, maxline, nlines, tr

    def free(nt, fiters, nops):
        # real threads without the scheduler: real blocking in the real WaitCondition, real memory ordering, noise at the hooks
        rep = W("free%d.ndjson" % nt)
        rc, out, err = vlib.run([rw, "free", str(fiters), str(nt), str(nops), str(seed), rep], timeout=(900 if tier == "quick" else 3400))
        if rc != 0:
            vlib.harness_failed(v, rc, out, err, "rw free (%d threads, seed %d)" % (nt, seed), "crashfree%d" % nt)
            return [{"summary": True, "executions": 0, "operations": 0}]
        return vlib.read_ndjson(rep)

    iters = 1500 if tier == "quick" else 40000
    ntr = 150 if tier == "quick" else 1500
    with cf.ThreadPoolExecutor(max_workers=8) as ex:
        f_mc = [ex.submit(model_check, p, T, K) for p in (True, False)]
        f_rc = [ex.submit(reach, p) for p in (True, False)]
        # quick: every transition of 2 threads x 3 calls with writer preference (the default), 2 x 2 without; thorough: 2 x 3 for both
        f_gr = [ex.submit(gen_and_replay, True, 2, 3), ex.submit(gen_and_replay, False, 2, 2 if tier == "quick" else 3)]
        f_ex = [ex.submit(explore, p, iters, 4, 6, ntr) for p in (True, False)]
        f_fr = [ex.submit(free, nt, (300 if tier == "quick" else 6000), 400) for nt in (2, 4, 7)]
        f_mc3 = []
        if tier == "thorough":
            # three threads, two calls each, all calls; and three calls each without the timed variants
            f_mc3 = [ex.submit(model_check, p, 3, 2, ALLOPS, "_3x2") for p in (True, False)]
            f_mc3 += [ex.submit(model_check, True, 3, 3, '{"LR", "LRtry", "LW", "LWtry", "UR", "UW"}', "_3x3u")]
        for f in f_mc + f_mc3:
            r = f.result(); tot["states"] += r.distinct; tot["transitions"] += r.generated
            mc_notes.append({"distinct": r.distinct, "generated": r.generated, "depth": r.depth, "wall_s": round(r.wall, 1), "taken": {a: r.coverage.get(a, (0, 0))[0] for a in ACTIONS}})
        for f in f_rc:
            if not f.result(): raise vlib.MachineryError("vacuity guard: the model without the F8timed deviation does not violate DeadlineRespected")
        for p, f in zip((True, False), f_gr):
            st, rows, smp = f.result()
            summ = [r for r in rows if r.get("summary")][0]
            tot["behaviours"] += summ["behaviours"]; tot["followed"] += summ["followed"]; tot["drift"] += summ["drifted"]; tot["steps"] += summ["steps"]; tot["events"] += summ["events"]; tot["yields"] += summ["yields"]
            samples += [{"kind": "behaviour replayed", "prefer_writers": p, "steps": s} for s in smp]
            for r in rows:
                if r.get("summary"): continue
                if r.get("monitor_drift") and not r.get("violations"):
                    v.drift += 1
                    if v.drift <= 3: vlib.log("DRIFT property=C18 behaviour %s: %s" % (r.get("behaviour"), "; ".join(r["monitor_drift"])[:300]))
                if r.get("violations"): v.violation("replay of a TLC behaviour: " + "; ".join(r["violations"]), r, tag="replay%d" % int(p))
                elif r.get("drift"):
                    v.drift += 1
                    if v.drift <= 3: vlib.log("DRIFT property=C18 behaviour %s: %s" % (r.get("behaviour"), r["drift"][:300]))
                if r.get("known"): v.known_finding("F8timed", r["known"][0])
        for p, f in zip((True, False), f_ex):
            rows, accepted, other, maxline, nlines, tr = f.result()
            summ = [r for r in rows if r.get("summary")][0]
            tot["explore"] += summ["executions"]; tot["yields"] += summ["yields"]; tot["events"] += summ["events"]; tot["trace_lines"] += nlines; tot["traces"] += summ["traces_written"]
            for r in rows:
                if r.get("summary"): continue
                if r.get("monitor_drift") and not r.get("violations"):
                    v.drift += 1
                    if v.drift <= 3: vlib.log("DRIFT property=C18 random schedule (seed %s): %s" % (r.get("seed"), "; ".join(r["monitor_drift"])[:300]))
                if r.get("violations"): v.violation("random schedule: " + "; ".join(r["violations"]), r, tag="explore%d" % int(p))
                if r.get("known"): v.known_finding("F8timed", r["known"][0])
            if other:
                v.violation("recorded execution violates %s of RWImpl (trace %s)" % (other, tr), {"trace": tr, "invariant": other}, tag="trace%d" % int(p))
            elif not accepted:
                # the code did something the algorithm-level model does not allow, but no property-level monitor fired: drift
                v.drift += 1
                vlib.log("DRIFT property=C18 recorded trace (prefer=%s) is not a behaviour of RWImpl: first unexplained line %s of %s in %s" % (p, maxline, nlines, tr))
        for f in f_fr:
            rows = f.result()
            summ = [r for r in rows if r.get("summary")][0]
            tot["free"] = tot.get("free", 0) + summ["executions"]; tot["free_ops"] = tot.get("free_ops", 0) + summ["operations"]
            for r in rows:
                if r.get("violations"): v.violation("free-running threads: " + "; ".join(r["violations"]), r, tag="free%d" % r.get("threads", 0))
    if tot["followed"] == 0 and not v.violations and private_ok: raise vlib.MachineryError("no behaviour could be followed")
    cov = {"states": tot["states"], "transitions": tot["transitions"],
           "traces_validated_against_impl": tot["followed"] + tot["traces"],
           "behaviours_replayed": tot["behaviours"], "behaviours_followed_to_the_end": tot["followed"], "replay_steps": tot["steps"],
           "events_checked": tot["events"], "random_executions": tot["explore"], "scheduling_decisions": tot["yields"],
           "trace_lines_validated_by_tlc": tot["trace_lines"], "executions_validated_by_tlc": tot["traces"],
           "free_running_executions": tot.get("free", 0), "free_running_lock_calls": tot.get("free_ops", 0),
           "evaluations": tot["behaviours"] + tot["explore"], "distinct_nontrivial": tot["followed"],
           "rule": "behaviours = path cover of EVERY transition of the TLC state graph of RWImpl (%d threads x %d calls, all 8 calls, both preference settings); distinct by construction (each adds an uncovered transition), non-trivial = followed to the end with every step's event equal to the specification's; random executions: 4 threads x 6 calls" % (T, K),
           "exhaustive": True, "model_runs": mc_notes, "samples": samples[:4]}
    assumptions = ["sequential consistency in the model-based stages: the scheduler serialises threads at the hooked operations (Mutex, WaitCondition, AtomicCounter); weak-memory effects and the blocking paths of the real WaitCondition are exercised only by the free-running stage (sampled, on this machine's memory model)",
                   "timed calls use a deadline that never passes by itself; the scheduler decides when a timed Wait() times out",
                   "recorded traces given to TLC keep _stateMutex critical sections atomic (no pre-emption while a muscle Mutex is held); all other random executions are pre-empted at every hooked operation and judged by the monitor only"]
    return "model_checking", cov, assumptions
