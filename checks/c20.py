"""C20 - Pulse callbacks fire for every due node and never before their time.

 The property is spec/PulseTree/PulseAbs.tla: an acceptor of the events an observer of a tree of PulseNodes sees (public calls,
 GetPulseTime / Pulse callbacks with their arguments and nested public calls, the time the root reports) during server cycles
 `repeat {recalculate; if reported <= t: sweep} until reported > t` (ReflectServer's loop under a frozen clock).

 1. TLC model-checks spec/PulseTree/PulseImpl.tla - util/PulseNode.cpp operator by operator, GetPulseTimeAux / PulseAux as an
    explicit stack machine so that callbacks re-enter the node code - for list well-formedness inside and outside callbacks
    (WellFormed, NoCrash), Filed / NeedyChain / AggOK, termination of every loop (Terminates), and refinement of PulseAbs
    (Refines).  A deliberately wrong variant (the reverse of the F20 repair) must violate Refines (vacuity guard).
 2. spec -> code: the same TLC runs print EVERY transition (source state, step record with the expected events and the
    expected private state); a path cover of all of them is replayed by harness/pn.cpp on real PulseNode subclasses:
    the events are judged by the PulseAbs monitor (VIOLATION) and compared with the step, the private state (parents, flags,
    times, the three child lists in order) is compared after every step and inside every callback (DRIFT).
 3. code -> spec: seeded random long histories (hundreds of operations, 6 nodes, re-entrant callbacks) are monitored the same
    way, and their complete event logs are validated line by line by TLC against PulseAbs (PulseTrace.tla).
"""
import collections, concurrent.futures as cf, json, os, re, shutil, subprocess, sys, threading, time

try: import vlib, pathcover
except ImportError: vlib = None          # `python3 c20.py cover ...` (the path cover runs in a process of its own: it is pure Python)

FAM = "PulseTree"
ALLTOP = '{"attach", "remove", "inval", "destroy", "create", "clear", "tick"}'
ALLNEST = '{"attach", "remove", "inval", "clear"}'
INVS = ["TypeOK", "WellFormed", "NoCrash", "Terminates", "Refines", "Filed", "NeedyChain", "AggOK"]
ACTIONS = ["TopOp", "CycleStart", "AskCB", "PulseCB"]
NOGEN = ["-noGenerateSpecTE"]


def write_cfg(name, text):
    """configurations are generated; several threads may want the same one: write only if different, atomically"""
    p = os.path.join(vlib.SPEC, FAM, name)
    try:
        if open(p).read() == text: return name
    except OSError: pass
    tmp = "%s.%d.%d.tmp" % (p, os.getpid(), threading.get_ident())
    with open(tmp, "w") as f: f.write(text)
    os.replace(tmp, p)
    return name


def impl_cfg(name, N, maxT, nested, nestkinds=ALLNEST, topkinds=ALLTOP, mut="", emit=False, invs=INVS, spec="Spec", props=None):
    t = ("SPECIFICATION %s\nCONSTANTS\n  N = %d\n  MaxT = %d\n  NEVER = 9\n  MaxNested = %d\n  NestedKinds = %s\n  TopKinds = %s\n  Mut = \"%s\"\n  RECORD = FALSE\n  EMIT = %s\n" %
         (spec, N, maxT, nested, nestkinds, topkinds, mut, "TRUE" if emit else "FALSE"))
    if invs: t += "INVARIANTS " + " ".join(invs) + "\n"
    if props: t += "PROPERTIES " + " ".join(props) + "\n"
    return write_cfg(name, t)


def canon(x):
    return json.dumps(x, sort_keys=True, separators=(",", ":"))


def init_key(N):
    st = {"par": [-1] * N, "valid": [False] * N, "sched": [9] * N, "agg": [9] * N, "cur": [-1] * N, "ls": [[[], [], []] for _ in range(N)]}
    c = {"alive": [True] * N, "clock": 0, "stk": [], "pk": "none", "pn": 0, "min": 9, "want": [-2] * N, "nest": 0}
    return canon([st, c])


def transitions(lines):
    """parses the  %%T ## <source> ## <step record>  lines TLC printed: returns (ids{key: int}, adj{src: [(dst, label text)]}, count, actions taken)"""
    ids = {}; adj = collections.defaultdict(list); seen = set(); n = 0; taken = collections.Counter()
    for line in lines:
        if not line.startswith('"%%T ## '): continue
        s = json.loads(line)
        _, src, lab = s.split(" ## ", 2)
        rec = json.loads(lab)
        ks = canon(json.loads(src)); kd = canon([rec["st"], rec["c"]])
        a = ids.setdefault(ks, len(ids)); b = ids.setdefault(kd, len(ids))
        if (a, lab) in seen: continue
        seen.add((a, lab)); adj[a].append((b, lab)); n += 1
        taken["TopOp" if rec["k"] == "op" else "CycleStart" if rec["k"] == "cycle" else "AskCB" if rec["evs"][0]["e"] == "ask" else "PulseCB"] += 1
        if rec["k"] == "cb" and rec["evs"][0]["o"]["op"] != "none": taken["nested " + rec["evs"][0]["o"]["op"]] += 1
    for a in adj: adj[a].sort(key=lambda e: e[1])          # the order TLC's workers printed in must not matter
    return ids, adj, n, taken


def cover(init, adj, maxlen=120):
    """greedy cover of every labelled edge by paths from `init` (the algorithm of tools/pathcover.py on a labelled multigraph)"""
    parent = {init: None}; order = []; dq = collections.deque([init])
    while dq:
        u = dq.popleft(); order.append(u)
        for (v, lab) in adj.get(u, ()):
            if v not in parent: parent[v] = (u, lab); dq.append(v)
    covered = set(); paths = []
    for u in order:
        for (v, lab) in adj.get(u, ()):
            if (u, lab) in covered: continue
            labs = []; x = u
            while parent[x] is not None: labs.append(parent[x][1]); x = parent[x][0]
            labs.reverse()
            pre = len(labs)
            labs.append(lab); covered.add((u, lab)); cur = v
            while len(labs) < maxlen:
                nxt = None
                for (w, l2) in adj.get(cur, ()):
                    if (cur, l2) not in covered: nxt = (w, l2); break
                if nxt is None: break
                covered.add((cur, nxt[1])); labs.append(nxt[1]); cur = nxt[0]
            # the BFS prefix is covered as a side effect
            paths.append(labs)
    nedges = sum(len(v) for v in adj.values())
    reach = sum(len(adj.get(u, ())) for u in order)
    return paths, len(covered), nedges, reach


def cover_main(outfile, N, behfile):
    """reads TLC's output, writes the behaviours, prints the statistics as JSON"""
    with open(outfile, errors="replace") as f: ids, adj, ntr, taken = transitions(f)
    ik = init_key(N)
    if ik not in ids: print(json.dumps({"error": "initial state not found among the printed transitions"})); return 0
    paths, ncov, nedges, reach = cover(ids[ik], adj)
    with open(behfile, "w") as f:
        for i, labs in enumerate(paths): f.write('{"id":%d,"steps":[%s]}\n' % (i, ",".join(labs)))
    smp = json.loads("[%s]" % ",".join(paths[len(paths) // 2][:10])) if paths else []
    print(json.dumps({"states": len(ids), "printed": ntr, "behaviours": len(paths), "covered": ncov, "edges": nedges, "taken": dict(taken), "sample": smp}))
    return 0


class Budget:
    """at most `n` TLC workers at a time, whatever the number of TLC runs in flight"""
    def __init__(self, n): self.n = n; self.cv = threading.Condition()
    def tlc(self, *a, **kw):
        w = min(kw.get("workers") or 1, self.n)
        # TLC unpacks its standard modules into java.io.tmpdir: keep that out of /tmp
        tmp = vlib.scratch("C20", "tmp"); os.makedirs(tmp, exist_ok=True)
        kw["env"] = dict(kw.get("env") or {}, JAVA_TOOL_OPTIONS="-Djava.io.tmpdir=" + tmp)
        with self.cv:
            while self.n < w: self.cv.wait()
            self.n -= w
        try: return vlib.tlc(*a, **kw)
        finally:
            with self.cv: self.n += w; self.cv.notify_all()


def run(v, tier, seed):
    # if a refactoring of PulseNode's private members breaks the harness, the public-API-only variant pn_np is used: the private-state
    # comparison shrinks to parent + scheduled time, the list checks are skipped; the PulseAbs monitor and the event comparison run unchanged
    pnname, private_ok = vlib.make_with_fallback("plain", "pn")
    B = Budget(10)
    pn = vlib.binpath("plain", pnname)
    vlib.make("plain", "pnsrv")
    W = lambda n: vlib.scratch("C20", n)
    tot = collections.Counter(); samples = []; mc_notes = []; t_notes = {}
    quick = (tier == "quick")

    # ---- 1 + 2: model check, print every transition, cover, replay ------------------------------------------------------
    def generate_and_replay(tag, N, maxT, nested, nestkinds, topkinds, workers, ntraces=0):
        name = impl_cfg("gen_%s.cfg" % tag, N, maxT, nested, nestkinds, topkinds, emit=True)
        t0 = time.time()
        # TLC's -coverage costs 12x on this specification (recursive operators): the vacuity guard is computed from the printed
        # transitions instead (how often each action was taken - exact counts); TLC's own coverage is used for PulseAbs only
        r = B.tlc("PulseImpl", name, FAM, workers=workers, timeout=3000, heap="3g", extra=NOGEN, keep_out=True)
        vlib.require_ok(r, "PulseImpl %s" % tag)
        t1 = time.time()
        of = W("tlc_%s.out" % tag); bf = W("beh_%s.ndjson" % tag); rep = W("rep_%s.ndjson" % tag); tr = W("rtrace_%s.ndjson" % tag)
        with open(of, "w") as f: f.write(r.out)
        r.out = ""
        cp = subprocess.run([sys.executable, os.path.abspath(__file__), "cover", of, str(N), bf], stdout=subprocess.PIPE, stderr=subprocess.PIPE, text=True, timeout=3000)
        os.remove(of)
        if cp.returncode != 0: raise vlib.MachineryError("PulseImpl %s: path cover failed: %s" % (tag, cp.stderr[-1500:]))
        cs = json.loads(cp.stdout)
        if cs.get("error"): raise vlib.MachineryError("PulseImpl %s: %s" % (tag, cs["error"]))
        ntr, taken = cs["printed"], cs["taken"]
        missing = [a for a in ACTIONS if taken.get(a, 0) == 0] + ["nested " + k for k in re.findall(r'"(\w+)"', nestkinds) if nested and taken.get("nested " + k, 0) == 0]
        if missing: raise vlib.MachineryError("PulseImpl %s: vacuity guard: actions never taken: %s" % (tag, missing))
        if cs["covered"] != cs["edges"] or ntr == 0: raise vlib.MachineryError("PulseImpl %s: path cover incomplete: %s of %s transitions" % (tag, cs["covered"], cs["edges"]))
        t2 = time.time()
        cmd = [pn, "replay", bf, rep, "9"] + ([tr, str(ntraces)] if ntraces else [])
        rc, out, err = vlib.run(cmd, timeout=3000)
        if rc in (66, 67) or (rc < 0 and rc != -999):
            rows = [{"behaviour": "?", "violations": ["the process died (rc=%s) inside the PulseNode code while replaying the behaviours of %s: %s" % (rc, tag, err[-800:])]},
                    {"summary": True, "behaviours": cs["behaviours"], "followed": 0, "drifted": 0, "violated": 1, "steps": 0, "events": 0, "callbacks": 0, "nested": 0, "cycles": 0, "state_comparisons": 0}]
        elif rc != 0: raise vlib.MachineryError("pn replay %s failed rc=%s: %s %s" % (tag, rc, out[-500:], err[-1500:]))
        else: rows = vlib.read_ndjson(rep)
        smp = [cs["sample"]]
        os.remove(bf)
        note = {"instance": tag, "N": N, "times": "0..%d+NEVER" % maxT, "nested_per_cycle": nested, "distinct": r.distinct, "generated": r.generated, "depth": r.depth,
                "tlc_wall_s": round(r.wall, 1), "transitions_printed": ntr, "states_in_graph": cs["states"], "behaviours": cs["behaviours"], "cover_s": round(t2 - t1, 1), "replay_s": round(time.time() - t2, 1),
                "taken": dict(taken)}
        return r, rows, smp, note, (tr if ntraces else None), ntr

    def dump_and_replay():
        """the framework's standard route on the smallest instance: RECORD = TRUE keeps the step record in the variable `last`,
        TLC dumps the state graph, tools/pathcover.py covers every edge (static configuration Gen_dump_N2.cfg)"""
        dot = W("n2.dot"); bf = W("beh_D2.ndjson"); rep = W("rep_D2.ndjson")
        r = B.tlc("PulseImpl", "Gen_dump_N2.cfg", FAM, workers=2, timeout=3000, heap="3g", extra=NOGEN, dump=dot)
        vlib.require_ok(r, "PulseImpl D2 (graph dump)")
        beh, st = pathcover.behaviours(dot)
        os.remove(dot)
        if st["edges_covered"] != st["graph_edges"]: raise vlib.MachineryError("D2: path cover incomplete: %s" % st)
        vlib.write_ndjson(bf, [{"id": i, "steps": b} for i, b in enumerate(beh)])
        rc, out, err = vlib.run([pn, "replay", bf, rep, "9"], timeout=3000)
        if rc != 0: raise vlib.MachineryError("pn replay D2 failed rc=%s: %s %s" % (rc, out[-500:], err[-1500:]))
        os.remove(bf)
        note = {"instance": "D2 (state-graph dump + tools/pathcover.py)", "N": 2, "times": "0..1+NEVER", "nested_per_cycle": 1, "distinct": r.distinct, "generated": r.generated, "depth": r.depth,
                "tlc_wall_s": round(r.wall, 1), "graph_edges": st["graph_edges"], "behaviours": st["paths"]}
        return r, vlib.read_ndjson(rep), [beh[len(beh) // 2][:6]], note, None, st["graph_edges"]

    # ---- 3: random histories, validated by TLC against PulseAbs -----------------------------------------------------------
    def trace_cfg(N, maxT, never):
        return write_cfg("gen_Trace_%d_%d_%d.cfg" % (N, maxT, never),
                         "SPECIFICATION TraceSpec\nCONSTANTS\n  N = %d\n  MaxT = %d\n  NEVER = %d\n  NestedMax = 0\nINVARIANTS NotAccepted TypeOK Forest\nCONSTRAINT Track\nPOSTCONDITION Report\n" % (N, maxT, never))

    def validate(tag, tr, N, maxT, never):
        """TLC checks that the recorded event log is a behaviour of PulseAbs; returns (accepted, first unexplained line, lines)"""
        name = trace_cfg(N, maxT, never)
        nlines = sum(1 for _ in open(tr))
        if nlines == 0: return True, None, 0, 0.0
        r = B.tlc("PulseTrace", name, FAM, workers=1, timeout=3000, env={"TRACE": tr}, keep_out=True, extra=NOGEN, heap="2g")
        m = re.search(r'"maxline", (\d+)', r.out)
        maxline = int(m.group(1)) if m else None
        if r.violated == "NotAccepted": return True, None, nlines, r.wall
        if r.violated: raise vlib.MachineryError("PulseTrace %s: PulseAbs's own invariant %s fails on a recorded trace (model bug)" % (tag, r.violated))
        if r.error: raise vlib.MachineryError("PulseTrace %s: %s" % (tag, r.error))
        return False, maxline, nlines, r.wall

    def random_histories(shard, histories, nops, N, maxT, ntraced, variant="plain"):
        rep = W("rnd_%d.ndjson" % shard); tr = W("trace_%d.ndjson" % shard)
        t0 = time.time()
        rc, out, err = vlib.run([vlib.binpath(variant, asan_name if variant == "asan" else pnname), "random", str(seed * 131 + shard), str(histories), str(nops), str(N), str(maxT), "999", rep, tr, str(ntraced)], timeout=3000)
        if rc in (66, 67) or (rc < 0 and rc != -999):
            # the library itself died under legal use of its public API (the harness is clean on the unchanged tree): no callback fires any more
            what = "memory error reported by the sanitizer" if rc in (66, 67) else "the process was killed by signal %d inside the PulseNode code" % -rc
            return [{"seed": seed * 131 + shard, "shard": shard, "args": [histories, nops, N, maxT], "violations": [what + " " + err[-1200:]]}, {"summary": True}], True, None, 0, tr, 0, 0, 0
        if rc != 0: raise vlib.MachineryError("pn random failed rc=%s: %s %s" % (rc, out[-500:], err[-1500:]))
        rows = vlib.read_ndjson(rep)
        t1 = time.time()
        acc, maxline, nlines, wall = validate("rnd%d" % shard, tr, N, maxT, 999)
        return rows, acc, maxline, nlines, tr, round(t1 - t0, 1), round(wall, 1), ntraced

    # ---- 4: the same clauses for the nodes a real ReflectServer manages (sessions, factories, their children), real clock ----------
    def server_stage(k, activity_ms):
        rep = W("srv_%d.ndjson" % k)
        rc, out, err = vlib.run([vlib.binpath("plain", "pnsrv"), "run", str(seed * 97 + k), str(activity_ms), rep], timeout=120)
        if rc in (66, 67) or (rc < 0 and rc != -999): return [{"seed": seed * 97 + k, "violations": ["the server process died (rc=%s) while pulsing its nodes: %s" % (rc, err[-600:])]}, {"summary": True}]
        if rc != 0: raise vlib.MachineryError("pnsrv failed rc=%s: %s %s" % (rc, out[-500:], err[-1500:]))
        return vlib.read_ndjson(rep)

    def vacuity_f20():
        # the model without the F20 repair (no re-ask loop) must violate Refines: clause P6 of PulseAbs is not vacuous
        name = impl_cfg("gen_Reach_F20.cfg", 3, 1, 1, '{"inval"}', '{"attach", "inval", "tick"}', mut="F20", invs=["Refines"])
        r = B.tlc("PulseImpl", name, FAM, workers=2, timeout=600, extra=NOGEN, heap="1g")
        if r.error: raise vlib.MachineryError("Reach_F20: " + r.error)
        return r.violated == "Refines"

    def abs_mc(N, maxT, nestedmax, workers):
        write_cfg("gen_Abs_MC.cfg", "SPECIFICATION Spec\nCONSTANTS\n  N = %d\n  MaxT = %d\n  NEVER = 9\n  NestedMax = %d\nINVARIANTS TypeOK Forest\nPROPERTIES SleepSafe\n" % (N, maxT, nestedmax))
        r = B.tlc("PulseAbs", "gen_Abs_MC.cfg", FAM, coverage=True, workers=workers, timeout=3000, extra=NOGEN, heap="3g", keep_out=True)
        vlib.require_ok(r, "PulseAbs model check")
        # TLC prints the location of the innermost \E after the action's own: vlib's pattern does not expect that
        for m in re.finditer(r"^<(\w+) line [^>]*>: (\d+):(\d+)", r.out, re.M):
            t0, g0 = r.coverage.get(m.group(1), (0, 0)); r.coverage[m.group(1)] = (max(t0, int(m.group(2))), max(g0, int(m.group(3))))
        r.out = ""
        vlib.require_coverage(r, ["Do", "Ask", "Pulse"], "PulseAbs")    # Do = the actions without parameters (TLC names them after the operator they expand to)
        return r

    asan_name = pnname
    if quick:
        gens = [("A3", 3, 1, 0, "{}", ALLTOP, 3, 40),                    # every public call and quiet cycle, 3 nodes
                ("R3", 3, 1, 1, '{"inval"}', '{"attach", "inval", "tick"}', 3, 40),   # nested invalidations (the F20 family), 3 nodes
                ("R2", 2, 1, 2, ALLNEST, ALLTOP, 2, 40)]                 # two nested calls per cycle, 2 nodes, all kinds
        rnd = [(s, 2500, 300, 6, 200, 8) for s in range(3)]
    else:
        RED = '{"attach", "inval", "tick"}'
        gens = [("A3", 3, 1, 0, "{}", ALLTOP, 2, 100),                                                  # as quick
                ("A3t", 3, 2, 0, "{}", '{"attach", "remove", "inval", "tick"}', 3, 100),                 # three times + NEVER
                ("R2", 2, 2, 2, ALLNEST, ALLTOP, 2, 100),
                ("R3", 3, 1, 2, '{"inval"}', RED, 3, 100),                                              # two nested invalidations per cycle
                ("R3k", 3, 1, 1, '{"remove", "clear"}', RED, 3, 100),                                    # nested detaches
                ("S4", 4, 1, 0, "{}", '{"attach0", "remove", "inval", "tick"}', 3, 100)]                 # three siblings: the sorted insert, its tail shortcut and its walk
        asan_name, _ = vlib.make_with_fallback("asan", "pn")
        rnd = [(s, 60000, 300, 6, 200, 120) for s in range(5)] + [(5, 3000, 400, 5, 60, 60), (6, 6000, 300, 6, 200, 0, "asan"), (7, 6000, 200, 5, 60, 0, "asan")]

    with cf.ThreadPoolExecutor(max_workers=24) as ex:
        f_gen = [ex.submit(generate_and_replay, *g) for g in gens] + [ex.submit(dump_and_replay)]
        gens = gens + [("D2", 2, 1)]
        f_vac = ex.submit(vacuity_f20)
        f_rnd = [ex.submit(random_histories, *r) for r in rnd]
        f_srv = [ex.submit(server_stage, k, 1000 if quick else 3000) for k in range(2 if quick else 6)]
        f_abs = ex.submit(abs_mc, 3, 1, 0 if quick else 1, 2)
        f_mc = []
        if not quick:
            # deeper model checks without replay
            def mc(tag, N, maxT, nested, nestkinds, topkinds, workers):
                name = impl_cfg("gen_MC_%s.cfg" % tag, N, maxT, nested, nestkinds, topkinds)
                r = B.tlc("PulseImpl", name, FAM, workers=workers, timeout=3000, heap="6g", extra=NOGEN)
                vlib.require_ok(r, "PulseImpl MC %s" % tag)
                return tag, r
            f_mc = [ex.submit(mc, "R3full", 3, 1, 1, ALLNEST, ALLTOP, 4),                                  # one nested call of any kind, every public call
                    ex.submit(mc, "A4", 4, 1, 0, "{}", '{"attach", "remove", "inval", "tick"}', 4),       # every shape of four nodes
                    ex.submit(mc, "A3full", 3, 2, 0, "{}", ALLTOP, 3)]
            def live():
                name = impl_cfg("gen_Live.cfg", 2, 1, 2, ALLNEST, ALLTOP, spec="FairSpec", props=["CycleEnds"])
                r = B.tlc("PulseImpl", name, FAM, workers=2, timeout=3000, heap="3g", extra=NOGEN)
                vlib.require_ok(r, "PulseImpl liveness (every cycle ends)")
                return "liveness CycleEnds", r
            f_mc.append(ex.submit(live))

        rtraces = []
        for g, f in zip(gens, f_gen):
            r, rows, smp, note, tr, ntr = f.result()
            summ = [x for x in rows if x.get("summary")][0]
            tot["states"] += r.distinct; tot["transitions"] += r.generated; tot["printed"] += ntr
            for k in ("behaviours", "followed", "drifted", "violated", "steps", "events", "callbacks", "nested", "cycles", "state_comparisons"): tot[k] += summ[k]
            mc_notes.append(note)
            samples += [{"kind": "behaviour replayed (first steps)", "instance": g[0], "steps": s} for s in smp]
            for x in rows:
                if x.get("summary"): continue
                if x.get("violations"): v.violation("replay of a TLC behaviour (%s): %s" % (g[0], "; ".join(x["violations"])), x, tag="replay%s" % g[0])
                elif x.get("drift"):
                    v.drift += 1
                    if v.drift <= 3: vlib.log("DRIFT property=C20 instance %s behaviour %s step %s: %s" % (g[0], x.get("behaviour"), x.get("step"), x["drift"][0][:400]))
            if tr: rtraces.append((g[0], tr, g[1], g[2]))
        if not f_vac.result(): raise vlib.MachineryError("vacuity guard: PulseImpl without the re-ask loop (F20) does not violate Refines")
        # a sample of the replayed behaviours goes through TLC as well (the C++ monitor and PulseAbs must agree)
        f_rt = [ex.submit(validate, "rep" + tag, tr, N, maxT, 9) for (tag, tr, N, maxT) in rtraces]
        for s, f in zip(rnd, f_rnd):
            rows, acc, maxline, nlines, tr, hwall, twall, ntraced = f.result()
            summ = [x for x in rows if x.get("summary")][0]
            for k in ("histories", "distinct_histories", "operations", "events", "callbacks", "nested", "cycles", "reentrant_cycles", "list_checks"): tot["r_" + k] += summ.get(k, 0)
            tot["trace_lines"] += nlines; tot["r_max_rounds"] = max(tot["r_max_rounds"], summ.get("max_rounds", 0))
            t_notes["random shard %d" % s[0]] = {"harness_s": hwall, "tlc_s": twall, "lines": nlines}
            bad = False
            for x in rows:
                if x.get("summary"): continue
                if x.get("violations"): bad = True; v.violation("random history: " + "; ".join(x["violations"]), x, tag="random%d" % s[0])
                elif x.get("lists"):
                    v.drift += 1
                    if v.drift <= 3: vlib.log("DRIFT property=C20 random history seed %s: child lists ill-formed: %s" % (x.get("seed"), x["lists"][:300]))
            if not acc and not bad:
                ln = open(tr).read().splitlines()[max(0, (maxline or 1) - 6):(maxline or 1)]
                v.violation("recorded history is not a behaviour of PulseAbs: first unexplained line %s of %s" % (maxline, tr), {"trace": tr, "line": maxline, "context": ln}, tag="trace%d" % s[0])
            elif acc and nlines: tot["traces_ok"] += min(ntraced, summ["histories"])
            if not samples or len(samples) < 5:
                try: samples.append({"kind": "recorded random history (first events)", "events": [json.loads(l) for l in open(tr).read().splitlines()[1:9]]})
                except Exception: pass
        for (tag, tr, N, maxT), f in zip(rtraces, f_rt):
            acc, maxline, nlines, wall = f.result()
            tot["trace_lines"] += nlines
            if acc: tot["replay_traces_ok"] += 1
            elif not v.violations:
                ln = open(tr).read().splitlines()[max(0, (maxline or 1) - 6):(maxline or 1)]
                v.violation("replayed behaviours (%s): the code's events are not a behaviour of PulseAbs: first unexplained line %s of %s" % (tag, maxline, tr), {"trace": tr, "line": maxline, "context": ln}, tag="rtrace" + tag)
        for k, f in enumerate(f_srv):
            rows = f.result()
            summ = [x for x in rows if x.get("summary")][0]
            for kk in ("nodes", "asks", "pulses", "timers_fired", "retimed_from_outside", "loop_slices"): tot["s_" + kk] += summ.get(kk, 0)
            tot["s_runs"] += 1; tot["s_max_late_ms"] = max(tot["s_max_late_ms"], summ.get("max_late_ms", 0))
            if any(p.get("fired", 0) == 0 and not p.get("gone") for p in summ.get("per_node", [])) and not any(x.get("violations") for x in rows):
                raise vlib.MachineryError("server stage: a node never fired and no violation was reported")
            for x in rows:
                if x.get("violations"): v.violation("ReflectServer-managed pulse nodes (real clock): " + "; ".join(x["violations"][:3]), x, tag="server%d" % k)
        ra = f_abs.result()
        tot["states"] += ra.distinct; tot["transitions"] += ra.generated
        mc_notes.append({"instance": "PulseAbs standalone", "distinct": ra.distinct, "generated": ra.generated, "tlc_wall_s": round(ra.wall, 1)})
        for f in f_mc:
            tag, r = f.result()
            tot["states"] += r.distinct; tot["transitions"] += r.generated
            mc_notes.append({"instance": "MC " + tag, "distinct": r.distinct, "generated": r.generated, "depth": r.depth, "tlc_wall_s": round(r.wall, 1)})

    shutil.rmtree(vlib.scratch("C20", "tmp"), ignore_errors=True)
    if tot["followed"] == 0 and not v.violations: raise vlib.MachineryError("no behaviour could be followed")
    if tot["r_reentrant_cycles"] == 0 and not v.violations: raise vlib.MachineryError("vacuity guard: no random cycle had a re-entrant callback")
    cov = {"states": tot["states"], "transitions": tot["transitions"],
           "traces_validated_against_impl": tot["followed"] + tot["traces_ok"],
           "transitions_printed_and_covered": tot["printed"], "behaviours_replayed": tot["behaviours"], "behaviours_followed_to_the_end": tot["followed"],
           "replay_steps": tot["steps"], "replay_events_judged": tot["events"], "replay_callbacks": tot["callbacks"], "replay_nested_calls": tot["nested"], "replay_cycles": tot["cycles"],
           "private_state_comparisons": tot["state_comparisons"],
           "random_histories": tot["r_histories"], "random_operations": tot["r_operations"], "random_events": tot["r_events"], "random_callbacks": tot["r_callbacks"],
           "random_nested_calls": tot["r_nested"], "random_cycles": tot["r_cycles"], "random_reentrant_cycles": tot["r_reentrant_cycles"], "random_max_rounds_in_a_cycle": tot["r_max_rounds"],
           "list_wellformedness_checks_on_real_nodes": tot["r_list_checks"],
           "trace_lines_validated_by_tlc": tot["trace_lines"], "histories_validated_by_tlc": tot["traces_ok"], "replay_trace_samples_validated_by_tlc": tot["replay_traces_ok"],
           "evaluations": tot["behaviours"] + tot["r_histories"], "distinct_nontrivial": tot["followed"] + tot["r_distinct_histories"],
           "rule": "behaviours = greedy path cover of EVERY transition TLC generated for PulseImpl (instances listed in model_runs); distinct by construction (each adds an uncovered transition), "
                   "non-trivial = followed to the end with every event and every private-state projection equal to the specification's; random histories (300 operations on 6 nodes, monitor on all, TLC on a subset): distinct operation sequences",
           "server_stage_runs": tot["s_runs"], "server_stage_nodes_per_run": tot["s_nodes"] // max(1, tot["s_runs"]), "server_stage_GetPulseTime_calls": tot["s_asks"], "server_stage_Pulse_calls": tot["s_pulses"],
           "server_stage_timers_fired": tot["s_timers_fired"], "server_stage_retimed_from_outside": tot["s_retimed_from_outside"], "server_stage_max_lateness_ms": tot["s_max_late_ms"],
           "private_state_available": private_ok,
           "exhaustive": True, "model_runs": mc_notes, "timing": t_notes, "samples": samples[:5]}
    assumptions = ["single-threaded use, as the library requires (PulseNode is not thread safe)",
                   "the clock is frozen during a server cycle; a pulsed node re-arms itself to a later time or never (otherwise no server loop terminates)",
                   "fewer than 8 self-invalidations per recalculation (the repaired GetPulseTimeAux re-asks at most 8 times); nested calls per cycle: <= 2 in the model, <= 3 in random histories",
                   "callbacks do not destroy nodes; a callback detaches only itself or its own children and attaches only parentless nodes",
                   "Either-clauses of PulseAbs where PulseNode.h is silent: a node detached during a sweep / recalculation may still be called back in it; after a recalculation with nested calls the reported time may be earlier than the minimum (never later)"]
    assumptions.append("server-level stage: real clock; a timer counts as lost only when it is still pending 2.5 s and 30 event-loop slices after its time (lateness is not judged)")
    if not private_ok: assumptions.append("the harness was built WITHOUT access to PulseNode's private members (they no longer compile): the state comparison covers parent and scheduled time only (public API), list well-formedness of the real nodes was not checked; all property-level oracles ran")
    return "model_checking", cov, assumptions


if __name__ == "__main__":
    if len(sys.argv) == 5 and sys.argv[1] == "cover": sys.exit(cover_main(sys.argv[2], int(sys.argv[3]), sys.argv[4]))
    sys.exit(2)
