"""C11 - Thread-to-owner Messages arrive exactly once, in order, and always wake the peer.

 1. TLC model-checks spec/ThreadQueue/ThreadImpl.tla (system/Thread.cpp as coded, one action per hooked operation: queue
    critical sections, signal, drain, block, wake, start, entry check, socket close, join; both signalling mechanisms;
    an extra sender thread; waits with and without a deadline on both sides - the default internal loop and the loop of
    testthread.cpp; select() interrupted by a signal; restart in the thorough tier): Fifo, PerSenderOrder, RepliesInOrder and, under weak fairness of
    the library's steps, NoLostWakeup, ShutdownCompletes, Delivered, WaitReturns.  A deliberately wrong variant of the
    specification (signal when the queue length becomes 2) must violate NoLostWakeup (vacuity guard).
 2. code -> spec: seeded random owner programs on a real muscle::Thread under the controlled scheduler (every hooked
    operation is a pre-emption point), ChanAbs monitor (exactly once, in order, both directions, everything queued before
    the shutdown request handled) + deadlock detector (lost wake-up, shutdown that does not complete); the recorded
    traces of a subset are validated line by line against ThreadImpl by TLC (ThreadTrace.tla, linear).
 3. free-running: the same owner programs with up to 60 Messages on real threads without the scheduler (real blocking in select()
    and in the real WaitCondition, real SIGUSR1 signals interrupting the internal thread, timing noise at the hooks); same ChanAbs
    monitor, a watchdog for "no progress for 30 s".
"""
import concurrent.futures as cf, os, re
import vlib

ACTIONS = ["Enq", "Sig", "Drain", "Deq"]     # + WakeSock / WakeWC, WakeTimeout (a deadline passes), Interrupt (EINTR, socket mode), OWaitTimed


def cfg(name, spec, sockets, nmsgs, nextra, rounds, polls, invs=None, props=None, mutation="none", record=False, extra="", tloops='{"default"}', intr=0):
    p = os.path.join(vlib.SPEC, "ThreadQueue", name)
    with open(p, "w") as f:
        f.write("SPECIFICATION %s\nCONSTANTS\n  Sockets = %s\n  NMsgs = %d\n  NExtra = %d\n  Rounds = %d\n  MaxPolls = %d\n  TimedLoops = %s\n  MaxIntr = %d\n  Mutation = \"%s\"\n  RECORD = %s\n" %
                (spec, "TRUE" if sockets else "FALSE", nmsgs, nextra, rounds, polls, tloops, intr, mutation, "TRUE" if record else "FALSE"))
        if invs: f.write("INVARIANTS " + " ".join(invs) + "\n")
        if props: f.write("PROPERTIES " + " ".join(props) + "\n")
        f.write(extra)
    return name


def run(v, tier, seed):
    thname, private_ok = vlib.make_with_fallback("plain", "th")
    th = vlib.binpath("plain", thname)
    W = lambda n: vlib.scratch("C11", n)
    tot = {"states": 0, "transitions": 0, "explore": 0, "yields": 0, "events": 0, "trace_lines": 0, "traces": 0, "plans": 0}
    mc_notes = []; samples = []

    def model_check(sockets, timed):
        # two instances per signalling mechanism: (untimed) the default loop with an extra sender thread; (timed) both internal loops, waits with
        # a deadline on both sides, an interrupted select() - without the extra sender in the quick tier (together they take 0.5 million states)
        rounds, nm = (1, 2) if tier == "quick" else (2, 2)
        nextra = 1 if (not timed or tier == "thorough") else 0
        if tier == "thorough" and timed: rounds = 1
        name = cfg("gen_MC_%d_%d.cfg" % (int(sockets), int(timed)), "FairSpec", sockets, nm, nextra, rounds, 1, ["Fifo", "PerSenderOrder", "RepliesInOrder"],
                   ["NoLostWakeup", "ShutdownCompletes", "Delivered", "WaitReturns"], tloops=(('{"default", "timed", "event"}' if sockets else '{"default", "timed"}') if timed else '{"default"}'), intr=(1 if (sockets and timed) else 0))
        r = vlib.tlc("ThreadImpl", name, "ThreadQueue", coverage=True, workers=4, timeout=3400, heap="10g")
        vlib.require_ok(r, "ThreadImpl model check sockets=%s timed=%s" % (sockets, timed))
        need = [a for a in ACTIONS if not (a == "Drain" and not sockets)] + (["WakeSock"] if sockets else ["WakeWC"])
        if timed: need += ["WakeTimeout"] + (["Interrupt"] if sockets else [])
        vlib.require_coverage(r, need, "ThreadImpl sockets=%s timed=%s" % (sockets, timed))
        return r

    def reach(sockets):
        name = cfg("gen_Reach_%d.cfg" % int(sockets), "FairSpec", sockets, 2, 0, 1, 0, None, ["NoLostWakeup"], mutation="sig2")
        r = vlib.tlc("ThreadImpl", name, "ThreadQueue", workers=4, timeout=900)
        return r.violated is not None and r.error is None or ("NoLostWakeup" in (r.out or ""))

    def reach_readfirst():
        # the design before repair F46 (look for queued Messages, THEN allocate the sockets) with an event-driven internal thread and a second
        # sender must lose a wake-up: shows that the model of StartInternalThread and of the event-driven loop is not vacuous
        name = cfg("gen_Reach_readfirst.cfg", "FairSpec", True, 1, 1, 1, 0, None, ["NoLostWakeup"], mutation="readfirst", tloops='{"event"}')
        r = vlib.tlc("ThreadImpl", name, "ThreadQueue", workers=4, timeout=900)
        return r.violated is not None and r.error is None or ("NoLostWakeup" in (r.out or ""))

    def explore(sockets, iters, ntraces):
        rep = W("ex%d.ndjson" % int(sockets)); tr = W("trace%d.ndjson" % int(sockets))
        rc, out, err = vlib.run([th, "explore", str(iters), str(seed), "1" if sockets else "0", rep, tr, str(ntraces)], timeout=(1200 if tier == "quick" else 3400))
        if rc != 0:
            vlib.harness_failed(v, rc, out, err, "th explore (sockets=%s, seed %d)" % (sockets, seed), "crash%d" % int(sockets))
            return [{"summary": True, "executions": 0, "yields": 0, "events": 0, "traces_written": 0, "trace_lines": 0, "distinct_plans": 0}], True, None, None, None, []
        rows = vlib.read_ndjson(rep)
        if not private_ok or not os.path.exists(tr) or os.path.getsize(tr) == 0:
            return rows, True, None, None, tr, []
        r = vlib.tlc("ThreadTrace", "Trace_%s.cfg" % ("sock" if sockets else "wc"), "ThreadQueue", workers=1, timeout=1800, env={"TRACE": tr}, keep_out=True)
        accepted = (r.violated == "NotAccepted")
        other = r.violated if (r.violated and r.violated != "NotAccepted") else None
        m = re.search(r'"maxline", (\d+)', r.out); maxline = int(m.group(1)) if m else None
        if r.error and not r.violated: raise vlib.MachineryError("ThreadTrace: " + r.error)
        first = []
        with open(tr) as f:
            for i, line in enumerate(f):
                if i >= 14: break
                first.append(line.strip())
        return rows, accepted, other, maxline, tr, first

    def free(sockets, fiters):
        # real threads without the scheduler: real blocking in select() / the real WaitCondition, real signals, timing noise at the hooks
        rep = W("free%d.ndjson" % int(sockets))
        rc, out, err = vlib.run([th, "free", str(fiters), str(seed), "1" if sockets else "0", rep], timeout=(900 if tier == "quick" else 3400))
        if rc != 0:
            vlib.harness_failed(v, rc, out, err, "th free (sockets=%s, seed %d)" % (sockets, seed), "crashfree%d" % int(sockets))
            return [{"summary": True, "executions": 0, "messages_handled": 0}]
        return vlib.read_ndjson(rep)

    iters = 2500 if tier == "quick" else 60000
    ntr = 250 if tier == "quick" else 3000
    with cf.ThreadPoolExecutor(max_workers=10) as ex:
        f_mc = [ex.submit(model_check, s, t) for s in (True, False) for t in (False, True)]
        f_rc = [ex.submit(reach, s) for s in (True, False)] + [ex.submit(reach_readfirst)]
        f_ex = [ex.submit(explore, s, iters, ntr) for s in (True, False)]
        f_fr = [ex.submit(free, s, 1500 if tier == "quick" else 60000) for s in (True, False)]
        for f in f_mc:
            r = f.result(); tot["states"] += r.distinct; tot["transitions"] += r.generated
            mc_notes.append({"distinct": r.distinct, "generated": r.generated, "depth": r.depth, "wall_s": round(r.wall, 1), "taken": {a: c[0] for a, c in r.coverage.items()}})
        for f in f_rc:
            if not f.result(): raise vlib.MachineryError("vacuity guard: a wrong design ('signal when the length becomes 2' / 'look for queued Messages before the sockets exist') does not violate NoLostWakeup in the model")
        for s, f in zip((True, False), f_ex):
            rows, accepted, other, maxline, tr, first = f.result()
            summ = [r for r in rows if r.get("summary")][0]
            tot["explore"] += summ["executions"]; tot["yields"] += summ["yields"]; tot["events"] += summ["events"]; tot["trace_lines"] += summ["trace_lines"]; tot["traces"] += summ["traces_written"]; tot["plans"] += summ["distinct_plans"]
            samples.append({"kind": "first lines of a recorded execution validated by TLC", "sockets": s, "lines": first})
            for r in rows:
                if r.get("summary"): continue
                if r.get("monitor_drift"):
                    v.drift += 1
                    vlib.log("DRIFT property=C11 random schedule (seed %s): the code's own events disagree with what was sent and handled through the public API: %s" % (r.get("seed"), "; ".join(r["monitor_drift"])[:300]))
                if r.get("violations"): v.violation("random schedule (%s signalling): %s" % ("socket" if s else "wait-condition", "; ".join(r["violations"])), r, tag="explore%d" % int(s))
            if other:
                v.violation("recorded execution violates %s of ThreadImpl (trace %s)" % (other, tr), {"trace": tr, "invariant": other}, tag="trace%d" % int(s))
            elif not accepted:
                v.drift += 1
                vlib.log("DRIFT property=C11 recorded trace (sockets=%s) is not a behaviour of ThreadImpl: first unexplained line %s in %s" % (s, maxline, tr))
        for s, f in zip((True, False), f_fr):
            rows = f.result()
            summ = [r for r in rows if r.get("summary")][0]
            tot["free"] = tot.get("free", 0) + summ["executions"]; tot["free_msgs"] = tot.get("free_msgs", 0) + summ["messages_handled"]
            for r in rows:
                if r.get("violations"): v.violation("free-running threads (%s signalling): %s" % ("socket" if s else "wait-condition", "; ".join(r["violations"])), r, tag="free%d" % int(s))
    if tot["explore"] == 0 and not v.violations: raise vlib.MachineryError("nothing explored")
    cov = {"states": tot["states"], "transitions": tot["transitions"], "traces_validated_against_impl": tot["traces"],
           "random_executions": tot["explore"], "scheduling_decisions": tot["yields"], "events_checked": tot["events"],
           "trace_lines_validated_by_tlc": tot["trace_lines"],
           "free_running_executions": tot.get("free", 0), "free_running_messages_handled": tot.get("free_msgs", 0),
           "evaluations": tot["explore"], "distinct_nontrivial": tot["plans"],
           "rule": "executions = seeded random owner plans (1-3 Messages per round, 0-2 sent before the start, 1-2 rounds = restart, 0-2 Messages from an extra sender, polls and blocking waits mixed in) x seeded random schedule, both signalling mechanisms; distinct = distinct plans (a lower bound: the schedules differ too); every one exercises sends, wake-ups and a shutdown",
           "exhaustive": False, "model_runs": mc_notes, "samples": samples}
    assumptions = ["sequential consistency in the scheduled stages: the scheduler serialises threads at the hooked operations; weak-memory effects and the blocking paths of select() / the real WaitCondition are exercised only by the free-running stage (sampled)",
                   "recorded traces given to TLC keep queue critical sections atomic (no pre-emption while a muscle Mutex is held); all other executions are pre-empted at every hooked operation",
                   "waits with a deadline use a deadline that never passes by itself; the scheduler fires it either at any time or (3 executions in 4) only when no thread can run otherwise - then a receiver that needs its deadline although a Message is queued for it counts as a lost wake-up",
                   "a signal interrupting select() is modelled at the hook in front of it (the wait returns B_TIMED_OUT, as SocketMultiplexer + WaitForNextMessageAux do on EINTR); no real signals are sent in the scheduled stages",
                   "the owner only blocks without a deadline for a reply when one is certain to come, and an extra sender stops sending once the shutdown request is queued (the property is about Messages sent before it)",
                   "socketpair / select / std::condition_variable are trusted; the scheduler only lets a thread into them when they cannot block"]
    return "model_checking", cov, assumptions
