"""C10 - reference-counted and pooled objects are released exactly once, never early.

 1. TLC model-checks spec/RefPool/RefImpl.tla (util/RefCount.h as coded: every Ref operation broken into atomic decrement / recycle /
    store / atomic increment steps, 2 threads (thorough: 3) with private slots plus a mailbox under a Mutex, objects recycled into a
    pool and obtained again): NeverEarly, RecycleOnlyUnreferenced, ExactlyOnce, Quiet; and spec/RefPool/PoolImpl.tla (util/ObjectPool.h as
    coded: slab list, LIFO free lists, _curPoolSize, slab moves and deletion): CurExact, NodesPartition, HeldExact, NoLiveInDeleted,
    FreeFirst, Bounded, for several (objects per slab, max pool size) pairs.
 2. spec -> code (pool): every transition of PoolImpl's state graph is replayed on a real ObjectPool (ASan build); after every call the
    object handed out, _curPoolSize and the slab list must equal the specification's.
 3. code -> spec (references): threads copy / assign / reset / swap / move / publish / take Refs to pooled objects under the controlled
    scheduler in the ASan build (every atomic operation and lock is a pre-emption point); canary monitor (never recycled while
    referenced, default state when obtained, all returned at the end, pool sanity); the recorded atomic operations, obtains and
    recycles are validated by TLC against the abstract reference-count machine RefTrace.tla.
"""
import concurrent.futures as cf, os, re
import vlib, pathcover


def pool_cfg(name, n, maxpool, record):
    p = os.path.join(vlib.SPEC, "RefPool", name)
    with open(p, "w") as f:
        f.write("SPECIFICATION Spec\nCONSTANTS\n  N = %d\n  MaxPool = %d\n  MaxLive = %d\n  MaxSlabs = %d\n  RECORD = %s\nINVARIANTS CurExact NodesPartition HeldExact NoLiveInDeleted FreeFirst Bounded\n" %
                (n, maxpool, 2 * n, 4, "TRUE" if record else "FALSE"))
    return name


def ref_cfg(name, threads, maxops, objs=2, chains=False, order="ref_first"):
    p = os.path.join(vlib.SPEC, "RefPool", name)
    with open(p, "w") as f:
        f.write("SPECIFICATION Spec\nCONSTANTS\n  T = {%s}\n  O = {%s}\n  K = 2\n  MaxOps = %d\n  RECORD = FALSE\n  Chains = %s\n  Order = \"%s\"\nINVARIANTS NeverEarly RecycleOnlyUnreferenced ExactlyOnce Quiet\n" %
                (", ".join(str(i) for i in range(1, threads + 1)), ", ".join(str(i) for i in range(1, objs + 1)), maxops, "TRUE" if chains else "FALSE", order))
    return name


def run(v, tier, seed):
    rcname, private_ok = vlib.make_with_fallback("asan", "rc")
    vlib.make("plain", rcname)
    rc_bin = vlib.binpath("asan", rcname)
    rc_plain = vlib.binpath("plain", rcname)     # the free-running stress stage needs speed, not ASan
    W = lambda n: vlib.scratch("C10", n)
    tot = {"states": 0, "transitions": 0, "behaviours": 0, "followed": 0, "steps": 0}; mc_notes = []; samples = []

    def ref_mc(threads, maxops):
        r = vlib.tlc("RefImpl", ref_cfg("gen_MC_ref_%d.cfg" % threads, threads, maxops), "RefPool", coverage=True, workers=6, timeout=3400, heap="12g")
        vlib.require_ok(r, "RefImpl model check %d threads" % threads)
        vlib.require_coverage(r, ["New", "Copy", "Reset", "Alias", "Swap", "Publish", "Take", "Step"], "RefImpl")
        return "RefImpl %d threads x %d ops" % (threads, maxops), r

    def chain_mc(maxops):
        # single-threaded histories with objects that hold a Ref to another object (chains): Link / Pop and cascading recycles
        r = vlib.tlc("RefImpl", ref_cfg("gen_MC_chain.cfg", 1, maxops, objs=3, chains=True), "RefPool", coverage=True, workers=4, timeout=3400, heap="8g")
        vlib.require_ok(r, "RefImpl model check, chains")
        vlib.require_coverage(r, ["New", "Copy", "Reset", "Link", "Pop", "Step"], "RefImpl chains")
        # vacuity guard: the other order of SetRef (give up the old item first) must violate NeverEarly when the head of a chain is popped
        g = vlib.tlc("RefImpl", ref_cfg("gen_Reach_unref_first.cfg", 1, 6, objs=3, chains=True, order="unref_first"), "RefPool", workers=2, timeout=900)
        if g.violated != "NeverEarly": raise vlib.MachineryError("vacuity guard: SetRef in the order 'unref the old item first' does not violate NeverEarly in the chain model (%s)" % (g.violated or g.error))
        return "RefImpl chains 1 thread x %d ops, 3 objects" % maxops, r

    def pool(n, maxpool):
        tag = "%d_%d" % (n, maxpool)
        r = vlib.tlc("PoolImpl", pool_cfg("gen_MC_pool_%s.cfg" % tag, n, maxpool, False), "RefPool", coverage=True, workers=2, timeout=900)
        vlib.require_ok(r, "PoolImpl model check N=%d MaxPool=%d" % (n, maxpool))
        vlib.require_coverage(r, ["Obtain", "Drain"], "PoolImpl")
        if not private_ok:      # the pool replay compares private slab state
            return "PoolImpl N=%d MaxPool=%d" % (n, maxpool), r, [{"summary": True, "behaviours": 0, "followed": 0, "steps": 0}], []
        dot = W("g%s.dot" % tag)
        g = vlib.tlc("PoolImpl", pool_cfg("gen_Gen_pool_%s.cfg" % tag, n, maxpool, True), "RefPool", workers=2, timeout=900, dump=dot)
        vlib.require_ok(g, "PoolImpl graph dump")
        beh, st = pathcover.behaviours(dot); os.remove(dot)
        if st["edges_covered"] != st["graph_edges"]: raise vlib.MachineryError("path cover incomplete: %s" % st)
        bf = W("beh%s.ndjson" % tag); rep = W("rep%s.ndjson" % tag)
        vlib.write_ndjson(bf, [{"id": i, "steps": s} for i, s in enumerate(beh)])
        code, out, err = vlib.run([rc_bin, "pool", bf, str(n), str(maxpool), rep], timeout=600)
        if code != 0:
            vlib.harness_failed(v, code, out, err, "rc pool N=%d MaxPool=%d" % (n, maxpool), "poolcrash")
            return "PoolImpl N=%d MaxPool=%d" % (n, maxpool), r, [{"summary": True, "behaviours": 0, "followed": 0, "steps": 0}], beh[0]
        return "PoolImpl N=%d MaxPool=%d" % (n, maxpool), r, vlib.read_ndjson(rep), beh[len(beh) // 2]

    def explore(iters, nt, nops, ntraces):
        rep = W("ex%d.ndjson" % nt); tr = W("trace%d.ndjson" % nt)
        code, out, err = vlib.run([rc_bin, "explore", str(iters), str(nt), str(nops), str(seed), rep, tr, str(ntraces)], timeout=(1200 if tier == "quick" else 3400))
        if code in (66, 67) or "ERROR: AddressSanitizer" in err or "runtime error:" in err or vlib.crashed(code):
            return None, "[exit %s] " % code + err
        if code != 0: raise vlib.MachineryError("rc explore failed rc=%s: %s %s" % (code, out[-300:], err[-1500:]))
        if not private_ok or not os.path.exists(tr) or os.path.getsize(tr) == 0:
            return (vlib.read_ndjson(rep), True, None, tr, []), None
        r = vlib.tlc("RefTrace", "Trace.cfg", "RefPool", workers=1, timeout=1800, env={"TRACE": tr}, keep_out=True)
        accepted = (r.violated == "NotAccepted")
        m = re.search(r'"maxline", (\d+)', r.out); maxline = int(m.group(1)) if m else None
        if r.error and not r.violated: raise vlib.MachineryError("RefTrace: " + r.error)
        first = [l.strip() for i, l in zip(range(16), open(tr))]
        return (vlib.read_ndjson(rep), accepted, maxline, tr, first), None

    def stress(seconds, nt, mode="stress"):
        rep = W("%s%d.ndjson" % (mode, nt))
        code, out, err = vlib.run([rc_plain, mode, str(seconds), str(nt), str(seed), rep], timeout=seconds + 120)
        if code != 0:
            vlib.harness_failed(v, code, out, err, "rc stress (free-running threads)", "stress")
            return [{"summary": True, "rounds": 0}]
        return vlib.read_ndjson(rep)

    iters = 3000 if tier == "quick" else 60000
    with cf.ThreadPoolExecutor(max_workers=6) as ex:
        jobs = [ex.submit(ref_mc, 2, 3), ex.submit(chain_mc, 7 if tier == "quick" else 9)] + ([ex.submit(ref_mc, 3, 3)] if tier == "thorough" else [])
        pools = [ex.submit(pool, n, mp) for (n, mp) in ([(2, 0), (2, 1), (2, 3), (3, 2)] if tier == "quick" else [(2, 0), (2, 1), (2, 3), (3, 0), (3, 2), (3, 4)])]
        f_sts = [ex.submit(stress, 3 if tier == "quick" else 60, nt) for nt in (2, 3)] + [ex.submit(stress, 3 if tier == "quick" else 60, nt, "churn") for nt in (2, 6)]
        f_exs = [ex.submit(explore, iters, 3 if tier == "quick" else 4, 14, 500 if tier == "quick" else 4000),
                 ex.submit(explore, iters, 1, 30, 300 if tier == "quick" else 3000)]      # one thread: chains of objects (member Refs), Link / Pop
        for f in jobs:
            tag, r = f.result(); tot["states"] += r.distinct; tot["transitions"] += r.generated
            mc_notes.append({"instance": tag, "distinct": r.distinct, "generated": r.generated, "depth": r.depth, "wall_s": round(r.wall, 1)})
        for f in pools:
            tag, r, rows, smp = f.result(); tot["states"] += r.distinct; tot["transitions"] += r.generated
            mc_notes.append({"instance": tag, "distinct": r.distinct, "generated": r.generated, "depth": r.depth, "wall_s": round(r.wall, 1)})
            summ = [x for x in rows if x.get("summary")][0]
            tot["behaviours"] += summ["behaviours"]; tot["followed"] += summ["followed"]; tot["steps"] += summ["steps"]
            if smp: samples.append({"kind": "pool behaviour replayed", "instance": tag, "steps": smp})
            for x in rows:
                if x.get("summary"): continue
                if x.get("violations"): v.violation("pool replay (%s): %s" % (tag, "; ".join(x["violations"])), x, tag="pool")
                elif x.get("drift"):
                    v.drift += 1
                    if v.drift <= 3: vlib.log("DRIFT property=C10 %s behaviour %s: %s" % (tag, x.get("behaviour"), x["drift"][:300]))
        st_rounds = 0
        for f_st in f_sts:
            st_rows = f_st.result(); st_rounds += [x for x in st_rows if x.get("summary")][0]["rounds"]
            for x in st_rows:
                if x.get("violations"): v.violation("free-running threads (no scheduler): " + "; ".join(x["violations"]), x, tag="stress")
        summ = {"executions": 0, "yields": 0, "traces_written": 0, "trace_lines": 0, "objects": 0}
        for f_ex in f_exs:
            res, san = f_ex.result()
            if san is not None:
                v.violation("sanitizer report while references to pooled objects are copied / reassigned / dropped: " + san[:1500].replace("\n", " | "), {"stderr": san[:6000], "cmd": "rc explore %d ... seed %d" % (iters, seed)}, tag="asan")
                continue
            rows, accepted, maxline, tr, first = res
            one = [x for x in rows if x.get("summary")][0]
            for k in summ: summ[k] += one.get(k, 0)
            if one.get("traces_not_describing_the_execution", 0):
                v.drift += 1
                vlib.log("DRIFT property=C10 in %d recorded executions the count operations seen through the AtomicCounter hooks do not add up to GetRefCount(): those traces were not given to TLC (the other oracles ran)" % one["traces_not_describing_the_execution"])
            samples.append({"kind": "first lines of a recorded execution validated by TLC against RefTrace", "lines": first})
            for x in rows:
                if x.get("summary"): continue
                if x.get("violations"): v.violation("random %s: " % ("schedule" if x.get("threads", 2) > 1 else "single-threaded history") + "; ".join(x["violations"]), x, tag="explore%d" % x.get("threads", 0))
            if not accepted:
                # RefTrace is the property-level machine (exactly once, never early at the level of the counts): a rejection is a violation
                v.violation("recorded execution is not a behaviour of the abstract reference-count machine: first unexplained line %s of %s" % (maxline, tr), {"trace": tr, "line": maxline}, tag="trace")
    cov = {"states": tot["states"], "transitions": tot["transitions"], "traces_validated_against_impl": tot["followed"] + summ["traces_written"],
           "pool_behaviours_replayed": tot["behaviours"], "pool_behaviours_followed_exactly": tot["followed"], "pool_replay_steps": tot["steps"],
           "random_executions": summ["executions"], "scheduling_decisions": summ["yields"], "trace_lines_validated_by_tlc": summ["trace_lines"], "objects_obtained": summ["objects"], "free_running_rounds": st_rounds,
           "evaluations": tot["behaviours"] + summ["executions"], "distinct_nontrivial": tot["followed"],
           "rule": "pool behaviours = path cover of EVERY transition of PoolImpl's state graph for each (objects per slab, max pool size) pair, distinct by construction, non-trivial = followed exactly to the end; random executions = 3-4 threads x 14 reference operations under seeded schedules, and single-threaded histories of 30 operations on chains of objects (member Refs), in the ASan build",
           "exhaustive": True, "model_runs": mc_notes, "samples": samples[:5]}
    assumptions = ["sequential consistency: the scheduler serialises threads at every AtomicCounter operation and Mutex operation; weak-memory effects are out of scope",
                   "a Ref object itself is only used by one thread at a time or under a Mutex (the library's documented contract); sharing is of the referenced objects",
                   "std::atomic and std::mutex are trusted; what happens INSIDE one AtomicCounter operation is only exercised by the free-running stress stage (real threads dropping the last references at the same moment), which samples, it does not enumerate"]
    return "model_checking", cov, assumptions
