"""C02 - parsing untrusted bytes is memory-safe, terminates, and costs O(input).

 1. TLC enumerates spec/WireMutate/WireMutate.tla: for every valid encoding of the menu (every field type, 0..3 items, nesting <= 2, empty
    and non-empty strings; bare Message, payload-only (templated) encoding, 8-byte stream frame, packet-tunnel fragments / mini-tunnel packets)
    EVERY truncation, EVERY boundary value {0, 1, n-1, n, n+1, rest of the node -1/0/+1, 2^31-1, 2^31, 2^32-8..2^32-1, overflow-adjacent sizes,
    every other type code / encoding id} in EVERY length / count / type / version word, and EVERY single splice where a nested node and its
    parent disagree - with the verdict envelope A / R / RB / E / I derived from the grammar.  TLC checks on every mutant that the mutation
    space is what it claims (every valid encoding is derivable and decodes to its value, the word table describes the bytes, every accepted
    mutant re-encodes to its bytes, truncations and overruns are never accepted and MustReject when the bytes are not in the buffer, ...) and
    prints every mutant; deliberately wrong variants of the specification show that the invariants can fail.
 2. spec -> code: harness/mut.cpp (AddressSanitizer + UBSan + the ByteBuffer tail-poisoning seam) feeds every mutant, in an exact-size heap
    buffer, to Message::UnflattenFromBytes, Message::TemplatedUnflatten and - framed, wrapped and sliced (all at once / byte at a time /
    boundary cuts) - to MessageIOGateway (4 configurations), TemplatingMessageIOGateway, WebSocketMessageIOGateway (server),
    PacketTunnelIOGateway, MiniPacketTunnelIOGateway, the plain-text / telnet / raw / SLIP gateways; harness/mut_mini.c and mut_micro.c do
    the same for MMUnflattenMessage + MGDoInput and for the micro reader + UGDoInput.  Monitors = the property's words (see mut.cpp).
 3. on top: seeded random mutations of valid streams of every gateway kind (zlib encodings, template caches, WebSocket frames, tunnels with
    three slave kinds); the nesting-depth case (known finding F7) in a child process with a bounded stack.
"""
import concurrent.futures as cf, collections, json, os, subprocess, time
import vlib

SD = "WireMutate"
INVS = ["TypeOK", "BaseDerivable", "BaseZeroIsEither", "MapConsistent", "AcceptDerivable", "MutationApplied", "UnchangedAccepted", "TruncationRejected",
        "TruncationInsideVariablePartRejected", "OverrunRejected", "DataLengthNeverAccepted", "HugeNeverAccepted", "SpliceDisagrees", "NameNulChecked", "TerminatorChecked",
        "VersionChecked", "EncodingChecked", "NonFlatNeverAccepted"]
NBASE = {"tiny": 4, "quick": 53, "thorough": 250}
# deliberately wrong specifications: each must violate the named invariant (vacuity guard for the invariants)
WRONG = [("enc_name_without_nul", "BaseDerivable"), ("ignore_field_count", "TruncationRejected"), ("item_budget_is_buffer", "SpliceDisagrees"), ("no_nul_check", "NameNulChecked")]
WRONG_THOROUGH = [("no_version_check", "VersionChecked"), ("enc_range_off_by_one", "EncodingChecked"), ("accept_nonflat", "NonFlatNeverAccepted"), ("put_off_by_one", "MutationApplied")]
ENCORD = {"msg": 0, "tmpl": 1, "frame": 2, "tun": 3, "mtun": 4}
MICRO_ENV = {"ASAN_OPTIONS": "detect_leaks=0:halt_on_error=0:handle_segv=0:allocator_may_return_null=1:exitcode=66"}
# single allocations above 768 MB fail at once (malloc returns NULL: the out-of-memory paths run) instead of costing seconds of shadow-memory
# work on a shared machine; everything smaller is allocated and counted by the allocation monitor
ASAN_ENV = {"ASAN_OPTIONS": vlib.SAN_ENV["ASAN_OPTIONS"].replace("max_allocation_size_mb=4096", "max_allocation_size_mb=768")}
STACK_KB = 8192           # the nesting cases run with an 8 MiB stack
F7_DEPTH = 2000


def cfg(tag, name, menu, lo, hi, emit, wrong=None, invs=INVS):
    fn = "gen_c02_%s_%s.cfg" % (tag, name)
    with open(os.path.join(vlib.SPEC, SD, fn), "w") as f:
        f.write("SPECIFICATION Spec\nCONSTANTS\n  MENU = \"%s\"\n  LO = %d\n  HI = %d\n  EMIT = %s\n  Wrong = {%s}\nINVARIANTS %s\n" %
                (menu, lo, hi, "TRUE" if emit else "FALSE", ('"%s"' % wrong) if wrong else "", " ".join(invs)))
    return fn


def hx(l): return bytes(l).hex()


def build_c(name, srcs, extra):
    """The two C codecs define the same globals: one program each, built with explicit gcc commands from the repository's sources."""
    out = vlib.binpath("asan", name)
    os.makedirs(os.path.dirname(out), exist_ok=True)
    R = os.path.join(vlib.REPO, "lang", "c")
    cmd = ["gcc", "-g1", "-O1", "-w", "-I" + vlib.REPO, "-I" + os.path.join(R, "minimessage"), "-I" + os.path.join(R, "micromessage"),
           "-fsanitize=address,undefined", "-fno-sanitize=alignment", "-fno-omit-frame-pointer"] + extra + [os.path.join(vlib.VERIF, "harness", name + ".c")] + \
          [os.path.join(R, s) for s in srcs] + ["-o", out + ".tmp%d" % os.getpid()]
    r = subprocess.run(cmd, stdout=subprocess.PIPE, stderr=subprocess.STDOUT, text=True)
    if r.returncode != 0: raise vlib.MachineryError("build of %s failed:\n%s" % (name, r.stdout[-3000:]))
    os.replace(out + ".tmp%d" % os.getpid(), out)
    return out


def run(v, tier, seed):
    W = lambda n: vlib.scratch("C02", n)
    tag = str(os.getpid())
    quick = (tier == "quick")
    made = []
    t_start = time.time()

    # ------------------------------------------------------------------------------------------ build (in the background) and TLC
    def build():
        vlib.make("asan", "mut")
        return (build_c("mut_mini", ["minimessage/MiniMessage.c", "minimessage/MiniMessageGateway.c"], []),
                build_c("mut_micro", ["micromessage/MicroMessage.c", "micromessage/MicroMessageGateway.c"], ["-fsanitize-recover=address"]))

    def enumerate_shard(menu, lo, hi, workers):
        c = cfg(tag, "Gen_%d_%d" % (lo, hi), menu, lo, hi, True); made.append(c)
        r = vlib.tlc("WireMutate", c, SD, workers=workers, timeout=(300 if quick else 2400), heap="3g")
        vlib.require_ok(r, "WireMutate %s bases %d..%d" % (menu, lo, hi))
        return r

    def wrong_run(w, inv):
        c = cfg(tag, "Wrong_" + w, "tiny", 1, 1000, False, wrong=w, invs=[inv]); made.append(c)
        r = vlib.tlc("WireMutate", c, SD, workers=2, timeout=600)
        if r.error and not r.violated: raise vlib.MachineryError("WireMutate Wrong=%s: %s" % (w, r.error))
        return r.violated == inv

    menu = "quick" if quick else "thorough"
    wrong = WRONG if quick else WRONG + WRONG_THOROUGH
    nb = NBASE[menu]
    if quick: shards = [(1, 27, 3), (28, 52, 3), (53, 53, 3)]
    else: shards = [(248, 248, 2), (249, 249, 2), (250, 250, 2)] + [(lo, min(lo + 12, 247), 2) for lo in range(1, 248, 13)]
    try:
        with cf.ThreadPoolExecutor(max_workers=(6 if quick else 7)) as ex:
            f_build = ex.submit(build)
            f_sh = [ex.submit(enumerate_shard, menu, lo, hi, w) for lo, hi, w in shards]
            f_wr = [ex.submit(wrong_run, w, inv) for w, inv in wrong]
            res = [f.result() for f in f_sh]
            for (w, inv), f in zip(wrong, f_wr):
                if not f.result(): raise vlib.MachineryError("vacuity guard: the deliberately wrong specification (%s) does not violate %s" % (w, inv))
            mini_bin, micro_bin = f_build.result()
    finally:
        for c in made:
            try: os.remove(os.path.join(vlib.SPEC, SD, c))
            except OSError: pass
    t_tlc = time.time() - t_start
    muts = [m for r in res for m in r.printed]
    states = sum(r.distinct for r in res); generated = sum(r.generated for r in res)
    if len(muts) != states: raise vlib.MachineryError("TLC found %d states but printed %d mutants" % (states, len(muts)))

    # ------------------------------------------------------------------------------------------ the case list
    muts.sort(key=lambda m: (ENCORD[m["enc"]], m["base"], 0 if m["k"] == "base" else 1, m["k"], m["pos"], m["w"], m["sp"]))      # k: base, splice, term, trunc, word
    nbases = len([m for m in muts if m["enc"] == "msg" and m["k"] == "base"])
    if nbases != nb: raise vlib.MachineryError("the %s menu has %d bases, %d expected" % (menu, nbases, nb))
    basemsg = {m["base"]: hx(m["b"]) for m in muts if m["enc"] == "msg" and m["k"] == "base" and m["v"] == "A"}
    cases = []; seen = set(); byv = collections.Counter(); bykind = collections.Counter(); why = collections.Counter()
    bykind_all = collections.Counter((m["enc"], m["k"]) for m in muts)      # = how often TLC took each action (Trunc / Word / Splice), per encoding
    for a in ("trunc", "word", "splice", "term"):
        if sum(n for (e, k), n in bykind_all.items() if k == a) == 0: raise vlib.MachineryError("vacuity guard: action %s never taken" % a)
    for m in muts:
        key = (m["enc"], m["base"], hx(m["b"]))
        if key in seen and m["k"] != "base": continue
        seen.add(key)
        c = {"i": len(cases), "enc": m["enc"], "base": m["base"], "k": m["k"], "pos": m["pos"], "wk": m["wk"], "w": hx(m["w"]), "sp": m["sp"], "v": m["v"], "why": m["why"],
             "dl": m["dl"], "nf": m["nf"], "full": hx(m["full"]), "b": hx(m["b"])}
        cases.append(c); byv[m["v"]] += 1; bykind[(m["enc"], m["k"])] += 1; why[m["why"]] += 1
    # vacuity guards on the enumerated space itself
    for need in ("A", "R", "RB", "E", "I"):
        if byv[need] == 0: raise vlib.MachineryError("vacuity guard: no mutant with verdict %s" % need)
    for enc in ENCORD:
        for k in ("base", "trunc", "word", "splice"):
            if bykind[(enc, k)] == 0: raise vlib.MachineryError("vacuity guard: no %s mutant of encoding %s" % (k, enc))
    nontrivial = len([c for c in cases if c["k"] != "base" and not (c["k"] == "word" and c["v"] == "A" and c["b"] == basemsg.get(c["base"]))])
    # directed: the exact input of the repaired finding F4 (a generated case has the same shape with other numbers); judged like every other case
    f4 = "30304d50" + "01000000" + "01000000" + "02000000" + "7300" + "52545343" + "0b000000" + (50000000).to_bytes(4, "little").hex() + "03000000" + "686900"
    cases.append({"i": len(cases), "enc": "msg", "base": 0, "k": "directed", "pos": 26, "wk": "count", "w": (50000000).to_bytes(4, "little").hex(), "sp": "-", "v": "R",
                  "why": "item-length-word-missing", "dl": 0, "nf": -1, "full": "", "b": f4})
    bycase = {c["i"]: c for c in cases}

    vlib.write_ndjson(W("bases.ndjson"), [{"base": b, "msg": h} for b, h in sorted(basemsg.items())])
    # whole (encoding, base) groups, dealt round-robin to the harness processes
    nproc = 4 if quick else 6
    groups = collections.OrderedDict()
    for c in cases: groups.setdefault((c["enc"], c["base"]), []).append(c)
    parts = [[] for _ in range(nproc)]
    order = sorted(groups.values(), key=lambda g: -sum(len(c["b"]) for c in g))
    load = [0] * nproc
    for g in order:
        j = load.index(min(load)); parts[j] += g; load[j] += sum(len(c["b"]) for c in g) + 200 * len(g)
    for j in range(nproc): vlib.write_ndjson(W("cases%d.ndjson" % j), parts[j])
    with open(W("c_mini.txt"), "w") as f, open(W("c_micro.txt"), "w") as g:
        for c in cases:
            if c["enc"] not in ("msg", "frame"): continue
            f.write("%d %s %s %s %s\n" % (c["i"], c["enc"], c["v"], c["b"] or "-", basemsg.get(c["base"], "-")))
            g.write("%d %s %s %s %d\n" % (c["i"], c["enc"], c["v"], c["b"] or "-", c["nf"]))

    # ------------------------------------------------------------------------------------------ harness runs, restarted behind a case that killed the process
    mut = vlib.binpath("asan", "mut")
    deaths = []      # (name, rc, case index, stderr tail)

    def drive(name, argv, report, cursor, timeout, env=ASAN_ENV, max_deaths=25):
        for p in (report, cursor, report + ".err"):
            if os.path.exists(p): os.remove(p)
        start = 0; nd = 0; t0 = time.time()
        while True:
            rc, out, err = vlib.run(argv(start), timeout=max(30, int(timeout - (time.time() - t0))), env=env)
            rows = vlib.read_ndjson(report) if os.path.exists(report) else []
            if rc == 0 and rows and rows[-1].get("summary"): return rows, nd
            try: idx = int(open(cursor).read().strip())
            except Exception: idx = -1
            try: err = err + open(report + ".err", errors="replace").read()[-8000:]
            except OSError: pass
            nd += 1
            if rc == 2 or (idx < 0 and rc not in (66, 67, 3, -6, -11, 134, 139)): raise vlib.MachineryError("%s could not run (exit %s): %s %s" % (name, rc, out[-500:], err[-1500:]))
            deaths.append((name, rc, idx, err[-6000:]))
            nhang = len([d for d in deaths if d[0] == name and d[1] == 3])
            if nd >= max_deaths or nhang >= 3 or idx < 0 or (time.time() - t0) > timeout: return rows, nd
            start = idx + 1

    def run_cases(j):
        return drive("mut%d" % j, lambda s: [mut, "cases", W("bases.ndjson"), W("cases%d.ndjson" % j), W("rep%d.ndjson" % j), str(s), W("cur%d" % j), tier], W("rep%d.ndjson" % j), W("cur%d" % j), 280 if quick else 1500)

    def run_mini():
        return drive("mini", lambda s: [mini_bin, W("c_mini.txt"), W("rep_mini.ndjson"), str(s), W("cur_mini")], W("rep_mini.ndjson"), W("cur_mini"), 280 if quick else 1500)

    def run_micro(which):
        return drive("micro-" + which, lambda s: [micro_bin, W("c_micro.txt"), W("rep_micro_%s.ndjson" % which), str(s), W("cur_micro_" + which), which], W("rep_micro_%s.ndjson" % which), W("cur_micro_" + which),
                     200 if quick else 900, env=MICRO_ENV, max_deaths=(25 if which == "valid" else 12))

    nrand = 2 if quick else 6
    per = 1500 if quick else 150000

    def run_rand(j):
        return drive("rand%d" % j, lambda s: [mut, "rand", str(seed * 16 + j), str(s), str(per), W("rep_rand%d.ndjson" % j), W("cur_rand%d" % j)], W("rep_rand%d.ndjson" % j), W("cur_rand%d" % j), 280 if quick else 1700)

    def run_nest(depth):
        rc, out, err = vlib.run(["bash", "-c", "ulimit -s %d; exec %s nest %d" % (STACK_KB, mut, depth)], timeout=300)
        return rc, out, err

    # self-test of the oracle: relabelled / corrupted cases must be flagged by the harness
    base1 = [c for c in cases if c["enc"] == "msg" and c["k"] == "base" and c["v"] == "A"][1]
    trunc1 = [c for c in cases if c["enc"] == "msg" and c["k"] == "trunc" and c["v"] == "R" and c["base"] == base1["base"] and c["pos"] == 14][0]      # cut inside the first name-length word
    tbase = [c for c in cases if c["enc"] == "tmpl" and c["k"] == "base" and c["base"] == base1["base"]][0]
    st = [base1, dict(base1, k="selftest", v="R", why="relabelled"),                 # a valid encoding labelled MustReject
          dict(trunc1, k="selftest", v="A"),                                          # a truncation labelled MustAccept
          tbase, dict(tbase, k="selftest", full=tbase["full"][:8] + "ff" + tbase["full"][10:])]     # the value a payload stands for, with one byte of its what-code changed
    vlib.write_ndjson(W("selftest.ndjson"), st)

    def run_selftest():
        for p in (W("rep_self.ndjson"), W("cur_self")):
            if os.path.exists(p): os.remove(p)
        rc, out, err = vlib.run([mut, "cases", W("bases.ndjson"), W("selftest.ndjson"), W("rep_self.ndjson"), "0", W("cur_self"), "quick"], timeout=300, env=ASAN_ENV)
        rows = vlib.read_ndjson(W("rep_self.ndjson")) if os.path.exists(W("rep_self.ndjson")) else []
        flagged = set()
        for r in rows:
            if r.get("violations") and r.get("target") in ("Message::UnflattenFromBytes", "Message::TemplatedUnflatten"): flagged.add(r["case"][:60] + r["violations"][0][:40])
        texts = " ".join(x for r in rows for x in r.get("violations", []))
        ok = ("accepted although" in texts) and ("a valid encoding was rejected" in texts) and ("re-flattens to different bytes" in texts or "accepted as a different" in texts)
        return ok, len(flagged), texts[:300]

    with cf.ThreadPoolExecutor(max_workers=10) as ex:
        f_cases = [ex.submit(run_cases, j) for j in range(nproc)]
        f_mini = ex.submit(run_mini); f_mv = ex.submit(run_micro, "valid"); f_mh = ex.submit(run_micro, "hostile")
        f_rand = [ex.submit(run_rand, j) for j in range(nrand)]
        f_self = ex.submit(run_selftest)
        f_n200 = ex.submit(run_nest, 200); f_nbig = ex.submit(run_nest, F7_DEPTH)
        f_sweep = [ex.submit(run_nest, d) for d in ((1000, 5000, 20000, 100000) if not quick else ())]
        r_cases = [f.result() for f in f_cases]; r_mini = f_mini.result(); r_mv = f_mv.result(); r_mh = f_mh.result(); r_rand = [f.result() for f in f_rand]
        st_ok, st_n, st_txt = f_self.result()
        n200 = f_n200.result(); nbig = f_nbig.result(); sweep = [f.result() for f in f_sweep]

    # ------------------------------------------------------------------------------------------ verdicts
    tot = collections.Counter(); by_target = collections.Counter(); worst = {"peak": 0, "n": 0, "permille": 0}
    f19 = {"reports": 0, "signals": 0, "deaths": 0}

    def take(name, rows, hostile_micro=False):
        for r in rows:
            if r.get("summary"):
                tot["cases_run"] += r.get("cases", 0); tot["parser_runs"] += r.get("parser_runs", 0); tot["drift_notes"] += r.get("drift", 0)
                tot["mini_RB_accepted"] += r.get("lenient_RB_accepted", 0)
                for k, n in (r.get("by_target") or {}).items(): by_target[k] += n
                if r.get("mode") == "mini": by_target["MMUnflattenMessage + MGDoInput"] += r.get("parser_runs", 0)
                if str(r.get("mode", "")).startswith("micro"): by_target["micro reader + UGDoInput"] += r.get("parser_runs", 0); tot["micro_fields_walked"] += r.get("fields_walked", 0)
                if r.get("worst_peak_permille_of_budget", 0) > worst["permille"]: worst.update(peak=r["worst_peak_bytes"], n=r["worst_peak_input_bytes"], permille=r["worst_peak_permille_of_budget"])
                if r.get("stopped_early"): tot["stopped_early"] += 1
                continue
            c = {} if name.startswith("rand") else bycase.get(r.get("index"), {})
            if r.get("hang"): v.violation("%s: no answer within the watchdog time: %s in %s" % (name, r.get("case"), r.get("target")), {"report": r, "case": c}, tag=name)
            elif r.get("violations"): v.violation("%s: %s [%s]" % (r.get("target"), "; ".join(r["violations"])[:400], r.get("case")), {"report": r, "case": c}, tag=name)
            elif r.get("known"):
                f19["reports"] += 1
                if "signal" in r["known"][0]: f19["signals"] += 1
                if not v.known_finding("F19", "micro reader on an input that is not a complete valid Message (%s): %s" % (r.get("case"), r["known"][0][:160])):
                    v.violation("micro reader: %s [%s]" % (r["known"][0][:300], r.get("case")), {"report": r, "case": c}, tag=name)
            elif r.get("drift"):
                v.drift += 1
                if v.drift <= 2: vlib.log("DRIFT property=C02 %s: %s [%s]" % (r.get("target"), r["drift"][0][:300], r.get("case")))

    for j, (rows, nd) in enumerate(r_cases): take("mut%d" % j, rows)
    take("mini", r_mini[0]); take("micro-valid", r_mv[0]); take("micro-hostile", r_mh[0], True)
    for j, (rows, nd) in enumerate(r_rand): take("rand%d" % j, rows)
    for name, rc, idx, err in deaths:
        c = bycase.get(idx, {})
        kind = {66: "AddressSanitizer report", 67: "UndefinedBehaviorSanitizer report", 3: "watchdog", -6: "abort()", 134: "abort()", -11: "SIGSEGV", -999: "time limit of the harness run"}.get(rc, "exit status %s" % rc)
        first = next((l for l in err.splitlines() if "ERROR: AddressSanitizer" in l or "runtime error" in l or "Crash() was called" in l), "")
        where = next((l.strip() for l in err.splitlines() if l.strip().startswith("#") and ("/repo/" in l or vlib.REPO + "/" in l)), "")
        if name == "micro-hostile" and rc in (66, -11, -7, 67):
            f19["deaths"] += 1
            if v.known_finding("F19", "micro reader on an input that is not a complete valid Message: %s %s" % (kind, first[:160])): continue
        if name.startswith("rand"): c = {}; desc = "random case %s of '%s rand %d ...' (run it alone: first = %s, count = %s)" % (idx, os.path.basename(mut), seed * 16 + int(name[4:]), idx, idx + 1)
        else: desc = ("case %s: %s %s pos %s %s %s%s -> %s" % (idx, c.get("enc"), c.get("k"), c.get("pos"), c.get("wk"), c.get("sp"), c.get("w"), c.get("v"))) if c else ("case %s of %s" % (idx, name))
        if rc == 3: continue     # the watchdog wrote its own report line
        v.violation("%s: %s while parsing %s | %s | %s" % (name, kind, desc, first[:200], where[:200]), {"harness": name, "exit": rc, "case": c or idx, "stderr": err[-3000:]}, tag=name)
    if f19["reports"] + f19["deaths"] == 0 and v.is_listed("F19"): vlib.log("NOTE property=C02 known finding F19 was not reproduced by this run")

    # nesting depth: 200 levels are judged normally, the deep case is the known finding F7
    rc, out, err = n200
    ok200 = (rc == 0) and ('"accepted":true' in out) and ('"same":true' in out)
    if not ok200: v.violation("Message nested 200 levels deep is not parsed and re-flattened to itself with a %d KiB stack (exit %s) %s" % (STACK_KB, rc, err[-300:]), {"cmd": "mut nest 200", "stack_kb": STACK_KB, "exit": rc}, tag="nest")
    rc, out, err = nbig
    nest_notes = {"200": "ok" if ok200 else "failed"}
    if (rc in (66, -11, 139)) and (("stack-overflow" in err) or rc != 66):
        nest_notes[str(F7_DEPTH)] = "stack overflow"
        if not v.known_finding("F7", "Message nested %d levels deep: stack overflow in the Unflatten / Flatten recursion with a %d KiB stack (%s)" % (F7_DEPTH, STACK_KB, "AddressSanitizer: stack-overflow" if rc == 66 else "SIGSEGV")):
            v.violation("Message nested %d levels deep overflows the stack" % F7_DEPTH, {"cmd": "mut nest %d" % F7_DEPTH, "exit": rc}, tag="nest")
    elif rc == 0: nest_notes[str(F7_DEPTH)] = "ok"
    else: v.violation("Message nested %d levels deep: exit status %s %s" % (F7_DEPTH, rc, err[-300:]), {"cmd": "mut nest %d" % F7_DEPTH, "exit": rc}, tag="nest")
    for d, (rc, out, err) in zip((1000, 5000, 20000, 100000), sweep): nest_notes[str(d)] = "ok" if rc == 0 else ("stack overflow" if "stack-overflow" in err or rc in (-11, 139) else "exit %s" % rc)

    if tot["parser_runs"] == 0: raise vlib.MachineryError("no parser was run")
    # (with a broken parser the relabelled cases can behave differently: the self-test is decisive only when nothing else was found)
    if not st_ok and not v.violations: raise vlib.MachineryError("oracle self-test: relabelled / corrupted cases were not flagged by the harness (%s)" % st_txt)
    expected_runs = len(cases)
    ran = sum(r.get("cases", 0) for rows, nd in r_cases for r in rows if r.get("summary"))
    if not v.violations and ran < expected_runs: raise vlib.MachineryError("only %d of %d cases were run by harness/mut.cpp" % (ran, expected_runs))

    samples = [dict((k, c[k]) for k in ("enc", "base", "k", "pos", "wk", "w", "sp", "v", "why", "b")) for c in
               ([c for c in cases if c["k"] == "trunc"][:1] + [c for c in cases if c["k"] == "word" and c["v"] == "R"][:1] + [c for c in cases if c["v"] == "RB"][:1] +
                [c for c in cases if c["k"] == "splice" and c["enc"] == "tmpl"][:1] + [c for c in cases if c["enc"] == "frame" and c["wk"] == "framelen" and c["v"] == "R"][:1] + [c for c in cases if c["enc"] == "tun" and c["k"] == "word"][:1])]
    cov_d = {"states": states, "transitions": generated, "traces_validated_against_impl": ran,
             "evaluations": int(tot["parser_runs"]), "distinct_nontrivial": nontrivial,
             "rule": "cases = the states of WireMutate.tla (menu '%s': %d valid encodings x 5 encodings; every truncation, every boundary value in every word, every single splice), deduplicated by (encoding, base, bytes): %d distinct byte strings, %d of them mutants that differ from their base; evaluations = parser / gateway runs on them (harness counters) plus %d seeded random stream mutations" % (menu, nb, len(cases), nontrivial, nrand * per),
             "exhaustive": True,
             "mutants_by_verdict": dict(byv), "mutants_by_encoding_and_kind": {"%s/%s" % k: n for k, n in sorted(bykind.items())}, "reasons": dict(why.most_common(60)),
             "parser_runs_by_target": dict(by_target), "cases_run": int(tot["cases_run"]), "random_cases": nrand * per,
             "allocation_budget": "peak live heap bytes <= 64*N + 65536 while a Message parser parses a complete N-byte buffer", "worst_allocation": worst,
             "micro_reader_fields_walked_on_valid_inputs": int(tot["micro_fields_walked"]), "F19_reproductions": f19, "mini_accepts_RB": int(tot["mini_RB_accepted"]),
             "nesting": nest_notes, "oracle_selftest_cases_flagged": st_n, "harness_restarts_after_a_dead_process": len(deaths),
             "tlc": {"wall_s": round(t_tlc, 1), "shards": [{"bases": "%d..%d" % (lo, hi), "distinct": r.distinct, "wall_s": round(r.wall, 1)} for (lo, hi, w), r in zip(shards, res)],
                     "actions_taken": {a: sum(n for (e, k), n in bykind_all.items() if k == a.lower()) for a in ("Trunc", "Word", "Splice", "Term")},
                     "note": "TLC's -coverage mode does not finish on this specification (deep recursive operators: > 3 min for one base); the action counts are measured from the states TLC printed",
                     "invariants": INVS, "wrong_specifications_rejected": ["%s violates %s" % w for w in wrong]},
             "samples": samples}
    assumptions = ["the 'coverage-guided arbitrary bytes' clause of the property's quantifier is NOT covered (that is fuzzing, another technique); the seeded random mutation pass is extra exploration, not coverage guidance",
                   "memory safety is observed by AddressSanitizer / UBSan (-fno-sanitize=bounds, alignment off for the C codecs) and the ByteBuffer tail-poisoning seam during replay, not proved",
                   "verdicts: A and R are judged on every parser (R = the bytes the words declare are not in the supplied buffer, or a documented constant is wrong); RB (inside the buffer, beyond the enclosing node) is a DRIFT note for the C++ parsers and free for MiniMessage.c, which checks lengths against the buffer only; E where the documentation is silent",
                   "the allocation bound is the property's for the Message parsers (k = 64, c = 64 KiB); gateways that size a buffer from a peer-declared length (unlimited MessageIOGateway, packet tunnels without a maximum) are exercised with 16 MB .. 4 GB declarations on the first base only, the byte gateways are held to 4 x the same bound",
                   "micro reader: inputs that are not complete valid Messages are known finding F19 (reports counted, not judged); nesting deeper than 200 levels is known finding F7",
                   "zlib bodies are reached by the encoding-id substitutions (plain bytes into inflate) and by the random pass (mutated deflate streams), not by the grammar"]
    return "exploration", cov_d, assumptions
