#!/bin/bash
# usage: tools/verify_seed.sh <seed dir with patch.diff, demo.cpp (or demo.sh), meta.json> <property ID> <name under /verif/seeded>
# Confirms an independently seeded change in a scratch copy: (1) the patched library builds, (2) the baseline tests pass with it,
# (3) the demonstration passes without the change and fails with it, (4) runs the property's quick check against the patched copy.
# Writes <seed dir>/verified.json and, if 1-3 hold, copies the seed to /verif/seeded/<name>/ (with verified.json and the check's verdict).
set -u
SD="$1"; ID="$2"; NAME="$3"; S=/tmp/vseed.$$; mkdir -p $S
log() { echo "[verify_seed $NAME] $*"; }
rsync -a --exclude _build --exclude .git --exclude seeds /repo/ $S/clean/
rsync -a $S/clean/ $S/patched/
( cd $S/patched && patch -p1 -s < "$SD/patch.diff" ) || { log "patch does not apply"; rm -rf $S; exit 3; }
R="{\"seed\":\"$NAME\",\"property\":\"$ID\""
# (1)+(2) build with tests and run the baseline on the patched copy
( cmake -G Ninja -S $S/patched -B $S/pb -DWITH_TESTS=ON -DCMAKE_BUILD_TYPE=Release > $S/cmake.log 2>&1 && cmake --build $S/pb -j8 >> $S/cmake.log 2>&1 ); BUILD=$?
TESTS="skipped"
if [ $BUILD -eq 0 ]; then ctest --test-dir $S/pb -j6 --timeout 900 -E testserial > $S/ctest.log 2>&1; TESTS=$(grep -o "[0-9]*% tests passed, [0-9]* tests failed out of [0-9]*" $S/ctest.log | head -1); fi
R="$R,\"build_ok\":$([ $BUILD -eq 0 ] && echo true || echo false),\"ctest_with_change\":\"$TESTS\""
# (3) demonstration against a clean and a patched static library (plain g++ build of the library sources, no hooks)
libsrc() { ls $1/{dataio,iogateway,message,reflector,regex,syslog,system,util,zlib}/*.cpp | grep -v "SSL\|ZipFileUtilityFunctions"; }
DEFS=""; grep -q MUSCLE_VERIF_HOOKS "$SD/demo.cpp" 2>/dev/null && DEFS="-DMUSCLE_VERIF_HOOKS"
grep -q "fsanitize=address" "$SD/demo.cpp" 2>/dev/null && DEFS="$DEFS -fsanitize=address -g"      # a demonstration that needs ASan to show a one-byte overrun says so in its header    # a demonstration may use the library's own (guarded) hooks to park a thread in a window
buildlib() { mkdir -p $2; ( cd $2 && for f in $(libsrc $1); do echo $f; done | xargs -P 8 -I{} sh -c 'g++ -std=c++11 -O1 -w -I'$1' -DMUSCLE_ENABLE_ZLIB_ENCODING '$DEFS' -c {} -o $(echo {} | md5sum | cut -c1-12).o' && for f in $1/lang/c/minimessage/MiniMessage.c $1/lang/c/minimessage/MiniMessageGateway.c $1/lang/c/micromessage/MicroMessage.c $1/lang/c/micromessage/MicroMessageGateway.c; do gcc -O1 -w -I$1 -c $f -o c_$(basename $f .c).o; done && ar rcs lib.a *.o ); }
DEMO_CLEAN="n/a"; DEMO_PATCHED="n/a"
if [ -f "$SD/demo.cpp" ]; then
  buildlib $S/clean $S/lc > $S/lc.log 2>&1; buildlib $S/patched $S/lp > $S/lp.log 2>&1
  g++ -std=c++11 -O1 -w -I$S/clean -DMUSCLE_ENABLE_ZLIB_ENCODING $DEFS -I"$SD" "$SD/demo.cpp" $S/lc/lib.a -lz -lutil -lpthread -o $S/demo_clean > $S/dc.log 2>&1
  g++ -std=c++11 -O1 -w -I$S/patched -DMUSCLE_ENABLE_ZLIB_ENCODING $DEFS -I"$SD" "$SD/demo.cpp" $S/lp/lib.a -lz -lutil -lpthread -o $S/demo_patched > $S/dp.log 2>&1
  if [ -x $S/demo_clean ]; then ( cd $S && timeout 120 ./demo_clean > $S/run_clean.txt 2>&1 ); DEMO_CLEAN=$?; else DEMO_CLEAN="build failed"; fi
  if [ -x $S/demo_patched ]; then ( cd $S && timeout 120 ./demo_patched > $S/run_patched.txt 2>&1 ); DEMO_PATCHED=$?; else DEMO_PATCHED="build failed"; fi
elif [ -f "$SD/demo.c" ]; then
  CSAN=""; grep -q "fsanitize=address" "$SD/demo.c" && CSAN="-fsanitize=address -g"
  for w in clean patched; do gcc -O1 -w $CSAN -I$S/$w -I"$SD" "$SD/demo.c" $S/$w/lang/c/minimessage/MiniMessage.c $S/$w/lang/c/minimessage/MiniMessageGateway.c $S/$w/lang/c/micromessage/MicroMessage.c $S/$w/lang/c/micromessage/MicroMessageGateway.c -o $S/demo_$w > $S/d$w.log 2>&1; done
  if [ -x $S/demo_clean ]; then ( cd $S && timeout 120 ./demo_clean > $S/run_clean.txt 2>&1 ); DEMO_CLEAN=$?; else DEMO_CLEAN="build failed"; fi
  if [ -x $S/demo_patched ]; then ( cd $S && timeout 120 ./demo_patched > $S/run_patched.txt 2>&1 ); DEMO_PATCHED=$?; else DEMO_PATCHED="build failed"; fi
elif [ -f "$SD/demo.py" ]; then
  ( cd $S && MUSCLE_WORKTREE=$S/clean timeout 300 python3 "$SD/demo.py" $S/clean > $S/run_clean.txt 2>&1 ); DEMO_CLEAN=$?
  ( cd $S && MUSCLE_WORKTREE=$S/patched timeout 300 python3 "$SD/demo.py" $S/patched > $S/run_patched.txt 2>&1 ); DEMO_PATCHED=$?
elif [ -f "$SD/demo.sh" ]; then
  ( cd $S && timeout 900 bash "$SD/demo.sh" $S/clean > $S/run_clean.txt 2>&1 ); DEMO_CLEAN=$?
  ( cd $S && timeout 900 bash "$SD/demo.sh" $S/patched > $S/run_patched.txt 2>&1 ); DEMO_PATCHED=$?
fi
R="$R,\"demo_exit_without_change\":\"$DEMO_CLEAN\",\"demo_exit_with_change\":\"$DEMO_PATCHED\""
# (4) our check against the patched copy
VERIF_REPO=$S/patched VERIF_BUILD=$S/build VERIF_OUT=$S/out VERIF_EVIDENCE=$S/ev timeout 1500 /verif/tools/check "$ID" quick > $S/check.txt 2>&1; CRC=$?
NV=$(grep -c "^VIOLATION" $S/check.txt); FIRST=$(grep -m1 "^VIOLATION\|^ERROR\|^DRIFT" $S/check.txt | cut -c1-400 | sed 's/"/\\"/g' | tr -d '\n')
R="$R,\"check_exit\":$CRC,\"violation_lines\":$NV,\"first_line\":\"$FIRST\"}"
echo "$R" > "$SD/verified.json"; log "$R"
OK=0; [ $BUILD -eq 0 ] && echo "$TESTS" | grep -q "100% tests passed" && [ "$DEMO_CLEAN" = "0" ] && [ "$DEMO_PATCHED" != "0" ] && [ "$DEMO_PATCHED" != "n/a" ] && [ "$DEMO_PATCHED" != "build failed" ] && OK=1
if [ $OK -eq 1 ]; then mkdir -p /verif/seeded/$NAME && cp "$SD"/patch.diff "$SD"/meta.json "$SD"/verified.json /verif/seeded/$NAME/ && cp "$SD"/demo.* /verif/seeded/$NAME/ 2>/dev/null; tail -30 $S/check.txt | cut -c1-400 > /verif/seeded/$NAME/check_output.txt; log "CONFIRMED and kept"; else log "NOT confirmed (kept only in $SD)"; tail -5 $S/cmake.log $S/dc.log $S/dp.log 2>/dev/null | cut -c1-300; fi
rm -rf $S
