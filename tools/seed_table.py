#!/usr/bin/env python3
"""Prints the markdown table of DESIGN.md Appendix C.2 from /verif/seeded/*/{meta.json, verified.json, check_result.json}."""
import glob, json, os
rows = []
for d in sorted(glob.glob("/verif/seeded/*/")):
    n = os.path.basename(d.rstrip("/"))
    if n == "own" or not os.path.exists(d + "meta.json"): continue
    try: meta = json.load(open(d + "meta.json"))
    except Exception: meta = {}
    ver = {}
    if os.path.exists(d + "verified.json"):
        raw = open(d + "verified.json").read()
        try: ver = json.loads(raw)
        except Exception:
            import re          # (written by a shell script: a backslash in the quoted first line may be unescaped)
            m1 = re.search(r'"check_exit":(\d+)', raw); m2 = re.search(r'"violation_lines":(\d+)', raw); m3 = re.search(r'"first_line":"(.*)"\}\s*$', raw, re.S)
            ver = {"check_exit": int(m1.group(1)) if m1 else None, "violation_lines": int(m2.group(1)) if m2 else 0, "first_line": m3.group(1) if m3 else ""}
    res = json.load(open(d + "check_result.json")) if os.path.exists(d + "check_result.json") else None
    # the later of the two runs counts (a seed that escaped at first is verified again after the check was extended)
    if res and os.path.exists(d + "verified.json") and os.path.getmtime(d + "verified.json") > os.path.getmtime(d + "check_result.json"): res = None
    exit_code = res["exit"] if res else ver.get("check_exit")
    nv = res["violation_lines"] if res else ver.get("violation_lines")
    first = (res["first_line"] if res else ver.get("first_line", "")) or ""
    first = first.split("#", 1)[-1].strip()[:160].replace("|", "/")
    title = str(meta.get("title", ""))[:110].replace("|", "/")
    needs = str(meta.get("needs_to_manifest", ""))[:170].replace("|", "/").replace("\n", " ")
    caught = "**caught**" if (exit_code == 1 and (nv or 0) > 0) else ("escaped (exit %s)" % exit_code)
    rows.append("| %s | %s | %s | %s | %s |" % (n, title, needs, caught, first))
print("| seed | change | needs, to manifest | verdict of `tools/check <ID> quick` | first VIOLATION line |\n|---|---|---|---|---|")
print("\n".join(rows))
