#!/bin/bash
# usage: tools/vq.sh <seed dir> <ID> <name>   - queue one seed verification (two lanes, each serialised by a lock), log to build/vseed_all.txt
L=/tmp/vseed.lock; [ $(( $(echo "$3" | cksum | cut -d' ' -f1) % 2 )) -eq 1 ] && L=/tmp/vseed2.lock
nohup flock $L /verif/tools/verify_seed.sh "$1" "$2" "$3" >> /verif/build/vseed_all.txt 2>&1 &
