#!/bin/bash
# usage: tools/vq.sh <seed dir> <ID> <name>   - queue one seed verification behind the others (serialised by a lock), log to build/vseed_all.txt
nohup flock /tmp/vseed.lock /verif/tools/verify_seed.sh "$1" "$2" "$3" >> /verif/build/vseed_all.txt 2>&1 &
