#!/usr/bin/env python3
import atexit, importlib, os, shutil, sys, traceback
sys.path.insert(0, "/verif/tools"); sys.path.insert(0, "/verif/checks")
import vlib

def main():
    if len(sys.argv) < 2:
        print("usage: check <property id> [quick|thorough]"); return 2
    pid = sys.argv[1].upper()
    tier = sys.argv[2] if len(sys.argv) > 2 else os.environ.get("VERIF_TIER", "quick")
    if tier not in ("quick", "thorough"): tier = "quick"
    seed = int(os.environ.get("VERIF_SEED", "1") or 1)
    # every run works on its own copy of the specifications: the checks generate TLC configurations next to the modules, and two
    # runs of one property at the same time (different tiers or seeds) must not see each other's generated files
    private = os.path.join(vlib.BUILD, "specrun", "%s-%d" % (pid, os.getpid()))
    shutil.rmtree(private, ignore_errors=True)
    shutil.copytree(vlib.SPEC, private, ignore=shutil.ignore_patterns("gen_*", "*_TTrace_*", "states"))
    vlib.SPEC = private
    atexit.register(shutil.rmtree, private, True)
    try:
        mod = importlib.import_module(pid.lower())
    except ImportError as ex:
        print("ERROR no check for %s: %s" % (pid, ex)); return 2
    v = vlib.Verdict(pid, tier, seed)
    try:
        level, coverage, assumptions = mod.run(v, tier, seed)
        v.write_evidence(level, coverage, assumptions)
    except vlib.MachineryError as ex:
        if v.violations:
            # the property was already seen broken on the real code before a later stage of the machinery failed (typically the same
            # change makes the real code run away in another stage): the violations stand
            print("NOTE property=%s a later stage failed after %d violation(s) had been reported: %s" % (pid, len(v.violations), str(ex)[:1500]))
            v.write_evidence("other", {"evaluations": len(v.violations), "distinct_nontrivial": len(v.violations), "rule": "run aborted by a machinery failure after violations had been found; only the violations are recorded",
                                       "samples": [str(x)[:400] for x in v.violations[:3]], "aborted": True}, [])
            return 1
        print("ERROR property=%s machinery failure: %s" % (pid, str(ex)[:6000])); return 2
    except Exception:
        print("ERROR property=%s unexpected exception in the check:" % pid); traceback.print_exc(); return 2
    if not v.violations:
        print("OK property=%s tier=%s seed=%d wall=%.1fs %s" % (pid, tier, seed, __import__("time").time() - v.t0, "known=%s" % sorted(v.known_hit) if v.known_hit else ""))
    return v.exit_code()

if __name__ == "__main__":
    sys.exit(main())
