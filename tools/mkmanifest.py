#!/usr/bin/env python3
"""Writes /verif/MANIFEST.json from the table below (one entry per property that has a check)."""
import json, subprocess
HOOK_COMMITS = subprocess.run("git -C /repo log --format=%h --grep='^verif hooks'", shell=True, stdout=subprocess.PIPE, text=True).stdout.split()
CHECKS = {
 "C18": dict(cat="model_checking", tech="TLA+ model of ReaderWriterMutex.cpp checked by TLC (safety + liveness); every transition of the model replayed on the real mutex under a controlled scheduler; recorded executions validated against the model by TLC",
   text="TLC explores every interleaving of 2 (thorough: also 3) threads x 3 calls (all lock/try/timed/unlock calls, recursion, upgrade, both preference settings) of a specification that mirrors the code one critical section per action, and checks exclusion, exact counts, unchanged state on failure, deadlines, writer preference and (under fairness) that no waiter is stranded. The binding to the code is a path cover of every transition of that state graph replayed on the real ReaderWriterMutex with real threads stopped at exactly the specification's stop points, comparing the linearization-point events and running a property monitor; plus seeded random schedules of 4 threads x 6 calls whose event traces TLC validates against the same specification.",
   note="sequentially consistent interleavings of the hooked operations only; timed waits are fired by the scheduler, not by the clock; std::mutex / condition_variable trusted",
   ref="DESIGN.md section 5 C18"),
}
NOT_YET = {}
ALL = ["C%02d" % i for i in range(1, 21)]
m = {"version": 1,
     "setup_cmd": "make -C /verif/harness -j16 V=plain lib && make -C /verif/harness -j16 V=asan lib",
     "hooks": {"guard": "MUSCLE_VERIF_HOOKS", "enable": "harness/Makefile compiles /repo's working tree with -DMUSCLE_VERIF_HOOKS into /verif/build/<variant>/",
               "baseline_off_cmd": "cmake --build /repo/_build -j16 && ctest --test-dir /repo/_build -j8 --timeout 900 -E testserial",
               "source_commits": HOOK_COMMITS, "add_only": True},
     "engines": [{"name": "tlc", "path": "/opt/veriftools/tla/tla2tools.jar", "serves_properties": sorted(CHECKS), "kind_free_text": "explicit-state model checker for the TLA+ specifications under /verif/spec"},
                 {"name": "harness", "path": "/verif/harness", "serves_properties": sorted(CHECKS), "kind_free_text": "C++ conformance harnesses (replayers, recorders, controlled scheduler) built against /repo's working tree"}],
     "checks": [], "not_applicable": [],
     "notes": "tools/check <id> <tier>: exit 0 = held (KNOWN-FINDING lines possible), 1 = VIOLATION line printed, 2 = ERROR (machinery failure, never a verdict). See DESIGN.md."}
for pid in ALL:
    if pid in CHECKS:
        c = CHECKS[pid]
        m["checks"].append({"property_id": pid, "quick_cmd": "tools/check %s quick" % pid, "thorough_cmd": "tools/check %s thorough" % pid,
                            "evidence_file": "/verif/evidence/%s.json" % pid, "replay_cmd_template": "cat {path}", "engine": "tlc",
                            "level_claimed": {"category": c["cat"], "text": c["text"], "design_ref": c["ref"]}, "level_note": c["note"], "technique": c["tech"]})
    else:
        m["not_applicable"].append({"property_id": pid, "reason": NOT_YET.get(pid, "not claimed yet: the check for this property is designed (DESIGN.md section 5) but not built at this commit")})
json.dump(m, open("/verif/MANIFEST.json", "w"), indent=1)
print("checks:", [c["property_id"] for c in m["checks"]])
