#!/bin/bash
# usage: tools/run_seeded.sh [name ...]   - runs the property's quick check against every kept seeded change (scratch copy), records the verdict
# in /verif/seeded/<name>/check_result.json and prints one summary line per seed.
cd /verif/seeded || exit 2
NAMES="$@"; [ -z "$NAMES" ] && NAMES=$(ls -d */ | tr -d / | grep -v "^own$")
for n in $NAMES; do
  [ -f $n/patch.diff ] || continue
  ID=$(python3 -c "import json;print(json.load(open('$n/meta.json')).get('property','?'))" 2>/dev/null | grep -o "C[0-9][0-9]" | head -1)
  [ -z "$ID" ] && ID=$(echo $n | grep -o "^c[0-9][0-9]" | tr c C)
  S=/tmp/rs.$$.$n; mkdir -p $S; rsync -a --exclude _build --exclude .git /repo/ $S/repo/
  if ( cd $S/repo && patch -p1 -s < /verif/seeded/$n/patch.diff ); then
    VERIF_REPO=$S/repo VERIF_BUILD=$S/build VERIF_OUT=$S/out VERIF_EVIDENCE=$S/ev timeout 1800 /verif/tools/check $ID quick > $S/out.txt 2>&1; rc=$?
    nv=$(grep -c "^VIOLATION" $S/out.txt); first=$(grep -m1 "^VIOLATION\|^ERROR\|^DRIFT" $S/out.txt | sed 's/replay=[^ ]* *# *//' | cut -c1-300)
    python3 - "$n" "$ID" "$rc" "$nv" "$first" <<'PY'
import json,sys
n,ID,rc,nv,first=sys.argv[1:6]
json.dump({"seed":n,"property":ID,"check":"tools/check %s quick"%ID,"exit":int(rc),"violation_lines":int(nv),"caught":int(rc)==1 and int(nv)>0,"first_line":first},open('/verif/seeded/%s/check_result.json'%n,'w'),indent=1)
print("%s %s exit=%s violations=%s %s"%(n,ID,rc,nv,first[:150]))
PY
  else echo "$n patch does not apply to the current /repo"; fi
  rm -rf $S
done
