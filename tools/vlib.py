#!/usr/bin/env python3
"""Common machinery for the /verif checks: build, TLC runs, behaviour extraction, evidence, verdicts.

Exit-code convention of tools/check (see DESIGN.md 2.4):
  0 = property held on everything explored (KNOWN-FINDING lines may have been printed)
  1 = VIOLATION property=<id> replay=<path> was printed
  2 = ERROR: the machinery itself failed (never printed as a violation)
"""
import fcntl, hashlib, json, os, re, shutil, subprocess, sys, time

VERIF = "/verif"
REPO = os.environ.get("VERIF_REPO", "/repo")
BUILD = os.environ.get("VERIF_BUILD", os.path.join(VERIF, "build"))      # scratch runs against a mutated copy of the repository use their own
OUT = os.environ.get("VERIF_OUT", os.path.join(VERIF, "out"))
EVIDENCE = os.environ.get("VERIF_EVIDENCE", os.path.join(VERIF, "evidence"))
SPEC = os.path.join(VERIF, "spec")
TLA_JAR = "/opt/veriftools/tla/tla2tools.jar"
NCPU = os.cpu_count() or 4


class MachineryError(Exception):
    pass


def log(*a):
    print(*a, flush=True)


# ----------------------------------------------------------------------------------------------
# build

def make(variant, *targets, extra=None):
    """Builds the named harness programs (and the library they need) from /repo's working tree."""
    os.makedirs(BUILD, exist_ok=True)
    lock = open(os.path.join(BUILD, ".lock-" + variant), "w")
    fcntl.flock(lock, fcntl.LOCK_EX)
    try:
        cmd = ["make", "-C", os.path.join(VERIF, "harness"), "-j%d" % NCPU, "V=" + variant, "REPO=" + REPO, "BROOT=" + BUILD]
        cmd += ["bin/" + t for t in targets] if targets else ["lib"]
        if extra: cmd += extra
        t0 = time.time()
        r = subprocess.run(cmd, stdout=subprocess.PIPE, stderr=subprocess.STDOUT, text=True)
        if r.returncode != 0:
            raise MachineryError("build failed (%s):\n%s" % (" ".join(cmd), r.stdout[-4000:]))
        return time.time() - t0
    finally:
        fcntl.flock(lock, fcntl.LOCK_UN)
        lock.close()


def make_with_fallback(variant, name):
    """Builds harness <name>; if that fails (typically because a refactoring of the library's private members broke the harness's
    private-state access) builds <name>_np, the variant compiled with -DVERIF_NO_PRIVATE that uses the public API only.
    Returns (binary name, private_state_available)."""
    try:
        make(variant, name)
        return name, True
    except MachineryError as first:
        try:
            make(variant, name + "_np")
        except MachineryError:
            raise first
        log("NOTE harness %s does not compile against this tree with private-state access; using the public-API-only variant %s_np (stages that need private state are skipped)" % (name, name))
        return name + "_np", False


def binpath(variant, name):
    return os.path.join(BUILD, variant, "bin", name)


SAN_ENV = {
    "ASAN_OPTIONS": "detect_leaks=0:abort_on_error=0:exitcode=66:allocator_may_return_null=1:max_allocation_size_mb=4096:detect_stack_use_after_return=0",
    "UBSAN_OPTIONS": "halt_on_error=1:print_stacktrace=1:exitcode=67",
}


def run(cmd, timeout=600, env=None, stdin=None, cwd=None):
    e = dict(os.environ)
    e.update(SAN_ENV)
    if env: e.update(env)
    try:
        r = subprocess.run(cmd, stdout=subprocess.PIPE, stderr=subprocess.PIPE, text=True, errors="replace", timeout=timeout, env=e, input=stdin, cwd=cwd)
        return r.returncode, r.stdout, r.stderr
    except subprocess.TimeoutExpired as ex:
        so = ex.stdout.decode(errors="replace") if isinstance(ex.stdout, bytes) else (ex.stdout or "")
        se = ex.stderr.decode(errors="replace") if isinstance(ex.stderr, bytes) else (ex.stderr or "")
        return -999, so, se + "\n[TIMEOUT after %ds]" % timeout


CRASH_CODES = (-6, -11, -8, -4, -7, 134, 139, 136, 132, 135)


def crashed(rc):
    """the harness process was killed by SIGABRT / SIGSEGV / SIGFPE / SIGILL / SIGBUS while running the real code"""
    return rc in CRASH_CODES


def harness_failed(v, rc, out, err, what, tag):
    """Call when a harness returned non-zero.  A crash of the real code under the harness (library assertion -> abort, segfault) is a
    VIOLATION (the code died while the property was being exercised); a sanitizer exit is a VIOLATION; anything else is a machinery error."""
    tail = (err or "")[-2500:] + (out or "")[-500:]
    if crashed(rc):
        v.violation("%s: the process running the real code died with signal/exit %s (library assertion or crash): %s" % (what, rc, tail[-700:].replace("\n", " | ")), {"cmd": what, "rc": rc, "output_tail": tail}, tag=tag)
        return True
    if rc in (66, 67) or "ERROR: AddressSanitizer" in (err or "") or "runtime error:" in (err or ""):
        v.violation("%s: sanitizer report: %s" % (what, tail[:1200].replace("\n", " | ")), {"cmd": what, "rc": rc, "output_tail": tail}, tag=tag)
        return True
    raise MachineryError("%s failed rc=%s: %s" % (what, rc, tail))


# ----------------------------------------------------------------------------------------------
# TLC

class TLCResult:
    def __init__(self):
        self.rc = None; self.out = ""; self.generated = 0; self.distinct = 0; self.depth = 0
        self.violated = None       # name of violated invariant / property, or None
        self.error = None          # machinery-level error text
        self.coverage = {}         # action name -> (taken, generated-distinct)
        self.printed = []          # values printed by PrintT markers (already JSON-decoded)
        self.wall = 0.0
        self.postcondition_failed = False
        self.sim_traces = 0

    def ok(self):
        return self.error is None and self.violated is None and not self.postcondition_failed


_tlc_counter = [0]


def tlc(module, cfg, specdir, workers=None, timeout=900, env=None, simulate=None, depth=None, seed=None,
        coverage=False, deadlock=False, heap="8g", extra=None, marker="@@", deque=False, dump=None, keep_out=False):
    """Runs TLC on spec/<specdir>/<module>.tla with <cfg>.  Returns a TLCResult.
    Lines printed by the spec as  PrintT(<<"@@", jsonstring>>)  or PrintT("@@" \\o jsonstring) are collected in .printed."""
    _tlc_counter[0] += 1
    sd = os.path.join(SPEC, specdir)
    meta = os.path.join(BUILD, "tlc", "%s-%d-%d" % (module, os.getpid(), _tlc_counter[0]))
    os.makedirs(meta, exist_ok=True)
    jopts = ["-XX:+UseParallelGC", "-XX:ParallelGCThreads=2", "-Xmx" + heap, "-Xss512m", "-Djava.io.tmpdir=" + meta]
    if deque: jopts.append("-Dtlc2.tool.queue.IStateQueue=StateDeque")
    cmd = ["java"] + jopts + ["-cp", _classpath(), "tlc2.TLC"]
    cmd += ["-metadir", meta, "-noGenerateSpecTE", "-config", cfg, "-workers", str(workers or NCPU)]
    if not deadlock: cmd += ["-deadlock"]
    if coverage: cmd += ["-coverage", "1"]
    if simulate is not None:
        cmd += ["-simulate", "num=%d" % simulate]
        if depth: cmd += ["-depth", str(depth)]
    elif depth: cmd += ["-depth", str(depth)]  # harmless for BFS
    if seed is not None: cmd += ["-seed", str(seed)]
    if dump: cmd += ["-dump", "dot,actionlabels", dump]
    if extra: cmd += extra
    cmd += [module + ".tla"]
    e = dict(os.environ)
    if env: e.update({k: str(v) for k, v in env.items()})
    res = TLCResult()
    t0 = time.time()
    try:
        r = subprocess.run(cmd, cwd=sd, stdout=subprocess.PIPE, stderr=subprocess.STDOUT, text=True, errors="replace", timeout=timeout, env=e)
        res.rc = r.returncode; res.out = r.stdout
    except subprocess.TimeoutExpired as ex:
        res.rc = -999
        res.out = ex.stdout.decode(errors="replace") if isinstance(ex.stdout, bytes) else (ex.stdout or "")
        res.error = "TLC timeout after %ds" % timeout
    finally:
        shutil.rmtree(meta, ignore_errors=True)
    res.wall = time.time() - t0
    _parse_tlc(res, marker)
    if not keep_out and res.ok():
        # keep memory down: printed values are already extracted
        res.out = "\n".join(l for l in res.out.splitlines() if not l.startswith('"' + marker) and not l.startswith('<<"' + marker))[-20000:]
    return res


_cp_cache = []


def _classpath():
    if not _cp_cache:
        d = os.path.dirname(TLA_JAR)
        jars = [TLA_JAR] + sorted(os.path.join(d, f) for f in os.listdir(d) if f.endswith(".jar") and os.path.join(d, f) != TLA_JAR)
        _cp_cache.append(":".join(jars))
    return _cp_cache[0]


def _parse_tlc(res, marker):
    out = res.out
    m = None
    for m in re.finditer(r"(\d+) states generated, (\d+) distinct states found", out): pass
    if m: res.generated, res.distinct = int(m.group(1)), int(m.group(2))
    m = re.search(r"The depth of the complete state graph search is (\d+)", out)
    if m: res.depth = int(m.group(1))
    m = re.search(r"Invariant (\S+) is violated", out)
    if m: res.violated = m.group(1)
    if res.violated is None:
        m = re.search(r"Temporal properties were violated|Action property (\S+) is violated|property (\S+) is violated", out)
        if m: res.violated = m.group(1) or m.group(2) or "temporal"
    if "Deadlock reached" in out and res.violated is None: res.violated = "Deadlock"
    if re.search(r"The postcondition has failed|Evaluating the postcondition .* failed|POSTCONDITION .* violated|postcondition.*(false|violated)", out, re.I):
        res.postcondition_failed = True
    m = re.search(r"The number of states generated: (\d+)", out)
    if m and res.generated == 0: res.generated = int(m.group(1))
    for m in re.finditer(r"^<(\w+) line \d+, col \d+ to line \d+, col \d+ of module \w+>(?: \([\d ]+\))?: (\d+):(\d+)", out, re.M):
        a, taken, gen = m.group(1), int(m.group(2)), int(m.group(3))
        t0, g0 = res.coverage.get(a, (0, 0))
        res.coverage[a] = (t0 + taken, g0 + gen)
    pre1 = '"' + marker
    for line in out.splitlines():
        if line.startswith(pre1):
            try:
                s = json.loads(line)          # TLC prints a TLA+ string literal, which is JSON-compatible
                res.printed.append(json.loads(s[len(marker):]))
            except Exception as ex:
                res.error = res.error or ("cannot decode printed line: %r (%s)" % (line[:200], ex))
    if res.error is None and res.violated is None and not res.postcondition_failed:
        if "Error:" in out or (res.rc not in (0,) and res.rc is not None):
            # keep the first error paragraph
            i = out.find("Error:")
            res.error = "TLC failed rc=%s: %s" % (res.rc, out[i:i + 1500] if i >= 0 else out[-1500:])


def require_ok(res, what):
    """A model-level failure is a machinery error (exit 2), never a VIOLATION: the model is not the code."""
    if res.error: raise MachineryError("%s: %s" % (what, res.error))
    if res.violated or res.postcondition_failed:
        raise MachineryError("%s: the specification itself violates %s on the bounded model (model bug or design defect, not a verdict on the code):\n%s" % (what, res.violated or "postcondition", res.out[-3000:]))


def require_coverage(res, actions, what):
    """Vacuity guard: every named action must have been taken at least once."""
    missing = [a for a in actions if res.coverage.get(a, (0, 0))[0] == 0]
    if missing: raise MachineryError("%s: vacuity guard: actions never taken: %s" % (what, missing))


# ----------------------------------------------------------------------------------------------
# known findings, verdicts, evidence

def load_known():
    p = os.path.join(VERIF, "known_findings.json")
    if not os.path.exists(p): return []
    return json.load(open(p)).get("findings", [])


class Verdict:
    def __init__(self, pid, tier, seed):
        self.pid, self.tier, self.seed = pid, tier, seed
        self.violations = []       # (what, replay path)
        self.known_hit = {}        # finding id -> text
        self.drift = 0
        self.t0 = time.time()
        self.known = [k for k in load_known() if k.get("property") == pid and k.get("status", "open") == "open"]
        os.makedirs(os.path.join(OUT, pid), exist_ok=True)

    def known_finding(self, fid, text=None):
        """The directed case of a listed finding reproduced (defect still present)."""
        k = [x for x in self.known if x["id"] == fid]
        if not k: return False
        if fid not in self.known_hit:
            self.known_hit[fid] = text or k[0]["what"]
            log("KNOWN-FINDING: property=%s %s: %s" % (self.pid, fid, text or k[0]["what"]))
        return True

    def is_listed(self, fid):
        return any(x["id"] == fid for x in self.known)

    def violation(self, what, replay_obj, tag=None):
        n = len(self.violations)
        p = os.path.join(OUT, self.pid, "violation-%s-%d.json" % (tag or self.tier, n))
        with open(p, "w") as f: json.dump({"property": self.pid, "what": what, "seed": self.seed, "tier": self.tier, "replay": replay_obj}, f, indent=1, default=str)
        self.violations.append((what, p))
        if n < 10: log("VIOLATION property=%s replay=%s  # %s" % (self.pid, p, what[:300]))

    def write_evidence(self, level, coverage, assumptions):
        ev = {"property_id": self.pid, "tier": self.tier, "seed": self.seed, "level": level, "coverage": coverage,
              "assumptions": assumptions, "wall_s": round(time.time() - self.t0, 2), "violations": len(self.violations),
              "known_findings_reproduced": sorted(self.known_hit), "drift": self.drift,
              "repo_head": _git_head(), "repo_dirty": _git_dirty()}
        os.makedirs(EVIDENCE, exist_ok=True)
        with open(os.path.join(EVIDENCE, self.pid + ".json"), "w") as f: json.dump(ev, f, indent=1, default=str)
        return ev

    def exit_code(self):
        return 1 if self.violations else 0


def _git_head():
    try: return subprocess.run(["git", "-C", REPO, "rev-parse", "--short", "HEAD"], stdout=subprocess.PIPE, text=True).stdout.strip()
    except Exception: return "?"


def _git_dirty():
    try: return bool(subprocess.run(["git", "-C", REPO, "status", "--porcelain", "--untracked-files=no"], stdout=subprocess.PIPE, text=True).stdout.strip())
    except Exception: return None


def sha(obj):
    return hashlib.sha1(json.dumps(obj, sort_keys=True, default=str).encode()).hexdigest()[:16]


def read_ndjson(path):
    out = []
    with open(path) as f:
        for line in f:
            line = line.strip()
            if line: out.append(json.loads(line))
    return out


def write_ndjson(path, rows):
    os.makedirs(os.path.dirname(path), exist_ok=True)
    with open(path, "w") as f:
        for r in rows: f.write(json.dumps(r, separators=(",", ":")) + "\n")


def scratch(pid, name):
    d = os.path.join(BUILD, "work", pid)
    os.makedirs(d, exist_ok=True)
    return os.path.join(d, name)
