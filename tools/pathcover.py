#!/usr/bin/env python3
"""Turns a TLC state-graph dump (-dump dot,actionlabels) into a set of behaviours that covers every
transition of the graph at least once (one implementation test per transition, grouped into paths).

Every specification of /verif that is replayed into the code carries a variable `last` holding the JSON
text of the step that led to the state (action, arguments, expected observable outcome).  A behaviour is the
list of those records along a path from the initial state to a terminal state (or to `maxlen`)."""
import collections, json, re, sys


def _unescape_dot(s):
    out = []; i = 0; n = len(s)
    while i < n:
        c = s[i]
        if c == "\\" and i + 1 < n:
            d = s[i + 1]
            out.append("\n" if d == "n" else d)
            i += 2
        else:
            out.append(c); i += 1
    return "".join(out)


_node_re = re.compile(r'^(-?\d+) \[label="')
_edge_re = re.compile(r'^(-?\d+) -> (-?\d+) \[label="(.*?)",color=')


class _TlaParser:
    """Parses the TLA+ value text TLC prints (ints, strings, booleans, tuples, sets, records, functions)."""
    def __init__(self, s): self.s = s; self.i = 0
    def ws(self):
        while self.i < len(self.s) and self.s[self.i] in " \n\t\r": self.i += 1
    def lit(self, t):
        self.ws()
        if self.s.startswith(t, self.i): self.i += len(t); return True
        return False
    def value(self):
        self.ws(); s = self.s; c = s[self.i]
        if c == '"':
            j = self.i + 1; out = []
            while s[j] != '"':
                if s[j] == "\\": out.append(s[j + 1]); j += 2
                else: out.append(s[j]); j += 1
            self.i = j + 1; return "".join(out)
        if s.startswith("<<", self.i):
            self.i += 2; out = []
            if self.lit(">>"): return out
            while True:
                out.append(self.value())
                if self.lit(","): continue
                if self.lit(">>"): return out
                raise ValueError("bad tuple at %d" % self.i)
        if c == "{":
            self.i += 1; out = []
            if self.lit("}"): return out
            while True:
                out.append(self.value())
                if self.lit(","): continue
                if self.lit("}"): return out
                raise ValueError("bad set at %d" % self.i)
        if c == "[":
            self.i += 1; out = {}
            if self.lit("]"): return out
            while True:
                self.ws(); m = re.compile(r"\w+").match(s, self.i); k = m.group(0); self.i = m.end()
                if not self.lit("|->"): raise ValueError("bad record at %d" % self.i)
                out[k] = self.value()
                if self.lit(","): continue
                if self.lit("]"): return out
                raise ValueError("bad record at %d" % self.i)
        if c == "(":
            self.i += 1; out = {}
            while True:
                k = self.value()
                if not self.lit(":>"): raise ValueError("bad function at %d" % self.i)
                out[str(k)] = self.value()
                if self.lit("@@"): continue
                if self.lit(")"): return out
                raise ValueError("bad function at %d" % self.i)
        m = re.compile(r"-?\d+").match(s, self.i)
        if m: self.i = m.end(); return int(m.group(0))
        m = re.compile(r"\w+").match(s, self.i)
        if m:
            self.i = m.end(); w = m.group(0)
            return True if w == "TRUE" else False if w == "FALSE" else w
        raise ValueError("bad value at %d: %r" % (self.i, s[self.i:self.i + 30]))


def parse_tla(text):
    return _TlaParser(text).value()


def _extract_last(line, var):
    key = "/\\\\ " + var + " = "
    i = line.find(key)
    if i < 0: return None
    j = line.find("\\n/\\\\ ", i + 4)
    k = line.rfind('"') if j < 0 else j
    tla = _unescape_dot(line[i + len(key):k]).strip()
    return parse_tla(tla)


def load_graph(path, var="last"):
    """returns (init_ids, nodes{id: last-record or None}, adj{id: [(dst, label)]})"""
    nodes = {}; adj = collections.defaultdict(list); seen_edges = set(); inits = []
    with open(path, errors="replace") as f:
        for line in f:
            m = _edge_re.match(line)
            if m:
                a, b, lab = int(m.group(1)), int(m.group(2)), m.group(3)
                if (a, b) not in seen_edges:
                    seen_edges.add((a, b)); adj[a].append((b, lab))
                continue
            m = _node_re.match(line)
            if m:
                nid = int(m.group(1))
                if nid not in nodes:
                    # only look at the label part (the tooltip repeats it)
                    t = line.find('",tooltip="')
                    lab = line if t < 0 else line[:t + 2]
                    nodes[nid] = _extract_last(lab, var)
                if line.rstrip().endswith("style = filled]") and nid not in inits: inits.append(nid)
    return inits, nodes, adj


def cover(inits, nodes, adj, maxlen=200, want_terminal=True, limit=None):
    """Greedy edge cover by paths from an initial state.  Returns list of paths (lists of node ids, first = an init)."""
    # BFS tree from the initial states
    parent = {}; order = []
    dq = collections.deque()
    for i in inits:
        parent[i] = None; dq.append(i)
    while dq:
        u = dq.popleft(); order.append(u)
        for (v, _) in adj.get(u, ()):
            if v not in parent:
                parent[v] = u; dq.append(v)
    # distance to a terminal state (no successors other than itself) via reverse BFS
    radj = collections.defaultdict(list)
    for u in order:
        for (v, _) in adj.get(u, ()):
            if v != u: radj[v].append(u)
    term = [u for u in order if not [v for (v, _) in adj.get(u, ()) if v != u]]
    nxt = {}; dq = collections.deque()
    for t in term:
        nxt[t] = None; dq.append(t)
    while dq:
        v = dq.popleft()
        for u in radj.get(v, ()):
            if u not in nxt:
                nxt[u] = v; dq.append(u)
    covered = set(); paths = []

    def prefix(u):
        p = []
        while u is not None:
            p.append(u); u = parent[u]
        p.reverse(); return p

    for u in order:
        for (v, _) in adj.get(u, ()):
            if (u, v) in covered or v == u: continue
            p = prefix(u); p.append(v)
            cur = v
            while len(p) < maxlen:
                outs = [w for (w, _) in adj.get(cur, ()) if w != cur]
                if not outs: break
                unc = [w for w in outs if (cur, w) not in covered and (cur, w) not in set(zip(p, p[1:]))]
                if unc: w = unc[0]
                elif want_terminal and nxt.get(cur) is not None: w = nxt[cur]
                else: break
                p.append(w); cur = w
            for a, b in zip(p, p[1:]): covered.add((a, b))
            paths.append(p)
            if limit and len(paths) >= limit: return paths, len(covered), sum(len(x) for x in adj.values())
    return paths, len(covered), sum(1 for u in adj for (v, _) in adj[u] if v != u)


def behaviours(dotfile, var="last", maxlen=200, limit=None):
    inits, nodes, adj = load_graph(dotfile, var)
    paths, ncov, nedges = cover(inits, nodes, adj, maxlen=maxlen, limit=limit)
    out = []
    for p in paths:
        steps = [nodes[n] for n in p[1:]]
        if any(s is None for s in steps):
            raise RuntimeError("state without a '%s' record on a path" % var)
        out.append(steps)
    return out, {"graph_states": len(nodes), "graph_edges": nedges, "edges_covered": ncov, "paths": len(paths)}


if __name__ == "__main__":
    b, st = behaviours(sys.argv[1])
    sys.stderr.write(json.dumps(st) + "\n")
    for i, steps in enumerate(b):
        sys.stdout.write(json.dumps({"id": i, "steps": steps}, separators=(",", ":")) + "\n")
