#!/bin/sh
# usage: tools/try_mutant.sh <patch file> <property id> [tier] [timeout_s]
# Applies the patch to a SCRATCH COPY of /repo (never to /repo itself), runs the check against the copy with its own build/out/evidence
# directories, prints the verdict, removes the scratch.  Safe to run while other work builds from /repo.
set -u
P="$1"; ID="$2"; TIER="${3:-quick}"; TO="${4:-900}"
S=/tmp/mut.$$; mkdir -p $S
rsync -a --exclude _build --exclude .git /repo/ $S/repo/
( cd $S/repo && patch -p1 -s < "$P" ) || { echo "patch does not apply"; rm -rf $S; exit 3; }
VERIF_REPO=$S/repo VERIF_BUILD=$S/build VERIF_OUT=$S/out VERIF_EVIDENCE=$S/ev timeout $TO /verif/tools/check "$ID" "$TIER" > $S/out.txt 2>&1; rc=$?
grep -c "^VIOLATION" $S/out.txt | sed "s/^/violation lines: /"
grep -m3 "^VIOLATION\|^ERROR\|^DRIFT\|^KNOWN" $S/out.txt | cut -c1-300
echo "exit=$rc"
rm -rf $S
