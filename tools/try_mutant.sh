#!/bin/sh
# usage: tools/try_mutant.sh <patch file | -R patch file> <property id> [tier]   -- applies the patch to /repo, runs the check, restores /repo
set -u
REV=""; if [ "$1" = "-R" ]; then REV="-R"; shift; fi
P="$1"; ID="$2"; TIER="${3:-quick}"
git -C /repo apply $REV "$P" || { echo "patch does not apply"; exit 3; }
/verif/tools/check "$ID" "$TIER" > /verif/build/mutant.out 2>&1; rc=$?
git -C /repo checkout -- . 
grep -c "^VIOLATION" /verif/build/mutant.out | sed "s/^/violation lines: /"
grep -m3 "^VIOLATION\|^ERROR\|^DRIFT\|^KNOWN" /verif/build/mutant.out | cut -c1-400
echo "exit=$rc"
