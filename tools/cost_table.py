#!/usr/bin/env python3
"""Prints the measured table of DESIGN.md section 6 from /verif/evidence/C*.json (last quick run of every check)."""
import glob, json
print("| id | level | TLC states / transitions | evaluations (distinct non-trivial) | traces / behaviours bound to the code | known findings reproduced | drift | quick wall |\n|---|---|---|---|---|---|---|---|")
for f in sorted(glob.glob("/verif/evidence/C[0-9][0-9].json")):
    e = json.load(open(f)); c = e.get("coverage", {})
    print("| %s | %s | %s / %s | %s (%s) | %s | %s | %s | %.0f s |" % (e["property_id"], e["level"], c.get("states", "-"), c.get("transitions", "-"), c.get("evaluations", "-"), c.get("distinct_nontrivial", "-"),
          c.get("traces_validated_against_impl", "-"), ", ".join(e.get("known_findings_reproduced", [])) or "-", e.get("drift", 0), e.get("wall_s", 0)))
