// C06 part of harness/srv.cpp (included there): replay of Isolation.tla behaviours and seeded random hostile histories.
#include <random>

static const char * MODEL_SESS[] = {"s1", "s2", "s3"};
static const char * OBS_HOST = "hO";

static std::vector<std::string> SplitPath(const std::string & p)   // "/a//b" -> ["a","","b"];  "/" -> []
{
   std::vector<std::string> v; if (p.size() <= 1) return v;
   size_t b = 1; while (true) {size_t s = p.find('/', b); v.push_back(p.substr(b, (s == std::string::npos) ? std::string::npos : s-b)); if (s == std::string::npos) break; b = s+1;}
   return v;
}
static std::string JoinPath(const std::vector<std::string> & v, size_t n = (size_t) -1) {std::string s; for (size_t i=0; (i<v.size())&&(i<n); i++) {s += '/'; s += v[i];} return s.empty() ? "/" : s;}
static bool IsIName(const std::string & s) {if ((s.size() < 2)||(s[0] != 'I')) return false; for (size_t i=1; i<s.size(); i++) if ((s[i] < '0')||(s[i] > '9')) return false; return true;}
static bool ClauseMatch(const std::string & pat, const std::string & name)   // the pattern menu of the model: "*", comma list of literals, literal
{
   if (pat == "*") return true;
   if (pat.find('\\') != std::string::npos) {std::string u; for (size_t i=0; i<pat.size(); i++) {if ((pat[i] == '\\')&&(i+1 < pat.size())) i++; u += pat[i];} return u == name;}   // escaped token characters: the literal name
   size_t b = 0; while (true) {size_t c = pat.find(',', b); if (pat.substr(b, (c == std::string::npos) ? std::string::npos : c-b) == name) return true; if (c == std::string::npos) break; b = c+1;}
   return false;
}
static bool PatMatch(const std::vector<std::string> & pat, const std::vector<std::string> & path)
{
   if (pat.size() != path.size()) return false;
   for (size_t i=0; i<pat.size(); i++) if (!ClauseMatch(pat[i], path[i])) return false;
   return true;
}

// the observable state in canonical lines (model names for session ids)
struct Snap {
   std::map<std::string, uint32> tree;                               // path -> what
   std::map<std::string, std::string> idx;                            // path -> "I0,I1"
   std::map<std::string, std::map<std::string, uint32> > marks;       // path -> session name (or "#<id>" of an unknown session) -> count
   std::map<std::string, std::set<std::string> > params, psub;        // session -> "name=value" ; session -> "/abs/pattern" or "rel/pattern"
   std::set<std::string> conn;
   std::map<std::string, std::map<std::string, uint32> > mirror;      // session -> path -> what
   void Lines(std::set<std::string> & out) const
   {
      char b[64];
      for (std::map<std::string, uint32>::const_iterator i = tree.begin(); i != tree.end(); ++i) {snprintf(b, sizeof(b), "%u", i->second); out.insert("tree " + i->first + " = " + b);}
      for (std::map<std::string, std::string>::const_iterator i = idx.begin(); i != idx.end(); ++i) if (!i->second.empty()) out.insert("idx " + i->first + " = " + i->second);
      for (std::map<std::string, std::map<std::string, uint32> >::const_iterator i = marks.begin(); i != marks.end(); ++i) for (std::map<std::string, uint32>::const_iterator j = i->second.begin(); j != i->second.end(); ++j) if (j->second) {snprintf(b, sizeof(b), "%u", j->second); out.insert("marks " + i->first + " " + j->first + " = " + b);}
      for (std::map<std::string, std::set<std::string> >::const_iterator i = params.begin(); i != params.end(); ++i) for (std::set<std::string>::const_iterator j = i->second.begin(); j != i->second.end(); ++j) out.insert("param " + i->first + " " + *j);
      for (std::map<std::string, std::set<std::string> >::const_iterator i = psub.begin(); i != psub.end(); ++i) for (std::set<std::string>::const_iterator j = i->second.begin(); j != i->second.end(); ++j) out.insert("sub " + i->first + " " + *j);
      for (std::set<std::string>::const_iterator i = conn.begin(); i != conn.end(); ++i) out.insert("conn " + *i);
      for (std::map<std::string, std::map<std::string, uint32> >::const_iterator i = mirror.begin(); i != mirror.end(); ++i) for (std::map<std::string, uint32>::const_iterator j = i->second.begin(); j != i->second.end(); ++j) {snprintf(b, sizeof(b), "%u", j->second); out.insert("mirror " + i->first + " " + j->first + " = " + b);}
   }
};

// (server-chosen index-child names "I<k>" come from a per-node counter that starts at 0 for every new node - since the repair of F40 also for a
// recycled one -, exactly as the specification's `ctr`; no renaming is needed)
struct Ranker {
   void Build(const std::map<std::string, uint32> &) {}
   const Snap & Apply(const Snap & s) const {return s;}
};

struct IsoWorld {
   World w; Client * s[3]; Client * obs; Client * obs0; int bystanderSeq;
   std::vector<std::string> viol, drift;
   std::set<std::pair<std::string, std::string> > hush;   // (session, node path): its mirror may lag for this node because of a QUIET change (documented: "suppress the node-updated-notifications"), until it agrees again
   void V(const std::string & x) {if (viol.size() < 8) viol.push_back(x);}
   void D(const std::string & x) {if (drift.size() < 8) drift.push_back(x);}

   IsoWorld() : bystanderSeq(0) {obs0 = w.Add("obs0", OBS_HOST); s[0] = w.Add("s1", "hA"); s[1] = w.Add("s2", "hA"); s[2] = w.Add("s3", "hB"); obs = w.Add("obs", OBS_HOST); w.Settle();}
   // a connection ends while OTHER clients' commands are waiting to be handled in the same pass of the server's event loop: one bystander attached before, one
   // after every model session creates a node (matched by the usual "*" subscriptions) - their bytes are in the sockets, the server has not been pumped yet
   void CloseAmidTraffic(Client * d)
   {
      char nm[24]; snprintf(nm, sizeof(nm), "k%d", ++bystanderSeq);
      Client * by[2] = {obs0, obs}; for (int i=0; i<2; i++) if ((by[i]->connected)&&(w.Attached(by[i]))) {MessageRef m = Msg(PR_COMMAND_SETDATA); m()->AddMessage(nm, Msg(21)); m()->AddMessage((std::string(nm)+"/x").c_str(), Msg(22)); w.Send(by[i], m); by[i]->Flush();}
      w.Close(d); w.Settle();
   }
   Client * By(const std::string & n) {for (int i=0; i<3; i++) if (s[i]->name == n) return s[i]; return NULL;}
   std::string NameOfId(const std::string & id) const {for (int i=0; i<3; i++) if (s[i]->id == id) return s[i]->name; return id;}
   std::string IdOfName(const std::string & n) const {for (int i=0; i<3; i++) if (s[i]->name == n) return s[i]->id; return n;}
   std::string ToModelPath(const std::string & p) const {std::vector<std::string> v = SplitPath(p); for (size_t i=0; i<v.size(); i++) v[i] = NameOfId(v[i]); return JoinPath(v);}
   // model clause -> real clause: session names (also inside comma lists) become session ids
   std::string RealClause(const std::string & c) const
   {
      std::string out, cur; for (size_t k=0; k<=c.size(); k++) {if ((k == c.size())||(c[k] == ',')) {out += IdOfName(cur); if (k < c.size()) out += ','; cur.clear();} else cur += c[k];}
      return out;
   }
   bool IsObsPath(const std::string & p) const {return (p.compare(0, 3, std::string("/")+OBS_HOST) == 0)&&((p.size() == 3)||(p[3] == '/'));}

   // ---- reading the true state, in-process
   void Walk(DataNode & n, Snap & out) const
   {
      String np; (void) n.GetNodePath(np); const std::string rp = np();
      if ((n.GetDepth() >= 1)&&(!IsObsPath(rp))) {
         const std::string mp = ToModelPath(rp);
         out.tree[mp] = n.GetData()() ? n.GetData()()->what : 0;
         if ((n.GetIndex())&&(n.GetIndex()->HasItems())) {std::string l; for (uint32 i=0; i<n.GetIndex()->GetNumItems(); i++) {if (i) l += ','; l += (*n.GetIndex())[i]()->GetNodeName()();} out.idx[mp] = l;}
         for (ConstHashtableIterator<uint32, uint32> it(n.GetSubscribers()); it.HasData(); it++) {
            char b[32]; snprintf(b, sizeof(b), "%u", it.GetKey()); std::string nm = NameOfId(b); if (nm == b) nm = std::string("#")+b;
            out.marks[mp][nm] = it.GetValue(); }
      }
      if ((n.GetDepth() == 1)&&(IsObsPath(rp))) return;
      for (DataNodeRefIterator it = n.GetChildIterator(); it.HasData(); it++) Walk(*it.GetValue()(), out);
   }
   // the what-code an archived WhatCodeQueryFilter asks for (0: the value is not a filter archive)
   static uint32 FilterWhat(const Message & pm, const String & fn)
   {
      MessageRef fm; if (pm.FindMessage(fn, fm).IsError()) return 0;
      ConstQueryFilterRef q = GetGlobalQueryFilterFactory()()->CreateQueryFilter(*fm()); if (q() == NULL) return 0;
      for (uint32 wc=1; wc<=16; wc++) {ConstMessageRef t(GetMessageFromPool(wc)); if (q()->Matches(t, NULL)) return wc;}
      return 0;
   }
   static std::string ParamValue(const Message & m, const String & fn)
   {
      uint32 tc = 0, cnt = 0; (void) m.GetInfo(fn, &tc, &cnt); char b[96];
      const String * sv; if (m.FindString(fn, &sv).IsOK()) return std::string(sv->Cstr()) + ((cnt > 1) ? "(+)" : "");
      int32 iv; if (m.FindInt32(fn, iv).IsOK()) {snprintf(b, sizeof(b), "i32:%d", iv); return b;}
      snprintf(b, sizeof(b), "type%u x%u", tc, cnt); return b;
   }
   Snap Observe()
   {
      Snap sn; Client * any = NULL; for (size_t i=0; i<w.cs.size(); i++) if (w.Attached(w.cs[i])) {any = w.cs[i]; break;}
      if (any) Walk(any->sess->Root(), sn);
      for (int i=0; i<3; i++) { Client * c = s[i];
         if (!w.Attached(c)) continue;
         sn.conn.insert(c->name);
         const Message & pm = c->sess->GetParametersConst();
         for (MessageFieldNameIterator it = pm.GetFieldNameIterator(); it.HasData(); it++) { const std::string fn = it.GetFieldName()();
            if (fn.compare(0, 10, "SUBSCRIBE:") == 0) {char fb[24]; snprintf(fb, sizeof(fb), "#%u", FilterWhat(pm, it.GetFieldName())); sn.psub[c->name].insert(ToModelPatternString(fn.substr(10)) + fb);}
            else { std::string v = ParamValue(pm, it.GetFieldName()); if (fn == PR_NAME_SESSION) v = NameOfId(v); sn.params[c->name].insert(fn + "=" + v); } }
         for (std::map<std::string, uint32>::const_iterator j = c->mirror.begin(); j != c->mirror.end(); ++j) {
            if (IsObsPath(j->first)) continue;
            if ((j->first == c->root)||(j->first.compare(0, c->root.size()+1, c->root+"/") == 0)) continue;      // its own nodes are the client's own business
            sn.mirror[c->name][ToModelPath(j->first)] = j->second; }
      }
      return sn;
   }
   std::string ToModelPatternString(const std::string & p) const
   {
      const bool abs = (!p.empty())&&(p[0] == '/'); std::vector<std::string> v = SplitPath(abs ? p : ("/"+p));
      for (size_t i=0; i<v.size(); i++) { std::string out, cur; const std::string & c = v[i]; for (size_t k=0; k<=c.size(); k++) {if ((k == c.size())||(c[k] == ',')) {out += NameOfId(cur); if (k < c.size()) out += ','; cur.clear();} else cur += c[k];} v[i] = out; }
      std::string j = JoinPath(v); return abs ? j : j.substr(1);
   }

   // ---- the property's clauses that need no model: marks = recomputed match counts, mirrors = what the subscriptions select
   struct FPat {std::vector<std::string> pat; uint32 f;};
   static std::map<std::string, std::vector<FPat> > PatsOf(const Snap & sn)
   {
      std::map<std::string, std::vector<FPat> > pats;   // session -> normalised patterns with the what-code their filter asks for
      for (std::map<std::string, std::set<std::string> >::const_iterator i = sn.psub.begin(); i != sn.psub.end(); ++i) for (std::set<std::string>::const_iterator j = i->second.begin(); j != i->second.end(); ++j) {
         const size_t h = j->rfind('#'); const std::string p = j->substr(0, h); FPat fp; fp.pat = SplitPath((p[0] == '/') ? p : ("/*/*/" + p)); fp.f = (uint32) atoi(j->c_str()+h+1); pats[i->first].push_back(fp); }
      return pats;
   }
   void CheckMarksAndMirrors(const Snap & sn, const char * when)
   {
      std::map<std::string, std::vector<FPat> > pats = PatsOf(sn);
      // marks: by path only (the filters are applied when a change is notified)
      for (std::map<std::string, uint32>::const_iterator n = sn.tree.begin(); n != sn.tree.end(); ++n) {
         const std::vector<std::string> path = SplitPath(n->first);
         std::map<std::string, uint32> expect;
         for (std::set<std::string>::const_iterator c = sn.conn.begin(); c != sn.conn.end(); ++c) {uint32 k = 0; const std::vector<FPat> & pp = pats[*c]; for (size_t q=0; q<pp.size(); q++) if (PatMatch(pp[q].pat, path)) k++; if (k) expect[*c] = k;}
         std::map<std::string, uint32> got; std::map<std::string, std::map<std::string, uint32> >::const_iterator g = sn.marks.find(n->first); if (g != sn.marks.end()) got = g->second;
         if (got != expect) { std::string a, b; char t[48];
            for (std::map<std::string, uint32>::iterator x = got.begin(); x != got.end(); ++x) {snprintf(t, sizeof(t), "%s:%u ", x->first.c_str(), x->second); a += t;}
            for (std::map<std::string, uint32>::iterator x = expect.begin(); x != expect.end(); ++x) {snprintf(t, sizeof(t), "%s:%u ", x->first.c_str(), x->second); b += t;}
            V(std::string(when) + ": subscriber marks of node " + n->first + " are {" + a + "} but the connected sessions' subscriptions give {" + b + "}"); }
      }
      // mirrors: what the subscriptions (path AND filter) select of the others' nodes - except where a quiet change made the mirror lag
      for (std::set<std::string>::const_iterator c = sn.conn.begin(); c != sn.conn.end(); ++c) {
         std::map<std::string, uint32> expect; const std::vector<FPat> & pp = pats[*c];
         for (std::map<std::string, uint32>::const_iterator n = sn.tree.begin(); n != sn.tree.end(); ++n) {
            const std::vector<std::string> path = SplitPath(n->first);
            if ((path.size() >= 2)&&(path[1] == *c)) continue;
            for (size_t q=0; q<pp.size(); q++) if ((PatMatch(pp[q].pat, path))&&((pp[q].f == 0)||(pp[q].f == n->second))) {expect[n->first] = n->second; break;} }
         std::map<std::string, uint32> got; std::map<std::string, std::map<std::string, uint32> >::const_iterator g = sn.mirror.find(*c); if (g != sn.mirror.end()) got = g->second;
         // a session with PR_NAME_DISABLE_SUBSCRIPTIONS is sent nothing ("disable all subscription updates"): wherever its mirror differs now, it lags - and keeps lagging after the
         // parameter is removed (nothing is re-sent), until later changes reach it
         { std::map<std::string, std::set<std::string> >::const_iterator pp2 = sn.params.find(*c); bool deaf = false;
           if (pp2 != sn.params.end()) for (std::set<std::string>::const_iterator q = pp2->second.begin(); q != pp2->second.end(); ++q) if (q->compare(0, 6, "!Dsub=") == 0) deaf = true;
           if (deaf) { for (std::map<std::string, uint32>::iterator x = expect.begin(); x != expect.end(); ++x) if ((!got.count(x->first))||(got[x->first] != x->second)) hush.insert(std::make_pair(*c, x->first));
                       for (std::map<std::string, uint32>::iterator x = got.begin(); x != got.end(); ++x) if (!expect.count(x->first)) hush.insert(std::make_pair(*c, x->first)); } }
         // hushed nodes: forgiven while they differ, forgotten once they agree
         for (std::set<std::pair<std::string, std::string> >::iterator h = hush.begin(); h != hush.end(); ) { if (h->first != *c) {++h; continue;}
            const bool eIn = expect.count(h->second) > 0, gIn = got.count(h->second) > 0;
            if ((eIn == gIn)&&((!eIn)||(expect[h->second] == got[h->second]))) {hush.erase(h++); continue;}
            expect.erase(h->second); got.erase(h->second); ++h; }
         if (got != expect) { std::string d; char t[32];
            for (std::map<std::string, uint32>::iterator x = expect.begin(); x != expect.end(); ++x) if (!got.count(x->first)) d += " missing " + x->first; else if (got[x->first] != x->second) {snprintf(t, sizeof(t), " (%u, server %u)", got[x->first], x->second); d += " stale " + x->first + t;}
            for (std::map<std::string, uint32>::iterator x = got.begin(); x != got.end(); ++x) if (!expect.count(x->first)) d += " extra " + x->first;
            V(std::string(when) + ": the mirror of " + *c + " differs from what its subscriptions select:" + d); }
      }
      for (std::set<std::pair<std::string, std::string> >::iterator h = hush.begin(); h != hush.end(); ) {if (!sn.conn.count(h->first)) hush.erase(h++); else ++h;}
   }
   // a QUIET PR_COMMAND_SETDATA: the sessions subscribed (by path) to the nodes it creates / overwrites are, by request, not told
   void NoteQuiet(const J & c, const std::string & actor, const Snap & before, const Snap & after)
   {
      for (size_t i=0; i<c["sub"].size(); i++) NoteQuiet(c["sub"][i], actor, before, after);
      if ((c["op"].str() != "SETDATA")||(c["x"].str() != "quiet")||(c["abs"].truthy())||(c["p"].size() == 0)) return;
      std::map<std::string, std::vector<FPat> > pats = PatsOf(after);
      std::vector<std::string> path; path.push_back((actor == "s3") ? "hB" : "hA"); path.push_back(actor);
      for (size_t i=0; i<c["p"].size(); i++) { path.push_back(c["p"][i].str()); const std::string ps = JoinPath(path);
         if ((i+1 < c["p"].size())&&(before.tree.count(ps))) continue;      // an intermediate node that existed already is not touched
         for (std::set<std::string>::const_iterator s2 = after.conn.begin(); s2 != after.conn.end(); ++s2) { if (*s2 == actor) continue;
            const std::vector<FPat> & pp = pats[*s2]; for (size_t q=0; q<pp.size(); q++) if (PatMatch(pp[q].pat, path)) {hush.insert(std::make_pair(*s2, ps)); break;} } }
   }

   // ---- what a client can see of another session: effective parameters and the tree through the observer's GETDATA
   std::map<std::string, std::string> EffectiveParams(const std::set<std::string> & of)
   {
      std::map<std::string, std::string> out; std::vector<Client *> asked;
      for (int i=0; i<3; i++) if ((of.count(s[i]->name))&&(s[i]->connected)&&(w.Attached(s[i]))) {s[i]->inbox.clear(); w.Send(s[i], Msg(PR_COMMAND_GETPARAMETERS)); asked.push_back(s[i]);}
      if (asked.empty()) return out;
      w.Settle(2);
      static const char * vol[] = {PR_NAME_SERVER_MEM_AVAILABLE, PR_NAME_SERVER_MEM_USED, PR_NAME_SERVER_MEM_MAX, PR_NAME_SERVER_UPTIME, PR_NAME_SERVER_CURRENTTIMEUTC, PR_NAME_SERVER_CURRENTTIMELOCAL, PR_NAME_SERVER_RUNTIME};
      for (size_t a=0; a<asked.size(); a++) { Client * c = asked[a]; std::string txt = "(no PR_RESULT_PARAMETERS reply)";
         for (size_t k=0; k<c->inbox.size(); k++) if (c->inbox[k]()->what == PR_RESULT_PARAMETERS) { Message m(*c->inbox[k]()); for (size_t z=0; z<sizeof(vol)/sizeof(vol[0]); z++) (void) m.RemoveName(vol[z]); txt.clear();
            std::vector<std::string> fs; for (MessageFieldNameIterator it = m.GetFieldNameIterator(); it.HasData(); it++) {Message one; (void) m.CopyName(it.GetFieldName(), one); const std::string f = Flat(one); char h[32]; snprintf(h, sizeof(h), "#%08x", (unsigned) CalculateHashCode(f.data(), (uint32) f.size())); fs.push_back(std::string(it.GetFieldName()()) + "=" + ParamValue(m, it.GetFieldName()) + h);}
            std::sort(fs.begin(), fs.end()); for (size_t z=0; z<fs.size(); z++) {txt += fs[z]; txt += "; ";} }
         out[c->name] = txt; }
      return out;
   }
   void ObserverView(std::map<std::string, uint32> & tree, std::map<std::string, std::string> & index)
   {
      if ((!obs->connected)||(!w.Attached(obs))) {V("the observer session has been disconnected"); return;}
      obs->mirror.clear(); obs->inbox.clear();
      MessageRef g = Msg(PR_COMMAND_GETDATA); std::string p; for (int d=1; d<=7; d++) {p += "/*"; g()->AddString(PR_NAME_KEYS, p.c_str());}
      w.Send(obs, g); w.Settle(2);
      for (std::map<std::string, uint32>::const_iterator i = obs->mirror.begin(); i != obs->mirror.end(); ++i) if (!IsObsPath(i->first)) tree[ToModelPath(i->first)] = i->second;
      for (size_t k=0; k<obs->inbox.size(); k++) if (obs->inbox[k]()->what == PR_RESULT_INDEXUPDATED) { const Message & m = *obs->inbox[k]();
         for (MessageFieldNameIterator it = m.GetFieldNameIterator(B_STRING_TYPE); it.HasData(); it++) { std::string l; const String * e;
            for (int i=0; m.FindString(it.GetFieldName(), i, &e).IsOK(); i++) {const char * c = e->Cstr(); if (c[0] == INDEX_OP_CLEARED) {l.clear(); continue;} const char * colon = strchr(c, ':'); if (!l.empty()) l += ','; l += colon ? colon+1 : "?";}
            if ((!l.empty())&&(!IsObsPath(it.GetFieldName()()))) index[ToModelPath(it.GetFieldName()())] = l; } }
      obs->mirror.clear(); obs->inbox.clear();
   }

   // ---- commands: model record -> Message
   std::string RealPathString(const J & c, Client * actor, bool forSubtreeOf = true) const
   {
      (void) forSubtreeOf;
      std::vector<std::string> v; for (size_t i=0; i<c["p"].size(); i++) v.push_back(RealClause(c["p"][i].str()));
      const bool abs = c["abs"].truthy();
      std::string s; for (size_t i=0; i<v.size(); i++) {if (i) s += '/'; s += v[i];}
      return abs ? ("/"+s) : s;
   }
   MessageRef Build(const J & c, Client * actor)
   {
      const std::string op = c["op"].str(); const std::string x = c["x"].str(); const uint32 pay = (uint32) c["pay"].i();
      if (op == "SETDATA") { MessageRef m = Msg(PR_COMMAND_SETDATA); std::string p = RealPathString(c, actor); if (c["abs"].truthy() && c["p"].size() == 0) p = "/";
         (void) m()->AddMessage(p.c_str(), Msg(pay)); if (x == "index") {SetDataNodeFlags f; f.SetBit(SETDATANODE_FLAG_ADDTOINDEX); (void) m()->AddFlat(PR_NAME_FLAGS, f);}
         if (x == "quiet") {SetDataNodeFlags f; f.SetBit(SETDATANODE_FLAG_QUIET); (void) m()->AddFlat(PR_NAME_FLAGS, f);} return m; }
      if (op == "REMOVEDATA") {MessageRef m = Msg(PR_COMMAND_REMOVEDATA); (void) m()->AddString(PR_NAME_KEYS, RealPathString(c, actor).c_str()); return m;}
      if (op == "INSERTORDEREDDATA") {MessageRef m = Msg(PR_COMMAND_INSERTORDEREDDATA); (void) m()->AddString(PR_NAME_KEYS, RealPathString(c, actor).c_str()); (void) m()->AddMessage(BeforeName(c, actor, false).c_str(), Msg(pay)); return m;}
      if (op == "REORDERDATA") {MessageRef m = Msg(PR_COMMAND_REORDERDATA); (void) m()->AddString(RealPathString(c, actor).c_str(), BeforeName(c, actor, true).c_str()); return m;}
      if ((op == "KICK")||(op == "ADDBANS")||(op == "REMOVEBANS")||(op == "ADDREQUIRES")||(op == "REMOVEREQUIRES")) {
         const uint32 wc = (op == "KICK") ? PR_COMMAND_KICK : (op == "ADDBANS") ? PR_COMMAND_ADDBANS : (op == "REMOVEBANS") ? PR_COMMAND_REMOVEBANS : (op == "ADDREQUIRES") ? PR_COMMAND_ADDREQUIRES : PR_COMMAND_REMOVEREQUIRES;
         MessageRef m = Msg(wc); (void) m()->AddString(PR_NAME_KEYS, RealPathString(c, actor).c_str()); return m; }
      if (op == "SETPARAM") { MessageRef m = Msg(PR_COMMAND_SETPARAMETERS); const std::string v = c["v"].str();
         if (x == PR_NAME_PRIVILEGE_BITS) (void) m()->AddInt32(x.c_str(), atoi(v.c_str())); else (void) m()->AddString(x.c_str(), (x == PR_NAME_SESSION) ? IdOfName(v).c_str() : v.c_str());
         return m; }
      if (op == "SUBSCRIBE") { MessageRef m = Msg(PR_COMMAND_SETPARAMETERS); const std::string pn = std::string("SUBSCRIBE:") + RealPathString(c, actor);
         if (pay == 0) (void) m()->AddBool(pn.c_str(), true); else {MessageRef fm = GetMessageFromPool(); (void) WhatCodeQueryFilter(pay).SaveToArchive(*fm()); (void) m()->AddMessage(pn.c_str(), fm);}     // pay: the what-code the subscription's filter asks for
         return m; }
      if (op == "REMOVEPARAM") { MessageRef m = Msg(PR_COMMAND_REMOVEPARAMETERS);
         if (x == "SUBSCRIBE:") (void) m()->AddString(PR_NAME_KEYS, (String("SUBSCRIBE:") + EscapeRegexTokens(RealPathString(c, actor).c_str())));
         else (void) m()->AddString(PR_NAME_KEYS, x.c_str());
         return m; }
      if (op == "MSG") {MessageRef m = Msg(1234); if (c["p"].size() > 0) (void) m()->AddString(PR_NAME_KEYS, RealPathString(c, actor).c_str()); (void) m()->AddString(PR_NAME_SESSION, IdOfName(x).c_str()); (void) m()->AddInt32("forged", 1); return m;}
      if (op == "BATCH") {MessageRef m = Msg(PR_COMMAND_BATCH); for (size_t i=0; i<c["sub"].size(); i++) (void) m()->AddMessage(PR_NAME_KEYS, Build(c["sub"][i], actor)); return m;}
      fprintf(stderr, "unknown model command %s\n", op.c_str()); exit(11);
   }
   std::string BeforeName(const J & c, Client *, bool) const {return c["x"].str();}
   static bool HasPrivileged(const J & c) {const std::string op = c["op"].str(); if ((op == "KICK")||(op == "ADDBANS")||(op == "REMOVEBANS")||(op == "ADDREQUIRES")||(op == "REMOVEREQUIRES")) return true; for (size_t i=0; i<c["sub"].size(); i++) if (HasPrivileged(c["sub"][i])) return true; return false;}
   static int CountOp(const J & c, const char * op) {int k = (c["op"].str() == op) ? 1 : 0; for (size_t i=0; i<c["sub"].size(); i++) k += CountOp(c["sub"][i], op); return k;}
   static bool HasOp(const J & c, const char * op) {return CountOp(c, op) > 0;}
   static int CountPrivileged(const J & c) {return CountOp(c, "KICK")+CountOp(c, "ADDBANS")+CountOp(c, "REMOVEBANS")+CountOp(c, "ADDREQUIRES")+CountOp(c, "REMOVEREQUIRES");}

   // the client's side of the subscription protocol: after it removed subscriptions it drops what its remaining ones do not select
   void PruneMirror(Client * c)
   {
      std::vector<FPat> pats; const Message & pm = c->sess->GetParametersConst();
      for (MessageFieldNameIterator it = pm.GetFieldNameIterator(); it.HasData(); it++) {const std::string fn = it.GetFieldName()(); if (fn.compare(0, 10, "SUBSCRIBE:") == 0) {const std::string p = fn.substr(10); FPat fp; fp.pat = SplitPath((p[0] == '/') ? p : ("/*/*/"+p)); fp.f = FilterWhat(pm, it.GetFieldName()); pats.push_back(fp);}}
      for (std::map<std::string, uint32>::iterator i = c->mirror.begin(); i != c->mirror.end(); ) {bool keep = false; const std::vector<std::string> path = SplitPath(i->first); for (size_t q=0; q<pats.size(); q++) if ((PatMatch(pats[q].pat, path))&&((pats[q].f == 0)||(pats[q].f == i->second))) keep = true; if (keep) ++i; else c->mirror.erase(i++);}
   }

   void Setup()
   {
      Client * b = s[1]; Client * c = s[2];
      SetDataNodeFlags fi; fi.SetBit(SETDATANODE_FLAG_ADDTOINDEX);
      {MessageRef m = Msg(PR_COMMAND_SETDATA); m()->AddMessage("a", Msg(1)); m()->AddMessage("a/b", Msg(2)); w.Send(b, m);}
      {MessageRef m = Msg(PR_COMMAND_SETDATA); m()->AddFlat(PR_NAME_FLAGS, fi); m()->AddMessage("a/I0", Msg(3)); m()->AddMessage("a/I1", Msg(4)); w.Send(b, m);}
      {MessageRef m = Msg(PR_COMMAND_SETDATA); m()->AddMessage("c", Msg(1)); w.Send(b, m);}
      {MessageRef m = Msg(PR_COMMAND_SETPARAMETERS); m()->AddString("myparam", "7"); m()->AddBool("SUBSCRIBE:*", true); m()->AddBool("SUBSCRIBE:a/*", true); w.Send(b, m);}
      {MessageRef m = Msg(PR_COMMAND_SETDATA); m()->AddMessage("a", Msg(1)); w.Send(c, m);}
      {MessageRef m = Msg(PR_COMMAND_SETPARAMETERS); m()->AddBool("SUBSCRIBE:*/*", true); m()->AddBool("SUBSCRIBE:/*/*", true);
       MessageRef fm = GetMessageFromPool(); (void) WhatCodeQueryFilter(2).SaveToArchive(*fm()); m()->AddMessage("SUBSCRIBE:a", fm); w.Send(c, m);}
      w.Settle();
   }

   // compares the observed state with the state the specification expects.  actor == "" : every difference is the property's business
   void CompareWithModel(const Snap & got, const J & exp, const std::string & actor, bool isDepart, const char * when, bool skipHushed = false)
   {
      Snap e;
      for (size_t i=0; i<exp["tree"].size(); i++) e.tree[JPath(exp["tree"][i][(size_t)0])] = (uint32) exp["tree"][i][(size_t)1].i();
      for (size_t i=0; i<exp["idx"].size(); i++) {std::string l; const J & q = exp["idx"][i][(size_t)1]; for (size_t k=0; k<q.size(); k++) {if (k) l += ','; l += q[k].str();} e.idx[JPath(exp["idx"][i][(size_t)0])] = l;}
      for (size_t i=0; i<exp["marks"].size(); i++) e.marks[JPath(exp["marks"][i][(size_t)0])][exp["marks"][i][(size_t)1].str()] = (uint32) exp["marks"][i][(size_t)2].i();
      for (size_t i=0; i<exp["params"].size(); i++) e.params[exp["params"][i][(size_t)0].str()].insert(exp["params"][i][(size_t)1].str() + "=" + exp["params"][i][(size_t)2].str());
      for (size_t i=0; i<exp["psub"].size(); i++) {std::string p = JPath(exp["psub"][i][(size_t)2]); char fb[24]; snprintf(fb, sizeof(fb), "#%d", (int) exp["psub"][i][(size_t)3].i()); e.psub[exp["psub"][i][(size_t)0].str()].insert((exp["psub"][i][(size_t)1].truthy() ? p : p.substr(1)) + fb);}
      for (size_t i=0; i<exp["conn"].size(); i++) e.conn.insert(exp["conn"][i].str());
      for (size_t i=0; i<exp["mirror"].size(); i++) e.mirror[exp["mirror"][i][(size_t)0].str()][JPath(exp["mirror"][i][(size_t)1])] = (uint32) exp["mirror"][i][(size_t)2].i();
      Ranker rg, re; rg.Build(got.tree); re.Build(e.tree);
      std::set<std::string> lg, le; rg.Apply(got).Lines(lg); re.Apply(e).Lines(le);
      const std::string aroot = actor.empty() ? std::string("//") : (std::string((actor == "s3") ? "/hB/" : "/hA/") + actor);
      for (int pass=0; pass<2; pass++) { const std::set<std::string> & a = pass ? le : lg; const std::set<std::string> & b = pass ? lg : le;
         for (std::set<std::string>::const_iterator i = a.begin(); i != a.end(); ++i) if (!b.count(*i)) {
            bool own = false;
            if ((skipHushed)&&(i->compare(0, 7, "mirror ") == 0)) { // where a quiet change made a mirror lag, what the mirror holds depends on how much of the stream was handled before the cut
               const std::string rest = i->substr(7); const size_t s1 = rest.find(' '), s2 = rest.find(' ', s1+1);
               if (hush.count(std::make_pair(rest.substr(0, s1), rest.substr(s1+1, s2-s1-1)))) continue; }
            if ((!isDepart)&&(!actor.empty())) { const std::string & l = *i; size_t sp = l.find(' '); const std::string sect = l.substr(0, sp), rest = l.substr(sp+1);
               if ((sect == "tree")||(sect == "idx")) own = (rest.compare(0, aroot.size()+1, aroot+"/") == 0)||(rest.compare(0, aroot.size()+1, aroot+" ") == 0);
               else if (sect == "marks") {const size_t s2 = rest.find(' '); const std::string path = rest.substr(0, s2); const std::string who = rest.substr(s2+1, rest.find(' ', s2+1)-s2-1); own = (who == actor)||(path.compare(0, aroot.size()+1, aroot+"/") == 0)||(path == aroot);}
               else if ((sect == "param")||(sect == "sub")) own = (rest.compare(0, actor.size()+1, actor+" ") == 0);
               else if (sect == "mirror") {const size_t s2 = rest.find(' '); const std::string path = rest.substr(s2+1); own = (rest.compare(0, actor.size()+1, actor+" ") == 0)||(path.compare(0, aroot.size()+1, aroot+"/") == 0)||(path.compare(0, aroot.size()+1, aroot+" ") == 0);}   // what the others see of the sender's own nodes follows the sender's subtree (MirrorExact is checked separately)
               else if (sect == "conn") own = (rest == actor); }
            const std::string msg = std::string(when) + (pass ? ": expected by the specification but not observed: [" : ": observed but not expected by the specification: [") + *i + "]";
            if (own) D(msg); else V(msg); } }
   }
   static std::string JPath(const J & a) {std::string s; for (size_t i=0; i<a.size(); i++) {s += '/'; s += a[i].str();} return s.empty() ? "/" : s;}
};

// projection of one session out of a snapshot (plus what clients can see of it), as text, for the before/after frame comparison
static std::string ProjText(const Snap & sn, const std::string & name, const std::map<std::string, uint32> & otree, const std::map<std::string, std::string> & oidx, const std::map<std::string, std::string> & eff)
{
   const std::string root = std::string((name == "s3") ? "/hB/" : "/hA/") + name; std::string t; char b[48];
   for (std::map<std::string, uint32>::const_iterator i = sn.tree.begin(); i != sn.tree.end(); ++i) if ((i->first == root)||(i->first.compare(0, root.size()+1, root+"/") == 0)) {snprintf(b, sizeof(b), "=%u\n", i->second); t += "node " + i->first + b;}
   for (std::map<std::string, std::string>::const_iterator i = sn.idx.begin(); i != sn.idx.end(); ++i) if ((i->first == root)||(i->first.compare(0, root.size()+1, root+"/") == 0)) t += "index " + i->first + "=" + i->second + "\n";
   for (std::map<std::string, uint32>::const_iterator i = otree.begin(); i != otree.end(); ++i) if ((i->first == root)||(i->first.compare(0, root.size()+1, root+"/") == 0)) {snprintf(b, sizeof(b), "=%u\n", i->second); t += "seen-by-observer " + i->first + b;}
   for (std::map<std::string, std::string>::const_iterator i = oidx.begin(); i != oidx.end(); ++i) if ((i->first == root)||(i->first.compare(0, root.size()+1, root+"/") == 0)) t += "index-seen-by-observer " + i->first + "=" + i->second + "\n";
   std::map<std::string, std::set<std::string> >::const_iterator p = sn.params.find(name); if (p != sn.params.end()) for (std::set<std::string>::const_iterator j = p->second.begin(); j != p->second.end(); ++j) t += "parameter " + *j + "\n";
   p = sn.psub.find(name); if (p != sn.psub.end()) for (std::set<std::string>::const_iterator j = p->second.begin(); j != p->second.end(); ++j) t += "subscription " + *j + "\n";
   std::map<std::string, std::string>::const_iterator e = eff.find(name); if (e != eff.end()) t += "GETPARAMETERS " + e->second + "\n";
   t += sn.conn.count(name) ? "connected\n" : "NOT connected\n";
   return t;
}
static std::string FirstDiff(const std::string & a, const std::string & b)
{
   std::set<std::string> la, lb; size_t p = 0; while (p < a.size()) {size_t e = a.find('\n', p); la.insert(a.substr(p, e-p)); p = e+1;} p = 0; while (p < b.size()) {size_t e = b.find('\n', p); lb.insert(b.substr(p, e-p)); p = e+1;}
   std::string d; int k = 0; for (std::set<std::string>::iterator i = la.begin(); (i != la.end())&&(k < 4); ++i) if (!lb.count(*i)) {d += " -[" + *i + "]"; k++;}
   for (std::set<std::string>::iterator i = lb.begin(); (i != lb.end())&&(k < 8); ++i) if (!la.count(*i)) {d += " +[" + *i + "]"; k++;}
   return d;
}

struct FullView { Snap sn; std::map<std::string, uint32> otree; std::map<std::string, std::string> oidx; std::map<std::string, std::string> eff; };
static void TakeView(IsoWorld & iw, FullView & v, const std::set<std::string> & paramsOf)
{
   v.eff = iw.EffectiveParams(paramsOf);
   iw.ObserverView(v.otree, v.oidx);
   v.sn = iw.Observe();
   // the two ways of reading the tree must agree (else one of the observers is lying and the frame comparison means nothing)
   std::map<std::string, uint32> wt = v.sn.tree;
   if (wt != v.otree) { std::string d; for (std::map<std::string, uint32>::iterator i = wt.begin(); i != wt.end(); ++i) if (!v.otree.count(i->first)) d += " only-in-process " + i->first; for (std::map<std::string, uint32>::iterator i = v.otree.begin(); i != v.otree.end(); ++i) if (!wt.count(i->first)) d += " only-GETDATA " + i->first;
      iw.V("the tree read by the observer's GETDATA differs from the tree walked in-process:" + d); }
}

// one command of one session, with every monitor; returns the view after the step
static void DoCommandStep(IsoWorld & iw, const J & step, FullView & before, FullView & after, const char * when)
{
   const std::string who = step["who"].str(); Client * actor = iw.By(who); const J & cmd = step["cmd"];
   if ((!actor)||(!actor->connected)) {iw.D(std::string(when) + ": acting session is not connected"); after = before; return;}
   for (int i=0; i<3; i++) iw.s[i]->inbox.clear(); iw.obs->inbox.clear(); iw.obs0->inbox.clear(); iw.obs0->mirror.clear();
   MessageRef m = iw.Build(cmd, actor);
   SetStage(when);
   iw.w.Send(actor, m); iw.w.Settle();
   if (IsoWorld::HasOp(cmd, "REMOVEPARAM")) iw.PruneMirror(actor);
   // replies the documentation promises: a privileged command from an unprivileged session is bounced with PR_RESULT_ERRORACCESSDENIED
   { int denied = 0; for (size_t k=0; k<actor->inbox.size(); k++) if (actor->inbox[k]()->what == PR_RESULT_ERRORACCESSDENIED) denied++;
     const int want = IsoWorld::CountPrivileged(cmd);
     if ((actor->connected)&&(iw.w.Attached(actor))&&(denied != want)) {char b[160]; snprintf(b, sizeof(b), "%s: %d privileged command(s) sent without privilege, %d PR_RESULT_ERRORACCESSDENIED replies", when, want, denied); iw.V(b);} }
   // a forged "session" field of a client-to-client Message must arrive as the sender's id
   if (IsoWorld::HasOp(cmd, "MSG")) { int copies = 0;
      for (size_t ci=0; ci<iw.w.cs.size(); ci++) { Client * c = iw.w.cs[ci]; if (c == actor) continue;
         for (size_t k=0; k<c->inbox.size(); k++) if (c->inbox[k]()->what == 1234) {copies++; const String * sv; if ((c->inbox[k]()->FindString(PR_NAME_SESSION, &sv).IsError())||(std::string(sv->Cstr()) != actor->id)) iw.V(std::string(when) + ": a client-to-client Message arrived at " + c->name + " with session field [" + (sv ? sv->Cstr() : "") + "] instead of the sender's id");} }
      if (copies == 0) iw.D(std::string(when) + ": the client-to-client Message reached nobody"); }
   std::set<std::string> others, all3; for (int i=0; i<3; i++) {all3.insert(iw.s[i]->name); if (iw.s[i]->name != who) others.insert(iw.s[i]->name);}
   TakeView(iw, after, all3);
   // FRAME: every other session's projection is what it was
   for (std::set<std::string>::iterator o = others.begin(); o != others.end(); ++o) {
      const std::string pb = ProjText(before.sn, *o, before.otree, before.oidx, before.eff), pa = ProjText(after.sn, *o, after.otree, after.oidx, after.eff);
      if (pb != pa) iw.V(std::string(when) + ": a command of " + who + " changed the projection of " + *o + ":" + FirstDiff(pb, pa)); }
   // nobody but the sender may have been disconnected, and hosts of others stay
   for (int i=0; i<3; i++) if ((iw.s[i]->name != who)&&(before.sn.conn.count(iw.s[i]->name))&&((!iw.w.Attached(iw.s[i]))||(iw.s[i]->peerClosed))) iw.V(std::string(when) + ": a command of " + who + " disconnected " + iw.s[i]->name);
   if ((iw.w.Attached(actor))&&(actor->sess->GetParametersConst().HasName(PR_NAME_PRIVILEGE_BITS))) iw.V(std::string(when) + ": the session obtained privilege bits");
   iw.NoteQuiet(cmd, who, before.sn, after.sn);
   iw.CheckMarksAndMirrors(after.sn, when);
   if (step.has("st")) iw.CompareWithModel(after.sn, step["st"], who, false, when);
}

static bool IsDeaf(const Snap & sn, const std::string & name)
{
   std::map<std::string, std::set<std::string> >::const_iterator p = sn.params.find(name); if (p == sn.params.end()) return false;
   for (std::set<std::string>::const_iterator q = p->second.begin(); q != p->second.end(); ++q) if (q->compare(0, 6, "!Dsub=") == 0) return true;
   return false;
}
// what must hold after `who` has gone: no node, no mark, no mirror entry of it anywhere; everybody else as before
static void CheckErased(IsoWorld & iw, const std::string & who, const FullView * before, FullView & after, const char * when)
{
   Client * d = iw.By(who);
   if (iw.w.Attached(d)) iw.V(std::string(when) + ": the session whose connection ended is still attached to the server");
   const std::string root = std::string((who == "s3") ? "/hB/" : "/hA/") + who;
   for (std::map<std::string, uint32>::iterator i = after.sn.tree.begin(); i != after.sn.tree.end(); ++i) if ((i->first == root)||(i->first.compare(0, root.size()+1, root+"/") == 0)) iw.V(std::string(when) + ": node " + i->first + " of the departed session remains");
   for (std::map<std::string, uint32>::iterator i = after.otree.begin(); i != after.otree.end(); ++i) if ((i->first == root)||(i->first.compare(0, root.size()+1, root+"/") == 0)) iw.V(std::string(when) + ": the observer still gets node " + i->first + " of the departed session");
   // host node: exists exactly while a session of that host is attached
   { const std::string host = (who == "s3") ? "/hB" : "/hA"; bool any = false; for (int i=0; i<3; i++) if ((iw.w.Attached(iw.s[i]))&&(iw.s[i]->host == host.substr(1))) any = true;
     if (after.sn.tree.count(host) != (any ? 1u : 0u)) iw.V(std::string(when) + ": host node " + host + (any ? " vanished although a session of that host remains" : " remains although its last session has gone")); }
   for (std::map<std::string, std::map<std::string, uint32> >::iterator i = after.sn.marks.begin(); i != after.sn.marks.end(); ++i) for (std::map<std::string, uint32>::iterator j = i->second.begin(); j != i->second.end(); ++j)
      if ((j->second)&&((j->first == who)||(j->first[0] == '#'))) iw.V(std::string(when) + ": node " + i->first + " still carries a subscriber mark of " + j->first);
   for (std::map<std::string, std::map<std::string, uint32> >::iterator i = after.sn.mirror.begin(); i != after.sn.mirror.end(); ++i) for (std::map<std::string, uint32>::iterator j = i->second.begin(); j != i->second.end(); ++j)
      if ((!IsDeaf(after.sn, i->first))&&((j->first == root)||(j->first.compare(0, root.size()+1, root+"/") == 0))&&(!iw.hush.count(std::make_pair(i->first, j->first)))) iw.V(std::string(when) + ": subscriber " + i->first + " was not told that " + j->first + " is gone");
   if (before) for (int i=0; i<3; i++) if ((iw.s[i]->name != who)&&(before->sn.conn.count(iw.s[i]->name))) {
      const std::string pb = ProjText(before->sn, iw.s[i]->name, before->otree, before->oidx, before->eff), pa = ProjText(after.sn, iw.s[i]->name, after.otree, after.oidx, after.eff);
      if (pb != pa) iw.V(std::string(when) + ": the departure of " + who + " changed the projection of " + iw.s[i]->name + ":" + FirstDiff(pb, pa)); }
   iw.CheckMarksAndMirrors(after.sn, when);
}

// the subscriptions the model says the remaining sessions hold must still deliver: the observer sets and removes probe nodes
static void Probe(IsoWorld & iw, const J & expState, const char * when)
{
   if ((!iw.obs->connected)||(!iw.w.Attached(iw.obs))) return;
   std::map<std::string, std::vector<IsoWorld::FPat> > pats;
   for (size_t i=0; i<expState["psub"].size(); i++) {IsoWorld::FPat fp; fp.f = (uint32) expState["psub"][i][(size_t)3].i(); if (!expState["psub"][i][(size_t)1].truthy()) {fp.pat.push_back("*"); fp.pat.push_back("*");} const J & p = expState["psub"][i][(size_t)2]; for (size_t k=0; k<p.size(); k++) fp.pat.push_back(iw.RealClause(p[k].str())); pats[expState["psub"][i][(size_t)0].str()].push_back(fp);}
   {MessageRef m = Msg(PR_COMMAND_SETDATA); m()->AddMessage("a", Msg(11)); m()->AddMessage("a/b", Msg(12)); m()->AddMessage("q", Msg(13)); iw.w.Send(iw.obs, m); iw.w.Settle();}
   const char * rel[] = {"a", "a/b", "q"}; const uint32 pay[] = {11, 12, 13};
   std::set<std::string> deaf; for (size_t i=0; i<expState["params"].size(); i++) if (expState["params"][i][(size_t)1].str() == PR_NAME_DISABLE_SUBSCRIPTIONS) deaf.insert(expState["params"][i][(size_t)0].str());
   for (int i=0; i<3; i++) { Client * c = iw.s[i]; if ((!c->connected)||(!iw.w.Attached(c))) continue;
      if (deaf.count(c->name)) {for (int k=0; k<3; k++) {const std::string path = iw.obs->root + "/" + rel[k]; if (c->mirror.count(path)) iw.V(std::string(when) + ": probe node " + rel[k] + " was reported to " + c->name + " although it has disabled all subscription updates");} continue;}
      for (int k=0; k<3; k++) { const std::string path = iw.obs->root + "/" + rel[k]; bool sel = false; const std::vector<IsoWorld::FPat> & pp = pats[c->name];
         for (size_t q=0; q<pp.size(); q++) if ((PatMatch(pp[q].pat, SplitPath(path)))&&((pp[q].f == 0)||(pp[q].f == pay[k]))) sel = true;
         const bool has = (c->mirror.count(path) > 0)&&(c->mirror[path] == pay[k]);
         if (sel != has) iw.V(std::string(when) + ": probe node " + rel[k] + " set by the observer " + (has ? "WAS" : "was NOT") + " reported to " + c->name + ", whose subscriptions " + (sel ? "select it" : "do not select it")); } }
   {MessageRef m = Msg(PR_COMMAND_REMOVEDATA); m()->AddString(PR_NAME_KEYS, "*"); iw.w.Send(iw.obs, m); iw.w.Send(iw.obs0, GetMessageFromPool(*m())); iw.w.Settle();}
   for (int i=0; i<3; i++) { Client * c = iw.s[i]; if ((!c->connected)||(!iw.w.Attached(c))||(deaf.count(c->name))) continue;
      for (int k=0; k<3; k++) {const std::string path = iw.obs->root + "/" + rel[k]; if (c->mirror.count(path)) {iw.V(std::string(when) + ": removal of probe node " + rel[k] + " was not reported to " + c->name); c->mirror.erase(path);}} }
}

static J IsoRow(const J & beh, IsoWorld & iw, const char * extra = NULL)
{
   J row = J::Obj(); row.set("behaviour", beh["id"]);
   if (!iw.viol.empty()) row.set("violations", StrList(iw.viol));
   if (!iw.drift.empty()) row.set("drift", StrList(iw.drift));
   if (extra) row.set("where", J::Str(extra));
   row.set("steps", beh["steps"]);
   return row;
}

static long g_isoSteps = 0, g_isoRuns = 0, g_isoCutRuns = 0, g_isoFollowed = 0, g_isoDrifted = 0, g_isoProbes = 0;

// replays one behaviour step by step
static void IsoBehaviour(const J & beh, std::mt19937 & rng)
{
   IsoWorld iw; iw.Setup(); g_isoRuns++;
   FullView cur, nxt; std::set<std::string> all; all.insert("s1"); all.insert("s2"); all.insert("s3");
   TakeView(iw, cur, all);
   iw.CheckMarksAndMirrors(cur.sn, "after the setup");
   if (beh.has("init")) iw.CompareWithModel(cur.sn, beh["init"], "", false, "after the setup");
   const J & steps = beh["steps"]; const J * lastSt = beh.has("init") ? &beh["init"] : NULL;
   for (size_t i=0; (i<steps.size())&&(iw.viol.empty()); i++) { const J & st = steps[i]; char when[96]; snprintf(when, sizeof(when), "step %zu (%s %s)", i+1, st["a"].str().c_str(), st["who"].str().c_str());
      g_isoSteps++;
      if (st["a"].str() == "Cmd") {nxt = FullView(); DoCommandStep(iw, st, cur, nxt, when); cur = nxt;}
      else { // Depart: the client closes; for odd behaviours in the middle of a Message it had begun to send
         Client * d = iw.By(st["who"].str()); if ((!d)||(!d->connected)) {iw.D(std::string(when) + ": not connected"); continue;}
         SetStage(when);
         if (beh["partial"].truthy()) { MessageRef pm = Msg(PR_COMMAND_SETDATA); pm()->AddMessage("late", Msg(5)); pm()->AddMessage("late/x", Msg(6)); const std::string wb = Wire(*pm());
            const size_t k = 1 + (rng() % (wb.size()-1)); d->Flush(); ssize_t r = write(d->sock.GetFileDescriptor(), wb.data(), k); (void) r; if (rng() & 1) iw.w.PumpOnce(); }
         iw.CloseAmidTraffic(d);
         nxt = FullView(); TakeView(iw, nxt, all);
         CheckErased(iw, d->name, &cur, nxt, when);
         if (st.has("st")) iw.CompareWithModel(nxt.sn, st["st"], d->name, true, when);
         cur = nxt; }
      if (st.has("st")) lastSt = &st["st"];
   }
   if ((iw.viol.empty())&&(lastSt)&&(beh["probe"].truthy())) {Probe(iw, *lastSt, "probing after the last step"); g_isoProbes++;}
   if (iw.viol.empty()) {if (iw.drift.empty()) g_isoFollowed++; else g_isoDrifted++;}
   if ((!iw.viol.empty())||(!iw.drift.empty())) {if (!iw.viol.empty()) g_violCases++; RepJ(IsoRow(beh, iw));}
}

// a behaviour whose last step is the departure of the session that sent all the commands: its whole outgoing byte stream is cut after
// EVERY prefix 0..L, written in one piece or byte by byte with the event loop running in between; the end state must always be the erased one
static void IsoAllCuts(const J & beh, int everyNth)
{
   const J & steps = beh["steps"]; const size_t ns = steps.size(); if (ns < 1) return;
   const std::string who = steps[ns-1]["who"].str();
   size_t L = 0;
   for (int mode=0; mode<2; mode++) for (size_t cut=0; (mode == 0 && cut == 0) || cut <= L; cut++) {
      IsoWorld iw; iw.Setup(); g_isoRuns++; g_isoCutRuns++;
      Client * d = iw.By(who);
      // the stream: the Messages the model commands stand for, built against the state after the setup (no server-chosen names are referenced in these histories)
      std::string stream; for (size_t i=0; i+1<ns; i++) stream += Wire(*iw.Build(steps[i]["cmd"], d)());
      L = stream.size();
      FullView before, after; std::set<std::string> rest; for (int i=0; i<3; i++) if (iw.s[i]->name != who) rest.insert(iw.s[i]->name);
      TakeView(iw, before, rest);
      char when[128]; snprintf(when, sizeof(when), "departure of %s with its %zu-byte stream cut after %zu bytes (%s)", who.c_str(), L, cut, mode ? "byte by byte" : "one piece"); SetStage(when);
      const int fd = d->sock.GetFileDescriptor();
      if (mode == 0) {ssize_t r = write(fd, stream.data(), cut); (void) r; if (cut & 1) iw.w.PumpOnce();}
      else for (size_t i=0; i<cut; i++) {ssize_t r = write(fd, &stream[i], 1); (void) r; if ((i % everyNth) == 0) iw.w.PumpOnce();}
      iw.CloseAmidTraffic(d);
      // clients that lost subscriptions of their own do not exist here: only the departing session unsubscribes
      TakeView(iw, after, rest);
      {Snap none; for (size_t i=0; i+1<ns; i++) iw.NoteQuiet(steps[i]["cmd"], who, none, after.sn);}     // quiet commands in the stream: the mirrors may lag for the nodes they touched
      iw.CompareWithModel(after.sn, steps[ns-1]["st"], who, true, when, true);     // (before the erase clauses: they forget a hushed node as soon as mirror and selection agree)
      CheckErased(iw, who, &before, after, when);
      if (!iw.viol.empty()) {g_violCases++; J row = IsoRow(beh, iw, when); row.set("cut", J::Int((int64_t) cut)); row.set("mode", J::Str(mode ? "bytewise" : "onepiece")); RepJ(row); return;}
   }
   g_isoFollowed++;
}

static int IsoReplay(int argc, char ** argv)
{
   if (argc < 5) return 2;
   CaseStream in(argv[2]); if (!in.Ok()) {fprintf(stderr, "cannot read %s\n", argv[2]); return 3;}
   if (!OpenReport(argv[3])) return 3;
   std::mt19937 rng((unsigned) atoi(argv[4])); const int everyNth = (argc > 5) ? atoi(argv[5]) : 1;
   const double t0 = Now();
   J beh;
   while ((g_violCases < 25)&&(in.Next(beh))) { g_cases++;
      SetCur(mj::ToString(beh));
      if (beh["cuts"].str() == "all") IsoAllCuts(beh, everyNth < 1 ? 1 : everyNth); else IsoBehaviour(beh, rng); }
   J s = J::Obj(); s.set("summary", J::Bool(true)).set("behaviours", J::Int(g_cases)).set("followed", J::Int(g_isoFollowed)).set("drifted", J::Int(g_isoDrifted)).set("violating_cases", J::Int(g_violCases))
      .set("steps", J::Int(g_isoSteps)).set("server_runs", J::Int(g_isoRuns)).set("cut_runs", J::Int(g_isoCutRuns)).set("probes", J::Int(g_isoProbes)).set("wall_ms", J::Int((int64_t) ((Now()-t0)*1000)));
   RepJ(s); return 0;
}

static int IsoRandom(int argc, char ** argv)
{
   // srv isorand <menu.json> <histories> <steps> <seed> <report> <trace> <ntraces>
   if (argc < 9) return 2;
   std::vector<J> menuFile; if ((!ReadCases(argv[2], menuFile))||(menuFile.empty())) {fprintf(stderr, "cannot read the menu %s\n", argv[2]); return 3;}
   const J & menu = menuFile[0]["menu"]; const J init = menuFile[0]["init"];
   int nh = atoi(argv[3]), nsteps = atoi(argv[4]); const unsigned seed = (unsigned) atoi(argv[5]);
   std::vector<J> scripts; if (argc > 9) {if (!ReadCases(argv[9], scripts)) {fprintf(stderr, "cannot read the scripts %s\n", argv[9]); return 3;} nh = (int) scripts.size(); nsteps = 1000;}   // directed histories: [{who, ci} | {who, a:"Depart", partial}]
   if (!OpenReport(argv[6])) return 3;
   FILE * tf = fopen(argv[7], "w"); if (!tf) return 3; const int ntr = atoi(argv[8]);
   const double t0 = Now(); long traces = 0, lines = 0;
   for (int h=0; (h<nh)&&(g_violCases < 25); h++) {
      std::mt19937 rng(seed*1000003u + (unsigned) h); g_cases++;
      IsoWorld iw; iw.Setup(); g_isoRuns++;
      J hist = J::Arr(); J beh = J::Obj(); beh.set("id", J::Int(h));
      FullView cur, nxt; std::set<std::string> all; all.insert("s1"); all.insert("s2"); all.insert("s3");
      TakeView(iw, cur, all); iw.CheckMarksAndMirrors(cur.sn, "after the setup"); iw.CompareWithModel(cur.sn, init, "", false, "after the setup");
      const bool logIt = (h < ntr); std::vector<std::string> tl; if (logIt) tl.push_back("{\"a\":\"Reset\"}");
      for (int k=0; (k<nsteps)&&(iw.viol.empty()); k++) {
         std::vector<Client *> alive; for (int i=0; i<3; i++) if ((iw.s[i]->connected)&&(iw.w.Attached(iw.s[i]))) alive.push_back(iw.s[i]);
         if (alive.empty()) break;
         const J * sc = NULL; if (!scripts.empty()) {if ((size_t) k >= scripts[h]["steps"].size()) break; sc = &scripts[h]["steps"][(size_t) k];}
         Client * actor = sc ? iw.By((*sc)["who"].str()) : alive[rng() % alive.size()]; J st = J::Obj(); char when[96];
         if ((!actor)||(!actor->connected)||(!iw.w.Attached(actor))) break;
         g_isoSteps++;
         bool depart = sc ? ((*sc)["a"].str() == "Depart") : ((k > 2)&&((rng() % 12) == 0)); bool partial = sc ? (*sc)["partial"].truthy() : ((rng() & 1) != 0);
         if (depart) { // a departure, half the time in the middle of a Message
            snprintf(when, sizeof(when), "step %d (Depart %s)", k+1, actor->name.c_str()); SetStage(when);
            st.set("a", J::Str("Depart")).set("who", J::Str(actor->name)); hist.push(st); SetCur(mj::ToString(hist));
            if (partial) {MessageRef pm = Msg(PR_COMMAND_SETDATA); pm()->AddMessage("late", Msg(5)); const std::string wb = Wire(*pm()); const size_t n = 1 + (rng() % (wb.size()-1)); actor->Flush(); ssize_t r = write(actor->sock.GetFileDescriptor(), wb.data(), n); (void) r; if (rng() & 1) iw.w.PumpOnce();}
            iw.CloseAmidTraffic(actor);
            // the remaining clients: nothing to prune (they did not unsubscribe)
            nxt = FullView(); TakeView(iw, nxt, all);
            CheckErased(iw, actor->name, &cur, nxt, when); cur = nxt; }
         else { const size_t ci = sc ? (size_t) ((*sc)["ci"].i()-1) : (rng() % menu.size());
            snprintf(when, sizeof(when), "step %d (Cmd %s #%zu)", k+1, actor->name.c_str(), ci+1);
            st.set("a", J::Str("Cmd")).set("who", J::Str(actor->name)).set("ci", J::Int((int64_t) ci+1)).set("cmd", menu[ci]); hist.push(st); SetCur(mj::ToString(hist));
            nxt = FullView(); DoCommandStep(iw, st, cur, nxt, when); cur = nxt; }
         if (logIt) { // the observed state, flat, in the specification's vocabulary
            const Snap & sn = cur.sn;
            J o = J::Obj(); o.set("a", st["a"]).set("who", st["who"]); if (st.has("ci")) {o.set("ci", st["ci"]); o.set("op", st["cmd"]["op"]);}
            J tree = J::Arr(); for (std::map<std::string, uint32>::const_iterator i = sn.tree.begin(); i != sn.tree.end(); ++i) {J e = J::Arr(); e.push(StrList(SplitPath(i->first))); e.push(J::Int(i->second)); tree.push(e);}
            J idx = J::Arr(); for (std::map<std::string, std::string>::const_iterator i = sn.idx.begin(); i != sn.idx.end(); ++i) { if (i->second.empty()) continue; J e = J::Arr(); e.push(StrList(SplitPath(i->first)));
               J names = J::Arr(); std::string c2; const std::string & l = i->second; for (size_t q=0; q<=l.size(); q++) {if ((q == l.size())||(l[q] == ',')) {names.push(J::Str(c2)); c2.clear();} else c2 += l[q];}
               e.push(names); idx.push(e); }
            J marks = J::Arr(); for (std::map<std::string, std::map<std::string, uint32> >::const_iterator i = sn.marks.begin(); i != sn.marks.end(); ++i) for (std::map<std::string, uint32>::const_iterator j = i->second.begin(); j != i->second.end(); ++j) if (j->second) {J e = J::Arr(); e.push(StrList(SplitPath(i->first))); e.push(J::Str(j->first)); e.push(J::Int(j->second)); marks.push(e);}
            J params = J::Arr(); for (std::map<std::string, std::set<std::string> >::const_iterator i = sn.params.begin(); i != sn.params.end(); ++i) for (std::set<std::string>::const_iterator j = i->second.begin(); j != i->second.end(); ++j) {J e = J::Arr(); e.push(J::Str(i->first)); const size_t eq = j->find('='); e.push(J::Str(j->substr(0, eq))); e.push(J::Str(j->substr(eq+1))); params.push(e);}
            J psub = J::Arr(); for (std::map<std::string, std::set<std::string> >::const_iterator i = sn.psub.begin(); i != sn.psub.end(); ++i) for (std::set<std::string>::const_iterator j = i->second.begin(); j != i->second.end(); ++j) {J e = J::Arr(); const size_t hp = j->rfind('#'); const std::string pp = j->substr(0, hp); e.push(J::Str(i->first)); const bool abs = (pp[0] == '/'); e.push(J::Bool(abs)); e.push(StrList(SplitPath(abs ? pp : ("/" + pp)))); e.push(J::Int(atoi(j->c_str()+hp+1))); psub.push(e);}
            J conn = J::Arr(); for (std::set<std::string>::const_iterator i = sn.conn.begin(); i != sn.conn.end(); ++i) conn.push(J::Str(*i));
            J mir = J::Arr(); for (std::map<std::string, std::map<std::string, uint32> >::const_iterator i = sn.mirror.begin(); i != sn.mirror.end(); ++i) for (std::map<std::string, uint32>::const_iterator j = i->second.begin(); j != i->second.end(); ++j) {J e = J::Arr(); e.push(J::Str(i->first)); e.push(StrList(SplitPath(j->first))); e.push(J::Int(j->second)); mir.push(e);}
            o.set("tree", tree).set("idx", idx).set("marks", marks).set("params", params).set("psub", psub).set("conn", conn).set("mirror", mir).set("h", J::Int(h)).set("k", J::Int(k+1));
            tl.push_back(mj::ToString(o)); }
      }
      if ((!iw.viol.empty())||(!iw.drift.empty())) {if (!iw.viol.empty()) g_violCases++; beh.set("steps", hist); RepJ(IsoRow(beh, iw));}
      else g_isoFollowed++;
      if ((logIt)&&(iw.viol.empty())) {for (size_t i=0; i<tl.size(); i++) {fputs(tl[i].c_str(), tf); fputc('\n', tf); lines++;} traces++;}
   }
   fclose(tf);
   J s = J::Obj(); s.set("summary", J::Bool(true)).set("histories", J::Int(g_cases)).set("clean", J::Int(g_isoFollowed)).set("violating_cases", J::Int(g_violCases)).set("steps", J::Int(g_isoSteps)).set("traces_written", J::Int(traces)).set("trace_lines", J::Int(lines)).set("wall_ms", J::Int((int64_t) ((Now()-t0)*1000)));
   RepJ(s); return 0;
}

// directed case of finding F40 (repaired): DataNodes are pooled; a NEW node must name its first server-chosen child I0 whatever the recycled
// object handed out in an earlier life (e.g. as a node of a session that has departed) - otherwise the departed session has left a trace
static int CtrLeakDirected(int argc, char ** argv)
{
   if (argc < 3) return 2; if (!OpenReport(argv[2])) return 3;
   World w; Client * a = w.Add("s1", "hA"); Client * b = w.Add("s2", "hA"); w.Settle();
   {MessageRef m = Msg(PR_COMMAND_SETDATA); for (int i=0; i<8; i++) {char nm[16]; snprintf(nm, sizeof(nm), "n%d", i); m()->AddMessage(nm, Msg(1));} w.Send(a, m); w.Settle();}
   for (int k=0; k<3; k++) {MessageRef m = Msg(PR_COMMAND_INSERTORDEREDDATA); m()->AddString(PR_NAME_KEYS, "*"); m()->AddMessage("zz", Msg(2)); w.Send(a, m); w.Settle();}
   w.Close(a); w.Settle();     // s1 departs: its 8 nodes (each has handed out I0, I1, I2) and their children go back to the pool
   {MessageRef m = Msg(PR_COMMAND_SETDATA); for (int i=0; i<8; i++) {char nm[16]; snprintf(nm, sizeof(nm), "f%d", i); m()->AddMessage(nm, Msg(1));} w.Send(b, m); w.Settle();}
   {MessageRef m = Msg(PR_COMMAND_INSERTORDEREDDATA); m()->AddString(PR_NAME_KEYS, "*"); m()->AddMessage("zz", Msg(2)); w.Send(b, m); w.Settle();}
   std::string names; int notI0 = 0, kids = 0;
   DataNode * sn = b->sess->SessNode();
   if (sn) for (DataNodeRefIterator it = sn->GetChildIterator(); it.HasData(); it++) for (DataNodeRefIterator jt = it.GetValue()()->GetChildIterator(); jt.HasData(); jt++) {kids++; const std::string nm = jt.GetValue()()->GetNodeName()(); names += it.GetValue()()->GetNodeName()(); names += "/" + nm + " "; if (nm != "I0") notI0++;}
   J row = J::Obj(); row.set("case", J::Str("ctrleak")).set("children", J::Int(kids)).set("not_I0", J::Int(notI0)).set("names", J::Str(names));
   if (kids != 8) {J v = J::Arr(); v.push(J::Str("directed case F40: the ordered inserts did not create 8 children")); row.set("drift", v);}
   else if (notI0) {J v = J::Arr(); char t[400]; snprintf(t, sizeof(t), "%d of 8 brand-new nodes of s2 named their FIRST server-chosen child other than I0 after s1 (whose nodes had handed out I0..I2) departed: %s", notI0, names.c_str()); v.push(J::Str(t)); row.set("violations", v);}
   RepJ(row); J s2 = J::Obj(); s2.set("summary", J::Bool(true)).set("cases", J::Int(1)); RepJ(s2); return 0;
}

// privileges (Isolation.tla, PrivCases): server instances configured with a privilege pattern the way muscled does (central-state fields priv0..priv2), sessions whose
// addresses are equal to / an extension of / a prefix of / unrelated to it.  An UNPRIVILEGED session's KICK / ADDBANS / REMOVEBANS / ADDREQUIRES / REMOVEREQUIRES are bounced
// with PR_RESULT_ERRORACCESSDENIED, give it no privilege bits, disconnect nobody and change nothing
static void PrivTree(DataNode & n, std::string & out) {String np; (void) n.GetNodePath(np); char b[32]; snprintf(b, sizeof(b), "=%u;", n.GetData()() ? n.GetData()()->what : 0); out += np(); out += b; for (DataNodeRefIterator it = n.GetChildIterator(); it.HasData(); it++) PrivTree(*it.GetValue()(), out);}
static int PrivRun(int argc, char ** argv)
{
   if (argc < 4) return 2;
   std::vector<J> mf; if ((!ReadCases(argv[2], mf))||(mf.empty())) {fprintf(stderr, "cannot read %s\n", argv[2]); return 3;}
   if (!OpenReport(argv[3])) return 3;
   const J & pc = mf[0]["priv"]; long sessions = 0, denied = 0, privileged = 0, kicks = 0;
   for (size_t ci=0; (ci<pc.size())&&(g_violCases < 25); ci++) { const J & c = pc[ci]; g_cases++; SetCur(mj::ToString(c));
      std::vector<std::string> viol, drift;
      World w; const std::string pat = c["pat"].str();
      for (int p=0; p<PR_NUM_PRIVILEGES; p++) {char fn[16]; snprintf(fn, sizeof(fn), "priv%i", p); (void) w.srv->GetCentralState().AddString(fn, pat.c_str());}
      Client * victim = w.Add("victim", "10.9.9.9"); std::vector<Client *> cs; for (size_t h=0; h<c["hosts"].size(); h++) cs.push_back(w.Add(c["hosts"][h].str().c_str(), c["hosts"][h].str().c_str()));
      w.Settle();
      {MessageRef m = Msg(PR_COMMAND_SETDATA); m()->AddMessage("a", Msg(1)); m()->AddMessage("a/b", Msg(2)); w.Send(victim, m); for (size_t h=0; h<cs.size(); h++) w.Send(cs[h], GetMessageFromPool(*m())); w.Settle();}
      static const uint32 cmds[] = {PR_COMMAND_KICK, PR_COMMAND_ADDBANS, PR_COMMAND_REMOVEBANS, PR_COMMAND_ADDREQUIRES, PR_COMMAND_REMOVEREQUIRES};
      // the unprivileged ones first
      for (size_t h=0; h<cs.size(); h++) { if (c["priv"][h].truthy()) continue; Client * a = cs[h]; sessions++;
         std::string before; PrivTree(a->sess->Root(), before); const uint32 nsess = w.srv->GetSessions().GetNumItems();
         a->inbox.clear(); for (size_t k=0; k<5; k++) {MessageRef m = Msg(cmds[k]); m()->AddString(PR_NAME_KEYS, (k == 0) ? "/*/*" : "*"); w.Send(a, m);}
         {MessageRef m = Msg(PR_COMMAND_KICK); m()->AddString(PR_NAME_KEYS, victim->root.c_str()); w.Send(a, m);}
         SetStage("handling privileged commands of an unprivileged session"); w.Settle();
         int den = 0; for (size_t k=0; k<a->inbox.size(); k++) if (a->inbox[k]()->what == PR_RESULT_ERRORACCESSDENIED) den++; denied += den;
         const std::string who = "the session from " + a->name + " (privilege pattern " + pat + ")";
         if (a->sess->GetParametersConst().HasName(PR_NAME_PRIVILEGE_BITS)) viol.push_back(who + " holds privilege bits although its address does not match the pattern");
         if (den != 6) {char b[96]; snprintf(b, sizeof(b), ": %d of its 6 privileged commands were bounced with PR_RESULT_ERRORACCESSDENIED", den); viol.push_back(who + b);}
         if (w.srv->GetSessions().GetNumItems() != nsess) viol.push_back(who + " disconnected another session with PR_COMMAND_KICK");
         for (size_t q=0; q<w.cs.size(); q++) if ((!w.Attached(w.cs[q]))||(w.cs[q]->peerClosed)) viol.push_back(who + ": session " + w.cs[q]->name + " is gone");
         if (viol.empty()) {std::string after; PrivTree(a->sess->Root(), after); if (before != after) viol.push_back(who + " changed the node tree with privileged commands");}
         if (!viol.empty()) break; }
      // the privileged ones: they hold the bits, and their KICK works (documented; a failure here is not this property's business: drift)
      if (viol.empty()) for (size_t h=0; h<cs.size(); h++) { if (!c["priv"][h].truthy()) continue; Client * a = cs[h]; privileged++;
         if (!a->sess->GetParametersConst().HasName(PR_NAME_PRIVILEGE_BITS)) {drift.push_back("the session from " + a->name + " did not get the privileges of pattern " + pat); continue;}
         if (w.Attached(victim)) {MessageRef m = Msg(PR_COMMAND_KICK); m()->AddString(PR_NAME_KEYS, victim->root.c_str()); w.Send(a, m); w.Settle(); if (w.Attached(victim)) drift.push_back("PR_COMMAND_KICK of the privileged session from " + a->name + " did not disconnect its target"); else kicks++;} }
      if ((!viol.empty())||(!drift.empty())) {J row = J::Obj(); row.set("case", c); if (!viol.empty()) {g_violCases++; row.set("violations", StrList(viol));} if (!drift.empty()) row.set("drift", StrList(drift)); RepJ(row);}
   }
   J s2 = J::Obj(); s2.set("summary", J::Bool(true)).set("cases", J::Int(g_cases)).set("unprivileged_sessions", J::Int(sessions)).set("access_denied_replies", J::Int(denied)).set("privileged_sessions", J::Int(privileged)).set("kicks_by_privileged", J::Int(kicks)).set("violating_cases", J::Int(g_violCases));
   RepJ(s2); return 0;
}
