static int IsoReplay(int, char **) {return 2;}
static int IsoRandom(int, char **) {return 2;}
