// C09 conformance harness, second build: the same program as ht.cpp with keys and values of an OWNING, NON-TRIVIAL type (see `Canary` in ht.cpp):
// the table has to construct, copy, reset-to-default and destroy them, and a reference into a slot that was reset reads as "none".
#define HT_CANARY 1
#include "ht.cpp"
