// C06 / C07 conformance harness: an in-process ReflectServer with StorageReflectSession sessions over socket pairs, pumped
// single-threadedly with ServerProcessLoop(0).  Every pump runs under a watchdog (SRV_WATCHDOG seconds of the process's CPU time, 24 times as
// much wall-clock time): a hang is written to the report as a violation and the process _exit()s - it never becomes an endless run.
//
//   srv iso      <behaviours.ndjson> <report.ndjson> <seed> <pump every n-th byte of a byte-by-byte cut>
//        C06, spec -> code.  Each input line is one behaviour of spec/ReflectorSafety/Isolation.tla (list of `last` records: a command of
//        a session drawn from the hostile menu, or a departure) plus "cuts": how the departing session's byte stream is cut.
//        After EVERY step: every OTHER session's projection (subtree + indices via the in-process walk AND via an observer's GETDATA,
//        effective parameters via GETPARAMETERS, connectedness) must be unchanged, the subscriber marks of the whole tree must equal the
//        recomputed match counts, every client's mirror must equal what its subscriptions select; after a departure the departed
//        session must have left no trace (EraseSession).  The whole observed state is also compared with the state the specification
//        expects: others' part = violation, the acting session's own part = drift.
//   srv isorand  <menu.json> <histories> <steps> <seed> <report.ndjson> <trace.ndjson> <ntraces>
//        C06, code -> spec.  Seeded random longer hostile histories; same monitors; the observed state after every step is logged
//        for validation by TLC (IsoTrace.tla).
//   srv oq       <cases.ndjson> <report.ndjson>
//        C07, spec -> code.  OutQueue.tla's enumeration (queue state x command shape x filter shape) replayed with the victim's valve closed.
//   srv hostile  <cases.ndjson> <report.ndjson> <seed> <Messages per server> <sequences> <sequence length> [shard nshards]
//        C07.  HostileSpace.tla's Messages injected one by one / in sequences, from one or two clients, valve closed for one of them.
//   srv ctrleak  <report.ndjson>      directed case of the repaired finding F40 (a recycled DataNode must restart its child numbering)
//   srv priv     <menu.json> <report.ndjson>     server instances with configured privilege patterns (Isolation.tla PrivCases)
//   srv probe ...  measurements used while building
#include "reflector/ReflectServer.h"
#include "reflector/StorageReflectSession.h"
#include "iogateway/MessageIOGateway.h"
#include "dataio/TCPSocketDataIO.h"
#include "system/SetupSystem.h"
#include "regex/QueryFilter.h"
#include "util/NetworkUtilityFunctions.h"
#include "mjson.h"
#include <map>
#include <set>
#include <vector>
#include <string>
#include <algorithm>
#include <signal.h>
#include <unistd.h>
#include <fcntl.h>
#include <time.h>
#include <sys/resource.h>
#include <sys/time.h>
using namespace muscle;
typedef mj::Value J;

// ---------------------------------------------------------------------------------------------------------- report, watchdog
static int g_repFd = -1, g_curFd = -1;
static char g_stage[256];                                     // what the server is processing right now
static unsigned g_watchdogSecs = 5;
static long g_cases = 0, g_violCases = 0;
// the case being executed is kept, in full, in <report>.cur (for the watchdog / a crash: the check module reads it from there)
static void RepLine(const std::string & s) {std::string t = s; t += '\n'; ssize_t r = write(g_repFd, t.data(), t.size()); (void) r;}
static void RepJ(const J & v) {RepLine(mj::ToString(v));}
static void SetCur(const std::string & s)
{
   if (g_curFd >= 0) { ssize_t r = pwrite(g_curFd, s.data(), s.size(), 0); (void) r; int q = ftruncate(g_curFd, (off_t) s.size()); (void) q; }
}
static void SetStage(const char * s) {strncpy(g_stage, s, sizeof(g_stage)-1); g_stage[sizeof(g_stage)-1] = 0;}
static void OnAlarm(int sig)
{
   // the event loop did not return within the watchdog: the server hangs on this input.  Report and leave.
   static char b[12000];
   int n = snprintf(b, sizeof(b), "{\"violations\":[\"HANG: the server's event loop did not return within %u s of %s while %s\"],\"hang\":true}\n{\"summary\":true,\"hang\":true,\"cases\":%ld,\"violating_cases\":%ld}\n",
                    (sig == SIGALRM) ? g_watchdogSecs*24 : g_watchdogSecs, (sig == SIGALRM) ? "wall-clock time" : "CPU time", g_stage, g_cases, g_violCases+1);
   ssize_t r = write(g_repFd, b, (size_t) n); (void) r;
   _exit(0);
}
// the watchdog: g_watchdogSecs of the process's CPU time (a spinning loop burns it; a machine busy with other work does not), and 24 times as much wall-clock time
static void WatchdogOn(unsigned factor = 1) {struct itimerval it; memset(&it, 0, sizeof(it)); it.it_value.tv_sec = g_watchdogSecs*factor; (void) setitimer(ITIMER_PROF, &it, NULL); alarm(g_watchdogSecs*24*factor);}
static void WatchdogOff() {struct itimerval it; memset(&it, 0, sizeof(it)); (void) setitimer(ITIMER_PROF, &it, NULL); alarm(0);}
static double Now() {struct timespec ts; clock_gettime(CLOCK_MONOTONIC, &ts); return ts.tv_sec + ts.tv_nsec*1e-9;}

// ---------------------------------------------------------------------------------------------------------- sessions and clients
class TSession : public StorageReflectSession
{
public:
   TSession(const char * host) : _host(host) {}
   DataNode & Root() const {return GetGlobalRoot();}
   DataNode * SessNode() const {return GetSessionNode()();}
   Queue<MessageRef> * OutQ() {AbstractMessageIOGateway * g = GetGateway()(); return g ? &g->GetOutgoingMessageQueue() : NULL;}
   bool ServerHasBytes() const {const AbstractMessageIOGateway * g = GetGateway()(); return g ? g->HasBytesToOutput() : false;}
protected:
   virtual String GenerateHostName(const IPAddress &, const String &) const {return _host;}
private:
   String _host;
};

struct Client {
   std::string name, host, id, root;           // model name ("s1".."s3", "obs", "wit", ...), host node name, session id string, "/host/id"
   ConstSocketRef sock; MessageIOGateway gw; QueueGatewayMessageReceiver rx;
   TSession * sess; AbstractReflectSessionRef ref;
   bool connected, reads, peerClosed;
   std::map<std::string, uint32> mirror;       // node path -> what-code of the payload, built from PR_RESULT_DATAITEMS
   std::vector<MessageRef> inbox;              // everything else that arrived
   unsigned long received;
   Client() : sess(NULL), connected(false), reads(true), peerClosed(false), received(0) {}
   void Flush() {if (!connected) return; int g = 0; while ((gw.HasBytesToOutput())&&(g++ < 64)) {if (gw.DoOutput().GetByteCount() <= 0) break;}}
   void Recv()
   {
      if ((!connected)||(!reads)) return;
      while (true) {const io_status_t r = gw.DoInput(rx); if (r.IsError()) {peerClosed = true; break;} if (r.GetByteCount() <= 0) break;}
      MessageRef m;
      while (rx.GetMessages().RemoveHead(m).IsOK()) {
         received++;
         if (m()->what == PR_RESULT_DATAITEMS) {
            const String * r; for (int i=0; m()->FindString(PR_NAME_REMOVED_DATAITEMS, i, &r).IsOK(); i++) mirror.erase(r->Cstr());
            for (MessageFieldNameIterator it = m()->GetFieldNameIterator(B_MESSAGE_TYPE); it.HasData(); it++) {MessageRef sub; for (int i=0; m()->FindMessage(it.GetFieldName(), i, sub).IsOK(); i++) mirror[it.GetFieldName()()] = sub()->what;}
         }
         inbox.push_back(m);
      }
   }
};

struct World {
   ReflectServer * srv; std::vector<Client *> cs; unsigned long pumps; double slowest;
   World() : srv(new ReflectServer), pumps(0), slowest(0) {srv->SetDoLogging(false);}
   ~World()
   {
      for (size_t i=0; i<cs.size(); i++) {cs[i]->gw.SetDataIO(DataIORef()); cs[i]->sock.Reset(); cs[i]->connected = false;}
      SetStage("tearing the server down");
      WatchdogOn(2); for (int i=0; i<3; i++) (void) srv->ServerProcessLoop(0); srv->Cleanup(); WatchdogOff();
      for (size_t i=0; i<cs.size(); i++) delete cs[i];
      delete srv;
   }
   Client * Add(const char * name, const char * host)
   {
      Client * c = new Client; c->name = name; c->host = host;
      ConstSocketRef a, b; if (CreateConnectedSocketPair(a, b, false).IsError()) {fprintf(stderr, "socketpair failed\n"); exit(10);}
      TSession * s = new TSession(host); c->ref.SetRef(s); c->sess = s;
      if (srv->AddNewSession(c->ref, a).IsError()) {fprintf(stderr, "AddNewSession failed\n"); exit(10);}
      c->sock = b; c->gw.SetDataIO(DataIORef(new TCPSocketDataIO(b, false))); c->connected = true;
      c->id = s->GetSessionIDString()(); c->root = s->GetSessionRootPath()();
      cs.push_back(c); return c;
   }
   Client * ByName(const std::string & n) {for (size_t i=0; i<cs.size(); i++) if (cs[i]->name == n) return cs[i]; return NULL;}
   bool Attached(const Client * c) const {return srv->GetSessions().ContainsKey(&c->sess->GetSessionIDString());}
   void PumpOnce()
   {
      for (size_t i=0; i<cs.size(); i++) cs[i]->Flush();
      const double t0 = Now();
      WatchdogOn(); (void) srv->ServerProcessLoop(0); WatchdogOff();
      const double dt = Now()-t0; if (dt > slowest) slowest = dt;
      pumps++;
      for (size_t i=0; i<cs.size(); i++) cs[i]->Recv();
   }
   // pumps until nothing moves any more: no client has bytes left to send and no READING client's session has bytes left to deliver
   void Settle(int minPumps = 3, int maxPumps = 400)
   {
      int quiet = 0;
      for (int k=0; (k < maxPumps)&&(quiet < minPumps); k++) {
         PumpOnce();
         bool busy = false;
         for (size_t i=0; i<cs.size(); i++) { Client * c = cs[i]; if (!c->connected) continue;
            if (c->gw.HasBytesToOutput()) busy = true;
            if ((c->reads)&&(Attached(c))&&(c->sess->ServerHasBytes())) busy = true; }
         quiet = busy ? 0 : quiet+1;
      }
   }
   void Send(Client * c, const MessageRef & m) {if (c->connected) (void) c->gw.AddOutgoingMessage(m);}
   // the client side closes its socket
   void Close(Client * c) {c->gw.SetDataIO(DataIORef()); c->sock.Reset(); c->connected = false;}
};

static std::string Flat(const Message & m) {const uint32 n = m.FlattenedSize(); std::string s(n, '\0'); m.FlattenToBytes((uint8 *) &s[0], n); return s;}
// the bytes a MessageIOGateway puts on the wire for m (default encoding): body length, encoding word, flattened Message
static std::string Wire(const Message & m) {const std::string f = Flat(m); std::string b(8, '\0'); const uint32 n = B_HOST_TO_LENDIAN_INT32((uint32) f.size()); const uint32 e = B_HOST_TO_LENDIAN_INT32((uint32) MUSCLE_MESSAGE_ENCODING_DEFAULT); memcpy(&b[0], &n, 4); memcpy(&b[4], &e, 4); return b+f;}
static MessageRef Msg(uint32 what) {return GetMessageFromPool(what);}

static bool ReadCases(const char * path, std::vector<J> & out)
{
   FILE * f = fopen(path, "r"); if (!f) return false;
   std::string line; while (mj::ReadLine(f, line)) {if (line.empty()) continue; J v; if (!mj::Parse(line, v)) {fprintf(stderr, "bad JSON line in %s\n", path); fclose(f); return false;} out.push_back(v);}
   fclose(f); return true;
}
// one case per line, parsed when it is its turn (the parsed form of a behaviour with its expected states is ~100 times the size of its text)
struct CaseStream {
   FILE * f; explicit CaseStream(const char * path) : f(fopen(path, "r")) {} ~CaseStream() {if (f) fclose(f);}
   bool Ok() const {return f != NULL;}
   bool Next(J & v) {std::string line; while (mj::ReadLine(f, line)) {if (line.empty()) continue; if (!mj::Parse(line, v)) {fprintf(stderr, "bad JSON line\n"); exit(12);} return true;} return false;}
};
static bool ReadLines(const char * path, std::vector<std::string> & out) {FILE * f = fopen(path, "r"); if (!f) return false; std::string line; while (mj::ReadLine(f, line)) if (!line.empty()) out.push_back(line); fclose(f); return true;}
static J ParseLine(const std::string & l) {J v; if (!mj::Parse(l, v)) {fprintf(stderr, "bad JSON line\n"); exit(12);} return v;}
static bool OpenReport(const char * path)
{
   g_repFd = open(path, O_WRONLY|O_CREAT|O_TRUNC, 0644); if (g_repFd < 0) return false;
   std::string cur = std::string(path)+".cur"; g_curFd = open(cur.c_str(), O_WRONLY|O_CREAT|O_TRUNC, 0644);
   return true;
}
static J StrList(const std::vector<std::string> & v) {J a = J::Arr(); for (size_t i=0; i<v.size(); i++) a.push(J::Str(v[i])); return a;}

#include "srv_iso.h"
#include "srv_oq.h"

// ---------------------------------------------------------------------------------------------------------- probe (measurements)
static int Probe(int argc, char ** argv)
{
   const std::string what = (argc > 2) ? argv[2] : "basic";
   if (what == "basic") {
      World w; Client * a = w.Add("s1", "hA"); Client * b = w.Add("s2", "hA"); Client * c = w.Add("s3", "hB"); w.Settle();
      printf("roots: %s %s %s\n", a->root.c_str(), b->root.c_str(), c->root.c_str());
      MessageRef m = Msg(PR_COMMAND_SETDATA); MessageRef p = Msg(1); p()->AddFlat("blob", GetByteBufferFromPool(300000)); m()->AddMessage("big", p); w.Send(b, m); w.Settle();
      a->reads = false;
      for (int i=0; i<4; i++) { MessageRef g = Msg(PR_COMMAND_GETDATA); g()->AddString(PR_NAME_KEYS, "big"); w.Send(a, g); w.Settle(); printf("after GETDATA %d: queue=%u serverHasBytes=%d\n", i, a->sess->OutQ()->GetNumItems(), (int) a->sess->ServerHasBytes()); }
      a->reads = true; w.Settle(); printf("opened: received=%lu queue=%u slowest pump %.6f\n", a->received, a->sess->OutQ()->GetNumItems(), w.slowest);
   }
   else if (what == "batch") {
      const int depth = atoi(argv[3]);
      World w; Client * a = w.Add("s1", "hA"); w.Settle();
      MessageRef leaf = Msg(PR_COMMAND_PING); leaf()->AddInt32("seq", 7);
      MessageRef cur = leaf; for (int i=0; i<depth; i++) {MessageRef bm = Msg(PR_COMMAND_BATCH); bm()->AddMessage(PR_NAME_KEYS, cur); cur = bm;}
      w.Send(a, cur); w.Settle(); bool pong = false; for (size_t i=0; i<a->inbox.size(); i++) if (a->inbox[i]()->what == PR_RESULT_PONG) pong = true;
      printf("batch depth %d: pong=%d attached=%d\n", depth, (int) pong, (int) w.Attached(a));
   }
   return 0;
}

int main(int argc, char ** argv)
{
   CompleteSetupSystem css; SetConsoleLogLevel(MUSCLE_LOG_CRITICALERROR); setvbuf(stdout, NULL, _IONBF, 0);
   signal(SIGALRM, OnAlarm); signal(SIGPROF, OnAlarm); signal(SIGPIPE, SIG_IGN);
   if (getenv("SRV_WATCHDOG")) g_watchdogSecs = (unsigned) atoi(getenv("SRV_WATCHDOG"));
   SetStage("starting");
   const std::string mode = (argc > 1) ? argv[1] : "";
   int rc = -1;
   if (mode == "probe")   rc = Probe(argc, argv);
   if (mode == "iso")     rc = IsoReplay(argc, argv);
   if (mode == "isorand") rc = IsoRandom(argc, argv);
   if (mode == "ctrleak")     rc = CtrLeakDirected(argc, argv);
   if (mode == "priv")    rc = PrivRun(argc, argv);
   if (mode == "oq")      rc = OqReplay(argc, argv);
   if (mode == "hostile") rc = HostileRun(argc, argv);
   if (rc >= 0) {fflush(NULL); return rc;}
   fprintf(stderr, "usage: srv iso|isorand|oq|hostile|probe ...\n"); return 2;
}
