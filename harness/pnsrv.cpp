// C20, server-level stage: the property holds for every PulseNode a ReflectServer manages - sessions (connected over a socket pair,
// without a gateway, (re)connecting), session factories (always accepting, starting paused and resuming from their Pulse(), pausing and
// resuming themselves from Pulse()), and plain PulseNodes attached with PutPulseChild() under the server, a session and a factory.
//   pnsrv run <seed> <activity ms> <report.ndjson>
// An in-process ReflectServer is pumped single-threadedly with ServerProcessLoop(now + 50 ms) under the REAL clock; every node re-arms a
// timer 10-50 ms ahead from inside Pulse(), some are re-timed from outside with InvalidatePulseTime().  Oracle = the PulseAbs clauses at
// the level of the server's own cycles: Pulse() never before the time the node asked for, with the scheduled time it asked for, and every
// timer asked for DOES fire (a missing callback is the violation, not lateness: a timer still pending 2.5 s and 30 loop slices after
// its time, with the machine's load out of the picture, is lost).  Public API and callbacks only.
#include "reflector/ReflectServer.h"
#include "reflector/DumbReflectSession.h"
#include "system/SetupSystem.h"
#include "syslog/SysLog.h"
#include "util/NetworkUtilityFunctions.h"
#include "mjson.h"
#include <random>
#include <vector>
#include <string>
using namespace muscle;

static std::mt19937 g_rng;
static uint64 g_activityEnd = 0;
static std::vector<std::string> g_violations;
static void V(const std::string & s) {if (g_violations.size() < 8) g_violations.push_back(s);}

struct Timer {
   std::string name; PulseNode * node; uint64 mine, lastReturned, maxLate; long asks, pulses, fires; bool gone, everAsked;
   Timer() : node(NULL), mine(MUSCLE_TIME_NEVER), lastReturned(MUSCLE_TIME_NEVER), maxLate(0), asks(0), pulses(0), fires(0), gone(false), everAsked(false) {}
};
static std::vector<Timer *> g_timers;
static uint64 Interval() {return MillisToMicros(10 + (g_rng() % 41));}

// GetPulseTime(): the node asks for the earlier of its own timer and whatever its base class wants
static uint64 OnAsk(Timer & t, uint64 callTime, uint64 prev, uint64 baseTime)
{
   char b[300];
   t.asks++;
   if ((t.everAsked)&&(prev != t.lastReturned)&&(prev != MUSCLE_TIME_NEVER)) {snprintf(b, sizeof(b), "%s: GetPulseTime() got previous time %llu, but it answered %llu last time", t.name.c_str(), (unsigned long long) prev, (unsigned long long) t.lastReturned); V(b);}
   (void) callTime;
   t.everAsked = true; t.lastReturned = muscleMin(t.mine, baseTime);
   return t.lastReturned;
}
// Pulse(): returns true iff the node's own timer fired (it has been re-armed then)
static bool OnPulse(Timer & t, uint64 callTime, uint64 sched)
{
   char b[300];
   t.pulses++;
   if (sched != t.lastReturned) {snprintf(b, sizeof(b), "%s: Pulse() got scheduled time %llu, but the node asked for %llu", t.name.c_str(), (unsigned long long) sched, (unsigned long long) t.lastReturned); V(b);}
   if ((callTime < t.lastReturned)||(GetRunTime64() < t.lastReturned)) {snprintf(b, sizeof(b), "%s: Pulse() at %llu BEFORE the time %llu the node asked for", t.name.c_str(), (unsigned long long) callTime, (unsigned long long) t.lastReturned); V(b);}
   if (callTime < t.mine) return false;      // the base class's business
   t.fires++; if (callTime - t.mine > t.maxLate) t.maxLate = callTime - t.mine;
   t.mine = (callTime < g_activityEnd) ? (callTime + Interval()) : MUSCLE_TIME_NEVER;
   return true;
}

class TChild : public PulseNode
{
public:
   TChild(const char * n) {t.name = n; t.node = this; g_timers.push_back(&t);}
   virtual uint64 GetPulseTime(const PulseArgs & a) {return OnAsk(t, a.GetCallbackTime(), a.GetScheduledTime(), PulseNode::GetPulseTime(a));}
   virtual void Pulse(const PulseArgs & a) {PulseNode::Pulse(a); (void) OnPulse(t, a.GetCallbackTime(), a.GetScheduledTime());}
   Timer t;
};
class TSess : public DumbReflectSession
{
public:
   TSess(const char * n) {t.name = n; t.node = this; g_timers.push_back(&t);}
   virtual uint64 GetPulseTime(const PulseArgs & a) {return OnAsk(t, a.GetCallbackTime(), a.GetScheduledTime(), DumbReflectSession::GetPulseTime(a));}
   virtual void Pulse(const PulseArgs & a) {DumbReflectSession::Pulse(a); (void) OnPulse(t, a.GetCallbackTime(), a.GetScheduledTime());}
   virtual void AboutToDetachFromServer() {t.gone = true; DumbReflectSession::AboutToDetachFromServer();}
   virtual bool ClientConnectionClosed() {return false;}     // stay attached (a session that lost / never got its connection keeps its timers)
   Timer t;
};
class TFactory : public ReflectSessionFactory
{
public:
   // mode 0: always accepting; 1: starts paused, resumes at its first timer; 2: pauses / resumes itself at every timer
   TFactory(const char * n, int mode) : _mode(mode), _ready(mode != 1) {t.name = n; t.node = this; g_timers.push_back(&t);}
   virtual AbstractReflectSessionRef CreateSession(const String &, const IPAddressAndPort &) {return AbstractReflectSessionRef(new DumbReflectSession);}
   virtual bool IsReadyToAcceptSessions() const {return _ready;}
   virtual uint64 GetPulseTime(const PulseArgs & a) {return OnAsk(t, a.GetCallbackTime(), a.GetScheduledTime(), ReflectSessionFactory::GetPulseTime(a));}
   virtual void Pulse(const PulseArgs & a)
   {
      ReflectSessionFactory::Pulse(a);
      if (OnPulse(t, a.GetCallbackTime(), a.GetScheduledTime())) { if (_mode == 1) _ready = true; else if (_mode == 2) _ready = !_ready; }
   }
   int _mode; bool _ready; Timer t;
};

static int Run(uint32 seed, uint32 activityMs, const char * outFile)
{
   FILE * out = fopen(outFile, "w"); if (!out) {fprintf(stderr, "cannot open report\n"); return 2;}
   g_rng.seed(seed*2654435761u + 12345u);
   SetConsoleLogLevel(MUSCLE_LOG_NONE);
   long slices = 0, retimed = 0; uint64 t0 = GetRunTime64(); std::vector<Timer> snap;
   {
      ReflectServer server;
      TFactory fReady("factory (always accepting)", 0), fPaused("factory (starts paused, resumes from its Pulse)", 1), fToggle("factory (pauses and resumes itself from Pulse)", 2);
      TSess * sConn = new TSess("session (connected)"); TSess * sNoGw = new TSess("session (no gateway)"); TSess * sReconn = new TSess("session (connecting, auto-reconnect)");
      AbstractReflectSessionRef rConn(sConn), rNoGw(sNoGw), rReconn(sReconn);
      TChild cServer("child of the server"), cSess("child of the connected session"), cNoGw("child of the session without gateway"), cFactory("child of the paused factory"), cDeep("grandchild under the connected session");
      ConstSocketRef a, b;
      if (CreateConnectedSocketPair(a, b, false).IsError()) {fprintf(stderr, "socketpair failed\n"); return 2;}
      // a port nobody listens on: the connecting session is refused and keeps re-trying
      uint16 closedPort = 0; {ConstSocketRef ls = CreateAcceptingSocket(0, 1, &closedPort, localhostIP); (void) ls;}
      if ((server.PutAcceptFactory(0, DummyReflectSessionFactoryRef(fReady)).IsError())||(server.PutAcceptFactory(0, DummyReflectSessionFactoryRef(fPaused)).IsError())||(server.PutAcceptFactory(0, DummyReflectSessionFactoryRef(fToggle)).IsError())) {fprintf(stderr, "PutAcceptFactory failed\n"); return 2;}
      if ((server.AddNewSession(rConn, a).IsError())||(server.AddNewSession(rNoGw).IsError())) {fprintf(stderr, "AddNewSession failed\n"); return 2;}
      if (server.AddNewConnectSession(rReconn, IPAddressAndPort(localhostIP, closedPort), MillisToMicros(40)).IsError()) sReconn->t.gone = true;   // refused at once on this platform: nothing to check
      server.PutPulseChild(&cServer); sConn->PutPulseChild(&cSess); sNoGw->PutPulseChild(&cNoGw); fPaused.PutPulseChild(&cFactory); cSess.PutPulseChild(&cDeep);

      t0 = GetRunTime64(); g_activityEnd = t0 + MillisToMicros(activityMs);
      for (size_t i=0; i<g_timers.size(); i++) {g_timers[i]->mine = t0 + Interval(); g_timers[i]->node->InvalidatePulseTime();}
      // activity, then grace: until nothing is pending, or a pending timer is 2.5 s AND 30 loop slices overdue
      uint64 pendingSince = 0; long pendingSlices = 0;
      while (true) {
         (void) server.ServerProcessLoop(GetRunTime64() + MillisToMicros(50)); slices++;
         const uint64 now = GetRunTime64();
         if (now < g_activityEnd) {
            // now and then a node's timer is moved from outside its callbacks
            if ((g_rng() % 3) == 0) { Timer & t = *g_timers[g_rng() % g_timers.size()]; if (!t.gone) {t.mine = now + Interval(); t.node->InvalidatePulseTime((g_rng() % 2) == 0); retimed++;} }
            continue;
         }
         bool pending = false; for (size_t i=0; i<g_timers.size(); i++) if ((!g_timers[i]->gone)&&(g_timers[i]->mine != MUSCLE_TIME_NEVER)) pending = true;
         if (!pending) break;
         if (pendingSince == 0) pendingSince = now;
         pendingSlices++;
         if ((now - pendingSince > MillisToMicros(2500))&&(pendingSlices >= 30)) break;
      }
      const uint64 now = GetRunTime64();
      for (size_t i=0; i<g_timers.size(); i++) { Timer & t = *g_timers[i];
         if ((!t.gone)&&(t.mine != MUSCLE_TIME_NEVER)) { char bb[400]; snprintf(bb, sizeof(bb), "%s: asked for Pulse() at +%llu ms and never got it (now +%llu ms, %ld loop slices later; GetPulseTime() calls %ld, Pulse() calls %ld, timers fired %ld): the server does not wake up for this node", t.name.c_str(), (unsigned long long) ((t.mine-t0)/1000), (unsigned long long) ((now-t0)/1000), pendingSlices, t.asks, t.pulses, t.fires); V(bb); }
         else if ((!t.gone)&&(t.fires == 0)) V(t.name + ": no timer of this node ever fired");
      }
      for (size_t i=0; i<g_timers.size(); i++) snap.push_back(*g_timers[i]);     // the nodes (and their timers) go away with this scope
      server.Cleanup();
   }
   mj::Value rec = mj::Value::Obj(); rec.set("seed", mj::Value::Int(seed)).set("activity_ms", mj::Value::Int(activityMs));
   mj::Value va = mj::Value::Arr(); for (size_t i=0; i<g_violations.size(); i++) va.push(mj::Value::Str(g_violations[i]));
   if (!g_violations.empty()) {rec.set("violations", va); fprintf(out, "%s\n", mj::ToString(rec).c_str());}
   mj::Value sum = mj::Value::Obj(); long asks = 0, pulses = 0, fires = 0; uint64 maxLate = 0; mj::Value per = mj::Value::Arr();
   for (size_t i=0; i<snap.size(); i++) { const Timer & t = snap[i]; asks += t.asks; pulses += t.pulses; fires += t.fires; if (t.maxLate > maxLate) maxLate = t.maxLate;
      mj::Value p = mj::Value::Obj(); p.set("node", mj::Value::Str(t.name)).set("asks", mj::Value::Int(t.asks)).set("pulses", mj::Value::Int(t.pulses)).set("fired", mj::Value::Int(t.fires)).set("max_late_ms", mj::Value::Int((int64_t)(t.maxLate/1000))).set("gone", mj::Value::Bool(t.gone)); per.push(p); }
   sum.set("summary", mj::Value::Bool(true)).set("nodes", mj::Value::Int((int64_t) snap.size())).set("asks", mj::Value::Int(asks)).set("pulses", mj::Value::Int(pulses)).set("timers_fired", mj::Value::Int(fires))
      .set("retimed_from_outside", mj::Value::Int(retimed)).set("loop_slices", mj::Value::Int(slices)).set("max_late_ms", mj::Value::Int((int64_t)(maxLate/1000))).set("wall_ms", mj::Value::Int((int64_t)((GetRunTime64()-t0)/1000))).set("violated", mj::Value::Int((int64_t) g_violations.size())).set("per_node", per);
   fprintf(out, "%s\n", mj::ToString(sum).c_str()); fclose(out);
   printf("%s\n", mj::ToString(sum).c_str());
   return 0;
}

int main(int argc, char ** argv)
{
   CompleteSetupSystem css;
   if ((argc >= 5)&&(!strcmp(argv[1], "run"))) return Run((uint32) atol(argv[2]), (uint32) atol(argv[3]), argv[4]);
   fprintf(stderr, "usage: pnsrv run <seed> <activity ms> <report.ndjson>\n");
   return 2;
}
