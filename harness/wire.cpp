// C01 / C08 conformance harness: the real muscle::Message codec, the C and Python codecs and the gateways against spec/WireFormat.
//
//   wire replay  <behaviours.ndjson> <report.ndjson>
//        C01 spec -> code.  A behaviour is a list of the `last` records of WireMC / WireSim: the API call, whether it reports success,
//        and the serialised bytes + advertised size of the Message AFTER the call according to WireAbs.  Every call is made through the
//        public Message API; after EVERY call: FlattenedSize(), the bytes written (byte for byte against the specification), nothing
//        written outside the advertised size, UnflattenFromBytes, operator== both ways, CalculateChecksum, re-flatten.
//   wire gen     <seed> <messages> <steps> <trace.ndjson> <report.ndjson>
//        C01 code -> spec.  Seeded random API scripts (all types, dozens of items, nesting up to 4, non-ASCII / empty strings, NaN / -0 /
//        inf / signalling-NaN bit patterns, raw buffers of arbitrary type codes, tags and pointers); the same self-checks after every
//        call; every call is logged with the bytes the code produced and TLC validates the log against WireAbs (WireTrace.tla).
//   wire x08vec  <vectors.ndjson> <trace.ndjson> <report.ndjson> <wire_mini> <wire_micro> <python3> <wire_py.py>
//        C08 spec -> code.  Vectors enumerated by TLC (WireVec.tla): Message value, its bytes, which implementations have it in their
//        repertoire.  C++ bytes = specification bytes; the bytes parsed and re-serialised by the mini codec, the micro codec and
//        message.py; the same content built natively by each of them; C++ accepts what they produce; gateway frames (logged, TLC validates).
//   wire x08gen  <seed> <vectors> <trace.ndjson> <report.ndjson> <wire_mini> <wire_micro> <python3> <wire_py.py>
//        C08 code -> spec.  Seeded random contents through all implementations; contents, C++ bytes and the outcome per implementation
//        are logged; TLC validates bytes = Flatten(content) and, where Common(impl, content), that the implementation agreed.
//   wire pyecho  <port> <seed> <messages> <trace.ndjson> <report.ndjson>
//        C08 frames, Python leg: MessageIOGateway over loopback TCP against lang/python3/message_transceiver_thread.py echoing (wire_py.py echo).
#include "message/Message.h"
#include "iogateway/MessageIOGateway.h"
#include "dataio/TCPSocketDataIO.h"
#include "system/SetupSystem.h"
#include "util/NetworkUtilityFunctions.h"
#include "util/ByteBuffer.h"
#include "mjson.h"
#include <signal.h>
#include <unistd.h>
#include <sys/wait.h>
#include <sys/types.h>
#include <deque>
#include <random>
#include <set>
#include <string>
#include <vector>
using namespace muscle;

typedef std::vector<std::string> Strs;

// ------------------------------------------------------------------------------------------------ report, crash / hang handler
static FILE * g_rep = NULL;
static int g_repfd = -1;
static char g_ctx[600] = "start";       // what the harness is doing right now (JSON-safe text)
static int g_violCases = 0;
static const int MAX_VIOL_CASES = 25;

static void OnSignal(int sig)
{
   char buf[1200];
   const int n = snprintf(buf, sizeof(buf), "{\"fatal\":true,\"signal\":%d,\"violations\":[\"%s in the real code (signal %d) while: %s\"],\"where\":\"%s\"}\n{\"summary\":true,\"aborted\":true}\n",
                          sig, (sig == SIGALRM) ? "HANG (watchdog expired)" : "CRASH / abort", sig, g_ctx, g_ctx);
   if (g_repfd >= 0) {ssize_t r = write(g_repfd, buf, (size_t) n); (void) r;}
   _exit(0);
}
static void InstallHandlers()
{
   signal(SIGPIPE, SIG_IGN);
   const int sigs[] = {SIGABRT, SIGSEGV, SIGBUS, SIGFPE, SIGILL, SIGALRM};
   for (size_t i=0; i<sizeof(sigs)/sizeof(sigs[0]); i++) signal(sigs[i], OnSignal);
}
static void OpenReport(const char * path)
{
   g_rep = fopen(path, "w");
   if (g_rep == NULL) {fprintf(stderr, "cannot write %s\n", path); exit(2);}
   setvbuf(g_rep, NULL, _IOLBF, 0);
   g_repfd = fileno(g_rep);
}
static void ReportLine(const mj::Value & v) {std::string s = mj::ToString(v); s += '\n'; fputs(s.c_str(), g_rep); fflush(g_rep);}
static mj::Value StrArr(const Strs & a) {mj::Value r = mj::Value::Arr(); for (size_t i=0; i<a.size(); i++) r.push(mj::Value::Str(a[i])); return r;}

// ------------------------------------------------------------------------------------------------ bytes
static std::string BytesOf(const mj::Value & a) {std::string s; s.reserve(a.a.size()); for (size_t i=0; i<a.a.size(); i++) s += (char)(uint8) a.a[i].n; return s;}
static mj::Value ArrOf(const std::string & s) {mj::Value r = mj::Value::Arr(); r.a.reserve(s.size()); for (size_t i=0; i<s.size(); i++) r.a.push_back(mj::Value::Int((uint8) s[i])); return r;}
static uint32 W32(const mj::Value & a) {return ((uint32)a[(size_t)0].n) | (((uint32)a[1].n) << 8) | (((uint32)a[2].n) << 16) | (((uint32)a[3].n) << 24);}
static std::string LE32(uint32 v) {std::string s(4, '\0'); s[0] = (char)(v & 0xFF); s[1] = (char)((v >> 8) & 0xFF); s[2] = (char)((v >> 16) & 0xFF); s[3] = (char)((v >> 24) & 0xFF); return s;}
static std::string Hex(const std::string & s) {static const char * d = "0123456789abcdef"; std::string r; r.reserve(s.size()*2); for (size_t i=0; i<s.size(); i++) {unsigned char c = (unsigned char) s[i]; r += d[c >> 4]; r += d[c & 15];} return r.empty() ? std::string("-") : r;}
static int HexVal(char c) {return (c >= '0' && c <= '9') ? c-'0' : (c >= 'a' && c <= 'f') ? c-'a'+10 : (c >= 'A' && c <= 'F') ? c-'A'+10 : -1;}
static bool UnHex(const std::string & h, std::string & out) {out.clear(); if (h == "-") return true; if (h.size() % 2) return false; for (size_t i=0; i<h.size(); i+=2) {int a = HexVal(h[i]), b = HexVal(h[i+1]); if (a < 0 || b < 0) return false; out += (char)((a << 4) | b);} return true;}
static std::string Short(const std::string & hex) {return (hex.size() > 400) ? hex.substr(0, 400) + "..." : hex;}
static size_t FirstDiff(const std::string & a, const std::string & b) {size_t i = 0; while (i < a.size() && i < b.size() && a[i] == b[i]) i++; return i;}

// ------------------------------------------------------------------------------------------------ the public API, call by call
class TagObj : public RefCountable {};
static int g_ptrTargets[4];
static thread_local uint32 g_variant = 0;        // alternates between the typed call and the equivalent generic AddData / PrependData / ReplaceData call
static thread_local bool g_sawNonFlat = false;   // a tag or pointer was involved somewhere in the current case

enum {MODE_ADD = 0, MODE_PREPEND, MODE_REPLACE};
static MessageRef BuildScript(const mj::Value & sc);

#define TYPED3(ADD, PRE, REP, VAL) ((mode == MODE_ADD) ? m.ADD(fn, VAL) : (mode == MODE_PREPEND) ? m.PRE(fn, VAL) : m.REP(okToAdd, fn, idx, VAL))
#define GENERIC3(TC, PTR, NB)      ((mode == MODE_ADD) ? m.AddData(fn, TC, PTR, NB) : (mode == MODE_PREPEND) ? m.PrependData(fn, TC, PTR, NB) : m.ReplaceData(okToAdd, fn, TC, idx, PTR, NB))
#define FIXEDCASE(TC, CT, ADD, PRE, REP) case TC: {CT x; if (raw.size() != sizeof(x)) return B_BAD_ARGUMENT; memcpy(&x, raw.data(), sizeof(x)); \
                                                   if (generic) return GENERIC3(TC, &x, sizeof(x)); return TYPED3(ADD, PRE, REP, x);}

static float F32At(const std::string & raw, size_t off) {float f; memcpy(&f, raw.data()+off, 4); return f;}

// one item (value v: bytes, or a sub-Message script / content) put into field fn of type tc
static status_t PutItem(Message & m, const String & fn, uint32 tc, const mj::Value & v, int mode, uint32 idx, bool okToAdd)
{
   const bool generic = ((g_variant++ % 3) == 2);
   std::string raw; if (v.type == mj::Value::ARR) raw = BytesOf(v);
   switch(tc)
   {
      case B_BOOL_TYPE: {if (raw.size() != 1) return B_BAD_ARGUMENT; const bool x = (raw[0] != 0); if (generic) return GENERIC3(B_BOOL_TYPE, &x, sizeof(x)); return TYPED3(AddBool, PrependBool, ReplaceBool, x);}
      FIXEDCASE(B_INT8_TYPE,   int8,   AddInt8,   PrependInt8,   ReplaceInt8)
      FIXEDCASE(B_INT16_TYPE,  int16,  AddInt16,  PrependInt16,  ReplaceInt16)
      FIXEDCASE(B_INT32_TYPE,  int32,  AddInt32,  PrependInt32,  ReplaceInt32)
      FIXEDCASE(B_INT64_TYPE,  int64,  AddInt64,  PrependInt64,  ReplaceInt64)
      FIXEDCASE(B_FLOAT_TYPE,  float,  AddFloat,  PrependFloat,  ReplaceFloat)
      FIXEDCASE(B_DOUBLE_TYPE, double, AddDouble, PrependDouble, ReplaceDouble)
      case B_POINT_TYPE: {if (raw.size() != 8) return B_BAD_ARGUMENT; const Point p(F32At(raw, 0), F32At(raw, 4)); if (generic) return GENERIC3(B_POINT_TYPE, &p, sizeof(p)); return TYPED3(AddPoint, PrependPoint, ReplacePoint, p);}
      case B_RECT_TYPE:  {if (raw.size() != 16) return B_BAD_ARGUMENT; const Rect r(F32At(raw, 0), F32At(raw, 4), F32At(raw, 8), F32At(raw, 12)); if (generic) return GENERIC3(B_RECT_TYPE, &r, sizeof(r)); return TYPED3(AddRect, PrependRect, ReplaceRect, r);}
      case B_STRING_TYPE:
      {
         const String s(raw.data(), (uint32) raw.size());
         if (generic) return GENERIC3(B_STRING_TYPE, s(), s.Length()+1);
         return TYPED3(AddString, PrependString, ReplaceString, s);
      }
      case B_MESSAGE_TYPE:
      {
         MessageRef sub = BuildScript(v);
         if (sub() == NULL) return B_BAD_ARGUMENT;
         if (generic) return GENERIC3(B_MESSAGE_TYPE, &sub, sizeof(sub));
         return TYPED3(AddMessage, PrependMessage, ReplaceMessage, sub);
      }
      case B_TAG_TYPE:     {g_sawNonFlat = true; RefCountableRef t(new TagObj); return TYPED3(AddTag, PrependTag, ReplaceTag, t);}
      case B_POINTER_TYPE: {g_sawNonFlat = true; const void * p = &g_ptrTargets[g_variant % 4]; return TYPED3(AddPointer, PrependPointer, ReplacePointer, p);}
      default:
      {
         // a raw buffer of type tc.  An empty buffer can only be handed over as a ByteBuffer object (AddData() refuses zero bytes), which has type B_RAW_TYPE.
         if ((raw.empty())||((tc == B_RAW_TYPE)&&(generic)))
         {
            if (tc != B_RAW_TYPE) return B_BAD_ARGUMENT;
            ByteBufferRef b = GetByteBufferFromPool((uint32) raw.size(), (const uint8 *) raw.data());
            if (b() == NULL) return B_OUT_OF_MEMORY;
            return TYPED3(AddFlat, PrependFlat, ReplaceFlat, b);
         }
         return GENERIC3(tc, raw.data(), (uint32) raw.size());
      }
   }
}

// a field of type tc with ZERO items in m: two junk items in a donor Message, donor.ShareName(fn, m) (two items: the item array is shared, not
// copied), then the donor removes both items ("changes to the field in one Message will be seen in the other"; the donor's own field goes with its last item)
static status_t PutZeroItemField(Message & m, const String & fn, uint32 tc)
{
   if (m.HasName(fn)) return B_TYPE_MISMATCH;
   Message donor;
   const uint8 zeros[16] = {0};
   for (int i=0; i<2; i++)
   {
      status_t r;
      switch(tc)
      {
         case B_STRING_TYPE:  r = donor.AddString(fn, "junk"); break;
         case B_MESSAGE_TYPE: r = donor.AddMessage(fn, GetMessageFromPool(7)); break;
         case B_BOOL_TYPE: case B_INT8_TYPE: r = donor.AddData(fn, tc, zeros, 1); break;
         case B_INT16_TYPE:                  r = donor.AddData(fn, tc, zeros, 2); break;
         case B_INT32_TYPE: case B_FLOAT_TYPE: r = donor.AddData(fn, tc, zeros, 4); break;
         case B_INT64_TYPE: case B_DOUBLE_TYPE: r = donor.AddData(fn, tc, zeros, 8); break;
         case B_POINT_TYPE:   r = donor.AddPoint(fn, Point(1.0f, 2.0f)); break;
         case B_RECT_TYPE:    r = donor.AddRect(fn, Rect(1.0f, 2.0f, 3.0f, 4.0f)); break;
         case B_TAG_TYPE: case B_POINTER_TYPE: return B_BAD_ARGUMENT;
         default:             r = donor.AddData(fn, tc, zeros, 3); break;      // raw buffers of type tc
      }
      MRETURN_ON_ERROR(r);
   }
   MRETURN_ON_ERROR(donor.ShareName(fn, m));
   (void) donor.RemoveData(fn, 0);
   return donor.RemoveData(fn, 0);
}

static String NameOf(const mj::Value & n) {const std::string s = BytesOf(n); return String(s.data(), (uint32) s.size());}

// one step of an API script: {op, n, t, v, i, a}
static status_t ApplyStep(Message & m, const mj::Value & s)
{
   const std::string & op = s["op"].str();
   const String fn = NameOf(s["n"]);
   if (op == "Add")        return PutItem(m, fn, W32(s["t"]), s["v"], MODE_ADD, 0, false);
   if (op == "Prepend")    return PutItem(m, fn, W32(s["t"]), s["v"], MODE_PREPEND, 0, false);
   if (op == "Replace")    return PutItem(m, fn, W32(s["t"]), s["v"], MODE_REPLACE, (uint32) s["i"].i(), s["a"].truthy());
   if (op == "Remove")     return (((g_variant++ % 4) == 3)&&(m.GetNumValuesInName(fn) == ((uint32) s["i"].i())+1)) ? m.RemoveLastData(fn) : m.RemoveData(fn, (uint32) s["i"].i());
   if (op == "RemoveName") return m.RemoveName(fn);
   if (op == "ZeroField")  return PutZeroItemField(m, fn, W32(s["t"]));
   fprintf(stderr, "unknown op [%s]\n", op.c_str()); exit(2);
}

// a script {w, s:[steps]} or a content {what, fields:[{name, type, items}]} -> Message
static MessageRef BuildScript(const mj::Value & sc)
{
   if (sc.has("what"))
   {
      MessageRef r = GetMessageFromPool(W32(sc["what"]));
      const mj::Value & fs = sc["fields"];
      for (size_t i=0; i<fs.a.size(); i++)
      {
         const String fn = NameOf(fs.a[i]["name"]); const uint32 tc = W32(fs.a[i]["type"]);
         const mj::Value & its = fs.a[i]["items"];
         if ((its.a.empty())&&(PutZeroItemField(*r(), fn, tc).IsError())) return MessageRef();
         for (size_t j=0; j<its.a.size(); j++) if (PutItem(*r(), fn, tc, its.a[j], MODE_ADD, 0, false).IsError()) return MessageRef();
      }
      return r;
   }
   MessageRef r = GetMessageFromPool(W32(sc["w"]));
   const mj::Value & st = sc["s"];
   for (size_t i=0; i<st.a.size(); i++) (void) ApplyStep(*r(), st.a[i]);
   return r;
}

// ------------------------------------------------------------------------------------------------ the oracle on one Message state
// serialises m the way a user does; checks the size contract and that nothing is written outside the advertised size
static bool FlatChecked(const Message & m, std::string & out, Strs & viol, const char * who)
{
   const uint32 fs = m.FlattenedSize();
   if (fs > 64*1024*1024) {viol.push_back(std::string(who) + ": FlattenedSize() is absurd"); return false;}
   const uint32 G = 64;
   std::vector<uint8> buf(fs + 2*G, 0xEE);
   m.FlattenToBytes(&buf[G], fs);    // the DataFlattener aborts the process when the bytes written differ from fs: the signal handler reports that
   for (uint32 i=0; i<G; i++) if ((buf[i] != 0xEE)||(buf[G+fs+i] != 0xEE)) {viol.push_back(std::string(who) + ": Flatten() wrote outside the FlattenedSize() bytes it was given"); return false;}
   out.assign((const char *) &buf[G], fs);
   return true;
}

// the Message without its non-flattenable fields, at every level (what the parsed Message is to be compared with)
static MessageRef Strip(const Message & m)
{
   MessageRef r = GetMessageFromPool(m.what);
   for (MessageFieldNameIterator it = m.GetFieldNameIterator(); it.HasData(); it++)
   {
      const String & fn = it.GetFieldName();
      uint32 tc = 0, n = 0; (void) m.GetInfo(fn, &tc, &n);
      if ((tc == B_TAG_TYPE)||(tc == B_POINTER_TYPE)) continue;
      if ((tc == B_MESSAGE_TYPE)&&(n > 0)) {for (uint32 i=0; i<n; i++) {MessageRef sub; if (m.FindMessage(fn, i, sub).IsOK()) (void) r()->AddMessage(fn, Strip(*sub()));}}
      else (void) m.CopyName(fn, *r());
   }
   return r;
}

// m: the Message; twin: a second Message built by the same calls (operator== short-cuts on identical objects, and a Message holding a NaN is not
// == to an identical one, so "equality unchanged by the trip" is (parsed == m) = (twin == m)); expB / expZ: the specification's bytes and size, if known
static void CheckState(const Message & m, const Message * twin, const std::string * expB, int64_t expZ, std::string & bytesOut, Strs & viol)
{
   std::string b;
   if (FlatChecked(m, b, viol, "original") == false) return;
   bytesOut = b;
   char tmp[256];
   if ((expZ >= 0)&&((int64_t) m.FlattenedSize() != expZ)) {snprintf(tmp, sizeof(tmp), "FlattenedSize() = %u, the specification says %lld", m.FlattenedSize(), (long long) expZ); viol.push_back(tmp);}
   if ((expB)&&(b != *expB))
   {
      const size_t d = FirstDiff(b, *expB);
      snprintf(tmp, sizeof(tmp), "flattened bytes differ from the specification at offset %zu (code wrote %zu bytes, specification %zu)", d, b.size(), expB->size());
      viol.push_back(std::string(tmp) + " code=" + Short(Hex(b)) + " spec=" + Short(Hex(*expB)));
   }
   Message r;
   const status_t st = r.UnflattenFromBytes((const uint8 *) b.data(), (uint32) b.size());
   if (st.IsError()) {viol.push_back(std::string("UnflattenFromBytes() of the Message's own bytes fails: ") + st()); return;}
   std::string b2;
   if (FlatChecked(r, b2, viol, "parsed") == false) return;
   if (r.FlattenedSize() != b.size()) {snprintf(tmp, sizeof(tmp), "parsed Message advertises %u bytes, the original wrote %zu", r.FlattenedSize(), b.size()); viol.push_back(tmp);}
   if (b2 != b) {snprintf(tmp, sizeof(tmp), "re-serialising the parsed Message gives different bytes (first difference at offset %zu)", FirstDiff(b, b2)); viol.push_back(std::string(tmp) + " first=" + Short(Hex(b)) + " second=" + Short(Hex(b2)));}
   if (r.CalculateChecksum() != m.CalculateChecksum()) {snprintf(tmp, sizeof(tmp), "CalculateChecksum() changes over the trip: %u -> %u", m.CalculateChecksum(), r.CalculateChecksum()); viol.push_back(tmp);}
   if (r.what != m.what) viol.push_back("what-code changes over the trip");
   // field order, type codes and item counts, explicitly (the byte comparison implies them; this gives the better message)
   {
      MessageFieldNameIterator ir = r.GetFieldNameIterator();
      for (MessageFieldNameIterator im = m.GetFieldNameIterator(); im.HasData(); im++)
      {
         uint32 tc = 0, n = 0; (void) m.GetInfo(im.GetFieldName(), &tc, &n);
         if ((tc == B_TAG_TYPE)||(tc == B_POINTER_TYPE)) continue;     // (n == 0 is a legitimate state: a shared field emptied through the other Message)
         uint32 tc2 = 0, n2 = 0;
         if ((ir.HasData() == false)||(ir.GetFieldName() != im.GetFieldName())||(r.GetInfo(ir.GetFieldName(), &tc2, &n2).IsError())||(tc2 != tc)||(n2 != n))
            {viol.push_back("parsed Message has other fields / field order / type codes / item counts than the original"); break;}
         ir++;
      }
   }
   // Unflatten "replaces the previous contents": parsing into a Message that already holds something must give exactly what parsing into a fresh one gives
   {
      static thread_local Message reused;          // holds the result of the previous parse (of another state / vector) of this thread
      static thread_local uint32 rot = 0;
      Message target; const char * how = "";
      const uint32 firstTC = 0;
      String firstName; {MessageFieldNameIterator it = m.GetFieldNameIterator(); if (it.HasData()) firstName = it.GetFieldName();}
      switch((rot++) % 6)
      {
         case 0: how = "a Message that holds the result of an earlier parse"; break;                                            // -> reused, below
         case 1: how = "a copy of the original (the same fields)"; target = m; break;
         case 2: how = "a Message that holds other fields"; (void) target.AddInt32("zz1", 1); (void) target.AddString("zz2", "x"); (void) target.AddString("zz2", "y"); target.what = 77; break;
         case 3: how = "a Message that holds the same and more fields"; target = m; (void) target.AddInt64("zz3", 3); (void) target.AddMessage("zz4", GetMessageFromPool(5)); (void) target.AddFloat("zz5", 1.5f); (void) target.AddBool("zz6", true); (void) target.AddInt8("zz7", 7); break;
         case 4: how = "a Message that holds a field of the same name with another type"; {uint32 tc = 0; (void) m.GetInfo(firstName, &tc); if (tc == B_STRING_TYPE) (void) target.AddInt32(firstName, 5); else {(void) target.AddString(firstName, "other"); (void) target.AddString(firstName, "type");}} break;
         default: how = "the parsed Message itself (parsed again from its own bytes)"; (void) target.UnflattenFromBytes((const uint8 *) b.data(), (uint32) b.size()); break;
      }
      (void) firstTC;
      Message & t = (((rot-1) % 6) == 0) ? reused : target;
      status_t st3;
      if (rot & 8) {ByteBufferRef bb = GetByteBufferFromPool((uint32) b.size(), (const uint8 *) b.data()); st3 = bb() ? t.UnflattenFromByteBuffer(*bb()) : status_t(B_OUT_OF_MEMORY);}    // the other entry point
      else st3 = t.UnflattenFromBytes((const uint8 *) b.data(), (uint32) b.size());
      std::string b3;
      if (st3.IsError()) viol.push_back(std::string("parsing the Message's own bytes into ") + how + " fails: " + st3());
      else if (FlatChecked(t, b3, viol, "re-used parse target"))
      {
         if ((b3 != b)||(t.FlattenedSize() != r.FlattenedSize())||(t.GetNumNames() != r.GetNumNames())||(t.what != r.what)||(t.CalculateChecksum() != r.CalculateChecksum()))
         {
            snprintf(tmp, sizeof(tmp), ": %u fields / %u bytes / checksum %u instead of %u fields / %zu bytes / checksum %u", t.GetNumNames(), t.FlattenedSize(), t.CalculateChecksum(), r.GetNumNames(), b.size(), r.CalculateChecksum());
            viol.push_back(std::string("parsing into ") + how + " does not replace its contents: the result differs from the parse into a fresh Message" + tmp);
         }
         else
         {
            Message r2; (void) r2.UnflattenFromBytes((const uint8 *) b.data(), (uint32) b.size());
            if (((t == r) != (r2 == r))||((r == t) != (r == r2))) viol.push_back(std::string("the Message parsed into ") + how + " does not compare like a freshly parsed one");
         }
      }
      if (st3.IsError()) reused.Clear();
   }
   if (twin)
   {
      MessageRef sm, st2;
      const Message * pm = &m; const Message * pt = twin;
      if (g_sawNonFlat) {sm = Strip(m); st2 = Strip(*twin); pm = sm(); pt = st2();}
      const bool eqTwin1 = (*pt == *pm), eqTwin2 = (*pm == *pt);
      const bool eqTrip1 = (r == *pm),   eqTrip2 = (*pm == r);
      if ((eqTrip1 != eqTwin1)||(eqTrip2 != eqTwin2))
         {snprintf(tmp, sizeof(tmp), "equality changes over the trip: (parsed == original) = %d / %d, (identically built == original) = %d / %d", (int) eqTrip1, (int) eqTrip2, (int) eqTwin1, (int) eqTwin2); viol.push_back(tmp);}
      if (pm->CalculateChecksum() != r.CalculateChecksum()) viol.push_back("checksum of the parsed Message differs from the checksum of the original without its non-flattenable fields");
   }
}

// ------------------------------------------------------------------------------------------------ replay (C01 spec -> code)
static int Replay(int argc, char ** argv)
{
   if (argc < 4) return 2;
   FILE * in = fopen(argv[2], "r"); if (in == NULL) return 2;
   OpenReport(argv[3]);
   uint64_t nBeh = 0, nSteps = 0, nFollowed = 0, nOkDiff = 0, nBytes = 0;
   uint64_t trans[5][5]; memset(trans, 0, sizeof(trans));   // item count of the touched field before -> after (4 = more)
   std::set<std::string> distinct;
   std::string line;
   while ((mj::ReadLine(in, line))&&(g_violCases < MAX_VIOL_CASES))
   {
      mj::Value beh; if (mj::Parse(line, beh) == false) {fprintf(stderr, "bad behaviour line\n"); return 2;}
      const mj::Value & steps = beh["steps"];
      if ((steps.a.empty())||(steps.a[0]["op"].str() != "New")) {fprintf(stderr, "a behaviour must start with New\n"); return 2;}
      nBeh++; g_sawNonFlat = false;
      alarm(60);
      Message m(W32(steps.a[0]["w"])), twin(W32(steps.a[0]["w"]));
      Strs viol; size_t k = 0; bool drift = false;
      for (k=0; k<steps.a.size(); k++)
      {
         const mj::Value & s = steps.a[k];
         snprintf(g_ctx, sizeof(g_ctx), "replay behaviour %lld step %zu (%s)", (long long) beh["id"].i(), k, s["op"].str().c_str());
         uint32 before = 0, after = 0; String fn;
         if (k > 0)
         {
            fn = NameOf(s["n"]); before = m.GetNumValuesInName(fn);
            const uint32 var = g_variant;
            const status_t ret = ApplyStep(m, s);
            g_variant = var; (void) ApplyStep(twin, s);    // the twin takes the same calls
            after = m.GetNumValuesInName(fn);
            trans[muscleMin(before, (uint32)4)][muscleMin(after, (uint32)4)]++;
            if (ret.IsOK() != s["ok"].truthy()) {nOkDiff++; drift = true;}
         }
         nSteps++;
         const std::string expB = BytesOf(s["b"]); std::string got;
         CheckState(m, &twin, &expB, s["z"].i(), got, viol);
         nBytes += got.size(); distinct.insert(got);
         if (viol.size() > 0) break;
      }
      alarm(0);
      if (viol.size() > 0)
      {
         g_violCases++;
         ReportLine(mj::Value::Obj().set("behaviour", beh["id"]).set("step", mj::Value::Int((int64_t) k)).set("violations", StrArr(viol)).set("steps", steps));
      }
      else
      {
         nFollowed++;
         if (drift) ReportLine(mj::Value::Obj().set("behaviour", beh["id"]).set("drift", mj::Value::Str("a call's reported status differs from the specification's while the bytes agree")));
      }
   }
   mj::Value tr = mj::Value::Obj(); char key[16];
   for (int a=0; a<5; a++) for (int b=0; b<5; b++) if (trans[a][b]) {snprintf(key, sizeof(key), "%d>%d", a, b); tr.set(key, mj::Value::Int((int64_t) trans[a][b]));}
   ReportLine(mj::Value::Obj().set("summary", mj::Value::Bool(true)).set("behaviours", mj::Value::Int((int64_t) nBeh)).set("followed", mj::Value::Int((int64_t) nFollowed)).set("steps", mj::Value::Int((int64_t) nSteps))
              .set("status_differs", mj::Value::Int((int64_t) nOkDiff)).set("bytes_compared", mj::Value::Int((int64_t) nBytes)).set("distinct_encodings", mj::Value::Int((int64_t) distinct.size())).set("item_count_transitions", tr));
   return 0;
}

// ------------------------------------------------------------------------------------------------ vec01 (C01: whole vectors, e.g. deep nesting, zero-item fields)
//   wire vec01 <vectors.ndjson> <report.ndjson>     a vector = {id, m: Message value, s: the API script that builds it, b, z: bytes and size per WireAbs}
static int Vec01(int argc, char ** argv)
{
   if (argc < 4) return 2;
   FILE * in = fopen(argv[2], "r"); if (in == NULL) return 2;
   OpenReport(argv[3]);
   uint64_t n = 0, ok = 0, bytes = 0; std::string line;
   while ((mj::ReadLine(in, line))&&(g_violCases < MAX_VIOL_CASES))
   {
      mj::Value v; if (mj::Parse(line, v) == false) {fprintf(stderr, "bad vector line\n"); return 2;}
      n++; g_sawNonFlat = false;
      snprintf(g_ctx, sizeof(g_ctx), "vec01 vector %lld", (long long) v["id"].i());
      alarm(60);
      const uint32 var = g_variant;
      MessageRef m = BuildScript(v["s"]); g_variant = var; MessageRef twin = BuildScript(v["s"]);
      Strs viol; std::string got;
      if ((m() == NULL)||(twin() == NULL)) viol.push_back("the C++ API refuses to build the vector");
      else {const std::string expB = BytesOf(v["b"]); CheckState(*m(), twin(), &expB, v["z"].i(), got, viol); bytes += got.size();}
      alarm(0);
      if (viol.size() > 0) {g_violCases++; ReportLine(mj::Value::Obj().set("vector", v["id"]).set("note", v["note"]).set("violations", StrArr(viol)).set("code", mj::Value::Str(Short(Hex(got)))));}
      else ok++;
   }
   ReportLine(mj::Value::Obj().set("summary", mj::Value::Bool(true)).set("vectors", mj::Value::Int((int64_t) n)).set("agreed", mj::Value::Int((int64_t) ok)).set("bytes_compared", mj::Value::Int((int64_t) bytes)));
   return 0;
}

// ------------------------------------------------------------------------------------------------ mt (C01: the codec is re-entrant across independent objects)
//   wire mt <vectors.ndjson> <threads> <milliseconds> <report.ndjson>
//   N free-running threads; thread i owns vectors i, i+N, ...: it builds them through their scripts, then for the given time sizes, serialises (bytes = the
//   specification's), parses into a fresh and into its own re-used target, re-serialises and compares checksums - nothing is shared between the threads but the library.
#include <pthread.h>
static std::string FlatPlain(const Message & m);
struct MTShared {std::vector<mj::Value> * vec; int nThreads; uint64_t deadline; pthread_mutex_t mu; std::vector<mj::Value> bad; uint64_t trips; volatile bool stop;};
struct MTArg {MTShared * sh; int idx;};
static void * MTWorker(void * a)
{
   MTArg * arg = (MTArg *) a; MTShared & sh = *arg->sh;
   std::vector<MessageRef> msgs; std::vector<std::string> exp; std::vector<size_t> ids;
   for (size_t i=(size_t) arg->idx; i<sh.vec->size(); i+=(size_t) sh.nThreads)
   {
      const mj::Value & v = (*sh.vec)[i];
      MessageRef m = BuildScript(v["s"]);
      if (m() == NULL) continue;
      msgs.push_back(m); exp.push_back(BytesOf(v["b"])); ids.push_back(i);
   }
   Message reused; uint64_t trips = 0;
   while ((sh.stop == false)&&(GetRunTime64() < sh.deadline)&&(msgs.size() > 0))
   {
      for (size_t i=0; (i<msgs.size())&&(sh.stop == false); i++)
      {
         const Message & m = *msgs[i](); const char * why = NULL;
         const uint32 fs = m.FlattenedSize();
         std::string b(fs, '\0'); if (fs) m.FlattenToBytes((uint8 *) &b[0], fs);
         Message r; std::string b2, b3;
         if (b != exp[i]) why = "the bytes written differ from the specification's";
         else if (r.UnflattenFromBytes((const uint8 *) b.data(), fs).IsError()) why = "the Message's own bytes cannot be parsed";
         else if ((b2 = FlatPlain(r)) != b) why = "the parsed Message re-serialises to other bytes";
         else if (r.CalculateChecksum() != m.CalculateChecksum()) why = "the checksum changes over the trip";
         else if (reused.UnflattenFromBytes((const uint8 *) b.data(), fs).IsError()) why = "the bytes cannot be parsed into the thread's re-used Message";
         else if ((b3 = FlatPlain(reused)) != b) why = "the thread's re-used Message re-serialises to other bytes";
         trips++;
         if (why)
         {
            pthread_mutex_lock(&sh.mu);
            if (sh.bad.size() < 10) sh.bad.push_back(mj::Value::Obj().set("thread", mj::Value::Int(arg->idx)).set("vector", (*sh.vec)[ids[i]]["id"]).set("violations", StrArr(Strs(1, std::string("while ") + std::to_string(sh.nThreads) + " threads round-trip their own Messages: " + why)))
                                                     .set("m", (*sh.vec)[ids[i]]["m"]).set("code", mj::Value::Str(Short(Hex(b)))).set("reparsed", mj::Value::Str(Short(Hex(b2.empty() ? b3 : b2)))));
            else sh.stop = true;
            pthread_mutex_unlock(&sh.mu);
         }
      }
   }
   pthread_mutex_lock(&sh.mu); sh.trips += trips; pthread_mutex_unlock(&sh.mu);
   return NULL;
}
static int MT(int argc, char ** argv)
{
   if (argc < 6) return 2;
   FILE * in = fopen(argv[2], "r"); if (in == NULL) return 2;
   const int nT = atoi(argv[3]); const uint64_t ms = (uint64_t) atoll(argv[4]);
   OpenReport(argv[5]);
   std::vector<mj::Value> vec; std::string line;
   while (mj::ReadLine(in, line)) {mj::Value v; if (mj::Parse(line, v) == false) return 2; vec.push_back(v);}
   snprintf(g_ctx, sizeof(g_ctx), "mt: %d threads round-tripping their own Messages", nT);
   alarm((unsigned)(ms/1000 + 120));
   MTShared sh; sh.vec = &vec; sh.nThreads = nT; sh.deadline = GetRunTime64() + MillisToMicros(ms); sh.trips = 0; sh.stop = false; pthread_mutex_init(&sh.mu, NULL);
   std::vector<pthread_t> th((size_t) nT); std::vector<MTArg> args((size_t) nT);
   for (int i=0; i<nT; i++) {args[(size_t)i].sh = &sh; args[(size_t)i].idx = i; if (pthread_create(&th[(size_t)i], NULL, MTWorker, &args[(size_t)i]) != 0) return 2;}
   for (int i=0; i<nT; i++) (void) pthread_join(th[(size_t)i], NULL);
   alarm(0);
   for (size_t i=0; i<sh.bad.size(); i++) ReportLine(sh.bad[i]);
   ReportLine(mj::Value::Obj().set("summary", mj::Value::Bool(true)).set("threads", mj::Value::Int(nT)).set("vectors", mj::Value::Int((int64_t) vec.size())).set("round_trips", mj::Value::Int((int64_t) sh.trips)).set("mismatches", mj::Value::Int((int64_t) sh.bad.size())));
   return 0;
}

// ------------------------------------------------------------------------------------------------ heap (C01: aliasing histories, serialising after every call)
//   wire heap <behaviours.ndjson> <report.ndjson>   behaviours of WireHeap.tla: several Message objects that refer to each other (AddMessage of a shared
//   MessageRef) and share item arrays (ShareName); after EVERY call EVERY object is sized, serialised, parsed and compared with the specification.
static int Heap(int argc, char ** argv)
{
   if (argc < 4) return 2;
   FILE * in = fopen(argv[2], "r"); if (in == NULL) return 2;
   OpenReport(argv[3]);
   uint64_t nBeh = 0, nFollowed = 0, nSteps = 0, nChecks = 0, nOkDiff = 0, nZero = 0, nAliasChange = 0, nShare = 0; std::string line;
   while ((mj::ReadLine(in, line))&&(g_violCases < MAX_VIOL_CASES))
   {
      mj::Value beh; if (mj::Parse(line, beh) == false) {fprintf(stderr, "bad behaviour line\n"); return 2;}
      const mj::Value & steps = beh["steps"];
      if ((steps.a.empty())||(steps.a[0]["op"].str() != "New")) {fprintf(stderr, "a behaviour must start with New\n"); return 2;}
      nBeh++; g_sawNonFlat = false;
      alarm(120);
      const size_t N = steps.a[0]["ws"].a.size();
      std::vector<MessageRef> obj, tw;
      for (size_t o=0; o<N; o++) {obj.push_back(GetMessageFromPool(W32(steps.a[0]["ws"].a[o]))); tw.push_back(GetMessageFromPool(W32(steps.a[0]["ws"].a[o])));}
      Strs viol; size_t k = 0;
      for (k=0; k<steps.a.size(); k++)
      {
         const mj::Value & s = steps.a[k];
         const std::string & op = s["op"].str();
         snprintf(g_ctx, sizeof(g_ctx), "heap behaviour %lld step %zu (%s)", (long long) beh["id"].i(), k, op.c_str());
         if (k > 0)
         {
            const size_t o = (size_t) s["o"].i() - 1; const size_t t = (s["k"].i() > 0) ? (size_t) s["k"].i() - 1 : 0;
            const String fn = NameOf(s["n"]);
            status_t ret;
            for (int pass=0; pass<2; pass++)
            {
               std::vector<MessageRef> & O = pass ? tw : obj;
               status_t r;
               if      (op == "AddRef")     r = O[o]()->AddMessage(fn, O[t]);              // the very same MessageRef: no copy
               else if (op == "PrependRef") r = O[o]()->PrependMessage(fn, O[t]);
               else if (op == "Share")      {r = O[o]()->ShareName(fn, *O[t]()); if (pass == 0) nShare++;}
               else if (op == "What")       {O[o]()->what = W32(s["v"]); r = B_NO_ERROR;}
               else {const uint32 var = g_variant; r = ApplyStep(*O[o](), s); if (pass == 0) g_variant = var;}
               if (pass == 0) ret = r;
            }
            if (ret.IsOK() != s["ok"].truthy()) nOkDiff++;
            if ((ret.IsOK())&&(op != "Share")&&(op != "What")) for (size_t p=0; p<o; p++) {MessageFieldNameIterator it = obj[p]()->GetFieldNameIterator(B_MESSAGE_TYPE); if (it.HasData()) {nAliasChange++; break;}}
         }
         nSteps++;
         for (size_t o=0; (o<N)&&(viol.empty()); o++)
         {
            const std::string expB = BytesOf(s["bs"].a[o]); std::string got; Strs v1;
            CheckState(*obj[o](), tw[o](), &expB, s["zs"].a[o].i(), got, v1); nChecks++;
            for (MessageFieldNameIterator it = obj[o]()->GetFieldNameIterator(); it.HasData(); it++) if (obj[o]()->GetNumValuesInName(it.GetFieldName()) == 0) nZero++;
            char tmp[64]; snprintf(tmp, sizeof(tmp), "object %zu: ", o+1);
            for (size_t q=0; q<v1.size(); q++) viol.push_back(std::string(tmp) + v1[q]);
         }
         if (viol.size() > 0) break;
      }
      alarm(0);
      if (viol.size() > 0)
      {
         g_violCases++;
         mj::Value calls = mj::Value::Arr();     // the calls up to the failing one, without the byte dumps
         for (size_t j=0; (j<=k)&&(j<steps.a.size()); j++) {mj::Value c = mj::Value::Obj(); for (size_t q=0; q<steps.a[j].o.size(); q++) if ((steps.a[j].o[q].first != "bs")&&(steps.a[j].o[q].first != "zs")) c.set(steps.a[j].o[q].first, steps.a[j].o[q].second); calls.push(c);}
         ReportLine(mj::Value::Obj().set("behaviour", beh["id"]).set("step", mj::Value::Int((int64_t) k)).set("violations", StrArr(viol)).set("calls", calls));
      }
      else nFollowed++;
   }
   ReportLine(mj::Value::Obj().set("summary", mj::Value::Bool(true)).set("behaviours", mj::Value::Int((int64_t) nBeh)).set("followed", mj::Value::Int((int64_t) nFollowed)).set("steps", mj::Value::Int((int64_t) nSteps))
              .set("object_checks", mj::Value::Int((int64_t) nChecks)).set("status_differs", mj::Value::Int((int64_t) nOkDiff)).set("zero_item_fields_serialised", mj::Value::Int((int64_t) nZero))
              .set("calls_on_an_object_other_messages_may_refer_to", mj::Value::Int((int64_t) nAliasChange)).set("sharenames", mj::Value::Int((int64_t) nShare)));
   return 0;
}

// ------------------------------------------------------------------------------------------------ seeded random values
struct Rng
{
   std::mt19937 g;
   explicit Rng(uint32 seed) : g(seed) {}
   uint32 operator()(uint32 n) {return n ? (uint32)(g() % n) : 0;}
   uint32 raw() {return (uint32) g();}
};

static const uint32 kFloatMenu[] = {0x7fc00000u, 0xffc00001u, 0x7f800001u, 0x7fa00000u, 0x80000000u, 0x00000000u, 0x7f800000u, 0xff800000u, 0x00000001u, 0x3f800000u, 0x7f7fffffu, 0x00800000u};
static const uint64 kDoubleMenu[] = {0x7ff8000000000000ull, 0xfff8000000000001ull, 0x7ff0000000000001ull, 0x8000000000000000ull, 0ull, 0x7ff0000000000000ull, 0xfff0000000000000ull, 1ull, 0x3ff8000000000000ull, 0x7fefffffffffffffull};
static std::string RandFloatBits(Rng & R) {const uint32 b = R(3) ? kFloatMenu[R(sizeof(kFloatMenu)/sizeof(kFloatMenu[0]))] : R.raw(); return LE32(b);}
static std::string RandDoubleBits(Rng & R) {const uint64 b = R(3) ? kDoubleMenu[R(sizeof(kDoubleMenu)/sizeof(kDoubleMenu[0]))] : ((((uint64) R.raw()) << 32) | R.raw()); return LE32((uint32)(b & 0xFFFFFFFFu)) + LE32((uint32)(b >> 32));}
static std::string RandInt(Rng & R, int nbytes)
{
   std::string s((size_t) nbytes, '\0');
   switch(R(5))
   {
      case 0: break;                                                                            // 0
      case 1: for (int i=0; i<nbytes; i++) s[(size_t)i] = (char) 0xFF; break;                             // -1
      case 2: s[(size_t)nbytes-1] = (char) 0x80; break;                                                 // minimum
      case 3: for (int i=0; i<nbytes; i++) s[(size_t)i] = (char) 0xFF; s[(size_t)nbytes-1] = 0x7F; break;         // maximum
      default: for (int i=0; i<nbytes; i++) s[(size_t)i] = (char) R(256); break;
   }
   return s;
}
static void AppendUtf8(std::string & s, uint32 cp)
{
   if (cp < 0x80) s += (char) cp;
   else if (cp < 0x800) {s += (char)(0xC0 | (cp >> 6)); s += (char)(0x80 | (cp & 0x3F));}
   else if (cp < 0x10000) {s += (char)(0xE0 | (cp >> 12)); s += (char)(0x80 | ((cp >> 6) & 0x3F)); s += (char)(0x80 | (cp & 0x3F));}
   else {s += (char)(0xF0 | (cp >> 18)); s += (char)(0x80 | ((cp >> 12) & 0x3F)); s += (char)(0x80 | ((cp >> 6) & 0x3F)); s += (char)(0x80 | (cp & 0x3F));}
}
// a C string: no NUL; utf8 = well-formed UTF-8 (incl. the boundary code points), else arbitrary non-zero bytes
static std::string RandString(Rng & R, bool utf8, uint32 maxLen)
{
   static const uint32 cps[] = {0x41, 0x7F, 0x80, 0xE9, 0x7FF, 0x800, 0xD7FF, 0xE000, 0xFFFD, 0xFFFF, 0x10000, 0x1F600, 0x10FFFF, 0x20, 0x22, 0x5C, 0x01};
   std::string s;
   const uint32 n = R(4) ? R(6) : R(maxLen+1);
   for (uint32 i=0; i<n; i++) {if (utf8) AppendUtf8(s, R(2) ? (uint32)('a' + R(26)) : cps[R(sizeof(cps)/sizeof(cps[0]))]); else s += (char)(1 + R(255));}
   return s;
}
static std::string RandBytes(Rng & R, uint32 minLen, uint32 maxLen) {const uint32 n = minLen + (R(4) ? R(muscleMin(maxLen-minLen, (uint32)6)+1) : R(maxLen-minLen+1)); std::string s; for (uint32 i=0; i<n; i++) s += (char) R(256); return s;}

static const uint32 kRawCodes[] = {B_RAW_TYPE, B_RAW_TYPE, B_BITCHORD_TYPE, 0xC1424344u, 0x00000001u, 0xFFFFFFFEu, 1330664530u /* 'OPTR' B_OBJECT_TYPE of the other language bindings */};
static const uint32 kFixedCodes[] = {B_BOOL_TYPE, B_INT8_TYPE, B_INT16_TYPE, B_INT32_TYPE, B_INT64_TYPE, B_FLOAT_TYPE, B_DOUBLE_TYPE, B_POINT_TYPE, B_RECT_TYPE};

// a random item of type tc as JSON (bytes, or a sub-Message made by `sub`)
static mj::Value RandItem(Rng & R, uint32 tc, bool utf8, bool noSNaN)
{
   std::string s;
   switch(tc)
   {
      case B_BOOL_TYPE:   s = std::string(1, (char) R(2)); break;
      case B_INT8_TYPE:   s = RandInt(R, 1); break;
      case B_INT16_TYPE:  s = RandInt(R, 2); break;
      case B_INT32_TYPE:  s = RandInt(R, 4); break;
      case B_INT64_TYPE:  s = RandInt(R, 8); break;
      case B_FLOAT_TYPE:  s = RandFloatBits(R); break;
      case B_DOUBLE_TYPE: s = RandDoubleBits(R); break;
      case B_POINT_TYPE:  s = RandFloatBits(R) + RandFloatBits(R); break;
      case B_RECT_TYPE:   s = RandFloatBits(R) + RandFloatBits(R) + RandFloatBits(R) + RandFloatBits(R); break;
      case B_STRING_TYPE: s = RandString(R, utf8, 40); break;
      case B_TAG_TYPE: case B_POINTER_TYPE: break;
      default:            s = RandBytes(R, (tc == B_RAW_TYPE) ? 0 : 1, 100); break;
   }
   if (noSNaN && ((tc == B_FLOAT_TYPE)||(tc == B_POINT_TYPE)||(tc == B_RECT_TYPE)))
      for (size_t o=0; o+4<=s.size(); o+=4) {const uint32 b = W32(ArrOf(s.substr(o, 4))); if (((b & 0x7f800000u) == 0x7f800000u)&&((b & 0x007fffffu) != 0)&&((b & 0x00400000u) == 0)) s.replace(o, 4, LE32(b | 0x00400000u));}
   return ArrOf(s);
}

static const char * kNames[] = {"a", "b", "", "n\xC3\xA9", "a-rather-long-field-name-that-does-not-fit-inline", "\xF0\x9F\x98\x80", "bad\xFF\xC0", "\x01"};
static mj::Value RandName(Rng & R, bool utf8) {uint32 i = R(8); if (utf8 && (i == 6)) i = 0; return ArrOf(kNames[i]);}

// ------------------------------------------------------------------------------------------------ gen (C01 code -> spec)
static mj::Value RandScript(Rng & R, int depth, uint32 maxSteps);

static uint32 RandType(Rng & R, int depth, bool allowNonFlat)
{
   const uint32 k = R(allowNonFlat ? 16 : 14);
   if (k < 9) return kFixedCodes[k];
   if (k < 11) return B_STRING_TYPE;
   if (k == 11) return kRawCodes[R(sizeof(kRawCodes)/sizeof(kRawCodes[0]))];
   if (k < 14) return (depth < 4) ? B_MESSAGE_TYPE : B_INT32_TYPE;
   return (k == 14) ? B_TAG_TYPE : B_POINTER_TYPE;
}
static mj::Value RandValue(Rng & R, uint32 tc, int depth) {return (tc == B_MESSAGE_TYPE) ? RandScript(R, depth+1, 6) : RandItem(R, tc, R(2) == 0, false);}

// one random call, biased by the Message's current contents (m may be NULL: sub-scripts are generated blind from a few names)
static mj::Value RandStep(Rng & R, const Message * m, int depth)
{
   mj::Value s = mj::Value::Obj();
   mj::Value n = RandName(R, false);
   if (R(2) == 0) n = ArrOf(kNames[R(2)]);          // concentrate on two names so that fields grow to dozens of items
   const String fn = NameOf(n);
   uint32 tc = 0, cnt = 0;
   const bool have = (m)&&(m->GetInfo(fn, &tc, &cnt).IsOK());
   const uint32 r = R(20);
   if ((r < 11)||((have == false)&&(r < 16)))
   {
      const uint32 t = ((have)&&(R(10) != 0)) ? tc : RandType(R, depth, true);
      s.set("op", mj::Value::Str((R(4) == 0) ? "Prepend" : "Add")).set("n", n).set("t", ArrOf(LE32(t))).set("v", RandValue(R, t, depth));
   }
   else if (r < 14) s.set("op", mj::Value::Str("Remove")).set("n", n).set("i", mj::Value::Int(have ? (int64_t) R(cnt+1) : 0));
   else if (r < 19)
   {
      const uint32 t = ((have)&&(R(10) != 0)) ? tc : RandType(R, depth, true);
      s.set("op", mj::Value::Str("Replace")).set("n", n).set("t", ArrOf(LE32(t))).set("v", RandValue(R, t, depth)).set("i", mj::Value::Int(have ? (int64_t) R(cnt+1) : (int64_t) R(2))).set("a", mj::Value::Bool(R(3) == 0));
   }
   else s.set("op", mj::Value::Str("RemoveName")).set("n", n);
   return s;
}
static mj::Value RandScript(Rng & R, int depth, uint32 maxSteps)
{
   mj::Value sc = mj::Value::Obj(); sc.set("w", ArrOf(R(3) ? LE32(R.raw()) : LE32(0)));
   mj::Value st = mj::Value::Arr();
   // sub-scripts are generated against a scratch Message so that their calls are mostly meaningful
   Message scratch; const uint32 var = g_variant; const bool snf = g_sawNonFlat;
   const uint32 n = R(maxSteps+1);
   for (uint32 i=0; i<n; i++) {mj::Value s = RandStep(R, &scratch, depth); (void) ApplyStep(scratch, s); st.push(s);}
   g_variant = var; g_sawNonFlat = snf;
   sc.set("s", st);
   return sc;
}

static int Gen(int argc, char ** argv)
{
   if (argc < 7) return 2;
   const uint32 seed = (uint32) atoll(argv[2]); const uint32 nMsgs = (uint32) atoi(argv[3]); const uint32 nSteps = (uint32) atoi(argv[4]);
   FILE * tr = fopen(argv[5], "w"); if (tr == NULL) return 2;
   OpenReport(argv[6]);
   uint64_t steps = 0, bytes = 0, maxBytes = 0, maxItems = 0, okCalls = 0;
   uint64_t trans[5][5]; memset(trans, 0, sizeof(trans));
   std::set<std::string> distinct;
   for (uint32 i=0; (i<nMsgs)&&(g_violCases < MAX_VIOL_CASES); i++)
   {
      Rng R(seed * 1000003u + i);
      g_sawNonFlat = false;
      alarm(120);
      const uint32 what = R(3) ? R.raw() : 0;
      Message m(what), twin(what);
      mj::Value log = mj::Value::Arr();
      Strs viol; uint32 k = 0;
      for (k=0; k<=nSteps; k++)
      {
         snprintf(g_ctx, sizeof(g_ctx), "gen seed %u message %u step %u", seed, i, k);
         mj::Value s = mj::Value::Obj();
         if (k == 0) s.set("op", mj::Value::Str("New")).set("w", ArrOf(LE32(what)));
         else
         {
            s = RandStep(R, &m, 0);
            const String fn = NameOf(s["n"]); const uint32 before = m.GetNumValuesInName(fn);
            const uint32 var = g_variant;
            const status_t ret = ApplyStep(m, s);
            g_variant = var; (void) ApplyStep(twin, s);
            const uint32 after = m.GetNumValuesInName(fn);
            trans[muscleMin(before, (uint32)4)][muscleMin(after, (uint32)4)]++;
            if (after > maxItems) maxItems = after;
            s.set("ok", mj::Value::Bool(ret.IsOK())); if (ret.IsOK()) okCalls++;
         }
         std::string got;
         CheckState(m, &twin, NULL, -1, got, viol);
         s.set("b", ArrOf(got)).set("z", mj::Value::Int((int64_t) m.FlattenedSize()));
         std::string ln = mj::ToString(s); ln += '\n'; fputs(ln.c_str(), tr);
         log.push(s);
         steps++; bytes += got.size(); if (got.size() > maxBytes) maxBytes = got.size(); distinct.insert(got);
         if (viol.size() > 0) break;
      }
      alarm(0);
      if (viol.size() > 0)
      {
         g_violCases++;
         // keep the replay small: the calls without the byte dumps
         mj::Value calls = mj::Value::Arr();
         for (size_t j=0; j<log.a.size(); j++) {mj::Value c = mj::Value::Obj(); for (size_t q=0; q<log.a[j].o.size(); q++) if (log.a[j].o[q].first != "b") c.set(log.a[j].o[q].first, log.a[j].o[q].second); calls.push(c);}
         ReportLine(mj::Value::Obj().set("message", mj::Value::Int(i)).set("seed", mj::Value::Int(seed)).set("step", mj::Value::Int(k)).set("violations", StrArr(viol)).set("calls", calls));
      }
   }
   fclose(tr);
   mj::Value t = mj::Value::Obj(); char key[16];
   for (int a=0; a<5; a++) for (int b=0; b<5; b++) if (trans[a][b]) {snprintf(key, sizeof(key), "%d>%d", a, b); t.set(key, mj::Value::Int((int64_t) trans[a][b]));}
   ReportLine(mj::Value::Obj().set("summary", mj::Value::Bool(true)).set("messages", mj::Value::Int(nMsgs)).set("steps", mj::Value::Int((int64_t) steps)).set("calls_ok", mj::Value::Int((int64_t) okCalls))
              .set("bytes", mj::Value::Int((int64_t) bytes)).set("max_message_bytes", mj::Value::Int((int64_t) maxBytes)).set("max_items_in_a_field", mj::Value::Int((int64_t) maxItems))
              .set("distinct_encodings", mj::Value::Int((int64_t) distinct.size())).set("item_count_transitions", t));
   return 0;
}

// ------------------------------------------------------------------------------------------------ helper processes (C08)
struct Child
{
   std::string name; std::vector<std::string> args; pid_t pid; FILE * to; FILE * from; uint64_t asks; int restarts; int nDetours; uint64_t detourCount;
   Child() : pid(-1), to(NULL), from(NULL), asks(0), restarts(0), nDetours(0), detourCount(0) {}
   bool Start()
   {
      int a[2], b[2]; if ((pipe(a) != 0)||(pipe(b) != 0)) return false;
      pid = fork();
      if (pid < 0) return false;
      if (pid == 0)
      {
         dup2(a[0], 0); dup2(b[1], 1); close(a[0]); close(a[1]); close(b[0]); close(b[1]);
         std::vector<char *> av; for (size_t i=0; i<args.size(); i++) av.push_back((char *) args[i].c_str()); av.push_back(NULL);
         execvp(av[0], &av[0]); _exit(127);
      }
      close(a[0]); close(b[1]);
      to = fdopen(a[1], "w"); from = fdopen(b[0], "r");
      return (to != NULL)&&(from != NULL);
   }
   void Stop()
   {
      if (to) {fputs("Q\n", to); fclose(to); to = NULL;}
      if (from) {fclose(from); from = NULL;}
      if (pid > 0) {int st; (void) waitpid(pid, &st, 0); pid = -1;}
   }
   // one request line, one reply line; false = the helper died (it is restarted for the next request)
   bool Ask(const std::string & req, std::string & reply)
   {
      asks++;
      if (to == NULL) {if (Start() == false) {reply = "X cannot start"; return false;}}
      fputs(req.c_str(), to); fputc('\n', to); fflush(to);
      while (mj::ReadLine(from, reply)) if ((reply.size() >= 1)&&((reply[0] == 'K')||(reply[0] == 'E'))&&((reply.size() == 1)||(reply[1] == ' '))) return true;   // anything else is not a reply
      int st = 0; if (pid > 0) (void) waitpid(pid, &st, 0); pid = -1;
      fclose(to); fclose(from); to = from = NULL; restarts++;
      char tmp[96]; snprintf(tmp, sizeof(tmp), "X helper died (wait status 0x%x)", st); reply = tmp;
      return false;
   }
};

// content -> the one-line text the helpers read:  M <what> <nfields> { <namehex> <typecode> <nitems> { <hex> | M ... } }
static void ContentText(const mj::Value & c, std::string & out)
{
   char tmp[64]; snprintf(tmp, sizeof(tmp), "M %08x %zu", W32(c["what"]), c["fields"].a.size()); out += tmp;
   for (size_t i=0; i<c["fields"].a.size(); i++)
   {
      const mj::Value & f = c["fields"].a[i]; uint32 tc = W32(f["type"]);
      if (tc == B_TAG_TYPE) tc = B_POINTER_TYPE;      // non-flattenable fields: the mini codec builds them with MMPutPointerField, the micro codec and message.py have no such kind and skip them
      out += ' '; out += Hex(BytesOf(f["name"]));
      snprintf(tmp, sizeof(tmp), " %08x %zu", tc, f["items"].a.size()); out += tmp;
      for (size_t j=0; j<f["items"].a.size(); j++) {out += ' '; if (tc == B_MESSAGE_TYPE) ContentText(f["items"].a[j], out); else out += Hex(BytesOf(f["items"].a[j]));}
   }
}

// ------------------------------------------------------------------------------------------------ in-memory byte pipes for the gateways
struct Pipe {std::deque<uint8> q;};
static Rng * g_sliceRng = NULL;
static uint32 Chunk() {static const uint32 menu[] = {0, 1, 1, 2, 3, 7, 8, 9, 15, 100, 2039, 2040, 2041, 2048, 100000, 100000}; return menu[(*g_sliceRng)(16)];}
class PipeIO : public DataIO
{
public:
   PipeIO(Pipe * rd, Pipe * wr) : _rd(rd), _wr(wr) {}
   virtual io_status_t Read(void * b, uint32 n) {const uint32 c = muscleMin(n, Chunk(), _rd ? (uint32) _rd->q.size() : 0); for (uint32 i=0; i<c; i++) {((uint8 *) b)[i] = _rd->q.front(); _rd->q.pop_front();} return io_status_t((int32) c);}
   virtual io_status_t Write(const void * b, uint32 n) {const uint32 c = muscleMin(n, Chunk()); for (uint32 i=0; i<c; i++) _wr->q.push_back(((const uint8 *) b)[i]); return io_status_t((int32) c);}
   virtual void FlushOutput() {}
   virtual void Shutdown() {}
   virtual const ConstSocketRef & GetReadSelectSocket() const {return GetNullSocket();}
   virtual const ConstSocketRef & GetWriteSelectSocket() const {return GetNullSocket();}
private:
   Pipe * _rd; Pipe * _wr;
};
static std::string FlatPlain(const Message & m) {const uint32 n = m.FlattenedSize(); std::string s(n, '\0'); if (n) m.FlattenToBytes((uint8 *) &s[0], n); return s;}

// the stream a MessageIOGateway writes for these Messages (writes sliced at random)
static bool CppFrameOut(const std::vector<MessageRef> & msgs, std::string & stream)
{
   Pipe p; MessageIOGateway tx; tx.SetDataIO(DataIORef(new PipeIO(NULL, &p)));
   for (size_t i=0; i<msgs.size(); i++) if (tx.AddOutgoingMessage(msgs[i]).IsError()) return false;
   int idle = 0;
   while ((tx.HasBytesToOutput())&&(idle < 1000)) {const io_status_t r = tx.DoOutput((*g_sliceRng)(3) ? MUSCLE_NO_LIMIT : 1+(*g_sliceRng)(3000)); if (r.IsError()) return false; if (r.GetByteCount() > 0) idle = 0; else idle++;}
   stream.assign(p.q.begin(), p.q.end());
   return (tx.HasBytesToOutput() == false);
}
// the Messages a MessageIOGateway makes of a stream (reads sliced at random), re-serialised
static bool CppFrameIn(const std::string & stream, Strs & out)
{
   Pipe p; p.q.assign(stream.begin(), stream.end());
   MessageIOGateway rx; rx.SetDataIO(DataIORef(new PipeIO(&p, NULL))); QueueGatewayMessageReceiver q;
   int idle = 0;
   while (((p.q.size() > 0)||(idle < 3))&&(idle < 1000))
   {
      const uint32 before = q.GetMessages().GetNumItems();
      const io_status_t r = rx.DoInput(q, (*g_sliceRng)(3) ? MUSCLE_NO_LIMIT : 1+(*g_sliceRng)(3000));
      if (r.IsError()) return false;
      if ((r.GetByteCount() > 0)||(q.GetMessages().GetNumItems() != before)) idle = 0; else idle++;
   }
   for (uint32 i=0; i<q.GetMessages().GetNumItems(); i++) out.push_back(FlatPlain(*q.GetMessages()[i]()));
   return true;
}

// ------------------------------------------------------------------------------------------------ C08: one vector through every implementation
struct Impls
{
   Child mini, micro, py;
   uint64_t comparisons;
   Impls() : comparisons(0) {}
   void Setup(char ** av)   // <wire_mini> <wire_micro> <python3> <wire_py.py>
   {
      mini.name = "mini";   mini.args.push_back(av[0]); mini.nDetours = 8;      // the helpers' D command: the same content through the implementation's own mutating calls
      micro.name = "micro"; micro.args.push_back(av[1]); micro.nDetours = 3; py.nDetours = 5;
      py.name = "python";   py.args.push_back(av[2]); py.args.push_back("-u"); py.args.push_back(av[3]); py.args.push_back("serve"); py.args.push_back(std::string(getenv("VERIF_REPO") ? getenv("VERIF_REPO") : "/repo") + "/lang/python3");
   }
   void Stop() {mini.Stop(); micro.Stop(); py.Stop();}
};

// asks one helper to (U) parse + re-serialise the C++ bytes, (B) build the content natively; returns "same" flags and explains differences
static void AskImpl(Impls & I, Child & c, const std::string & cppHex, const std::string & text, bool doU, bool doB, int & sameU, int & sameB, Strs & notes, std::string & replyU, std::string & replyB)
{
   std::string reply;
   sameU = sameB = -1;
   if (doU)
   {
      snprintf(g_ctx + strlen(g_ctx), sizeof(g_ctx) - strlen(g_ctx), " [%s U]", c.name.c_str());
      const bool alive = c.Ask("U " + cppHex, reply); I.comparisons++;
      sameU = ((alive)&&(reply == "K " + cppHex)) ? 1 : 0; replyU = reply;
      if (sameU == 0) notes.push_back(c.name + " parse + re-serialise of the C++ bytes: " + (reply.compare(0, 2, "K ") == 0 ? "different bytes " + Short(reply.substr(2)) : reply.substr(0, 300)));
   }
   if (doB)
   {
      snprintf(g_ctx + strlen(g_ctx), sizeof(g_ctx) - strlen(g_ctx), " [%s B]", c.name.c_str());
      const bool alive = c.Ask("B " + text, reply); I.comparisons++;
      sameB = ((alive)&&(reply == "K " + cppHex)) ? 1 : 0; replyB = reply;
      if (sameB == 0) notes.push_back(c.name + " native build: " + (reply.compare(0, 2, "K ") == 0 ? "different bytes " + Short(reply.substr(2)) : reply.substr(0, 300)));
      else if (c.nDetours > 0)
      {
         // ... and the same content reached through the implementation's own MUTATING calls (rename / move / copy / replace-by-put / in-place edits) gives the same bytes
         const int dv = 1 + (int)(c.detourCount++ % (uint64_t) c.nDetours);
         char pre[32]; snprintf(pre, sizeof(pre), "D %d ", dv);
         snprintf(g_ctx + strlen(g_ctx), sizeof(g_ctx) - strlen(g_ctx), " [%s D%d]", c.name.c_str(), dv);
         const bool alive2 = c.Ask(pre + text, reply); I.comparisons++;
         if ((alive2 == false)||(reply != "K " + cppHex))
         {
            sameB = 0; replyB = reply;
            notes.push_back(c.name + " native construction through its mutating calls (detour " + std::string(pre + 2) + "): " + (reply.compare(0, 2, "K ") == 0 ? "different bytes " + Short(reply.substr(2)) : reply.substr(0, 300)));
         }
      }
      if (sameB == 1)
      {
         // ... and the C++ parser accepts what it produced
         std::string nb; (void) UnHex(reply.substr(2), nb);
         Message r; I.comparisons++;
         if ((r.UnflattenFromBytes((const uint8 *) nb.data(), (uint32) nb.size()).IsError())||(FlatPlain(r) != nb)) {sameB = 0; notes.push_back("C++ does not accept / reproduce the bytes of the " + c.name + " native build");}
      }
   }
}

struct VecResult {std::string cppBytes; MessageRef msg; int o[6]; std::string rep[6]; Strs notes; Strs viol;};   // o: mini_u mini_b micro_u micro_b py_u py_b

// allow[k] < 0: ask and record (random direction); 0: outside the repertoire, do not ask; 1: inside, a disagreement is a violation
// script: the (possibly not append-only) API script that leaves the content; NULL: plain Add calls in content order
static void DoVector(Impls & I, const mj::Value & content, const mj::Value * script, const std::string * specBytes, int64_t specZ, const int * allow, VecResult & res)
{
   g_sawNonFlat = false;
   const uint32 var = g_variant;
   res.msg = BuildScript(script ? *script : content);
   if (res.msg() == NULL) {res.viol.push_back("the C++ API refuses to build the content"); return;}
   g_variant = var;
   MessageRef twin = BuildScript(script ? *script : content);
   CheckState(*res.msg(), twin(), specBytes, specZ, res.cppBytes, res.viol);
   I.comparisons += specBytes ? 3 : 2;
   if (res.viol.size() > 0) return;
   const std::string hex = Hex(res.cppBytes);
   std::string text; ContentText(content, text);
   Child * cs[3] = {&I.mini, &I.micro, &I.py};
   for (int k=0; k<3; k++)
   {
      AskImpl(I, *cs[k], hex, text, allow[2*k] != 0, allow[2*k+1] != 0, res.o[2*k], res.o[2*k+1], res.notes, res.rep[2*k], res.rep[2*k+1]);
      for (int j=0; j<2; j++) if ((allow[2*k+j] > 0)&&(res.o[2*k+j] != 1)) res.viol.push_back(res.notes.empty() ? std::string("disagreement") : res.notes.back());
   }
}

// a batch of Messages through the three gateways; logs a Frames line for TLC
static void DoFrames(Impls & I, const std::vector<MessageRef> & msgs, const Strs & bytes, const Strs & texts, FILE * tr, Strs & viol, uint64_t & nFrames)
{
   std::string stream;
   strcpy(g_ctx + strlen(g_ctx), " [frames]");
   if (CppFrameOut(msgs, stream) == false) {viol.push_back("MessageIOGateway could not write the batch"); return;}
   mj::Value o = mj::Value::Obj(); std::string reply;
   Strs back; const bool okBack = CppFrameIn(stream, back); I.comparisons++;
   o.set("cpp_r_cpp", mj::Value::Int(((okBack)&&(back == bytes)) ? 1 : 0));
   Child * cs[2] = {&I.mini, &I.micro};
   std::string req;
   for (int k=0; k<2; k++)
   {
      Child & c = *cs[k];
      char seed[32]; snprintf(seed, sizeof(seed), "%u", (*g_sliceRng).raw() % 100000u);
      // the C gateway writes the same Messages: same stream?
      req = std::string("G ") + seed; for (size_t i=0; i<texts.size(); i++) {req += ' '; req += texts[i];}
      bool alive = c.Ask(req, reply); I.comparisons++;
      const bool sameG = (alive)&&(reply == "K " + Hex(stream));
      o.set(c.name + "_g", mj::Value::Int(sameG ? 1 : 0));
      if (sameG == false) viol.push_back(c.name + " gateway writes another stream than MessageIOGateway: " + Short(reply));
      // ... and C++ reads what the C gateway wrote
      if ((alive)&&(reply.compare(0, 2, "K ") == 0))
      {
         std::string cs2; (void) UnHex(reply.substr(2), cs2); Strs b2; const bool ok2 = CppFrameIn(cs2, b2); I.comparisons++;
         o.set("cpp_r_" + c.name, mj::Value::Int(((ok2)&&(b2 == bytes)) ? 1 : 0));
         if ((ok2 == false)||(b2 != bytes)) viol.push_back("MessageIOGateway does not read back the Messages the " + c.name + " gateway wrote");
      }
      // the C gateway reads the C++ stream: same Messages?
      req = std::string("R ") + seed + " " + Hex(stream);
      alive = c.Ask(req, reply); I.comparisons++;
      std::string want = "K"; for (size_t i=0; i<bytes.size(); i++) {want += ' '; want += Hex(bytes[i]);}
      const bool sameR = (alive)&&(reply == want);
      o.set(c.name + "_r", mj::Value::Int(sameR ? 1 : 0));
      if (sameR == false) viol.push_back(c.name + " gateway reads other Messages from the MessageIOGateway stream: " + Short(reply));
   }
   mj::Value bs = mj::Value::Arr(); for (size_t i=0; i<bytes.size(); i++) bs.push(ArrOf(bytes[i]));
   std::string ln = mj::ToString(mj::Value::Obj().set("op", mj::Value::Str("Frames")).set("bs", bs).set("st", ArrOf(stream)).set("o", o)); ln += '\n'; fputs(ln.c_str(), tr);
   nFrames++;
}

static int X08Vec(int argc, char ** argv)
{
   if (argc < 9) return 2;
   FILE * in = fopen(argv[2], "r"); if (in == NULL) return 2;
   FILE * tr = fopen(argv[3], "w"); if (tr == NULL) return 2;
   OpenReport(argv[4]);
   Impls I; I.Setup(argv+5);
   const std::string tol = (argc > 9) ? argv[9] : "";                 // ids of the open known findings to tolerate, e.g. "F38,F39"
   const bool tol38 = (tol.find("F38") != std::string::npos), tol39 = (tol.find("F39") != std::string::npos);
   const bool tol45mini = (tol.find("F45mini") != std::string::npos), tol45micro = (tol.find("F45micro") != std::string::npos);
   uint64_t known38 = 0, known39 = 0, known45mini = 0, known45micro = 0, nDetour = 0;
   Rng slice(12345); g_sliceRng = &slice;
   uint64_t nVec = 0, nFrames = 0, asked[6] = {0,0,0,0,0,0}, skipped[6] = {0,0,0,0,0,0};
   std::set<std::string> distinct;
   std::vector<MessageRef> batch; Strs batchBytes, batchTexts;
   std::string line;
   while ((mj::ReadLine(in, line))&&(g_violCases < MAX_VIOL_CASES))
   {
      mj::Value v; if (mj::Parse(line, v) == false) {fprintf(stderr, "bad vector line\n"); return 2;}
      nVec++;
      snprintf(g_ctx, sizeof(g_ctx), "x08vec vector %lld", (long long) v["id"].i());
      alarm(60);
      // where an OPEN known finding applies (says the specification: f38 / f39) the one leg it concerns is asked but not judged
      const bool t38 = (tol38)&&(v["f38"].truthy()), t39 = (tol39)&&(v["f39"].truthy());
      const int py = v["py"].truthy() ? (t39 ? -1 : 1) : 0, pyn = v["pyn"].truthy() ? (t39 ? -1 : 1) : 0;
      // F45mini / F45micro (open known findings): the legs they concern are asked and judged below: only the listed failure is tolerated
      const bool t45mini = (tol45mini)&&(v["f45mini"].truthy()), t45micro = (tol45micro)&&(v["f45micro"].truthy());
      const int nat = v["zero"].truthy() ? 0 : 1;        // (gateway batches: the C gateways build natively and a refused Message would tear down the whole batch)
      const int allow[6] = {t45mini ? -1 : 1, t45mini ? -1 : 1, ((t38)||(t45micro)) ? -1 : 1, t45micro ? -1 : 1, py, pyn};
      for (int k=0; k<6; k++) {if (allow[k]) asked[k]++; else skipped[k]++;}
      const std::string specB = BytesOf(v["b"]);
      if (v["d"].i() > 0) nDetour++;
      VecResult res; DoVector(I, v["m"], v.has("s") ? &v["s"] : NULL, &specB, v["z"].i(), allow, res);
      distinct.insert(res.cppBytes);
      if ((t45mini)&&(res.viol.empty()))
      {
         if (res.o[0] != 1) {if (res.rep[0].compare(0, 29, "E MMUnflattenMessage refuses ") == 0) known45mini++; else res.viol.push_back("mini parse of a Message with a zero-item field fails in another way than finding F45mini says: " + res.rep[0].substr(0, 200));}
         if (res.o[1] != 1) {if (res.rep[1].compare(0, 29, "E native build failed: MMPut") == 0 || res.rep[1].compare(0, 28, "E native build failed: MMPut") == 0) known45mini++; else res.viol.push_back("mini native build of a Message with a zero-item field fails in another way than finding F45mini says: " + res.rep[1].substr(0, 200));}
      }
      if ((t45micro)&&(res.viol.empty()))
      {
         const std::string want = "K " + Hex(BytesOf(v["mb"]));      // the specification's bytes of the Message WITHOUT its zero-item raw fields: nothing else may differ
         for (int k=2; k<=3; k++) if (res.o[k] != 1)
         {
            if ((k == 2)&&(t38)) continue;
            if (res.rep[k] == want) known45micro++;
            else res.viol.push_back(std::string("micro ") + ((k == 2) ? "re-serialisation" : "native build") + " of a Message with a zero-item raw field differs by more than the loss of that field (finding F45micro): " + Short(res.rep[k]));
         }
      }
      if ((t38)&&(res.o[2] == 0)) known38++;
      if ((t39)&&((res.o[4] == 0)||(res.o[5] == 0))) known39++;
      if ((res.viol.empty())&&(nat)) {batch.push_back(res.msg); batchBytes.push_back(res.cppBytes); std::string t; ContentText(v["m"], t); batchTexts.push_back(t);}
      if ((batch.size() >= 4)&&(res.viol.empty())) {DoFrames(I, batch, batchBytes, batchTexts, tr, res.viol, nFrames); batch.clear(); batchBytes.clear(); batchTexts.clear();}
      alarm(0);
      if (res.viol.size() > 0) {g_violCases++; ReportLine(mj::Value::Obj().set("vector", v["id"]).set("violations", StrArr(res.viol)).set("m", v["m"]).set("cpp", mj::Value::Str(Hex(res.cppBytes))).set("spec", mj::Value::Str(Hex(specB))));}
   }
   if ((batch.size() > 0)&&(g_violCases < MAX_VIOL_CASES)) {Strs viol; alarm(60); DoFrames(I, batch, batchBytes, batchTexts, tr, viol, nFrames); alarm(0); if (viol.size() > 0) {g_violCases++; ReportLine(mj::Value::Obj().set("vector", mj::Value::Str("last batch")).set("violations", StrArr(viol)));}}
   I.Stop(); fclose(tr);
   mj::Value a = mj::Value::Arr(), s = mj::Value::Arr(); for (int k=0; k<6; k++) {a.push(mj::Value::Int((int64_t) asked[k])); s.push(mj::Value::Int((int64_t) skipped[k]));}
   if (known45mini) ReportLine(mj::Value::Obj().set("known", mj::Value::Str("F45mini")).set("times", mj::Value::Int((int64_t) known45mini)).set("text", mj::Value::Str("the mini codec has no field with zero items: MMUnflattenMessage refuses the C++ bytes, MMPut*Field(.., 0) returns NULL")));
   if (known45micro) ReportLine(mj::Value::Obj().set("known", mj::Value::Str("F45micro")).set("times", mj::Value::Int((int64_t) known45micro)).set("text", mj::Value::Str("the micro writer cannot write a raw-buffer field with zero items (UMAddData adds exactly one item): re-serialisation and native construction lose exactly that field")));
   if (known38) ReportLine(mj::Value::Obj().set("known", mj::Value::Str("F38")).set("times", mj::Value::Int((int64_t) known38)).set("text", mj::Value::Str("the micro reader cannot read a zero-length raw item that is the last item of its field (UMFindData returns CB_ERROR)")));
   if (known39) ReportLine(mj::Value::Obj().set("known", mj::Value::Str("F39")).set("times", mj::Value::Int((int64_t) known39)).set("text", mj::Value::Str("message.py writes a wrong length for a sub-Message that has a non-ASCII field name (FlattenedSize() counts characters, Flatten() writes UTF-8 bytes)")));
   ReportLine(mj::Value::Obj().set("summary", mj::Value::Bool(true)).set("vectors", mj::Value::Int((int64_t) nVec)).set("frame_batches", mj::Value::Int((int64_t) nFrames)).set("comparisons", mj::Value::Int((int64_t) I.comparisons))
              .set("built_by_a_detour", mj::Value::Int((int64_t) nDetour)).set("asked", a).set("outside_repertoire", s).set("distinct_encodings", mj::Value::Int((int64_t) distinct.size()))
              .set("helper_restarts", mj::Value::Int(I.mini.restarts + I.micro.restarts + I.py.restarts)));
   return 0;
}

// ------------------------------------------------------------------------------------------------ x08gen (C08 code -> spec)
static bool allowZero = true, allowNonFlat = true;
static bool ContentHasZero(const mj::Value & c)
{
   const mj::Value & fs = c["fields"];
   for (size_t i=0; i<fs.a.size(); i++)
   {
      if (fs.a[i]["items"].a.empty()) return true;
      if (W32(fs.a[i]["type"]) == B_MESSAGE_TYPE) for (size_t j=0; j<fs.a[i]["items"].a.size(); j++) if (ContentHasZero(fs.a[i]["items"].a[j])) return true;
   }
   return false;
}
static mj::Value RandContent(Rng & R, int depth, bool utf8, bool noSNaN, bool asciiSub = false)
{
   mj::Value c = mj::Value::Obj(); c.set("what", ArrOf(R(4) ? LE32(R.raw()) : LE32(R(2) ? 0 : 0xFFFFFFFFu)));
   mj::Value fs = mj::Value::Arr();
   std::set<std::string> used;
   const uint32 nf = (depth == 0) ? R(7) : R(4);
   for (uint32 i=0; i<nf; i++)
   {
      mj::Value n = RandName(R, utf8);
      if (R(3) == 0) {std::string s = RandString(R, utf8, 12); n = ArrOf(s);}
      if ((asciiSub)&&(depth > 0)) {std::string s = BytesOf(n); for (size_t q=0; q<s.size(); q++) if (((unsigned char) s[q]) >= 128) s[q] = (char)('a' + (((unsigned char) s[q]) % 26)); n = ArrOf(s);}   // open finding F39: pure ASCII names inside sub-Messages
      const std::string key = BytesOf(n);
      if (used.count(key)) continue;
      used.insert(key);
      uint32 tc = RandType(R, depth+1, (allowNonFlat)&&(R(3) == 0));        // nesting <= 3 below the top; now and then a pointer / tag field (never on the wire)
      const uint32 cnt = ((allowZero)&&(tc != B_TAG_TYPE)&&(tc != B_POINTER_TYPE)&&(R(40) == 0)) ? 0 : ((tc == B_MESSAGE_TYPE) ? 1+R(3) : (R(8) ? 1+R(3) : 1+R(40)));   // 0: a field emptied through a Message it was shared with
      mj::Value its = mj::Value::Arr();
      for (uint32 j=0; j<cnt; j++) its.push((tc == B_MESSAGE_TYPE) ? RandContent(R, depth+1, utf8, noSNaN, asciiSub) : RandItem(R, tc, utf8, noSNaN));
      fs.push(mj::Value::Obj().set("name", n).set("type", ArrOf(LE32(tc))).set("items", its));
   }
   c.set("fields", fs);
   return c;
}

// An API script that leaves exactly the content but is not append-only: per field, at random, plain Adds / Add the tail then Prepend the head(s) /
// first in first out behind some junk / junk overwritten by Replace / shrink to one item and regrow / Prepends only.  Sub-Messages are built the same way.
// (The specification checks Build(script) = content on every recorded line, so this generator need not be trusted.)
static mj::Value MakeDetour(Rng & R, const mj::Value & c)
{
   mj::Value st = mj::Value::Arr();
   const mj::Value & fs = c["fields"];
   for (size_t f=0; f<fs.a.size(); f++)
   {
      const mj::Value & nm = fs.a[f]["name"]; const mj::Value & tc = fs.a[f]["type"]; const mj::Value & its = fs.a[f]["items"];
      const bool isMsg = (W32(tc) == B_MESSAGE_TYPE);
      const size_t n = its.a.size();
      if (n == 0) {st.push(mj::Value::Obj().set("op", mj::Value::Str("ZeroField")).set("n", nm).set("t", tc)); continue;}
      std::vector<mj::Value> val; for (size_t j=0; j<n; j++) val.push_back(isMsg ? MakeDetour(R, its.a[j]) : its.a[j]);
#define ST_ADD(J)       st.push(mj::Value::Obj().set("op", mj::Value::Str("Add")).set("n", nm).set("t", tc).set("v", val[J]))
#define ST_PRE(J)       st.push(mj::Value::Obj().set("op", mj::Value::Str("Prepend")).set("n", nm).set("t", tc).set("v", val[J]))
#define ST_REM(I)       st.push(mj::Value::Obj().set("op", mj::Value::Str("Remove")).set("n", nm).set("i", mj::Value::Int((int64_t)(I))))
#define ST_REP(I, J, A) st.push(mj::Value::Obj().set("op", mj::Value::Str("Replace")).set("n", nm).set("t", tc).set("v", val[J]).set("i", mj::Value::Int((int64_t)(I))).set("a", mj::Value::Bool(A)))
      switch(R(7))
      {
         case 0: case 1: for (size_t j=0; j<n; j++) ST_ADD(j); break;
         case 2: {const size_t h = 1 + R((uint32) muscleMin(n, (size_t) 4)); for (size_t j=h; j<n; j++) ST_ADD(j); for (size_t j=h; j>0; j--) ST_PRE(j-1);} break;          // prepend the first h items onto the rest
         case 3: {const size_t junk = 1 + R(5), k = (n + 1) / 2; for (size_t j=0; j<junk; j++) ST_ADD(R((uint32) n)); for (size_t j=0; j<k; j++) ST_ADD(j); for (size_t j=0; j<junk; j++) ST_REM(0); for (size_t j=k; j<n; j++) ST_ADD(j);} break;
         case 4: {for (size_t j=0; j+1<n; j++) ST_ADD(R((uint32) n)); for (size_t j=0; j+1<n; j++) ST_REP(j, j, false); ST_REP(n-1, n-1, true);} break;
         case 5: {const size_t junk = 1 + R(4); ST_ADD(0); for (size_t j=0; j<junk; j++) ST_ADD(R((uint32) n)); for (size_t j=junk; j>0; j--) ST_REM(R(2) ? j : 1); for (size_t j=1; j<n; j++) ST_ADD(j);} break;
         default: for (size_t j=n; j>0; j--) ST_PRE(j-1); break;
      }
   }
   return mj::Value::Obj().set("w", c["what"]).set("s", st);
}

static int X08Gen(int argc, char ** argv)
{
   if (argc < 10) return 2;
   const uint32 seed = (uint32) atoll(argv[2]); const uint32 nVecs = (uint32) atoi(argv[3]);
   FILE * tr = fopen(argv[4], "w"); if (tr == NULL) return 2;
   OpenReport(argv[5]);
   Impls I; I.Setup(argv+6);
   Rng slice(seed ^ 0x5bd1e995u); g_sliceRng = &slice;
   uint64_t nFrames = 0, bytes = 0, agree[6] = {0,0,0,0,0,0}, differ[6] = {0,0,0,0,0,0};
   std::set<std::string> distinct;
   std::vector<MessageRef> batch; Strs batchBytes, batchTexts;
   static const char * keys[6] = {"mini_u", "mini_b", "micro_u", "micro_b", "py_u", "py_b"};
   for (uint32 i=0; (i<nVecs)&&(g_violCases < MAX_VIOL_CASES); i++)
   {
      Rng R(seed * 2000003u + i);
      snprintf(g_ctx, sizeof(g_ctx), "x08gen seed %u vector %u", seed, i);
      alarm(60);
      const uint32 mode = R(10);                      // 0-1: any bytes in strings; 2-3: UTF-8 but any float pattern; else the repertoire of every implementation
      const mj::Value content = RandContent(R, 0, mode >= 2, mode >= 4);
      const mj::Value script = MakeDetour(R, content);
      const int allow[6] = {-1, -1, -1, -1, -1, -1};
      VecResult res; DoVector(I, content, &script, NULL, -1, allow, res);
      distinct.insert(res.cppBytes); bytes += res.cppBytes.size();
      mj::Value o = mj::Value::Obj(), rr = mj::Value::Obj();
      for (int k=0; k<6; k++)
      {
         o.set(keys[k], mj::Value::Int(res.o[k])); if (res.o[k] == 1) agree[k]++; else differ[k]++;
         if ((res.o[k] != 1)&&(res.rep[k].compare(0, 2, "K ") == 0)) {std::string ob; if (UnHex(res.rep[k].substr(2), ob)) rr.set(keys[k], ArrOf(ob));}     // answered, but with other bytes: which
      }
      if (res.viol.empty())
      {
         std::string ln = mj::ToString(mj::Value::Obj().set("op", mj::Value::Str("Vec")).set("id", mj::Value::Int(i)).set("m", content).set("s", script).set("b", ArrOf(res.cppBytes)).set("z", mj::Value::Int((int64_t) res.msg()->FlattenedSize())).set("o", o).set("r", rr).set("notes", StrArr(res.notes)));
         ln += '\n'; fputs(ln.c_str(), tr);
         if (ContentHasZero(content) == false) {batch.push_back(res.msg); batchBytes.push_back(res.cppBytes); std::string t; ContentText(content, t); batchTexts.push_back(t);}   // the C gateways build natively
         if (batch.size() >= 3) {DoFrames(I, batch, batchBytes, batchTexts, tr, res.viol, nFrames); batch.clear(); batchBytes.clear(); batchTexts.clear();}
      }
      alarm(0);
      if (res.viol.size() > 0) {g_violCases++; ReportLine(mj::Value::Obj().set("vector", mj::Value::Int(i)).set("seed", mj::Value::Int(seed)).set("violations", StrArr(res.viol)).set("m", content).set("cpp", mj::Value::Str(Hex(res.cppBytes))));}
   }
   I.Stop(); fclose(tr);
   mj::Value a = mj::Value::Obj(), d = mj::Value::Obj(); for (int k=0; k<6; k++) {a.set(keys[k], mj::Value::Int((int64_t) agree[k])); d.set(keys[k], mj::Value::Int((int64_t) differ[k]));}
   ReportLine(mj::Value::Obj().set("summary", mj::Value::Bool(true)).set("vectors", mj::Value::Int(nVecs)).set("frame_batches", mj::Value::Int((int64_t) nFrames)).set("comparisons", mj::Value::Int((int64_t) I.comparisons))
              .set("agree", a).set("differ_or_refused", d).set("bytes", mj::Value::Int((int64_t) bytes)).set("distinct_encodings", mj::Value::Int((int64_t) distinct.size()))
              .set("helper_restarts", mj::Value::Int(I.mini.restarts + I.micro.restarts + I.py.restarts)));
   return 0;
}

// ------------------------------------------------------------------------------------------------ x08heap (C08: aliasing histories on live Python objects)
//   wire x08heap <behaviours.ndjson> <report.ndjson> <python3> <wire_py.py>     behaviours of WireHeap.tla replayed on message.py objects that stay alive across
//   the calls (sub-Messages changed through aliases, lists changed in place, shared lists); after EVERY call EVERY object's FlattenedSize() and bytes = specification's
static int X08Heap(int argc, char ** argv)
{
   if (argc < 6) return 2;
   FILE * in = fopen(argv[2], "r"); if (in == NULL) return 2;
   OpenReport(argv[3]);
   Child py; py.name = "python"; py.args.push_back(argv[4]); py.args.push_back("-u"); py.args.push_back(argv[5]); py.args.push_back("serve"); py.args.push_back(std::string(getenv("VERIF_REPO") ? getenv("VERIF_REPO") : "/repo") + "/lang/python3");
   uint64_t nBeh = 0, nFollowed = 0, nSteps = 0, nChecks = 0; std::string line, reply;
   while ((mj::ReadLine(in, line))&&(g_violCases < MAX_VIOL_CASES))
   {
      mj::Value beh; if (mj::Parse(line, beh) == false) return 2;
      const mj::Value & steps = beh["steps"]; nBeh++;
      Strs viol; size_t k = 0;
      alarm(120);
      for (k=0; (k<steps.a.size())&&(viol.empty()); k++)
      {
         const mj::Value & s = steps.a[k]; const std::string & op = s["op"].str();
         snprintf(g_ctx, sizeof(g_ctx), "x08heap behaviour %lld step %zu (%s)", (long long) beh["id"].i(), k, op.c_str());
         std::string req;
         if (k == 0) {req = "H"; char t[16]; for (size_t o=0; o<s["ws"].a.size(); o++) {snprintf(t, sizeof(t), " %08x", W32(s["ws"].a[o])); req += t;}}
         else
         {
            char t[64]; const uint32 tc = (s["t"].a.size() == 4) ? W32(s["t"]) : 0;
            snprintf(t, sizeof(t), " %08x ", tc);
            req = "S " + op + " " + std::to_string((long long) s["o"].i()) + " " + Hex(BytesOf(s["n"])) + t + Hex(BytesOf(s["v"])) + " " + std::to_string((long long) s["i"].i()) + " " + std::to_string((long long) s["k"].i());
         }
         const bool alive = py.Ask(req, reply); nSteps++;
         if ((alive == false)||(reply.compare(0, 2, "K ") != 0)) {viol.push_back("message.py fails on the call: " + reply.substr(0, 300)); break;}
         // K <size> <hex> per object
         std::vector<std::string> tk; {size_t a = 2; while (a <= reply.size()) {size_t b = reply.find(' ', a); if (b == std::string::npos) b = reply.size(); tk.push_back(reply.substr(a, b-a)); a = b+1;}}
         for (size_t o=0; (o<s["bs"].a.size())&&(2*o+1 < tk.size()); o++)
         {
            nChecks++;
            const std::string expHex = Hex(BytesOf(s["bs"].a[o])); char t[200];
            if (tk[2*o+1] != expHex) {snprintf(t, sizeof(t), "object %zu: message.py serialises other bytes than the documented layout of the content the history leaves: ", o+1); viol.push_back(std::string(t) + "python=" + Short(tk[2*o+1]) + " spec=" + Short(expHex));}
            else if (atoll(tk[2*o].c_str()) != s["zs"].a[o].i()) {snprintf(t, sizeof(t), "object %zu: message.py FlattenedSize() = %s (the transceiver's frame length word) but the body has %lld bytes", o+1, tk[2*o].c_str(), (long long) s["zs"].a[o].i()); viol.push_back(t);}
         }
      }
      alarm(0);
      if (viol.size() > 0)
      {
         g_violCases++;
         mj::Value calls = mj::Value::Arr();
         for (size_t j=0; (j<=k)&&(j<steps.a.size()); j++) {mj::Value c = mj::Value::Obj(); for (size_t q=0; q<steps.a[j].o.size(); q++) if ((steps.a[j].o[q].first != "bs")&&(steps.a[j].o[q].first != "zs")) c.set(steps.a[j].o[q].first, steps.a[j].o[q].second); calls.push(c);}
         ReportLine(mj::Value::Obj().set("behaviour", beh["id"]).set("step", mj::Value::Int((int64_t) k)).set("violations", StrArr(viol)).set("calls", calls));
      }
      else nFollowed++;
   }
   py.Stop();
   ReportLine(mj::Value::Obj().set("summary", mj::Value::Bool(true)).set("behaviours", mj::Value::Int((int64_t) nBeh)).set("followed", mj::Value::Int((int64_t) nFollowed)).set("steps", mj::Value::Int((int64_t) nSteps)).set("object_checks", mj::Value::Int((int64_t) nChecks)));
   return 0;
}

// ------------------------------------------------------------------------------------------------ x08sizes (C08 frames: body sizes across the receivers' internal thresholds)
// a Message whose flattened size is exactly S (12, or >= 35): one raw field "p" with one item of S - 34 bytes
static mj::Value SizedContent(uint32 S, uint32 salt)
{
   mj::Value fs = mj::Value::Arr();
   if (S >= 35) {std::string pad(S - 34, '\0'); for (size_t i=0; i<pad.size(); i++) pad[i] = (char)((i * 7 + salt) & 0xFF); fs.push(mj::Value::Obj().set("name", ArrOf("p")).set("type", ArrOf(LE32(B_RAW_TYPE))).set("items", mj::Value::Arr().push(ArrOf(pad))));}
   return mj::Value::Obj().set("what", ArrOf(LE32(S))).set("fields", fs);
}
//   wire x08sizes <seed> <trace.ndjson> <report.ndjson> <wire_mini> <wire_micro> <python3> <wire_py.py>
//   sessions of Messages whose flattened sizes sweep 2030..2060 (MessageIOGateway: 2048-byte scratch buffer minus the 8-byte header), the mini gateway's buffer
//   growth (2 x (body + 8)) and its 64 KiB shrink; every gateway as sender and as receiver (DoFrames); the streams are logged and TLC validates them against Frame
static int X08Sizes(int argc, char ** argv)
{
   if (argc < 9) return 2;
   const uint32 seed = (uint32) atoll(argv[2]);
   FILE * tr = fopen(argv[3], "w"); if (tr == NULL) return 2;
   OpenReport(argv[4]);
   Impls I; I.Setup(argv+5);
   Rng slice(seed ^ 0x2545F491u); g_sliceRng = &slice;
   std::vector<std::vector<uint32> > sessions;
   for (uint32 S=2030; S<=2060; S+=4) {std::vector<uint32> v; for (uint32 q=S; (q<S+4)&&(q<=2060); q++) v.push_back(q); sessions.push_back(v);}
   {const uint32 a[] = {2060, 2049, 2048, 2041, 2040, 2039, 12}; sessions.push_back(std::vector<uint32>(a, a+7));}
   {const uint32 a[] = {12, 35, 36, 12};                          sessions.push_back(std::vector<uint32>(a, a+4));}
   {const uint32 a[] = {100, 207, 208, 209, 424, 425};            sessions.push_back(std::vector<uint32>(a, a+6));}      // mini gateway: buffer = 2 x (body + 8) = 216: bodies 208 / 209 fit exactly / do not
   {const uint32 a[] = {40000, 65527, 65528, 65529, 12};          sessions.push_back(std::vector<uint32>(a, a+5));}      // mini gateway: shrunk to 64 KiB after 40000: body + 8 = 65536 fits exactly
   {const uint32 a[] = {65535, 65536, 65537, 70000, 65528};       sessions.push_back(std::vector<uint32>(a, a+5));}
   uint64_t nFrames = 0, nMsgs = 0, bytes = 0;
   for (size_t si=0; (si<sessions.size())&&(g_violCases < MAX_VIOL_CASES); si++)
   {
      snprintf(g_ctx, sizeof(g_ctx), "x08sizes session %zu (first size %u)", si, sessions[si][0]);
      alarm(120);
      std::vector<MessageRef> msgs; Strs bs, texts, viol;
      for (size_t j=0; j<sessions[si].size(); j++)
      {
         const mj::Value c = SizedContent(sessions[si][j], (uint32)(si * 31 + j));
         MessageRef m = BuildScript(c); if (m() == NULL) return 2;
         const std::string b = FlatPlain(*m());
         if (b.size() != sessions[si][j]) {viol.push_back("internal: padded Message has another size"); break;}
         msgs.push_back(m); bs.push_back(b); {std::string t; ContentText(c, t); texts.push_back(t);} bytes += b.size(); nMsgs++;
      }
      if (viol.empty()) DoFrames(I, msgs, bs, texts, tr, viol, nFrames);
      alarm(0);
      if (viol.size() > 0)
      {
         g_violCases++;
         mj::Value sz = mj::Value::Arr(); for (size_t j=0; j<sessions[si].size(); j++) sz.push(mj::Value::Int(sessions[si][j]));
         ReportLine(mj::Value::Obj().set("session", mj::Value::Int((int64_t) si)).set("flattened_sizes", sz).set("violations", StrArr(viol)));
      }
   }
   I.Stop(); fclose(tr);
   ReportLine(mj::Value::Obj().set("summary", mj::Value::Bool(true)).set("sessions", mj::Value::Int((int64_t) nFrames)).set("messages", mj::Value::Int((int64_t) nMsgs)).set("bytes", mj::Value::Int((int64_t) bytes)).set("comparisons", mj::Value::Int((int64_t) I.comparisons)));
   return 0;
}

// ------------------------------------------------------------------------------------------------ pyecho (C08 frames, Python leg)
static int PyEcho(int argc, char ** argv)
{
   if (argc < 7) return 2;
   const uint16 port = (uint16) atoi(argv[2]); const uint32 seed = (uint32) atoll(argv[3]); const uint32 N = (uint32) atoi(argv[4]);
   FILE * tr = fopen(argv[5], "w"); if (tr == NULL) return 2;
   OpenReport(argv[6]);
   Rng R(seed * 3000017u + 7); g_sliceRng = &R;
   const bool asciiSub = (argc > 7)&&(strstr(argv[7], "F39") != NULL);   // while F39 is open a wrong sub-Message length would derail the whole stream
   snprintf(g_ctx, sizeof(g_ctx), "pyecho port %u seed %u", (unsigned) port, seed);
   ConstSocketRef s;
   Child pyc;            // listen mode: the Python transceiver CONNECTS to us (its connecting socket is non-blocking: its send() calls can be partial)
   if (strcmp(argv[2], "listen") == 0)
   {
      if (argc < 11) return 2;
      uint16 lport = 0; ConstSocketRef as = CreateAcceptingSocket(0, 20, &lport);
      if (as() == NULL) {ReportLine(mj::Value::Obj().set("summary", mj::Value::Bool(true)).set("skipped", mj::Value::Str("cannot listen on a loopback port"))); return 0;}
      (void) SetSocketBlockingEnabled(as, false);
      pyc.name = "python"; pyc.args.push_back(argv[9]); pyc.args.push_back("-u"); pyc.args.push_back(argv[10]); pyc.args.push_back("echoconnect");
      pyc.args.push_back(std::string(getenv("VERIF_REPO") ? getenv("VERIF_REPO") : "/repo") + "/lang/python3"); pyc.args.push_back(std::to_string((unsigned) lport));
      if (pyc.Start() == false) return 2;
      const uint64 adl = GetRunTime64() + SecondsToMicros(30);
      while ((s() == NULL)&&(GetRunTime64() < adl)) {s = Accept(as); if (s() == NULL) (void) Snooze64(2000);}
      if (s() == NULL) {pyc.Stop(); ReportLine(mj::Value::Obj().set("summary", mj::Value::Bool(true)).set("skipped", mj::Value::Str("the Python transceiver did not connect to 127.0.0.1"))); return 0;}
   }
   else s = Connect(IPAddressAndPort(Inet_AtoN("127.0.0.1"), port), NULL, NULL, true, SecondsToMicros(10));
   if (s() == NULL) {ReportLine(mj::Value::Obj().set("summary", mj::Value::Bool(true)).set("skipped", mj::Value::Str("cannot connect to the Python transceiver on 127.0.0.1"))); return 0;}
   (void) SetSocketBlockingEnabled(s, false); (void) SetSocketNaglesAlgorithmEnabled(s, false);
   MessageIOGateway gw; gw.SetDataIO(DataIORef(new TCPSocketDataIO(s, false))); QueueGatewayMessageReceiver q;
   Strs sent, got; std::vector<mj::Value> contents, scripts; uint64_t bytes = 0;
   for (uint32 i=0; i<N; i++)
   {
      const mj::Value c = RandContent(R, 0, true, true, asciiSub);     // the repertoire of message.py; TLC checks Common("python", m) on the logged contents
      const mj::Value sc = MakeDetour(R, c);
      MessageRef m = BuildScript(sc); if (m() == NULL) return 2;
      contents.push_back(c); scripts.push_back(sc); sent.push_back(FlatPlain(*m())); bytes += sent.back().size();
      if (gw.AddOutgoingMessage(m).IsError()) return 2;
   }
   // ... then frames whose body sizes sweep the receivers' thresholds (Python as receiver and as sender, C++ as receiver of Python's frames)
   {
      std::vector<uint32> sz; for (uint32 S=2030; S<=2060; S++) sz.push_back(S);
      const uint32 more[] = {12, 35, 2039, 65528, 65536, 70000, 2048, 2041}; for (size_t i=0; i<sizeof(more)/sizeof(more[0]); i++) sz.push_back(more[i]);
      for (size_t i=0; i<sz.size(); i++)
      {
         const mj::Value c = SizedContent(sz[i], (uint32) i);
         MessageRef m = BuildScript(c); if (m() == NULL) return 2;
         contents.push_back(c); scripts.push_back(mj::Value()); sent.push_back(FlatPlain(*m())); bytes += sent.back().size();
         if (gw.AddOutgoingMessage(m).IsError()) return 2;
      }
   }
   const uint64 deadline = GetRunTime64() + SecondsToMicros(150);
   bool ioError = false;
   while ((got.size() < sent.size())&&(GetRunTime64() < deadline))
   {
      if (gw.HasBytesToOutput()) (void) gw.DoOutput(1+R(R(2) ? 8 : 3000));
      if (gw.DoInput(q, 1+R(R(2) ? 8 : 3000)).IsError()) {ioError = true; break;}
      MessageRef m; while (q.GetMessages().RemoveHead(m).IsOK()) got.push_back(FlatPlain(*m()));
      if (R(50) == 0) (void) Snooze64(200);
   }
   uint32 same = 0; Strs viol;
   for (size_t i=0; i<sent.size(); i++)
   {
      const bool eq = (i < got.size())&&(got[i] == sent[i]); if (eq) same++;
      mj::Value rec = mj::Value::Obj().set("op", mj::Value::Str("PyEcho")).set("m", contents[i]); if (scripts[i].type == mj::Value::OBJ) rec.set("s", scripts[i]);
      std::string ln = mj::ToString(rec.set("b", ArrOf(sent[i])).set("same", mj::Value::Int(eq ? 1 : 0))); ln += '\n'; fputs(ln.c_str(), tr);
      if ((eq == false)&&(viol.size() < 3)) {char tmp[200]; snprintf(tmp, sizeof(tmp), "Message %zu of %zu sent to the Python transceiver %s", i, sent.size(), (i < got.size()) ? "comes back with other bytes" : (ioError ? "is not echoed: the connection broke" : "is not echoed within 150 s")); viol.push_back(tmp);}
   }
   // ... then the Python side ORIGINATES frames: it keeps one status Message (top > mid > leaf), changes the leaf through its own reference, and sends the same
   // top object again (wire_py.py echo, 'HIST'); every frame is acknowledged before the next change, and must be byte-identical to the C++ encoding of the same content
   uint32 histSame = 0; const uint32 HISTN = 8;
   if ((viol.empty())&&(ioError == false)&&(got.size() == sent.size()))
   {
      MessageRef trig = GetMessageFromPool(0x48495354); (void) trig()->AddInt32("n", (int32) HISTN); (void) gw.AddOutgoingMessage(trig);
      Message leaf(3), mid(2), top(1);
      (void) leaf.AddString("s", "x0");
      for (uint32 k=0; (k<HISTN)&&(viol.empty()); k++)
      {
         if (k > 0)
         {
            String x; char t[16]; snprintf(t, sizeof(t), "x%u", k); for (uint32 q=0; q<1+(k%3); q++) x += t;
            (void) leaf.AddString("s", x);
            if (k % 2) {(void) leaf.RemoveName("q"); for (uint32 q=0; q<k; q++) (void) leaf.AddInt64("q", (int64) k);}
         }
         mid.Clear(); mid.what = 2; (void) mid.AddMessage("leaf", leaf); {const int8 b[2] = {1, 2}; (void) mid.AddData("b", B_INT8_TYPE, b, 2);}
         top.Clear(); top.what = 1; (void) top.AddMessage("mid", mid); (void) top.AddInt32("k", (int32) k);
         const std::string want = FlatPlain(top);
         std::string have; bool gotOne = false;
         const uint64 dl = GetRunTime64() + SecondsToMicros(60);
         while ((gotOne == false)&&(GetRunTime64() < dl))
         {
            if (gw.HasBytesToOutput()) (void) gw.DoOutput(1+R(R(2) ? 8 : 3000));
            if (gw.DoInput(q, 1+R(R(2) ? 8 : 3000)).IsError()) {ioError = true; break;}
            MessageRef m; if (q.GetMessages().RemoveHead(m).IsOK()) {have = FlatPlain(*m()); gotOne = true;}
         }
         const bool eq = (gotOne)&&(have == want); if (eq) histSame++;
         mj::Value content = mj::Value::Obj();   // the content as a Message value for TLC: parsed back from the C++ bytes is not independent, so log what was built
         {
            mj::Value sItems = mj::Value::Arr(); {for (uint32 q=0; q<=k; q++) {String x; char t[16]; snprintf(t, sizeof(t), "x%u", q); for (uint32 r2=0; r2<((q == 0) ? 1 : 1+(q%3)); r2++) x += t; sItems.push(ArrOf(std::string(x())));}}
            mj::Value lf = mj::Value::Arr(); lf.push(mj::Value::Obj().set("name", ArrOf("s")).set("type", ArrOf(LE32(B_STRING_TYPE))).set("items", sItems));
            uint32 lastOdd = (k % 2) ? k : (k ? k-1 : 0);
            if (lastOdd) {mj::Value qi = mj::Value::Arr(); for (uint32 q2=0; q2<lastOdd; q2++) qi.push(ArrOf(LE32(lastOdd) + LE32(0))); lf.push(mj::Value::Obj().set("name", ArrOf("q")).set("type", ArrOf(LE32(B_INT64_TYPE))).set("items", qi));}
            mj::Value leafV = mj::Value::Obj().set("what", ArrOf(LE32(3))).set("fields", lf);
            mj::Value mf = mj::Value::Arr(); mf.push(mj::Value::Obj().set("name", ArrOf("leaf")).set("type", ArrOf(LE32(B_MESSAGE_TYPE))).set("items", mj::Value::Arr().push(leafV)));
            mf.push(mj::Value::Obj().set("name", ArrOf("b")).set("type", ArrOf(LE32(B_INT8_TYPE))).set("items", mj::Value::Arr().push(ArrOf(std::string("\x01"))).push(ArrOf(std::string("\x02")))));
            mj::Value midV = mj::Value::Obj().set("what", ArrOf(LE32(2))).set("fields", mf);
            mj::Value tf = mj::Value::Arr(); tf.push(mj::Value::Obj().set("name", ArrOf("mid")).set("type", ArrOf(LE32(B_MESSAGE_TYPE))).set("items", mj::Value::Arr().push(midV)));
            tf.push(mj::Value::Obj().set("name", ArrOf("k")).set("type", ArrOf(LE32(B_INT32_TYPE))).set("items", mj::Value::Arr().push(ArrOf(LE32(k)))));
            content.set("what", ArrOf(LE32(1))).set("fields", tf);
         }
         std::string ln = mj::ToString(mj::Value::Obj().set("op", mj::Value::Str("PyEcho")).set("m", content).set("b", ArrOf(want)).set("same", mj::Value::Int(eq ? 1 : 0))); ln += '\n'; fputs(ln.c_str(), tr);
         if (eq == false) {char tmp[200]; snprintf(tmp, sizeof(tmp), "frame %u of the status Message the Python side keeps, changes through a sub-Message reference and resends %s", k, gotOne ? "has other bytes than the C++ encoding of the same content" : (ioError ? "cannot be read: the frame's length word does not fit its body (connection broke)" : "does not arrive within 60 s")); viol.push_back(tmp); break;}
         MessageRef ack = GetMessageFromPool(0x41434b31); (void) gw.AddOutgoingMessage(ack);
      }
   }
   // ... then frames that do NOT fit one send(): Messages of several MB echoed by the Python side to a peer that reads in small pieces with pauses
   uint32 bigSame = 0, bigSent = 0;
   if ((viol.empty())&&(ioError == false))
   {
      const uint32 nBig = (argc > 8) ? (uint32) atoi(argv[8]) : 2; const uint32 mb[] = {2, 8, 12};
      for (uint32 bi=0; (bi<nBig)&&(bi<3)&&(viol.empty()); bi++)
      {
         const uint32 nBytes = mb[bi]*1024*1024 + 13*bi + 5;
         ByteBufferRef buf = GetByteBufferFromPool(nBytes); if (buf() == NULL) return 2;
         {uint8 * p = buf()->GetBuffer(); uint32 x = 2463534242u + bi; for (uint32 i=0; i<nBytes; i++) {x ^= x << 13; x ^= x >> 17; x ^= x << 5; p[i] = (uint8) x;}}
         MessageRef m = GetMessageFromPool(0x42494730 + bi); (void) m()->AddString("note", "big"); (void) m()->AddFlat("blob", buf); (void) m()->AddInt32("tail", (int32) bi);
         const std::string want = FlatPlain(*m());
         (void) gw.AddOutgoingMessage(m); bigSent++;
         std::string have; bool gotOne = false; uint32 reads = 0;
         const uint64 dl = GetRunTime64() + SecondsToMicros(90);
         while ((gotOne == false)&&(GetRunTime64() < dl))
         {
            if (gw.HasBytesToOutput()) (void) gw.DoOutput(1+R(R(2) ? 70000 : 1000000));
            if (gw.DoInput(q, 1+R(R(3) ? 60000 : 2000)).IsError()) {ioError = true; break;}          // small pieces ...
            if ((++reads % 40) == 0) (void) Snooze64(300);                                           // ... with pauses: the sender's socket buffer fills up
            MessageRef r; if (q.GetMessages().RemoveHead(r).IsOK()) {have = FlatPlain(*r()); gotOne = true;}
         }
         if ((gotOne)&&(have == want)) bigSame++;
         else {char tmp[240]; snprintf(tmp, sizeof(tmp), "a Message of %u MB (frame does not fit one send()) echoed by the Python transceiver %s", mb[bi], gotOne ? "comes back with other bytes" : (ioError ? "cannot be read: the stream lost frame synchronisation / the connection broke" : "does not arrive within 90 s (the stream is short of bytes the frame announced?)")); viol.push_back(tmp);}
      }
   }
   fclose(tr);
   if (pyc.to) pyc.Stop();
   if (viol.size() > 0) ReportLine(mj::Value::Obj().set("violations", StrArr(viol)).set("seed", mj::Value::Int(seed)));
   ReportLine(mj::Value::Obj().set("summary", mj::Value::Bool(true)).set("big_frames_sent", mj::Value::Int(bigSent)).set("big_frames_identical", mj::Value::Int(bigSame)).set("resent_status_frames_identical", mj::Value::Int(histSame)).set("sent", mj::Value::Int((int64_t) sent.size())).set("echoed_identically", mj::Value::Int(same)).set("bytes", mj::Value::Int((int64_t) bytes)));
   return 0;
}

int main(int argc, char ** argv)
{
   CompleteSetupSystem css;
   SetConsoleLogLevel(MUSCLE_LOG_NONE);
   InstallHandlers();
   if (argc < 2) {fprintf(stderr, "usage: wire replay|gen|vec01|heap|x08vec|x08gen|pyecho ...\n"); return 2;}
   const std::string mode = argv[1];
   if (mode == "replay") return Replay(argc, argv);
   if (mode == "gen")    return Gen(argc, argv);
   if (mode == "vec01")  return Vec01(argc, argv);
   if (mode == "heap")   return Heap(argc, argv);
   if (mode == "mt")     return MT(argc, argv);
   if (mode == "x08vec") return X08Vec(argc, argv);
   if (mode == "x08gen") return X08Gen(argc, argv);
   if (mode == "pyecho") return PyEcho(argc, argv);
   if (mode == "x08heap")  return X08Heap(argc, argv);
   if (mode == "x08sizes") return X08Sizes(argc, argv);
   return 2;
}
