/* C08 helper: the C "mini" Message codec and gateway (lang/c/minimessage) behind a line protocol on stdin / stdout.
 * (A separate program: MiniMessage.c and MicroMessage.c define the same global symbols.)
 *   U <hex>                      MMUnflattenMessage the bytes, MMFlattenMessage the result       -> K <hex> | E <why>
 *   B M <what> <nfields> ...     build the content natively with MMPut*Field(), flatten          -> K <hex> | E <why>
 *   D <v> M <what> <nfields> ... the same content through the codec's own mutating calls, detour v = 1..7 (see build)  -> K <hex> | E <why>
 *   G <seed> M ... M ...         build each content natively, MGAddOutgoingMessage, MGDoOutput in random slices -> K <hex of the stream>
 *   R <seed> <hex of a stream>   MGDoInput in random slices, flatten every Message received      -> K <hex> <hex> ...
 *   Q                            quit
 * content text:  M <what:8 hex digits> <nfields> { <name hex | -> <type code:8 hex digits> <nitems> { <item hex | -> | M ... } }
 */
#include <stdio.h>
#include <stdlib.h>
#include <string.h>
#include <unistd.h>
#include "lang/c/minimessage/MiniMessage.h"
#include "lang/c/minimessage/MiniMessageGateway.h"

/* replies go to the original stdout; fd 1 is pointed at stderr so that the codec's own printf() diagnostics cannot corrupt the protocol */
static FILE * g_out = NULL;
#define printf(...) fprintf(g_out, __VA_ARGS__)

static int hexval(int c) {return (c >= '0' && c <= '9') ? c-'0' : (c >= 'a' && c <= 'f') ? c-'a'+10 : (c >= 'A' && c <= 'F') ? c-'A'+10 : -1;}
/* decodes a hex token into a malloc'd buffer (always one extra NUL byte at the end); "-" is the empty buffer */
static uint8 * unhex(const char * h, uint32 * n)
{
   size_t len = strlen(h); uint8 * b; size_t i;
   if (strcmp(h, "-") == 0) len = 0;
   b = (uint8 *) malloc(len/2 + 1);
   for (i=0; i+1<len; i+=2) b[i/2] = (uint8)((hexval(h[i]) << 4) | hexval(h[i+1]));
   b[len/2] = 0; *n = (uint32)(len/2);
   return b;
}
static void puthex(const uint8 * b, uint32 n) {uint32 i; if (n == 0) fputc('-', g_out); for (i=0; i<n; i++) printf("%02x", b[i]);}
static char * tok(char ** p) {char * s = *p; char * e; if (s == NULL) return NULL; while (*s == ' ') s++; if (*s == 0) {*p = NULL; return NULL;} e = s; while ((*e)&&(*e != ' ')) e++; if (*e) {*e = 0; *p = e+1;} else *p = NULL; return s;}

static uint32 u32at(const uint8 * b) {return ((uint32)b[0]) | (((uint32)b[1]) << 8) | (((uint32)b[2]) << 16) | (((uint32)b[3]) << 24);}
static uint64 u64at(const uint8 * b) {return ((uint64)u32at(b)) | (((uint64)u32at(b+4)) << 32);}
static float f32at(const uint8 * b) {uint32 v = u32at(b); float f; memcpy(&f, &v, 4); return f;}

/* ---- native construction.  g_detour = 0: every field is put once.  1..7: every field reaches the Message through the mini codec's own MUTATING calls
 * (the same content must come out; the documentation says of each of them only that the named field is renamed / moved / copied / replaced):
 *   1 put under a LONGER temporary name, MMRenameField to the name      2 put under a SHORTER temporary name, MMRenameField
 *   3 put under another name of the SAME length, MMRenameField          4 junk field under the name, MMRemoveField, put
 *   5 junk field of another type / count under the name, put again (replace-by-put)
 *   6 built in a scratch MMessage, MMMoveField (even fields) / MMCopyField (odd fields) into the Message
 *   7 fixed-size kinds with 2+ items: put with room for ONE item, then put again with retainOldData = MTrue and the full count
 *   8 the whole Message is built, duplicated with MMCloneMessage(), and the CLONE is flattened
 * Fields of type B_POINTER_TYPE are built with MMPutPointerField(): they are not flattenable and must leave no trace in the bytes, whichever way they got there. */
static int g_detour = 0;
static int g_ptrTargets[4];
static MMessage * build(char ** p, const char ** why);

/* puts field (name) with the n items that follow in the text into m; 0 on success */
static int put_field(MMessage * m, const char * name, uint32 tc, uint32 n, char ** p, const char ** why)
{
   uint32 j;
   if (tc == B_MESSAGE_TYPE)
   {
      MMessage ** a = MMPutMessageField(m, MFalse, name, n);
      if (a == NULL) {*why = "MMPutMessageField"; return 1;}
      for (j=0; j<n; j++) {a[j] = build(p, why); if (a[j] == NULL) return 1;}
      return 0;
   }
   else
   {
      void * arr = NULL; MByteBuffer ** bufs = NULL;
      uint8 ** items = (uint8 **) malloc(sizeof(uint8 *) * (n + 1)); uint32 * lens = (uint32 *) malloc(sizeof(uint32) * (n + 1));
      const int fixed = ((tc == B_BOOL_TYPE)||(tc == B_INT8_TYPE)||(tc == B_INT16_TYPE)||(tc == B_INT32_TYPE)||(tc == B_INT64_TYPE)||(tc == B_FLOAT_TYPE)||(tc == B_DOUBLE_TYPE)||(tc == B_POINT_TYPE)||(tc == B_RECT_TYPE));
      int pass; const int passes = ((g_detour == 7)&&(n >= 2)&&(fixed)) ? 2 : 1;
      for (j=0; j<n; j++) items[j] = unhex(tok(p), &lens[j]);
      for (pass=0; pass<passes; pass++)
      {
         const uint32 cnt = ((passes == 2)&&(pass == 0)) ? 1 : n; const MBool retain = (pass == 1) ? MTrue : MFalse; const uint32 from = (pass == 1) ? 1 : 0;
         switch(tc)
         {
            case B_BOOL_TYPE:   arr = MMPutBoolField(m, retain, name, cnt); break;
            case B_INT8_TYPE:   arr = MMPutInt8Field(m, retain, name, cnt); break;
            case B_INT16_TYPE:  arr = MMPutInt16Field(m, retain, name, cnt); break;
            case B_INT32_TYPE:  arr = MMPutInt32Field(m, retain, name, cnt); break;
            case B_INT64_TYPE:  arr = MMPutInt64Field(m, retain, name, cnt); break;
            case B_FLOAT_TYPE:  arr = MMPutFloatField(m, retain, name, cnt); break;
            case B_DOUBLE_TYPE: arr = MMPutDoubleField(m, retain, name, cnt); break;
            case B_POINT_TYPE:  arr = MMPutPointField(m, retain, name, cnt); break;
            case B_RECT_TYPE:   arr = MMPutRectField(m, retain, name, cnt); break;
            case B_STRING_TYPE: arr = bufs = MMPutStringField(m, retain, name, cnt); break;
            case B_POINTER_TYPE: arr = MMPutPointerField(m, retain, name, cnt); break;        /* a NON-flattenable field: never on the wire, not counted */
            default:            arr = bufs = MMPutDataField(m, retain, tc, name, cnt); break;
         }
         if (arr == NULL) {*why = "MMPut*Field"; return 1;}
         for (j=from; j<cnt; j++)
         {
            const uint8 * b = items[j]; const uint32 len = lens[j];
            switch(tc)
            {
               case B_BOOL_TYPE:   ((MBool *) arr)[j] = b[0] ? MTrue : MFalse; break;
               case B_INT8_TYPE:   ((int8 *) arr)[j] = (int8) b[0]; break;
               case B_INT16_TYPE:  ((int16 *) arr)[j] = (int16)(b[0] | (b[1] << 8)); break;
               case B_INT32_TYPE:  ((int32 *) arr)[j] = (int32) u32at(b); break;
               case B_INT64_TYPE:  ((int64 *) arr)[j] = (int64) u64at(b); break;
               case B_FLOAT_TYPE:  {float f = f32at(b); memcpy(&((float *) arr)[j], &f, 4);} break;
               case B_DOUBLE_TYPE: {uint64 v = u64at(b); memcpy(&((double *) arr)[j], &v, 8);} break;
               case B_POINT_TYPE:  {MPoint q; q.x = f32at(b); q.y = f32at(b+4); ((MPoint *) arr)[j] = q;} break;
               case B_RECT_TYPE:   {MRect q; q.left = f32at(b); q.top = f32at(b+4); q.right = f32at(b+8); q.bottom = f32at(b+12); ((MRect *) arr)[j] = q;} break;
               case B_STRING_TYPE: bufs[j] = MBStrdupByteBuffer((const char *) b); break;
               case B_POINTER_TYPE: ((void **) arr)[j] = (void *) &g_ptrTargets[j % 4]; break;
               default:            bufs[j] = MBAllocByteBuffer(len, MFalse); if (bufs[j] == NULL) {*why = "MBAllocByteBuffer"; return 1;} if (len) memcpy(&bufs[j]->bytes, b, len); break;
            }
         }
      }
      for (j=0; j<n; j++) free(items[j]);
      free(items); free(lens);
      return 0;
   }
}

static int has_field(const MMessage * m, const char * name) {return MMGetFieldInfo(m, name, B_ANY_TYPE, NULL, NULL) == CB_NO_ERROR;}

static MMessage * build(char ** p, const char ** why)
{
   char * t = tok(p); MMessage * m; uint32 nf, i;
   if ((t == NULL)||(strcmp(t, "M") != 0)) {*why = "syntax"; return NULL;}
   m = MMAllocMessage((uint32) strtoul(tok(p), NULL, 16));
   nf = (uint32) strtoul(tok(p), NULL, 10);
   for (i=0; i<nf; i++)
   {
      uint32 nameLen, tc, n; uint8 * nameBytes = unhex(tok(p), &nameLen); const char * name = (const char *) nameBytes;
      char tmp[512]; int d = g_detour;
      tc = (uint32) strtoul(tok(p), NULL, 16); n = (uint32) strtoul(tok(p), NULL, 10);
      if (nameLen > 400) d = 0;
      /* the temporary name of the rename detours; fall back to the longer one when the wanted one is impossible or taken */
      if ((d == 2)&&(nameLen >= 1)) strcpy(tmp, (name[0] == 2) ? "\003" : "\002");
      else if ((d == 3)&&(nameLen >= 1)) {strcpy(tmp, name); tmp[0] = (char)(tmp[0] ^ 1); if (tmp[0] == 0) tmp[0] = 3;}
      else if ((d >= 1)&&(d <= 3)) {snprintf(tmp, sizeof(tmp), "%s_a_longer_temporary_name", name); d = 1;}
      if ((d >= 1)&&(d <= 3)&&((has_field(m, tmp))||(strcmp(tmp, name) == 0))) {snprintf(tmp, sizeof(tmp), "%s_a_longer_temporary_name", name); d = 1;}
      switch(d)
      {
         case 1: case 2: case 3:
            if (put_field(m, tmp, tc, n, p, why)) return NULL;
            if (MMRenameField(m, tmp, name) != CB_NO_ERROR) {*why = "MMRenameField"; return NULL;}
         break;
         case 4:
            if (MMPutInt8Field(m, MFalse, name, 3) == NULL) {*why = "MMPutInt8Field"; return NULL;}
            if (MMRemoveField(m, name) != CB_NO_ERROR) {*why = "MMRemoveField"; return NULL;}
            if (put_field(m, name, tc, n, p, why)) return NULL;
         break;
         case 5:
            if (tc == B_STRING_TYPE) {if (MMPutInt32Field(m, MFalse, name, n + 2) == NULL) {*why = "MMPutInt32Field"; return NULL;}}
            else {MByteBuffer ** jb = MMPutStringField(m, MFalse, name, 2); if (jb == NULL) {*why = "MMPutStringField"; return NULL;} jb[0] = MBStrdupByteBuffer("junk"); jb[1] = MBStrdupByteBuffer("");}
            if (put_field(m, name, tc, n, p, why)) return NULL;
         break;
         case 6:
         {
            MMessage * scratch = MMAllocMessage(99);
            if (put_field(scratch, name, tc, n, p, why)) return NULL;
            if (((i & 1) ? MMCopyField(scratch, name, m) : MMMoveField(scratch, name, m)) != CB_NO_ERROR) {*why = "MMMoveField / MMCopyField"; return NULL;}
            MMFreeMessage(scratch);
         }
         break;
         default:
            if (put_field(m, name, tc, n, p, why)) return NULL;
         break;
      }
      free(nameBytes);
   }
   return m;
}

/* ---- gateway: in-memory stream, sliced at random (a small LCG, seeded per request) */
typedef struct {uint8 * buf; uint32 len, cap, pos; uint32 rnd;} Stream;
static uint32 chunk(Stream * s) {static const uint32 menu[] = {0, 1, 1, 2, 3, 7, 8, 9, 15, 100, 2039, 2040, 2041, 2048, 100000, 100000}; s->rnd = s->rnd * 1103515245u + 12345u; return menu[(s->rnd >> 16) & 15];}
static int32 sendf(const uint8 * b, uint32 n, void * arg)
{
   Stream * s = (Stream *) arg; uint32 c = chunk(s); if (c > n) c = n;
   if (s->len + c > s->cap) {s->cap = (s->len + c) * 2 + 1024; s->buf = (uint8 *) realloc(s->buf, s->cap);}
   if (c) memcpy(s->buf + s->len, b, c);
   s->len += c; return (int32) c;
}
static int32 recvf(uint8 * b, uint32 n, void * arg)
{
   Stream * s = (Stream *) arg; uint32 c = chunk(s); if (c > n) c = n; if (c > s->len - s->pos) c = s->len - s->pos;
   if (c) memcpy(b, s->buf + s->pos, c);
   s->pos += c; return (int32) c;
}

int main(void)
{
   char * line = NULL; size_t cap = 0; ssize_t got;
   g_out = fdopen(dup(1), "w"); (void) dup2(2, 1);
   while ((got = getline(&line, &cap, stdin)) > 0)
   {
      char * p = line; char * cmd;
      while ((got > 0)&&((line[got-1] == '\n')||(line[got-1] == '\r'))) line[--got] = 0;
      cmd = tok(&p);
      if (cmd == NULL) continue;
      if (strcmp(cmd, "Q") == 0) break;
      if (strcmp(cmd, "U") == 0)
      {
         uint32 n; uint8 * b = unhex(tok(&p), &n); MMessage * m = MMAllocMessage(0);
         if (MMUnflattenMessage(m, b, n) != CB_NO_ERROR) printf("E MMUnflattenMessage refuses the bytes\n");
         else {const uint32 fs = MMGetFlattenedSize(m); uint8 * o = (uint8 *) malloc(fs + 16); memset(o, 0xEE, fs + 16); MMFlattenMessage(m, o);
               if (memcmp(o + fs, "\xEE\xEE\xEE\xEE", 4) != 0) printf("E MMFlattenMessage wrote past MMGetFlattenedSize\n"); else {printf("K "); puthex(o, fs); printf("\n");} free(o);}
         MMFreeMessage(m); free(b);
      }
      else if ((strcmp(cmd, "B") == 0)||(strcmp(cmd, "D") == 0))
      {
         if (cmd[0] == 'D') g_detour = atoi(tok(&p)); else g_detour = 0;
         const char * why = "?"; MMessage * m = build(&p, &why);
         if ((m)&&(g_detour == 8)) {MMessage * c = MMCloneMessage(m); MMFreeMessage(m); m = c; if (m == NULL) why = "MMCloneMessage";}
         if (m == NULL) printf("E native build failed: %s\n", why);
         else {const uint32 fs = MMGetFlattenedSize(m); uint8 * o = (uint8 *) malloc(fs + 16); MMFlattenMessage(m, o); printf("K "); puthex(o, fs); printf("\n"); free(o); MMFreeMessage(m);}
      }
      else if (strcmp(cmd, "G") == 0)
      {
         Stream s; MMessageGateway * gw = MGAllocMessageGateway(); int bad = 0, idle = 0;
         memset(&s, 0, sizeof(s)); s.rnd = (uint32) strtoul(tok(&p), NULL, 10); g_detour = 0;
         while ((p != NULL)&&(bad == 0))
         {
            const char * why = "?"; MMessage * m;
            while ((p)&&(*p == ' ')) p++;
            if ((p == NULL)||(*p == 0)) break;
            m = build(&p, &why);                    /* the Messages are built natively from their contents */
            if ((m == NULL)||(MGAddOutgoingMessage(gw, m) != CB_NO_ERROR)) bad = 1;
            if (m) MMFreeMessage(m);
         }
         while ((bad == 0)&&(MGHasBytesToOutput(gw))&&(idle < 1000)) {const int32 r = MGDoOutput(gw, (chunk(&s) & 1) ? (uint32) -1 : 1 + (s.rnd >> 8) % 3000, sendf, &s); if (r < 0) bad = 1; else if (r > 0) idle = 0; else idle++;}
         if ((bad)||(MGHasBytesToOutput(gw))) printf("E the gateway could not write the Messages\n"); else {printf("K "); puthex(s.buf, s.len); printf("\n");}
         MGFreeMessageGateway(gw); free(s.buf);
      }
      else if (strcmp(cmd, "R") == 0)
      {
         Stream s; MMessageGateway * gw = MGAllocMessageGateway(); int bad = 0, idle = 0;
         memset(&s, 0, sizeof(s)); s.rnd = (uint32) strtoul(tok(&p), NULL, 10);
         s.buf = unhex(tok(&p), &s.len);
         printf("K");
         while ((bad == 0)&&(idle < 50))
         {
            MMessage * rm = NULL;
            const int32 r = MGDoInput(gw, (chunk(&s) & 1) ? (uint32) -1 : 1 + (s.rnd >> 8) % 3000, recvf, &s, &rm);
            if (r < 0) bad = 1;
            if ((r > 0)||(rm)) idle = 0; else idle++;
            if (rm) {const uint32 fs = MMGetFlattenedSize(rm); uint8 * o = (uint8 *) malloc(fs + 16); MMFlattenMessage(rm, o); printf(" "); puthex(o, fs); free(o); MMFreeMessage(rm);}
         }
         printf(bad ? " E\n" : "\n");
         MGFreeMessageGateway(gw); free(s.buf);
      }
      else printf("E unknown command\n");
      fflush(g_out);
   }
   return 0;
}
