// C09 conformance harness: Hashtable / OrderedKeysHashtable / OrderedValuesHashtable <int,int> against spec/OrderedMap/MapAbs.tla.
//   ht replay <behaviours.ndjson> <report.ndjson> <hash 0|1> <prefill P> <slack> [progress file [class 0|1|2]]
//        spec -> code: every input line is one behaviour of MapAbs (list of step records `last`); each call is made on a real
//        Hashtable<int,int> and after EVERY step the result, the full forward and backward iteration order of both tables and the
//        observable state (HasData / GetKey / GetValue) of every live iterator are compared with the record.  A property monitor
//        (the iterator clauses of C09 evaluated on what the real iterators show) decides VIOLATION vs DRIFT for iterator mismatches.
//   ht random <report.ndjson> <trace.ndjson> <seed> <runs> <ops per run> <class 0|1|2> <hash 0|1> <prefill P> <slack> <keys K> <vals V> <iterators>
//        code -> spec: seeded random long runs; every call is logged (op, args, result, full key/value order of both tables, iterator
//        states) for line-by-line validation by TLC (spec/OrderedMap/MapTrace.tla).  class: 0 Hashtable, 1 OrderedKeys, 2 OrderedValues.
// hash: see main() - default, all-colliding, boundary hash codes (guard value 0xFFFFFFFF, 0, ...), colliding modulo the table size, key offset.
// Prefill: P untouched entries with keys -P..-1 (values = keys) kept as a block at the FRONT of the table under test, table sized P+slack
// at the start, so that the small behaviours of the model cross the index-width boundaries (tableSize 254/255/256, 65534/65535/65536)
// with iterators registered.  Positions / indices are translated by P; calls that would move something in front of the block or detach
// iterators parked inside it are "not applicable" while the block is there (the behaviour is cut at that step; counted).
#include "util/Hashtable.h"
#include "system/SetupSystem.h"
#include "mjson.h"
#include <set>
#include <random>
#include <algorithm>
using namespace muscle;

// Key / value type.  The default build uses int / int; harness/htc.cpp builds the same program with HT_CANARY defined: keys and values are
// an OWNING, NON-TRIVIAL type (each object owns a heap cell: the table has to construct, copy, reset-to-default and destroy them; ASan sees
// every double free / use after free / read of a destroyed object).  A default-constructed Canary reads as 0 = "none".
#ifdef HT_CANARY
struct Canary {
   int * p;
   Canary() : p(NULL) {}
   explicit Canary(int v) : p(new int(v)) {}
   Canary(const Canary & r) : p(r.p ? new int(*r.p) : NULL) {}
   Canary(Canary && r) : p(r.p) {r.p = NULL;}
   Canary & operator=(const Canary & r) {if (this != &r) {int * n = r.p ? new int(*r.p) : NULL; delete p; p = n;} return *this;}
   Canary & operator=(Canary && r) {if (this != &r) {delete p; p = r.p; r.p = NULL;} return *this;}
   ~Canary() {delete p; p = NULL;}
   int Get() const {return p ? *p : 0;}
   bool operator==(const Canary & r) const {return Get() == r.Get();}
   bool operator!=(const Canary & r) const {return Get() != r.Get();}
   bool operator<(const Canary & r) const {return Get() < r.Get();}
   bool operator>(const Canary & r) const {return Get() > r.Get();}
};
typedef Canary KT; typedef Canary VT;
static inline KT MkK(int i) {return Canary(i);}
static inline int KI(const KT & k) {return k.Get();}
#else
typedef int KT; typedef int VT;
static inline KT MkK(int i) {return i;}
static inline int KI(const KT & k) {return k;}
#endif
static inline VT MkV(int i) {return MkK(i);}
static inline int VI(const VT & v) {return KI(v);}

// Keys of the model are 1..K; the real key is model key + KOFF (order preserving).  KOFF = 1621770656 makes model key 2 the int whose
// default hash code (CalculateHashCode of its 4 bytes) is exactly 0xFFFFFFFF = MUSCLE_HASHTABLE_INVALID_HASH_CODE, the table's guard value.
static int KOFF = 0;
static uint32 g_alias = 0;
static inline int RK(long m) {return (m > 0) ? (int)(m+KOFF) : (int) m;}
static inline long MK(int k) {return (k > 0) ? ((long) k)-KOFF : (long) k;}
#ifdef HT_CANARY
struct DefHash {     // the default functor of the int inside
   uint32 operator()(const KT & k) const {const int i = KI(k); return PODHashFunctor<int>()(i);}
   bool AreKeysEqual(const KT & a, const KT & b) const {return a == b;}
};
#else
typedef PODHashFunctor<int> DefHash;
#endif
struct BadHash {     // every key of the model in one bucket, together with the last entry of the prefill block
   uint32 operator()(const KT & kk) const {const int k = KI(kk); return (k >= -1) ? 12345u : (((uint32) k)*2654435761u);}
   bool AreKeysEqual(const KT & a, const KT & b) const {return a == b;}
};
struct EdgeHash {    // boundary hash codes by construction: the guard value 0xFFFFFFFF (remapped to 0 by the table), 0, 0xFFFFFFFE, 1 - some shared
   uint32 operator()(const KT & kk) const
   {
      static const uint32 T[7] = {0u, 0xFFFFFFFFu, 0u, 0xFFFFFFFEu, 1u, 0xFFFFFFFFu, 0xFFFFFFFEu};
      const int k = KI(kk);
      if (k > 0) return T[MK(k)%7];
      return (k == -1) ? 0xFFFFFFFFu : ((k == -2) ? 0u : ((k == -3) ? 0xFFFFFFFEu : (((uint32) k)*2654435761u)));
   }
   bool AreKeysEqual(const KT & a, const KT & b) const {return a == b;}
};
struct ModHash {     // distinct hash codes that collide modulo every small table size (840 = lcm(1..8)) and modulo 2^k
   uint32 operator()(const KT & kk) const {const int k = KI(kk); return (k > 0) ? ((uint32) MK(k))*840u*65536u : (((uint32) k)*2654435761u);}
   bool AreKeysEqual(const KT & a, const KT & b) const {return a == b;}
};

static const int MAXIT = 3;
static const long NA = -99;   // "the call failed in an undocumented way"

enum {O_Put, O_PutPrev, O_PutIfAbsent, O_GetOrPut, O_PutOrRemove, O_PutAtFront, O_PutAtBack, O_PutBefore, O_PutBehind, O_PutAtPosition,
      O_GetAndMoveToFront, O_GetAndMoveToBack, O_Remove, O_RemoveGet, O_RemoveFirst, O_RemoveLast,
      O_MoveToFront, O_MoveToBack, O_MoveToBefore, O_MoveToBehind, O_MoveToPosition,
      O_SortByKey, O_SortByValue, O_SortSelf, O_Reposition, O_Swap, O_Clear, O_Destroy, O_AssignFrom, O_AssignTo, O_PutAll, O_MoveToTable,
      O_RemoveAll, O_Intersect, O_EnsureSize, O_ShrinkToFit, O_SetAutoSort, O_EnsureCanPut, O_CopyToTable, O_Self,
      O_Get, O_IndexOfKey, O_IndexOfValue, O_GetKeyAt, O_GetValueAt, O_GetFirstKey, O_GetLastKey, O_GetKeyBefore, O_GetKeyAfter, O_ContainsValue, O_NumItems, O_IsEqualTo,
      O_ItNew, O_ItNewAt, O_ItAdv, O_ItRet, O_ItFlip, O_ItDel, O_ItCopy, NUM_OPS};
static const char * OPN[NUM_OPS] = {"Put", "PutPrev", "PutIfAbsent", "GetOrPut", "PutOrRemove", "PutAtFront", "PutAtBack", "PutBefore", "PutBehind", "PutAtPosition",
      "GetAndMoveToFront", "GetAndMoveToBack", "Remove", "RemoveGet", "RemoveFirst", "RemoveLast",
      "MoveToFront", "MoveToBack", "MoveToBefore", "MoveToBehind", "MoveToPosition",
      "SortByKey", "SortByValue", "SortSelf", "Reposition", "Swap", "Clear", "Destroy", "AssignFrom", "AssignTo", "PutAll", "MoveToTable",
      "RemoveAll", "Intersect", "EnsureSize", "ShrinkToFit", "SetAutoSort", "EnsureCanPut", "CopyToTable", "Self",
      "Get", "IndexOfKey", "IndexOfValue", "GetKeyAt", "GetValueAt", "GetFirstKey", "GetLastKey", "GetKeyBefore", "GetKeyAfter", "ContainsValue", "NumItems", "IsEqualTo",
      "ItNew", "ItNewAt", "ItAdv", "ItRet", "ItFlip", "ItDel", "ItCopy"};
static int OpByName(const std::string & s) {for (int i=0; i<NUM_OPS; i++) if (s == OPN[i]) return i; return -1;}

// boundary values of the uint32 argument type, coded as negative numbers by the specification (TLC integers are 32-bit signed)
static bool IsBig(long c) {return c < 0;}
static uint32 Big(long c) {return (c == -1) ? 0xFFFFFFFFu : ((c == -2) ? 0xFFFFFFFEu : ((c == -3) ? 0x80000000u : 0x7FFFFFFFu));}
#if defined(__SANITIZE_ADDRESS__)
static const bool HUGE_ALLOC_OK = true;     // ASan refuses allocations over max_allocation_size_mb and returns NULL
#else
static const bool HUGE_ALLOC_OK = false;    // a plain build would really try to get (and initialise) tens of GB: the huge capacity requests are not made
#endif
static long St(const status_t & r) {return r.IsOK() ? 1 : ((r == B_DATA_NOT_FOUND) ? 0 : ((r == B_BAD_ARGUMENT) ? -1 : NA));}

// Reposition() / SetAutoSortEnabled() exist in the sorting classes only
template<class H> static status_t DoReposition(Hashtable<KT,VT,H> & t, const KT & k) {return t.ContainsKey(k) ? B_NO_ERROR : B_DATA_NOT_FOUND;}
template<class C, class H> static status_t DoReposition(OrderedKeysHashtable<KT,VT,C,H> & t, const KT & k) {return t.Reposition(k);}
template<class C, class H> static status_t DoReposition(OrderedValuesHashtable<KT,VT,C,H> & t, const KT & k) {return t.Reposition(k);}
template<class H> static void DoSetAutoSort(Hashtable<KT,VT,H> &, bool, bool) {}
template<class C, class H> static void DoSetAutoSort(OrderedKeysHashtable<KT,VT,C,H> & t, bool on, bool sortNow) {t.SetAutoSortEnabled(on, sortNow);}
template<class C, class H> static void DoSetAutoSort(OrderedValuesHashtable<KT,VT,C,H> & t, bool on, bool sortNow) {t.SetAutoSortEnabled(on, sortNow);}

struct ItObs {int h, k, v; ItObs() : h(-1), k(0), v(0) {} bool operator==(const ItObs & r) const {return (h == r.h)&&((h != 1)||((k == r.k)&&(v == r.v)));}};
typedef std::vector<std::pair<int,int> > KV;

template<class TableT, class HashF> struct Rig
{
   typedef HashtableIterator<KT,VT,HashF> It;
   TableT * tab[2]; bool blk[2]; It * it[MAXIT]; bool itBwd[MAXIT];
   uint32 P, slack; TableT * tmpl; std::string err;
   bool autoOn;    // SetAutoSortEnabled state of the table object tab[0] (sorting classes)
   // MoveToTable() moves the value out of the source entry BEFORE it removes the entry, so the copy an iterator keeps of that entry holds a moved-from value
   // (non-trivial value types only).  The header is silent: either value is accepted; See() reports the value the entry had and counts the occurrences.
   int plKey[MAXIT], plVal[MAXIT]; long plundered;
   uint32 alias, calls;   // alias != 0: key / value arguments are, whenever possible, references INTO the table's own storage or into an iterator

   Rig(uint32 p, uint32 s) : P(p), slack(s), tmpl(NULL), autoOn(true), alias(g_alias), calls(g_alias), plundered(0) {for (int i=0; i<MAXIT; i++) plKey[i] = plVal[i] = 0; tab[0] = tab[1] = NULL; blk[0] = blk[1] = false; for (int i=0; i<MAXIT; i++) {it[i] = NULL; itBwd[i] = false;}}
   void Build()
   {
      tmpl = new TableT;
      if ((P > 0)||(slack > 0)) (void) tmpl->EnsureSize(P+slack, true);
      for (uint32 i=0; i<P; i++) (void) tmpl->Put(MkK(((int) i)-((int) P)), MkV(((int) i)-((int) P)));
   }
   void Drop() {for (int i=0; i<MAXIT; i++) {delete it[i]; it[i] = NULL; itBwd[i] = false; plKey[i] = 0;} delete tab[0]; delete tab[1]; tab[0] = tab[1] = NULL;}
   void Reset() {Drop(); tab[0] = new TableT(*tmpl); tab[1] = new TableT; blk[0] = (P > 0); blk[1] = false; err.clear(); autoOn = true;}
   uint32 P0() const {return blk[0] ? P : 0;}

   // may this call be made in the present block situation?
   bool Applicable(int op, long a, long b, long) const
   {
      const bool B0 = blk[0], B1 = blk[1];
      switch(op) {
         case O_PutAtFront: case O_GetAndMoveToFront: case O_MoveToFront: case O_RemoveFirst: case O_GetFirstKey: return !B0;
         case O_PutAtPosition: case O_MoveToPosition: return !(B0 && (b == 0));
         case O_ItRet: case O_ItFlip: return !(B0 || B1);
         case O_Clear: case O_Destroy: case O_AssignFrom: return !B0;
         case O_Self: return !((a == 3) && B0);
         case O_AssignTo: return !B1;
         case O_PutAll: return !(B1 && !B0);
         case O_RemoveAll: return !(B0 && B1);
         case O_Intersect: return !(B0 && !B1);
         case O_IsEqualTo: return B0 == B1;
         default: (void) a; return true; }
   }

   static long Neg0(long k) {return (k < 0) ? 0 : k;}
   static uint32 JunkFlags(long slot) {return (slot == 2) ? 0xFFFFFFFCu : 0u;}     // the flags parameter is a bit chord: iterators in slot 2 get every undefined bit set

   // Aliasing arguments: a key argument becomes a reference to the table's own key object of that entry (GetKey) or to the key an iterator is
   // showing (iter.GetKey(): table storage or the iterator's scratch copy); a value argument a reference to the stored value of some entry
   // that holds that value.  Which one, if any, is decided by a counter so that runs are reproducible.
   bool Dice(uint32 n) {calls = calls*1664525u+1013904223u; return (alias != 0)&&(((calls>>16)%n) != 0);}
   const KT & KeyArg(TableT & t, const KT & own)
   {
      if (!Dice(3)) return own;
      if (Dice(2)) for (int i=0; i<MAXIT; i++) if ((it[i])&&(it[i]->HasData())&&(it[i]->GetKey() == own)) return it[i]->GetKey();
      const KT * k = t.GetKey(own); return k ? *k : own;
   }
   const VT & ValArg(TableT & t, const VT & own)
   {
      if (!Dice(3)) return own;
      if (Dice(2)) for (int i=0; i<MAXIT; i++) if ((it[i])&&(it[i]->HasData())&&(it[i]->GetValue() == own)) return it[i]->GetValue();
      const KT * k = t.GetFirstKeyWithValue(own); const VT * v = k ? t.Get(*k) : NULL; return v ? *v : own;
   }

   long Exec(int op, long a, long b, long c)
   {
      TableT & t = *tab[0]; TableT & o = *tab[1]; const long p0 = (long) P0();
      const KT ownA = MkK(RK(a)), ownB = MkK(RK(b)); const VT ownVb = MkV((int) b), ownVc = MkV((int) c), ownVa = MkV((int) a);
      const bool keyA = ((op <= O_MoveToPosition)&&(op != O_RemoveFirst)&&(op != O_RemoveLast))||(op == O_Reposition)||(op == O_MoveToTable)||(op == O_CopyToTable)||(op == O_Get)||(op == O_IndexOfKey)||(op == O_GetKeyBefore)||(op == O_GetKeyAfter);
      const KT & ka = keyA ? KeyArg(t, ownA) : ownA;
      switch(op) {
         case O_Put: return t.Put(ka, ValArg(t, ownVb)).IsOK() ? 1 : NA;
         case O_PutPrev: {VT prev = VT(); bool rep = false; if (t.Put(ka, ValArg(t, ownVb), prev, &rep).IsError()) return NA; return rep ? VI(prev) : 0;}
         case O_PutIfAbsent: {VT * v = t.PutIfNotAlreadyPresent(ka, ValArg(t, ownVb)); return v ? ((VI(*v) == (int) b) ? 1 : NA) : 0;}
         case O_GetOrPut: {VT * v = t.GetOrPut(ka, ValArg(t, ownVb)); return v ? VI(*v) : NA;}
         case O_PutOrRemove: return t.PutOrRemove(ka, (b == 0) ? ownVb : ValArg(t, ownVb)).IsOK() ? 1 : NA;
         case O_PutAtFront: return t.PutAtFront(ka, ValArg(t, ownVb)).IsOK() ? 1 : NA;
         case O_PutAtBack: return t.PutAtBack(ka, ValArg(t, ownVb)).IsOK() ? 1 : NA;
         // (finding HputBeforeAlias, repaired: the reference key used to be read after the Put had reallocated the array; directed case: `ht directed putbefore-alias`)
         case O_PutBefore: return t.PutBefore(ka, KeyArg(t, ownB), ValArg(t, ownVc)).IsOK() ? 1 : NA;
         case O_PutBehind: return t.PutBehind(ka, KeyArg(t, ownB), ValArg(t, ownVc)).IsOK() ? 1 : NA;
         case O_PutAtPosition: return t.PutAtPosition(ka, IsBig(b) ? Big(b) : (uint32)(p0+b), ValArg(t, ownVc)).IsOK() ? 1 : NA;
         case O_GetAndMoveToFront: {VT v = VT(); const status_t r = t.GetAndMoveToFront(ka, v); return r.IsOK() ? VI(v) : ((r == B_DATA_NOT_FOUND) ? 0 : NA);}
         case O_GetAndMoveToBack:  {VT v = VT(); const status_t r = t.GetAndMoveToBack(ka, v);  return r.IsOK() ? VI(v) : ((r == B_DATA_NOT_FOUND) ? 0 : NA);}
         case O_Remove: return St(t.Remove(ka));
         case O_RemoveGet: {VT v = VT(); const status_t r = t.Remove(ka, v); return r.IsOK() ? VI(v) : ((r == B_DATA_NOT_FOUND) ? 0 : NA);}
         case O_RemoveFirst: {KT k = KT(); const status_t r = t.RemoveFirst(k); return r.IsOK() ? MK(KI(k)) : ((r == B_DATA_NOT_FOUND) ? 0 : NA);}
         case O_RemoveLast: {if ((blk[0])&&(t.GetNumItems() == P)) return 0; KT k = KT(); const status_t r = t.RemoveLast(k); return r.IsOK() ? MK(KI(k)) : ((r == B_DATA_NOT_FOUND) ? 0 : NA);}
         case O_MoveToFront: return St(t.MoveToFront(ka));
         case O_MoveToBack: return St(t.MoveToBack(ka));
         case O_MoveToBefore: return St(t.MoveToBefore(ka, KeyArg(t, ownB)));
         case O_MoveToBehind: return St(t.MoveToBehind(ka, KeyArg(t, ownB)));
         case O_MoveToPosition: return St(t.MoveToPosition(ka, IsBig(b) ? Big(b) : (uint32)(p0+b)));
         case O_SortByKey: t.SortByKey(); return 0;
         case O_SortByValue: t.SortByValue(); return 0;
         case O_SortSelf: t.Sort(); return 0;
         case O_Reposition: return St(DoReposition(t, ka));
         case O_Swap: t.SwapContents(o); std::swap(blk[0], blk[1]); return 0;
         case O_Clear: t.Clear(); blk[0] = false; return 0;
         case O_Destroy: delete tab[0]; tab[0] = new TableT; blk[0] = false; autoOn = true; return 0;
         case O_SetAutoSort: DoSetAutoSort(t, a != 0, b != 0); autoOn = (a != 0); return 0;
         case O_AssignFrom: t = o; blk[0] = blk[1]; return 0;
         case O_AssignTo: o = t; blk[1] = blk[0]; return 0;
         case O_PutAll: return t.Put(o).IsOK() ? 1 : NA;
         case O_MoveToTable: {const VT * pv = t.Get(ownA); const int v0 = pv ? VI(*pv) : 0; bool onIt[MAXIT];
                              // only an iterator that shows the entry's value NOW can lose it to this call (one that already holds an emptied copy from an earlier MoveToTable keeps its bookkeeping)
                              for (int i=0; i<MAXIT; i++) onIt[i] = (v0 != 0)&&(it[i])&&(it[i]->HasData())&&(it[i]->GetKey() == ownA)&&(VI(it[i]->GetValue()) == v0);
                              const status_t r = t.MoveToTable(ka, o);
                              if (r.IsOK()) for (int i=0; i<MAXIT; i++) if ((onIt[i])&&(it[i]->HasData())&&(it[i]->GetKey() == ownA)&&(VI(it[i]->GetValue()) == 0)) {plKey[i] = KI(ownA); plVal[i] = v0; plundered++;}
                              return St(r);}
         case O_CopyToTable: return St(t.CopyToTable(ka, o));
         case O_Self: switch(a) {        // the table is its own argument
            case 0: t = *tab[0]; return 0;
            case 1: t.SwapContents(*tab[0]); return 0;
            case 2: return t.Put(*tab[0]).IsOK() ? 1 : NA;
            case 3: {const long r = ((long) t.Remove(*tab[0]))-p0; blk[0] = false; return r;}
            case 4: return (long) t.Intersect(*tab[0]);
            case 5: return t.IsEqualTo(*tab[0], b != 0) ? 1 : 0;
            default: return St(t.MoveToTable(KeyArg(t, ownB), *tab[0])); }
         case O_RemoveAll: return (long) t.Remove(o);
         case O_Intersect: return (long) t.Intersect(o);
         case O_EnsureSize: case O_ShrinkToFit: case O_EnsureCanPut: {
            if (IsBig(a)) {
               // a huge request: B_NO_ERROR (nothing allocated yet), B_OUT_OF_MEMORY or B_RESOURCE_LIMIT, contents untouched (compared by the caller); the capacity is put back
               if (!HUGE_ALLOC_OK) return 2;
               const uint32 before = t.GetNumAllocatedItemSlots();
               const status_t r = (op == O_EnsureSize) ? t.EnsureSize(Big(a), b != 0) : ((op == O_ShrinkToFit) ? t.ShrinkToFit(Big(a)) : t.EnsureCanPut(Big(a)));
               if (t.GetNumAllocatedItemSlots() != before) {if (r.IsError()) err = "a failed capacity request changed GetNumAllocatedItemSlots()"; (void) t.EnsureSize(before, true);}
               return ((r.IsOK())||(r == B_OUT_OF_MEMORY)||(r == B_RESOURCE_LIMIT)) ? 2 : NA;
            }
            if (op == O_EnsureSize) {const status_t r = t.EnsureSize((uint32)(p0+a), b != 0); if ((r.IsOK())&&(t.GetNumAllocatedItemSlots() < (uint32)(p0+a))) err = "EnsureSize(n) returned OK but fewer than n slots are allocated"; return r.IsOK() ? 1 : NA;}
            if (op == O_ShrinkToFit) {const status_t r = t.ShrinkToFit((uint32) a); if ((r.IsOK())&&(t.GetNumItems()+a > 0)&&(t.GetNumAllocatedItemSlots() != t.GetNumItems()+(uint32) a)) err = "ShrinkToFit(n) returned OK but slots != items+n"; return r.IsOK() ? 1 : NA;}
            const status_t r = t.EnsureCanPut((uint32) a); if ((r.IsOK())&&(t.GetNumAllocatedItemSlots() < t.GetNumItems()+(uint32) a)) err = "EnsureCanPut(n) returned OK but there is no room for n more"; return r.IsOK() ? 1 : NA;}
         case O_Get: {const VT * v = t.Get(ka); const long r = VI(t.GetWithDefault(ka)); if ((v != NULL) != t.ContainsKey(ka)) err = "Get / ContainsKey disagree"; if ((v)&&(VI(*v) != r)) err = "Get / GetWithDefault disagree"; return r;}
         case O_IndexOfKey: {const long r = t.IndexOfKey(ka); return (r >= 0) ? (r-p0) : r;}
         case O_IndexOfValue: {const long r = t.IndexOfValue(ValArg(t, ownVa), b != 0); return (r >= 0) ? (r-p0) : r;}
         case O_GetKeyAt: {const uint32 ix = IsBig(a) ? Big(a) : (uint32)(p0+a); const KT * k = t.GetKeyAt(ix); KT k2 = KT(); const status_t r2 = t.GetKeyAt(ix, k2);
                           if (((k != NULL) != t.IsIndexValid(ix))||((k != NULL) != r2.IsOK())||((k)&&(*k != k2))||((k)&&(t.GetKeyAtWithDefault(ix) != *k))||((!k)&&(r2 != B_BAD_ARGUMENT))) err = "GetKeyAt / GetKeyAt(retKey) / IsIndexValid / GetKeyAtWithDefault disagree";
                           return k ? MK(KI(*k)) : 0;}
         case O_GetValueAt: {const uint32 ix = IsBig(a) ? Big(a) : (uint32)(p0+a); const VT * v = t.GetValueAt(ix); if ((v != NULL) != t.IsIndexValid(ix)) err = "GetValueAt / IsIndexValid disagree"; if (VI(t.GetValueAtWithDefault(ix, VT())) != (v ? VI(*v) : 0)) err = "GetValueAt / GetValueAtWithDefault disagree"; return v ? VI(*v) : 0;}
         case O_GetFirstKey: {const KT * k = t.GetFirstKey(); return k ? MK(KI(*k)) : 0;}
         case O_GetLastKey: {const KT * k = t.GetLastKey(); return k ? MK((int) Neg0(KI(*k))) : 0;}
         case O_GetKeyBefore: {const KT * k = t.GetKeyBefore(ka); return k ? MK((int) Neg0(KI(*k))) : 0;}
         case O_GetKeyAfter: {const KT * k = t.GetKeyAfter(ka); return k ? MK(KI(*k)) : 0;}
         case O_ContainsValue: return t.ContainsValue(ValArg(t, ownVa)) ? 1 : 0;
         case O_NumItems: return ((long) t.GetNumItems())-p0;
         case O_IsEqualTo: return t.IsEqualTo(o, a != 0) ? 1 : 0;
         case O_ItNew: {It * n = new It(t, ((b != 0) ? HTIT_FLAG_BACKWARDS : 0)|JunkFlags(a)); it[a-1] = n; itBwd[a-1] = (b != 0);
                        if ((b == 0)&&(blk[0])) for (uint32 i=0; i<P; i++) {if ((!n->HasData())||(KI(n->GetKey()) != ((int) i)-((int) P))) {err = "forward iterator does not walk the prefill block in order"; break;} (*n)++;}
                        return 0;}
         case O_ItNewAt: it[a-1] = new It(t, KeyArg(t, ownB), ((c != 0) ? HTIT_FLAG_BACKWARDS : 0)|JunkFlags(a)); itBwd[a-1] = (c != 0); return 0;
         case O_ItAdv: (*it[a-1])++; plKey[a-1] = 0; return 0;
         case O_ItRet: (*it[a-1])--; itBwd[a-1] = true; plKey[a-1] = 0; return 0;
         case O_ItFlip: it[a-1]->SetBackwards(!it[a-1]->IsBackwards()); itBwd[a-1] = true; return 0;
         case O_ItDel: delete it[a-1]; it[a-1] = NULL; itBwd[a-1] = false; plKey[a-1] = 0; return 0;
         case O_ItCopy: it[b-1] = new It(*it[a-1]); itBwd[b-1] = itBwd[a-1]; plKey[b-1] = plKey[a-1]; plVal[b-1] = plVal[a-1]; return 0;
      }
      return NA;
   }

   // full contents of table n in forward order, cross-checked against the backward order and the item count; the prefill block is verified
   // and stripped (completely when `full`, otherwise only its last entry is looked at: 65533 entries after every step would be too slow)
   bool Observe(int n, KV & out, bool full)
   {
      out.clear(); TableT & t = *tab[n]; const bool B = blk[n]; char buf[200];
      if (t.GetNumAllocatedItemSlots() < t.GetNumItems()) {err = "GetNumAllocatedItemSlots() < GetNumItems()"; return false;}
      It f;
      if ((B)&&(!full)) {f = It(t, MkK(-1), HTIT_FLAG_NOREGISTER); if ((!f.HasData())||(KI(f.GetKey()) != -1)||(VI(f.GetValue()) != -1)) {err = "last entry of the prefill block not found"; return false;} f++;}
      else {
         f = It(t, HTIT_FLAG_NOREGISTER);
         if (B) for (uint32 i=0; i<P; i++) {if ((!f.HasData())||(KI(f.GetKey()) != ((int) i)-((int) P))||(VI(f.GetValue()) != KI(f.GetKey()))) {snprintf(buf, sizeof(buf), "prefill block damaged at its entry %u (forward)", i); err = buf; return false;} f++;}
      }
      for (; f.HasData(); f++) {if (out.size() > 1000) {err = "forward iteration does not end"; return false;} out.push_back(std::make_pair((int) MK(KI(f.GetKey())), VI(f.GetValue())));}
      if (t.GetNumItems() != out.size()+(B ? P : 0)) {snprintf(buf, sizeof(buf), "GetNumItems() = %u but forward iteration finds %zu", t.GetNumItems(), out.size()+(B ? P : 0)); err = buf; return false;}
      size_t i = out.size();
      It r(t, HTIT_FLAG_NOREGISTER|HTIT_FLAG_BACKWARDS);
      for (; (r.HasData())&&(i > 0); r++) {i--; if ((MK(KI(r.GetKey())) != out[i].first)||(VI(r.GetValue()) != out[i].second)) {snprintf(buf, sizeof(buf), "backward iteration differs from forward iteration at index %zu (%ld vs %d)", i, MK(KI(r.GetKey())), out[i].first); err = buf; return false;}}
      if (i > 0) {err = "backward iteration ends early"; return false;}
      if (B) {
         const uint32 lim = full ? P : 1;
         for (uint32 j=0; j<lim; j++) {if ((!r.HasData())||(KI(r.GetKey()) != -1-(int) j)) {snprintf(buf, sizeof(buf), "prefill block damaged at its entry %u from the end (backward)", j); err = buf; return false;} r++;}
         if ((full)&&(r.HasData())) {err = "backward iteration does not end at the head"; return false;}
      }
      else if (r.HasData()) {err = "backward iteration longer than forward iteration"; return false;}
      for (size_t k=0; k<out.size(); k++) if (out[k].first < 0) {err = "an entry of the prefill block appears among the entries of the model"; return false;}
      return true;
   }
   ItObs See(int i) const
   {
      ItObs o; if (it[i] == NULL) return o;
      if (!it[i]->HasData()) {o.h = 0; return o;}
      o.h = 1; o.k = (int) MK(KI(it[i]->GetKey())); o.v = VI(it[i]->GetValue());
      if ((plKey[i] != 0)&&(KI(it[i]->GetKey()) == plKey[i])&&(o.v == 0)) o.v = plVal[i];
      if ((o.k < 0)&&(itBwd[i])) {o.h = 0; o.k = o.v = 0;}   // parked inside the prefill block = past the head of the model's table
      return o;
   }
};

// ------------------------------------------------------------------------------------------------------
// helpers on expected contents
static bool HasKey(const KV & t, int k) {for (size_t i=0; i<t.size(); i++) if (t[i].first == k) return true; return false;}
static bool HasPair(const KV & t, int k, int v) {for (size_t i=0; i<t.size(); i++) if ((t[i].first == k)&&(t[i].second == v)) return true; return false;}
static bool Reordered(const KV & a, const KV & b)
{
   std::vector<int> x, y;
   for (size_t i=0; i<a.size(); i++) if (HasKey(b, a[i].first)) x.push_back(a[i].first);
   for (size_t i=0; i<b.size(); i++) if (HasKey(a, b[i].first)) y.push_back(b[i].first);
   return x != y;
}
static KV Without(const KV & t, int k) {KV r; for (size_t i=0; i<t.size(); i++) if (t[i].first != k) r.push_back(t[i]); return r;}
static KV ToKV(const mj::Value & k, const mj::Value & v) {KV r; for (size_t i=0; i<k.size(); i++) r.push_back(std::make_pair((int) k[i].i(), (int) v[i].i())); return r;}
static std::string KVStr(const KV & t) {std::string s = "["; char b[40]; for (size_t i=0; i<t.size(); i++) {snprintf(b, sizeof(b), "%s%d:%d", i ? " " : "", t[i].first, t[i].second); s += b;} return s+"]";}
static mj::Value KeysJ(const KV & t, bool vals) {mj::Value a = mj::Value::Arr(); for (size_t i=0; i<t.size(); i++) a.push(mj::Value::Int(vals ? t[i].second : t[i].first)); return a;}

// the iterator clauses of C09 evaluated on what a real iterator shows (property-level monitor of the replay)
struct ItMon {
   bool live, re, fin; std::set<int> seen, must; ItObs prev;
   ItMon() : live(false), re(false), fin(false) {}
};
// Clauses: (1) what an iterator shows is an entry of its table or the copy it kept of the entry it was on (for the calls that empty a
// table: or a copy of an entry that call removed); (2) ++ lands on an existing entry; (3) a traversal visits no entry twice and, when it
// ends, has visited every entry that was ahead of its start and present throughout - except the entries that a call relinked itself (a
// moved entry counts as a new one) and the traversals crossed by a call that changed the relative order of the OTHER entries (a sort).
struct Monitor {
   ItMon m[MAXIT]; int tab[MAXIT]; KV before[3];
   Monitor() {for (int i=0; i<MAXIT; i++) tab[i] = 0;}
   // after[1], after[2]: contents of the two tables now; obs: what the iterators show now; mk: key of the entry the call (may have) relinked, 0 = none
   void Step(int op, long a, long b, long c, const KV * after, const ItObs * obs, int nIt, long mk, std::vector<std::string> & viol)
   {
      char buf[400];
      for (int i=0; i<nIt; i++) {
         const ItObs & real = obs[i]; ItMon & mm = m[i]; const int tb = tab[i];
         if (op < O_Get) {
            if ((mm.live)&&(tb != 0)) {
               const bool detach = (((op == O_Clear)||(op == O_Destroy)||(op == O_AssignFrom)||((op == O_Self)&&(a == 3)))&&(tb == 1))||((op == O_AssignTo)&&(tb == 2));
               const int tc = (op == O_Swap) ? (3-tb) : tb;     // where the contents the iterator was registered with are now
               if (detach) {mm.must.clear(); mm.seen.clear(); tab[i] = 0;}
               else {
                  for (size_t k=0; k<before[tb].size(); k++) if ((!HasKey(after[tc], before[tb][k].first))||(before[tb][k].first == (int) mk)) {mm.must.erase(before[tb][k].first); mm.seen.erase(before[tb][k].first);}
                  if (Reordered(Without(before[tb], (int) mk), Without(after[tc], (int) mk))) mm.re = true;
                  tab[i] = tc;
               }
               if ((real.h == 0)&&(mm.prev.h == 1)&&(!mm.re)) {   // the traversal ended without a ++: nothing that is still ahead may be lost
                  for (std::set<int>::const_iterator q = mm.must.begin(); q != mm.must.end(); ++q) if (!mm.seen.count(*q)) {snprintf(buf, sizeof(buf), "%s(%ld,%ld,%ld) ended the traversal of iterator %d (no reordering crossed it) before it visited key %d, which was present throughout", OPN[op], a, b, c, i+1, *q); viol.push_back(buf); break;}
               }
               if ((real.h == 1)&&(!(real == mm.prev))&&(!HasPair(after[tc], real.k, real.v))&&(!HasPair(before[tb], real.k, real.v))) {
                  snprintf(buf, sizeof(buf), "after %s(%ld,%ld,%ld) iterator %d shows (%d,%d): neither an entry of its table nor the copy of the entry it was on", OPN[op], a, b, c, i+1, real.k, real.v); viol.push_back(buf);}
            }
            else if ((mm.live)&&(real.h == 1)&&(!(real == mm.prev))) {snprintf(buf, sizeof(buf), "after %s(%ld,%ld,%ld) iterator %d, which is registered with no table, changed to (%d,%d)", OPN[op], a, b, c, i+1, real.k, real.v); viol.push_back(buf);}
         }
         else if ((op >= O_ItNew)&&((int) a == i+1)&&(op != O_ItCopy)) {
            if ((op == O_ItNew)||(op == O_ItNewAt)) {
               mm = ItMon(); mm.live = true; tab[i] = (real.h == 1) ? 1 : 0; const int d = (int)((op == O_ItNew) ? b : c);
               if (real.h == 1) {size_t at = 0; while ((at < after[1].size())&&(after[1][at].first != real.k)) at++; for (size_t k=0; k<after[1].size(); k++) if ((d == 0) ? (k >= at) : (k <= at)) mm.must.insert(after[1][k].first);}
            }
            if (op == O_ItDel) {mm = ItMon(); tab[i] = 0;}
            if ((op == O_ItRet)||(op == O_ItFlip)) mm.re = true;
            if ((op == O_ItNew)||(op == O_ItNewAt)||(op == O_ItAdv)) {
               if (real.h == 1) {
                  if ((!HasPair(after[1], real.k, real.v))&&(!HasPair(after[2], real.k, real.v))) {snprintf(buf, sizeof(buf), "%s: iterator %d landed on (%d,%d), which is not an entry of a table", OPN[op], i+1, real.k, real.v); viol.push_back(buf);}
                  else if (!mm.re) {
                     if (mm.seen.count(real.k)) {snprintf(buf, sizeof(buf), "iterator %d visits the entry with key %d twice in a traversal that no reordering crossed", i+1, real.k); viol.push_back(buf);}
                     mm.seen.insert(real.k);
                  }
               }
               else if ((real.h == 0)&&(!mm.re)) {
                  mm.fin = true;
                  for (std::set<int>::const_iterator q = mm.must.begin(); q != mm.must.end(); ++q) if (!mm.seen.count(*q)) {snprintf(buf, sizeof(buf), "iterator %d finished its traversal (no reordering crossed it) without visiting key %d, which was present throughout", i+1, *q); viol.push_back(buf); break;}
               }
            }
         }
         else if ((op == O_ItCopy)&&((int) b == i+1)) {mm = m[a-1]; tab[i] = tab[a-1];}
         mm.prev = real; if (real.h < 0) mm.live = false;
      }
      before[1] = after[1]; before[2] = after[2];
   }
};

template<class TableT, class HashF> static int Replay(const char * inFile, const char * outFile, uint32 P, uint32 slack, const char * progressFile)
{
   FILE * in = fopen(inFile, "r"); FILE * out = fopen(outFile, "w");
   if ((!in)||(!out)) {fprintf(stderr, "cannot open files\n"); return 2;}
   Rig<TableT,HashF> R(P, slack); R.Build();
   std::string line; long nb = 0, followed = 0, cut = 0, drifted = 0, violated = 0, steps = 0, itChecks = 0, maxSlots = 0, minSlots = 1<<30; long opCount[NUM_OPS]; memset(opCount, 0, sizeof(opCount));
   while (mj::ReadLine(in, line)) {
      mj::Value beh; if (!mj::Parse(line, beh)) {fprintf(stderr, "bad json\n"); return 2;}
      const mj::Value & st = beh["steps"]; nb++;
      if (progressFile) {FILE * pf = fopen(progressFile, "w"); if (pf) {fprintf(pf, "%lld\n", (long long) beh["id"].i()); fclose(pf);}}
      R.Reset();
      KV after[3]; Monitor mon;
      std::vector<std::string> viol; std::string drift; size_t failStep = 0; bool stop = false, wasCut = false;
      for (size_t si=0; (si<st.size())&&(!stop); si++) {
         const mj::Value & s = st[si]; const int op = OpByName(s["op"].str());
         if (op < 0) continue;   // "-" records of the two-phase generation specification
         const long a = (long) s["a"].i(), b = (long) s["b"].i(), c = (long) s["c"].i();
         if (!R.Applicable(op, a, b, c)) {wasCut = true; break;}
         steps++; opCount[op]++; failStep = si; char buf[400];
         const long res = R.Exec(op, a, b, c);
         if (!R.err.empty()) {viol.push_back(R.err); stop = true; break;}
         if (res != (long) s["res"].i()) {snprintf(buf, sizeof(buf), "%s(%ld,%ld,%ld) returned %ld, documented result %ld", OPN[op], a, b, c, res, (long) s["res"].i()); viol.push_back(buf); stop = true; break;}
         const bool full = (P <= 1000)||(si+1 == st.size());
         KV got[3];
         if ((!R.Observe(0, got[1], full))||(!R.Observe(1, got[2], full))) {viol.push_back(std::string(OPN[op])+": "+R.err); stop = true; break;}
         after[1] = ToKV(s["keys"], s["vals"]); after[2] = ToKV(s["okeys"], s["ovals"]);
         for (int n=1; n<=2; n++) if (got[n] != after[n]) {snprintf(buf, sizeof(buf), "after %s(%ld,%ld,%ld) %s table holds %s, ordered map holds %s", OPN[op], a, b, c, (n == 1) ? "the" : "the other", KVStr(got[n]).c_str(), KVStr(after[n]).c_str()); viol.push_back(buf); stop = true;}
         if (stop) break;
         {const long sl = (long) R.tab[0]->GetNumAllocatedItemSlots(); if (sl > maxSlots) maxSlots = sl; if (sl < minSlots) minSlots = sl;}
         // iterators: property monitor first, exact comparison with the specification second
         const mj::Value & eit = s["it"]; const bool mv = s["mv"].truthy(); bool exact = true; std::string exactMsg;
         const int nIt = (int) muscleMin((size_t) MAXIT, eit.size()); ItObs obs[MAXIT];
         for (int i=0; i<nIt; i++) obs[i] = R.See(i);
         mon.Step(op, a, b, c, after, obs, nIt, mv ? a : 0, viol); itChecks += nIt;
         for (int i=0; i<nIt; i++) {
            ItObs exp; exp.h = (int) eit[i]["h"].i(); exp.k = (int) eit[i]["k"].i(); exp.v = (int) eit[i]["v"].i();
            if ((!(obs[i] == exp))&&(exactMsg.empty())) {exact = false; snprintf(buf, sizeof(buf), "after %s(%ld,%ld,%ld) iterator %d shows (has=%d key=%d value=%d), specification expects (has=%d key=%d value=%d)", OPN[op], a, b, c, i+1, obs[i].h, obs[i].k, obs[i].v, exp.h, exp.k, exp.v); exactMsg = buf;}
         }
         if (!viol.empty()) {if (!exact) viol.push_back(exactMsg); stop = true;}
         else if (!exact) {drift = exactMsg; stop = true;}
      }
      if (!viol.empty()) violated++; else if (!drift.empty()) drifted++; else if (wasCut) cut++; else followed++;
      if ((!viol.empty())||(!drift.empty())) {
         mj::Value rec = mj::Value::Obj(); rec.set("behaviour", mj::Value::Int(beh["id"].i())).set("step", mj::Value::Int((int64_t) failStep)).set("prefill", mj::Value::Int(P)).set("slack", mj::Value::Int(slack));
         if (!viol.empty()) {mj::Value va = mj::Value::Arr(); for (size_t k=0; k<viol.size(); k++) va.push(mj::Value::Str(viol[k])); rec.set("violations", va);}
         else rec.set("drift", mj::Value::Str(drift));
         if (violated+drifted <= 20) {mj::Value sa = mj::Value::Arr(); for (size_t k=0; (k<=failStep)&&(k<st.size()); k++) if (OpByName(st[k]["op"].str()) >= 0) sa.push(st[k]); rec.set("steps", sa); fprintf(out, "%s\n", mj::ToString(rec).c_str()); fflush(out);}
         R.Drop(); R.Reset();   // the table may be damaged: start from fresh objects (Reset() is called again anyway)
      }
   }
   R.Drop();
   int distinctOps = 0; for (int i=0; i<NUM_OPS; i++) if (opCount[i] > 0) distinctOps++;
   mj::Value sum = mj::Value::Obj();
   sum.set("summary", mj::Value::Bool(true)).set("behaviours", mj::Value::Int(nb)).set("followed", mj::Value::Int(followed)).set("cut_not_applicable", mj::Value::Int(cut)).set("drifted", mj::Value::Int(drifted))
      .set("violated", mj::Value::Int(violated)).set("steps", mj::Value::Int(steps)).set("iterator_checks", mj::Value::Int(itChecks)).set("distinct_calls", mj::Value::Int(distinctOps))
      .set("prefill", mj::Value::Int(P)).set("slack", mj::Value::Int(slack)).set("min_slots", mj::Value::Int(minSlots)).set("max_slots", mj::Value::Int(maxSlots)).set("iterator_copies_with_moved_out_value", mj::Value::Int(R.plundered));
   fprintf(out, "%s\n", mj::ToString(sum).c_str()); fclose(out); fclose(in);
   printf("%s\n", mj::ToString(sum).c_str());
   return 0;
}

// ------------------------------------------------------------------------------------------------------
// may this call unlink and relink an entry (a reordering operation in the sense of the property)?  Conservative, by kind of call.
static bool RelinkKind(int op, bool sorted)
{
   if (((op >= O_PutAtFront)&&(op <= O_GetAndMoveToBack))||((op >= O_MoveToFront)&&(op <= O_MoveToPosition))||(op == O_Reposition)) return true;
   return (sorted)&&((op <= O_PutOrRemove)||(op == O_MoveToTable)||(op == O_CopyToTable));     // the sorting classes reposition the entry that is put
}

static const int PLAIN_OPS[] = {O_Put, O_Put, O_Put, O_PutPrev, O_PutIfAbsent, O_GetOrPut, O_PutOrRemove, O_PutAtFront, O_PutAtBack, O_PutBefore, O_PutBehind, O_PutAtPosition,
      O_GetAndMoveToFront, O_GetAndMoveToBack, O_Remove, O_Remove, O_RemoveGet, O_RemoveFirst, O_RemoveLast, O_MoveToFront, O_MoveToBack, O_MoveToBefore, O_MoveToBehind, O_MoveToPosition,
      O_SortByKey, O_SortByValue, O_SortSelf, O_Swap, O_Clear, O_Destroy, O_AssignFrom, O_AssignTo, O_PutAll, O_MoveToTable, O_RemoveAll, O_Intersect, O_EnsureSize, O_ShrinkToFit, O_EnsureCanPut, O_CopyToTable, O_Self,
      O_Get, O_IndexOfKey, O_IndexOfValue, O_GetKeyAt, O_GetValueAt, O_GetFirstKey, O_GetLastKey, O_GetKeyBefore, O_GetKeyAfter, O_ContainsValue, O_NumItems, O_IsEqualTo,
      O_ItNew, O_ItNew, O_ItNewAt, O_ItAdv, O_ItAdv, O_ItAdv, O_ItAdv, O_ItRet, O_ItFlip, O_ItDel, O_ItCopy};
static const int SORTED_OPS[] = {O_Put, O_Put, O_Put, O_Put, O_PutPrev, O_PutIfAbsent, O_GetOrPut, O_PutOrRemove, O_Remove, O_Remove, O_RemoveGet, O_RemoveFirst, O_RemoveLast,
      O_SortSelf, O_Reposition, O_Swap, O_Clear, O_Destroy, O_AssignFrom, O_AssignTo, O_PutAll, O_MoveToTable, O_RemoveAll, O_Intersect, O_EnsureSize, O_EnsureSize, O_ShrinkToFit, O_ShrinkToFit,
      O_EnsureCanPut, O_CopyToTable, O_Self, O_SetAutoSort, O_SetAutoSort, O_MoveToFront, O_MoveToBack, O_MoveToBefore, O_MoveToBehind, O_MoveToPosition, O_PutAtFront,
      O_Get, O_IndexOfKey, O_IndexOfValue, O_GetKeyAt, O_GetValueAt, O_GetFirstKey, O_GetLastKey, O_GetKeyBefore, O_GetKeyAfter, O_ContainsValue, O_NumItems, O_IsEqualTo,
      O_ItNew, O_ItNew, O_ItNewAt, O_ItAdv, O_ItAdv, O_ItAdv, O_ItAdv, O_ItRet, O_ItFlip, O_ItDel, O_ItCopy};

// is t, without the entry `skip`, sorted by key / by value?
static bool IsSortedKV(const KV & t, bool byValue, int skip)
{
   bool have = false; int last = 0;
   for (size_t i=0; i<t.size(); i++) {if (t[i].first == skip) continue; const int x = byValue ? t[i].second : t[i].first; if ((have)&&(x < last)) return false; last = x; have = true;}
   return true;
}

template<class TableT, class HashF> static int Random(const char * outFile, const char * traceFile, uint32 seed, uint32 runs, uint32 nops, bool sorted, bool byValue, uint32 P, uint32 slack, int K, int V, int nIt)
{
   FILE * out = fopen(outFile, "w"); FILE * tf = fopen(traceFile, "w");
   if ((!tf)||(!out)) {fprintf(stderr, "cannot open files\n"); return 2;}
   Rig<TableT,HashF> R(P, slack); R.Build();
   const int * OPS = sorted ? SORTED_OPS : PLAIN_OPS; const uint32 NOPS = (uint32)(sorted ? (sizeof(SORTED_OPS)/sizeof(int)) : (sizeof(PLAIN_OPS)/sizeof(int)));
   long calls = 0, violated = 0, lines = 0, maxItems = 0, maxSlots = 0, minSlots = 1<<30, itLive = 0; long opCount[NUM_OPS]; memset(opCount, 0, sizeof(opCount));
   for (uint32 run=0; run<runs; run++) {
      std::mt19937 gen(seed*1000003u+run*7919u+17u);
      R.Reset(); fprintf(tf, "{\"op\":\"Reset\"}\n"); lines++;
      Monitor mon; bool monOn = true; KV cur1;     // cur1: contents of the table under test (without the prefill block)
      // each run has its own temperament: how much it likes to grow / shrink / iterate
      const uint32 growBias = gen()%3;
      for (uint32 n=0; n<nops; n++) {
         int op = -1; long a = 0, b = 0, c = 0;
         for (int tries=0; tries<50; tries++) {
            op = OPS[gen()%NOPS]; a = b = c = 0;
            if ((growBias == 0)&&((op == O_Remove)||(op == O_Clear)||(op == O_Destroy))&&(gen()%2)) continue;
            const long k1 = 1+(long)(gen()%K), k2 = 1+(long)(gen()%K), v = 1+(long)(gen()%V), pos = (long)(gen()%(K+1)), bit = (long)(gen()%2), slot = 1+(long)(gen()%nIt);
            switch(op) {
               case O_Put: case O_PutPrev: case O_PutIfAbsent: case O_GetOrPut: case O_PutAtFront: case O_PutAtBack: a = k1; b = v; break;
               case O_PutOrRemove: a = k1; b = (gen()%3 == 0) ? 0 : v; break;
               case O_PutBefore: case O_PutBehind: a = k1; b = k2; c = v; break;
               case O_PutAtPosition: a = k1; b = (gen()%5 == 0) ? -1-(long)(gen()%4) : pos; c = v; break;
               case O_GetAndMoveToFront: case O_GetAndMoveToBack: case O_Remove: case O_RemoveGet: case O_MoveToFront: case O_MoveToBack: case O_MoveToTable: case O_CopyToTable: case O_Reposition:
               case O_Get: case O_IndexOfKey: case O_GetKeyBefore: case O_GetKeyAfter: a = k1; break;
               case O_MoveToBefore: case O_MoveToBehind: a = k1; b = k2; break;
               case O_MoveToPosition: a = k1; b = (gen()%5 == 0) ? -1-(long)(gen()%4) : pos; break;
               case O_EnsureSize: a = (gen()%5 == 0) ? -1-(long)(gen()%4) : (long)(gen()%(K+2)); b = bit; break;
               case O_EnsureCanPut: a = (gen()%4 == 0) ? -1-(long)(gen()%4) : (long)(gen()%3); break;
               case O_SetAutoSort: a = bit; b = (long)(gen()%2); break;
               case O_Self: a = (long)(gen()%7); b = (a == 6) ? k2 : bit; break;
               case O_ShrinkToFit: a = (gen()%5 == 0) ? -1-(long)(gen()%4) : bit; break;
               case O_IndexOfValue: a = v; b = bit; break;
               case O_GetKeyAt: case O_GetValueAt: a = (gen()%4 == 0) ? -1-(long)(gen()%4) : pos; break;
               case O_ContainsValue: a = v; break;
               case O_IsEqualTo: a = bit; break;
               case O_ItNew: a = slot; b = bit; break;
               case O_ItNewAt: a = slot; b = k1; c = bit; break;
               case O_ItAdv: case O_ItRet: case O_ItFlip: case O_ItDel: a = slot; break;
               case O_ItCopy: a = slot; b = 1+(long)(gen()%nIt); break;
               default: break; }
            bool ok = R.Applicable(op, a, b, c);
            if ((sorted)&&(ok)) {
               // calls whose outcome the header leaves open while the table is not auto-sorting / not sorted are not made (see MapAbs: PutSet, Tight)
               const bool exists = HasKey(cur1, (int) a); const bool sortedNow = IsSortedKV(cur1, byValue, -1), restSorted = IsSortedKV(cur1, byValue, (int) a);
               switch(op) {
                  case O_Put: case O_PutPrev: case O_PutAtFront: ok = R.autoOn ? (exists ? restSorted : sortedNow) : (!exists); break;
                  case O_PutOrRemove: ok = (b == 0) || (R.autoOn ? (exists ? restSorted : sortedNow) : (!exists)); break;
                  case O_PutIfAbsent: case O_GetOrPut: ok = exists || (R.autoOn ? sortedNow : true); break;
                  case O_Reposition: ok = (!exists) || restSorted; break;
                  case O_Swap: case O_AssignTo: case O_PutAll: ok = R.autoOn && sortedNow; break;
                  default: break; }
            }
            if ((op == O_ItNew)||(op == O_ItNewAt)) ok = ok && (R.it[a-1] == NULL);
            if ((op == O_ItAdv)||(op == O_ItRet)||(op == O_ItFlip)||(op == O_ItDel)) ok = ok && (R.it[a-1] != NULL);
            if (op == O_ItCopy) ok = ok && (R.it[a-1] != NULL) && (R.it[b-1] == NULL);
            if ((op == O_ItDel)&&(gen()%3)) ok = false;      // keep iterators alive for a while
            if (ok) break;
            op = -1;
         }
         if (op < 0) continue;
         calls++; opCount[op]++;
         const long res = R.Exec(op, a, b, c);
         KV t1, t2; std::string bad = R.err;
         const bool full = (P <= 1000)||(n+1 == nops)||(n%64 == 0);
         if ((bad.empty())&&((!R.Observe(0, t1, full))||(!R.Observe(1, t2, full)))) bad = R.err;
         if (!bad.empty()) {
            violated++; char buf[200]; snprintf(buf, sizeof(buf), "run %u call %u %s(%ld,%ld,%ld): ", run, n, OPN[op], a, b, c);
            mj::Value rec = mj::Value::Obj(); rec.set("seed", mj::Value::Int(seed)).set("run", mj::Value::Int(run)).set("call", mj::Value::Int(n)); mj::Value va = mj::Value::Arr(); va.push(mj::Value::Str(std::string(buf)+bad)); rec.set("violations", va);
            if (violated <= 20) {fprintf(out, "%s\n", mj::ToString(rec).c_str()); fflush(out);}
            break;   // the rest of this run is not to be trusted
         }
         cur1 = t1;
         ItObs obs[MAXIT]; for (int i=0; i<nIt; i++) obs[i] = R.See(i);
         if (monOn) {
            KV aft[3]; aft[1] = t1; aft[2] = t2; std::vector<std::string> mviol;
            mon.Step(op, a, b, c, aft, obs, nIt, RelinkKind(op, sorted) ? a : 0, mviol);
            if (!mviol.empty()) {
               violated++; monOn = false; char buf[200]; snprintf(buf, sizeof(buf), "run %u call %u: ", run, n);
               mj::Value rec = mj::Value::Obj(); rec.set("seed", mj::Value::Int(seed)).set("run", mj::Value::Int(run)).set("call", mj::Value::Int(n)); mj::Value va = mj::Value::Arr(); va.push(mj::Value::Str(std::string(buf)+mviol[0])); rec.set("violations", va);
               if (violated <= 20) {fprintf(out, "%s\n", mj::ToString(rec).c_str()); fflush(out);}
            }
         }
         mj::Value ln = mj::Value::Obj();
         ln.set("op", mj::Value::Str(OPN[op])).set("a", mj::Value::Int(a)).set("b", mj::Value::Int(b)).set("c", mj::Value::Int(c)).set("res", mj::Value::Int(res))
           .set("keys", KeysJ(t1, false)).set("vals", KeysJ(t1, true)).set("okeys", KeysJ(t2, false)).set("ovals", KeysJ(t2, true));
         mj::Value ia = mj::Value::Arr();
         for (int i=0; i<nIt; i++) {const ItObs & o = obs[i]; mj::Value r = mj::Value::Obj(); r.set("h", mj::Value::Int(o.h)).set("k", mj::Value::Int((o.h == 1) ? o.k : 0)).set("v", mj::Value::Int((o.h == 1) ? o.v : 0)); ia.push(r); if (o.h >= 0) itLive++;}
         ln.set("it", ia); ln.set("run", mj::Value::Int(run)).set("n", mj::Value::Int(n));
         fprintf(tf, "%s\n", mj::ToString(ln).c_str()); lines++;
         if ((long) t1.size() > maxItems) maxItems = (long) t1.size();
         {const long sl = (long) R.tab[0]->GetNumAllocatedItemSlots(); if (sl > maxSlots) maxSlots = sl; if (sl < minSlots) minSlots = sl;}
      }
      R.Drop();
   }
   int distinctOps = 0; for (int i=0; i<NUM_OPS; i++) if (opCount[i] > 0) distinctOps++;
   mj::Value sum = mj::Value::Obj();
   sum.set("summary", mj::Value::Bool(true)).set("runs", mj::Value::Int(runs)).set("calls", mj::Value::Int(calls)).set("lines", mj::Value::Int(lines)).set("violated", mj::Value::Int(violated)).set("distinct_calls", mj::Value::Int(distinctOps))
      .set("max_items", mj::Value::Int(maxItems)).set("min_slots", mj::Value::Int(minSlots)).set("max_slots", mj::Value::Int(maxSlots)).set("live_iterator_observations", mj::Value::Int(itLive)).set("iterator_copies_with_moved_out_value", mj::Value::Int(R.plundered));
   fprintf(out, "%s\n", mj::ToString(sum).c_str()); fclose(out); fclose(tf);
   printf("%s\n", mj::ToString(sum).c_str());
   return 0;
}

// hash argument: 0 default functor, 1 all model keys in one bucket, 2 boundary hash codes (guard value, 0, ...), 3 distinct codes colliding modulo the
// table size; +4: real key = model key + 1621770656 (model key 2 becomes the int whose DEFAULT hash code is the guard value 0xFFFFFFFF)
template<class HashF> static int RunReplay(int cls, char ** argv, uint32 P, uint32 slack, const char * pf)
{
   switch(cls) {
      case 0: return Replay<Hashtable<KT,VT,HashF>, HashF>(argv[2], argv[3], P, slack, pf);
      case 1: return Replay<OrderedKeysHashtable<KT,VT,CompareFunctor<KT>,HashF>, HashF>(argv[2], argv[3], P, slack, pf);
      case 2: return Replay<OrderedValuesHashtable<KT,VT,CompareFunctor<VT>,HashF>, HashF>(argv[2], argv[3], P, slack, pf);
   }
   return 2;
}
template<class HashF> static int RunRandom(int cls, char ** argv, uint32 seed, uint32 runs, uint32 nops, uint32 P, uint32 slack, int K, int V, int nIt)
{
   switch(cls) {
      case 0: return Random<Hashtable<KT,VT,HashF>, HashF>(argv[2], argv[3], seed, runs, nops, false, false, P, slack, K, V, nIt);
      case 1: return Random<OrderedKeysHashtable<KT,VT,CompareFunctor<KT>,HashF>, HashF>(argv[2], argv[3], seed, runs, nops, true, false, P, slack, K, V, nIt);
      case 2: return Random<OrderedValuesHashtable<KT,VT,CompareFunctor<VT>,HashF>, HashF>(argv[2], argv[3], seed, runs, nops, true, true, P, slack, K, V, nIt);
   }
   return 2;
}

int main(int argc, char ** argv)
{
   CompleteSetupSystem css;
   if ((argc >= 3)&&(!strcmp(argv[1], "directed"))&&(!strcmp(argv[2], "putbefore-alias"))) {
      // known finding HputBeforeAlias: PutBefore / PutBehind read their reference key after the Put may have reallocated the array
      Hashtable<KT,VT,DefHash> t; for (int i=1; i<=7; i++) (void) t.Put(MkK(i), MkV(i*10));      // default capacity: full
      const KT & first = *t.GetFirstKey(); const KT nk = MkK(100); const VT nv = MkV(1000);
      const status_t r = ((argc > 3)&&(atoi(argv[3]) != 0)) ? t.PutBehind(nk, first, nv) : t.PutBefore(nk, first, nv);
      const int idx = t.IndexOfKey(nk), want = ((argc > 3)&&(atoi(argv[3]) != 0)) ? 1 : 0;
      printf("{\"directed\":\"putbefore-alias\",\"ok\":%s,\"index\":%d,\"documented_index\":%d}\n", r.IsOK() ? "true" : "false", idx, want);
      return ((r.IsOK())&&(idx == want)&&(t.GetNumItems() == 8)) ? 0 : 1;
   }
   if ((argc >= 7)&&(!strcmp(argv[1], "replay"))) {
      const int h = atoi(argv[4]); const uint32 P = (uint32) atol(argv[5]), slack = (uint32) atol(argv[6]); const char * pf = (argc > 7) ? argv[7] : NULL; const int cls = (argc > 8) ? atoi(argv[8]) : 0; g_alias = (argc > 9) ? (uint32) atol(argv[9]) : 0;
      if (h >= 4) KOFF = 1621770656;
      switch(h%4) {
         case 0: return RunReplay<DefHash>(cls, argv, P, slack, pf);
         case 1: return RunReplay<BadHash>(cls, argv, P, slack, pf);
         case 2: return RunReplay<EdgeHash>(cls, argv, P, slack, pf);
         case 3: return (cls == 0) ? RunReplay<ModHash>(0, argv, P, slack, pf) : 2;
      }
   }
   if ((argc >= 14)&&(!strcmp(argv[1], "random"))) {
      const uint32 seed = (uint32) atol(argv[4]), runs = (uint32) atol(argv[5]), nops = (uint32) atol(argv[6]); const int cls = atoi(argv[7]); const int h = atoi(argv[8]);
      const uint32 P = (uint32) atol(argv[9]), slack = (uint32) atol(argv[10]); const int K = atoi(argv[11]), V = atoi(argv[12]), nIt = muscleMin(atoi(argv[13]), MAXIT); g_alias = (argc > 14) ? (uint32) atol(argv[14]) : 0;
      if (h >= 4) KOFF = 1621770656;
      switch(h%4) {
         case 0: return RunRandom<DefHash>(cls, argv, seed, runs, nops, P, slack, K, V, nIt);
         case 1: return RunRandom<BadHash>(cls, argv, seed, runs, nops, P, slack, K, V, nIt);
         case 2: return RunRandom<EdgeHash>(cls, argv, seed, runs, nops, P, slack, K, V, nIt);
         case 3: return (cls == 0) ? RunRandom<ModHash>(0, argv, seed, runs, nops, P, slack, K, V, nIt) : 2;
      }
   }
   fprintf(stderr, "usage: ht replay <behaviours> <report> <hash> <prefill> <slack> [progress [class [alias]]] | ht random <report> <trace> <seed> <runs> <ops> <class> <hash> <prefill> <slack> <keys> <vals> <iterators> [alias]\n");
   return 2;
}
