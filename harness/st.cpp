// C17 conformance harness: the real muscle::String against spec/ByteString (ideal NUL-terminated byte string).
//   st replay  <behaviours.ndjson> <report.ndjson> [progress-file]
//        every line of the input is one behaviour of spec/ByteString/BSMachine.tla: {"id":n,"steps":[step records]}.  Each step
//        is one public call; after EVERY step the harness compares Length(), the Cstr() bytes including the terminating
//        NUL, strlen(), the second String, and the returned value with what the specification expects (fields es, et, ei,
//        estr; ds/di/dstr = 0 where the documentation does not determine the result: then only well-formedness is checked).
//        A result that equals the coded reading of a tolerated deviation (fid, ai, astr) is reported as "known".
//   st explore <runs> <steps> <seed> <trace-prefix> <shards> <report.ndjson> [firstRun]
//        seeded random call sequences with operands around the inline capacity (15 bytes + NUL), incl. operands that alias
//        the String itself (the object, its Cstr(), Cstr()+k); every call is logged (operation, arguments as byte lists,
//        result, contents as byte list) to <trace-prefix>.<shard>.ndjson for validation by TLC (BSTrace.tla).
// Both modes record the storage mode (inline / heap) before and after every call as coverage.
// Build variant: asan (UBSan's bounds check is off on purpose: the small buffer's last byte doubles as the free-bytes counter).
#include "util/String.h"
#include "util/Hashtable.h"
#include "system/SetupSystem.h"
#include "mjson.h"
#include <algorithm>
#include <map>
#include <string>
#include <vector>
using namespace muscle;

typedef std::vector<int> Bytes;

// ---- the operations: name, arguments used, kind ('M' mutates the String, 'S' returns a String, 'I' returns a number) -------------
// argument tokens: xL = x as const char * (a separate buffer, Cstr(), Cstr()+k)   xT = x as const String & (separate, itself, the second String)
//                  xR = raw bytes   yT = y as const String &   yS = y as separator C string   i j m c d f   T = table
struct OpDef {const char * name; const char * sig; char kind;};
static const OpDef OPS[] = {
   {"SetCstr","xL m",'M'}, {"AssignCstr","xL",'M'}, {"AssignStr","xT",'M'}, {"SetFromString","xT i j",'M'}, {"TSet","xR",'M'}, {"Swap","",'M'},
   {"AppendStr","xT",'M'}, {"AppendCstr","xL",'M'}, {"ShlStr","xT",'M'}, {"ShlCstr","xL",'M'}, {"AppendChar","c",'M'}, {"AppendChars","xL m",'M'},
   {"PrependChars","xL m",'M'}, {"InsertChars","xL i m",'M'}, {"ShlInt","i",'M'}, {"ShlBool","f",'M'}, {"PlusPlus","",'M'}, {"MinusMinus","",'M'},
   {"MinusStr","xT",'M'}, {"MinusCstr","xL",'M'}, {"MinusChar","c",'M'}, {"TruncateChars","i",'M'}, {"TruncateToLength","i",'M'}, {"Clear","",'M'},
   {"ClearAndFlush","",'M'}, {"Prealloc","i",'M'}, {"ShrinkToFit","i",'M'}, {"Reverse","",'M'}, {"SetCharAt","i c",'M'}, {"ReplaceChar","c d m i",'M'},
   {"ReplaceStr","xT yT m i",'M'}, {"ReplaceTable","T m",'M'}, {"UnflattenInPlace","xR",'M'},
   {"Copy","",'S'}, {"CopyPrealloc","i",'S'}, {"NewCstr","xL m",'S'}, {"NewSub","xT i j",'S'}, {"Substring1","i",'S'}, {"Substring2","i j",'S'},
   {"SubstringAfterStr","xT",'S'}, {"SubstringAfterCstr","xL",'S'}, {"SubstringUntilStr","xT i",'S'}, {"SubstringUntilCstr","xL i",'S'},
   {"WithAppendStr","xT m",'S'}, {"WithAppendCstr","xL m",'S'}, {"WithPrependStr","xT m",'S'}, {"WithPrependCstr","xL m",'S'},
   {"WithInsertStr","xT i m",'S'}, {"WithInsertCstr","xL i m",'S'}, {"WithAppendChar","c m",'S'}, {"WithPrependChar","c m",'S'}, {"WithInsertChar","c i m",'S'},
   {"WithAppendedWordStr","xT yS",'S'}, {"WithAppendedWordCstr","xL yS",'S'}, {"WithPrependedWordStr","xT yS",'S'}, {"WithInsertedWordStr","xT yS i",'S'},
   {"WithInsertedWordCstr","xL yS i",'S'}, {"PaddedBy","i f c",'S'}, {"ToLowerCase","",'S'}, {"ToUpperCase","",'S'}, {"ToMixedCase","",'S'}, {"Trimmed","",'S'},
   {"WithReplacementsChar","c d m i",'S'}, {"WithReplacementsStr","xT yT m i",'S'}, {"WithReplacementsTable","T m",'S'}, {"ArgStr","xT",'S'}, {"ArgCstr","xL",'S'},
   {"ArgInt","i",'S'}, {"WithoutNumericSuffix","",'S'}, {"WithSuffixStr","xT",'S'}, {"WithSuffixChar","c",'S'}, {"WithPrefixStr","xT",'S'}, {"WithPrefixChar","c",'S'},
   {"WithoutSuffixStr","xT m",'S'}, {"WithoutSuffixChar","c m",'S'}, {"WithoutPrefixStr","xT m",'S'}, {"WithoutPrefixChar","c m",'S'},
   {"WithoutSuffixICStr","xT m",'S'}, {"WithoutSuffixICChar","c m",'S'}, {"WithoutPrefixICStr","xT m",'S'}, {"WithoutPrefixICChar","c m",'S'},
   {"PlusStr","xT",'S'}, {"PlusCstr","xL",'S'}, {"CstrPlus","xL",'S'}, {"PlusChar","c",'S'}, {"CharPlus","c",'S'}, {"MinusOpStr","xT",'S'},
   {"Flatten","",'S'}, {"UnflattenTry","xR",'S'},
   {"IndexOfChar","c i",'I'}, {"IndexOfStr","xT i",'I'}, {"IndexOfCstr","xL i",'I'}, {"LastIndexOfChar","c i",'I'}, {"LastIndexOfStr","xT",'I'},
   {"LastIndexOfCstr","xL",'I'}, {"LastIndexOfStrFrom","xT i",'I'}, {"LastIndexOfCstrFrom","xL i",'I'}, {"IndexOfICChar","c i",'I'}, {"IndexOfICStr","xT i",'I'},
   {"IndexOfICCstr","xL i",'I'}, {"LastIndexOfICChar","c i",'I'}, {"LastIndexOfICStr","xT i",'I'}, {"LastIndexOfICCstr","xL i",'I'}, {"ContainsChar","c i",'I'},
   {"ContainsStr","xT i",'I'}, {"ContainsCstr","xL i",'I'}, {"ContainsICChar","c i",'I'}, {"ContainsICStr","xT i",'I'}, {"ContainsICCstr","xL i",'I'},
   {"StartsWithChar","c",'I'}, {"StartsWithStr","xT",'I'}, {"StartsWithCstr","xL",'I'}, {"EndsWithChar","c",'I'}, {"EndsWithStr","xT",'I'}, {"EndsWithCstr","xL",'I'},
   {"StartsWithICChar","c",'I'}, {"StartsWithICStr","xT",'I'}, {"StartsWithICCstr","xL",'I'}, {"EndsWithICChar","c",'I'}, {"EndsWithICStr","xT",'I'},
   {"EndsWithICCstr","xL",'I'}, {"NumInstancesChar","c i",'I'}, {"NumInstancesStr","xT i",'I'}, {"NumInstancesCstr","xL i",'I'}, {"CharAt","i",'I'}, {"Length","",'I'},
   {"EqStr","xT",'I'}, {"EqCstr","xL",'I'}, {"NeStr","xT",'I'}, {"NeCstr","xL",'I'}, {"EqChar","c",'I'}, {"LtStr","xT",'I'}, {"LtCstr","xL",'I'}, {"GtStr","xT",'I'},
   {"GtCstr","xL",'I'}, {"LeStr","xT",'I'}, {"LeCstr","xL",'I'}, {"GeStr","xT",'I'}, {"GeCstr","xL",'I'}, {"CompareToStr","xT",'I'}, {"CompareToCstr","xL",'I'},
   {"CompareToICStr","xT",'I'}, {"CompareToICCstr","xL",'I'}, {"EqualsICStr","xT",'I'}, {"EqualsICCstr","xL",'I'}, {"EqualsICChar","c",'I'}, {"NumCmpStr","xT",'I'},
   {"NumCmpCstr","xL",'I'}, {"NumCmpICStr","xT",'I'}, {"NumCmpICCstr","xL",'I'}, {"ParseNumericSuffix","i",'I'}, {"StartsWithNumber","f",'I'}
};
static const int NOPS = (int)(sizeof(OPS)/sizeof(OPS[0]));
static std::map<std::string,int> OPIDX;
static bool Has(const OpDef & d, const char * tok) {const char * p = strstr(d.sig, tok); return (p != NULL)&&((p == d.sig)||(p[-1] == ' '));}

struct Args {
   Bytes x, y; std::string xa, ya; int xk, yk, i, j, m, c, d, f, as; std::vector<Bytes> tk, tv;
   Args() : xa("-"), ya("-"), xk(0), yk(0), i(0), j(0), m(-1), c(97), d(98), f(0), as(0) {}
};
struct Out {
   bool hasI, hasStr, rbad; long ri; Bytes rstr;
   Out() : hasI(false), hasStr(false), rbad(false), ri(0) {}
   void I(long v) {hasI = true; ri = v;}
   void St(const status_t & r) {hasI = true; ri = r.IsOK() ? 0 : 1;}
   void U32(uint32 v) {hasI = true; ri = (v > 2147483647U) ? 2147483647L : (long) v;}   // TLC integers are 32 bit
   void Str(const String & r) {
      hasStr = true; rstr.clear(); const uint32 n = r.Length(); const char * p = r.Cstr();
      for (uint32 k=0; k<n; k++) rstr.push_back((unsigned char) p[k]);
      rbad = (p[n] != '\0')||(strlen(p) != n);
   }
};

static inline uint32 U(int v) {return (v < 0) ? MUSCLE_NO_LIMIT : (uint32) v;}
static inline int Sgn(int v) {return (v < 0) ? -1 : ((v > 0) ? 1 : 0);}
static bool IsInline(const String & s) {const char * p = s.Cstr(); const char * b = (const char *) &s; return (p >= b)&&(p < b+sizeof(String));}
static Bytes Contents(const String & s) {Bytes r; const uint32 n = s.Length(); const char * p = s.Cstr(); for (uint32 k=0; k<n; k++) r.push_back((unsigned char) p[k]); return r;}

// a heap buffer of exactly the needed size, so that AddressSanitizer sees any read past the operand
struct CBuf {
   char * p; size_t n;
   CBuf(const Bytes & b, bool terminate) : n(b.size()) {p = (char *) malloc(n+(terminate?1:0)+((n+(terminate?1:0))==0?1:0)); for (size_t k=0; k<n; k++) p[k] = (char) b[k]; if (terminate) p[n] = '\0';}
   ~CBuf() {free(p);}
};
static void SetFromBytes(String & s, const Bytes & b) {CBuf c(b, true); (void) s.SetCstr(c.p, (uint32) c.n);}

// performs the call on the real String.  Returns false if the operation is unknown.
static bool Exec(int opi, const Args & a, String & s, String & t, Out & out)
{
   const OpDef & od = OPS[opi]; const std::string op = od.name;
   // operands: separate copies are built BEFORE the call; aliasing operands refer to the String itself
   String xsep, ysep; SetFromBytes(xsep, a.x); SetFromBytes(ysep, a.y);
   CBuf xbuf(a.x, true), ybuf(a.y, true), xraw(a.x, false);
   const String & XS = (a.xa == "self") ? s : ((a.xa == "t") ? t : xsep);
   const String & YS = (a.ya == "self") ? s : ((a.ya == "t") ? t : ysep);
   const char * XC = (a.xa == "self") ? s.Cstr() : ((a.xa == "tail") ? (s.Cstr()+a.xk) : xbuf.p);
   const char * YC = ybuf.p;
   const uint32 i = U(a.i), j = U(a.j), m = U(a.m); const char c = (char) a.c, d = (char) a.d; const bool f = (a.f != 0);
   Hashtable<String,String> tab;
   for (size_t k=0; k<a.tk.size(); k++) {String ks, vs; SetFromBytes(ks, a.tk[k]); SetFromBytes(vs, (k < a.tv.size()) ? a.tv[k] : Bytes()); (void) tab.Put(ks, vs);}

   // a call that returns a String: as = 0 keep it apart; 1: s = s.Op(..) (move assignment of the temporary); 2: copy assignment from a named const String
#define STR(expr) do { if (a.as == 1) {s = (expr); out.Str(s);} else {const String r_ = (expr); out.Str(r_); if (a.as == 2) s = r_;} } while(0)

   switch(od.kind)
   {
   case 'M':
      if (op == "SetCstr") out.St(s.SetCstr(XC, m));
      else if (op == "AssignCstr") s = XC;
      else if (op == "AssignStr") s = XS;
      else if (op == "SetFromString") out.St(s.SetFromString(XS, i, j));
      else if (op == "TSet") t = xsep;
      else if (op == "Swap") s.SwapContents(t);
      else if (op == "AppendStr") s += XS;
      else if (op == "AppendCstr") s += XC;
      else if (op == "ShlStr") s << XS;
      else if (op == "ShlCstr") s << XC;
      else if (op == "AppendChar") s += c;
      else if (op == "AppendChars") out.St(s.AppendChars(XC, m));
      else if (op == "PrependChars") out.St(s.PrependChars(XC, m));
      else if (op == "InsertChars") out.St(s.InsertChars(i, XC, m));
      else if (op == "ShlInt") s << (int) a.i;
      else if (op == "ShlBool") s << f;
      else if (op == "PlusPlus") s++;
      else if (op == "MinusMinus") s--;
      else if (op == "MinusStr") s -= XS;
      else if (op == "MinusCstr") s -= XC;
      else if (op == "MinusChar") s -= c;
      else if (op == "TruncateChars") s.TruncateChars(i);
      else if (op == "TruncateToLength") s.TruncateToLength(i);
      else if (op == "Clear") s.Clear();
      else if (op == "ClearAndFlush") s.ClearAndFlush();
      else if (op == "Prealloc") out.St(s.Prealloc(i));
      else if (op == "ShrinkToFit") out.St(s.ShrinkToFit(i));
      else if (op == "Reverse") s.Reverse();
      else if (op == "SetCharAt") s[i] = c;
      else if (op == "ReplaceChar") out.U32(s.Replace(c, d, m, i));
      else if (op == "ReplaceStr") out.I(s.Replace(XS, YS, m, i));
      else if (op == "ReplaceTable") out.I(s.Replace(tab, m));
      else if (op == "UnflattenInPlace") out.St(s.UnflattenFromBytes((const uint8 *) xraw.p, (uint32) xraw.n));
      else return false;
      break;
   case 'S':
      if (op == "Copy") STR(String(s));
      else if (op == "CopyPrealloc") STR(String(s, PreallocatedItemSlotsCount(i)));
      else if (op == "NewCstr") STR(String(XC, m));
      else if (op == "NewSub") STR(String(XS, i, j));
      else if (op == "Substring1") STR(s.Substring(i));
      else if (op == "Substring2") STR(s.Substring(i, j));
      else if (op == "SubstringAfterStr") STR(s.Substring(XS));
      else if (op == "SubstringAfterCstr") STR(s.Substring(XC));
      else if (op == "SubstringUntilStr") STR(s.Substring(i, XS));
      else if (op == "SubstringUntilCstr") STR(s.Substring(i, XC));
      else if (op == "WithAppendStr") STR(s.WithAppend(XS, m));
      else if (op == "WithAppendCstr") STR(s.WithAppend(XC, m));
      else if (op == "WithPrependStr") STR(s.WithPrepend(XS, m));
      else if (op == "WithPrependCstr") STR(s.WithPrepend(XC, m));
      else if (op == "WithInsertStr") STR(s.WithInsert(i, XS, m));
      else if (op == "WithInsertCstr") STR(s.WithInsert(i, XC, m));
      else if (op == "WithAppendChar") STR(s.WithAppend(c, m));
      else if (op == "WithPrependChar") STR(s.WithPrepend(c, m));
      else if (op == "WithInsertChar") STR(s.WithInsert(i, c, m));
      else if (op == "WithAppendedWordStr") STR(s.WithAppendedWord(XS, YC));
      else if (op == "WithAppendedWordCstr") STR(s.WithAppendedWord(XC, YC));
      else if (op == "WithPrependedWordStr") STR(s.WithPrependedWord(XS, YC));
      else if (op == "WithInsertedWordStr") STR(s.WithInsertedWord(i, XS, YC));
      else if (op == "WithInsertedWordCstr") STR(s.WithInsertedWord(i, XC, YC));
      else if (op == "PaddedBy") STR(s.PaddedBy(i, f, c));
      else if (op == "ToLowerCase") STR(s.ToLowerCase());
      else if (op == "ToUpperCase") STR(s.ToUpperCase());
      else if (op == "ToMixedCase") STR(s.ToMixedCase());
      else if (op == "Trimmed") STR(s.Trimmed());
      else if (op == "WithReplacementsChar") STR(s.WithReplacements(c, d, m, i));
      else if (op == "WithReplacementsStr") STR(s.WithReplacements(XS, YS, m, i));
      else if (op == "WithReplacementsTable") STR(s.WithReplacements(tab, m));
      else if (op == "ArgStr") STR(s.Arg(XS));
      else if (op == "ArgCstr") STR(s.Arg(XC));
      else if (op == "ArgInt") STR(s.Arg((int) a.i));
      else if (op == "WithoutNumericSuffix") {uint32 v = 12345; STR(s.WithoutNumericSuffix(&v)); out.U32(v);}
      else if (op == "WithSuffixStr") STR(s.WithSuffix(XS));
      else if (op == "WithSuffixChar") STR(s.WithSuffix(c));
      else if (op == "WithPrefixStr") STR(s.WithPrefix(XS));
      else if (op == "WithPrefixChar") STR(s.WithPrefix(c));
      else if (op == "WithoutSuffixStr") STR(s.WithoutSuffix(XS, m));
      else if (op == "WithoutSuffixChar") STR(s.WithoutSuffix(c, m));
      else if (op == "WithoutPrefixStr") STR(s.WithoutPrefix(XS, m));
      else if (op == "WithoutPrefixChar") STR(s.WithoutPrefix(c, m));
      else if (op == "WithoutSuffixICStr") STR(s.WithoutSuffixIgnoreCase(XS, m));
      else if (op == "WithoutSuffixICChar") STR(s.WithoutSuffixIgnoreCase(c, m));
      else if (op == "WithoutPrefixICStr") STR(s.WithoutPrefixIgnoreCase(XS, m));
      else if (op == "WithoutPrefixICChar") STR(s.WithoutPrefixIgnoreCase(c, m));
      else if (op == "PlusStr") STR(s + XS);
      else if (op == "PlusCstr") STR(s + XC);
      else if (op == "CstrPlus") STR(XC + s);
      else if (op == "PlusChar") STR(s + c);
      else if (op == "CharPlus") STR(c + s);
      else if (op == "MinusOpStr") STR(s - XS);
      else if (op == "Flatten") {
         const uint32 fs = s.FlattenedSize(); Bytes fb; fb.resize(fs, 1); CBuf buf(fb, false);
         s.FlattenToBytes((uint8 *) buf.p, fs);
         out.hasStr = true; out.rstr.clear(); for (uint32 k=0; k<fs; k++) out.rstr.push_back((unsigned char) buf.p[k]);
         out.U32(fs);
      }
      else if (op == "UnflattenTry") {String r(s); out.St(r.UnflattenFromBytes((const uint8 *) xraw.p, (uint32) xraw.n)); const long keep = out.ri; out.Str(r); out.ri = keep;}
      else return false;
      break;
   case 'I':
      if (op == "IndexOfChar") out.I(s.IndexOf(c, i));
      else if (op == "IndexOfStr") out.I(s.IndexOf(XS, i));
      else if (op == "IndexOfCstr") out.I(s.IndexOf(XC, i));
      else if (op == "LastIndexOfChar") out.I(s.LastIndexOf(c, i));
      else if (op == "LastIndexOfStr") out.I(s.LastIndexOf(XS));
      else if (op == "LastIndexOfCstr") out.I(s.LastIndexOf(XC));
      else if (op == "LastIndexOfStrFrom") out.I(s.LastIndexOf(XS, i));
      else if (op == "LastIndexOfCstrFrom") out.I(s.LastIndexOf(XC, i));
      else if (op == "IndexOfICChar") out.I(s.IndexOfIgnoreCase(c, i));
      else if (op == "IndexOfICStr") out.I(s.IndexOfIgnoreCase(XS, i));
      else if (op == "IndexOfICCstr") out.I(s.IndexOfIgnoreCase(XC, i));
      else if (op == "LastIndexOfICChar") out.I(s.LastIndexOfIgnoreCase(c, i));
      else if (op == "LastIndexOfICStr") out.I(s.LastIndexOfIgnoreCase(XS, i));
      else if (op == "LastIndexOfICCstr") out.I(s.LastIndexOfIgnoreCase(XC, i));
      else if (op == "ContainsChar") out.I(s.Contains(c, i) ? 1 : 0);
      else if (op == "ContainsStr") out.I(s.Contains(XS, i) ? 1 : 0);
      else if (op == "ContainsCstr") out.I(s.Contains(XC, i) ? 1 : 0);
      else if (op == "ContainsICChar") out.I(s.ContainsIgnoreCase(c, i) ? 1 : 0);
      else if (op == "ContainsICStr") out.I(s.ContainsIgnoreCase(XS, i) ? 1 : 0);
      else if (op == "ContainsICCstr") out.I(s.ContainsIgnoreCase(XC, i) ? 1 : 0);
      else if (op == "StartsWithChar") out.I(s.StartsWith(c) ? 1 : 0);
      else if (op == "StartsWithStr") out.I(s.StartsWith(XS) ? 1 : 0);
      else if (op == "StartsWithCstr") out.I(s.StartsWith(XC) ? 1 : 0);
      else if (op == "EndsWithChar") out.I(s.EndsWith(c) ? 1 : 0);
      else if (op == "EndsWithStr") out.I(s.EndsWith(XS) ? 1 : 0);
      else if (op == "EndsWithCstr") out.I(s.EndsWith(XC) ? 1 : 0);
      else if (op == "StartsWithICChar") out.I(s.StartsWithIgnoreCase(c) ? 1 : 0);
      else if (op == "StartsWithICStr") out.I(s.StartsWithIgnoreCase(XS) ? 1 : 0);
      else if (op == "StartsWithICCstr") out.I(s.StartsWithIgnoreCase(XC) ? 1 : 0);
      else if (op == "EndsWithICChar") out.I(s.EndsWithIgnoreCase(c) ? 1 : 0);
      else if (op == "EndsWithICStr") out.I(s.EndsWithIgnoreCase(XS) ? 1 : 0);
      else if (op == "EndsWithICCstr") out.I(s.EndsWithIgnoreCase(XC) ? 1 : 0);
      else if (op == "NumInstancesChar") out.U32(s.GetNumInstancesOf(c, i));
      else if (op == "NumInstancesStr") out.U32(s.GetNumInstancesOf(XS, i));
      else if (op == "NumInstancesCstr") out.U32(s.GetNumInstancesOf(XC, i));
      else if (op == "CharAt") out.I((unsigned char) ((const String &) s)[i]);
      else if (op == "Length") out.U32(s.Length());
      else if (op == "EqStr") out.I((s == XS) ? 1 : 0);
      else if (op == "EqCstr") out.I((s == XC) ? 1 : 0);
      else if (op == "NeStr") out.I((s != XS) ? 1 : 0);
      else if (op == "NeCstr") out.I((s != XC) ? 1 : 0);
      else if (op == "EqChar") out.I(s.Equals(c) ? 1 : 0);
      else if (op == "LtStr") out.I((s < XS) ? 1 : 0);
      else if (op == "LtCstr") out.I((s < XC) ? 1 : 0);
      else if (op == "GtStr") out.I((s > XS) ? 1 : 0);
      else if (op == "GtCstr") out.I((s > XC) ? 1 : 0);
      else if (op == "LeStr") out.I((s <= XS) ? 1 : 0);
      else if (op == "LeCstr") out.I((s <= XC) ? 1 : 0);
      else if (op == "GeStr") out.I((s >= XS) ? 1 : 0);
      else if (op == "GeCstr") out.I((s >= XC) ? 1 : 0);
      else if (op == "CompareToStr") out.I(Sgn(s.CompareTo(XS)));
      else if (op == "CompareToCstr") out.I(Sgn(s.CompareTo(XC)));
      else if (op == "CompareToICStr") out.I(Sgn(s.CompareToIgnoreCase(XS)));
      else if (op == "CompareToICCstr") out.I(Sgn(s.CompareToIgnoreCase(XC)));
      else if (op == "EqualsICStr") out.I(s.EqualsIgnoreCase(XS) ? 1 : 0);
      else if (op == "EqualsICCstr") out.I(s.EqualsIgnoreCase(XC) ? 1 : 0);
      else if (op == "EqualsICChar") out.I(s.EqualsIgnoreCase(c) ? 1 : 0);
      else if (op == "NumCmpStr") out.I(Sgn(s.NumericAwareCompareTo(XS)));
      else if (op == "NumCmpCstr") out.I(Sgn(s.NumericAwareCompareTo(XC)));
      else if (op == "NumCmpICStr") out.I(Sgn(s.NumericAwareCompareToIgnoreCase(XS)));
      else if (op == "NumCmpICCstr") out.I(Sgn(s.NumericAwareCompareToIgnoreCase(XC)));
      else if (op == "ParseNumericSuffix") out.U32(s.ParseNumericSuffix(i));
      else if (op == "StartsWithNumber") out.I(s.StartsWithNumber(f) ? 1 : 0);
      else return false;
      break;
   default: return false;
   }
#undef STR
   return true;
}

// ---- JSON helpers ------------------------------------------------------------------------------------------------------------
static mj::Value JB(const Bytes & b) {mj::Value v = mj::Value::Arr(); for (size_t k=0; k<b.size(); k++) v.push(mj::Value::Int(b[k])); return v;}
static Bytes BJ(const mj::Value & v) {Bytes b; for (size_t k=0; k<v.a.size(); k++) b.push_back((int) v.a[k].i()); return b;}
static std::string Show(const Bytes & b) {std::string r = "\""; char buf[8]; for (size_t k=0; k<b.size(); k++) {if ((b[k] >= 32)&&(b[k] < 127)&&(b[k] != '"')&&(b[k] != '\\')) r += (char) b[k]; else {snprintf(buf, sizeof(buf), "\\x%02x", b[k]); r += buf;}} return r+"\"";}

static Args ArgsFromJson(const mj::Value & r)
{
   Args a;
   if (r.has("x")) a.x = BJ(r["x"]);  if (r.has("y")) a.y = BJ(r["y"]);
   if (r.has("xa")) a.xa = r["xa"].str();  if (r.has("ya")) a.ya = r["ya"].str();
   if (r.has("xk")) a.xk = (int) r["xk"].i();  if (r.has("yk")) a.yk = (int) r["yk"].i();
   if (r.has("i")) a.i = (int) r["i"].i();  if (r.has("j")) a.j = (int) r["j"].i();  if (r.has("m")) a.m = (int) r["m"].i();
   if (r.has("c")) a.c = (int) r["c"].i();  if (r.has("d")) a.d = (int) r["d"].i();  if (r.has("f")) a.f = (int) r["f"].i();  if (r.has("as")) a.as = (int) r["as"].i();
   if (r.has("tk")) for (size_t k=0; k<r["tk"].a.size(); k++) a.tk.push_back(BJ(r["tk"].a[k]));
   if (r.has("tv")) for (size_t k=0; k<r["tv"].a.size(); k++) a.tv.push_back(BJ(r["tv"].a[k]));
   return a;
}

// coverage: per operation, how often it ran in each (storage mode before, storage mode after) of the String
struct Coverage {
   std::vector<long> cnt;   // NOPS x 4
   long aliased, crossings[2];
   Coverage() : cnt(NOPS*4, 0), aliased(0) {crossings[0] = crossings[1] = 0;}
   void Note(int opi, bool inBefore, bool inAfter, const Args & a) {
      cnt[opi*4+(inBefore?0:2)+(inAfter?0:1)]++;
      if (inBefore && !inAfter) crossings[0]++;
      if (!inBefore && inAfter) crossings[1]++;
      if ((a.xa == "self")||(a.xa == "tail")||(a.ya == "self")) aliased++;
   }
   mj::Value Json() const {
      mj::Value o = mj::Value::Obj();
      for (int k=0; k<NOPS; k++) {mj::Value r = mj::Value::Arr(); for (int q=0; q<4; q++) r.push(mj::Value::Int(cnt[k*4+q])); o.set(OPS[k].name, r);}
      return o;
   }
};

// ---- replay -------------------------------------------------------------------------------------------------------------------
static int Replay(const char * inFile, const char * repFile, const char * progFile)
{
   FILE * in = fopen(inFile, "r"); FILE * rep = fopen(repFile, "w");
   if ((in == NULL)||(rep == NULL)) {fprintf(stderr, "cannot open files\n"); return 2;}
   FILE * prog = progFile ? fopen(progFile, "w") : NULL;
   Coverage cov; long nb = 0, steps = 0, followed = 0, violated = 0, knownCut = 0, undet = 0, compared = 0;
   std::string line;
   while(mj::ReadLine(in, line))
   {
      mj::Value b; if (!mj::Parse(line, b)) {fprintf(stderr, "bad behaviour line\n"); return 2;}
      nb++;
      if (prog) {rewind(prog); fprintf(prog, "%lld          \n", (long long) b["id"].i()); fflush(prog);}
      String * sp = new String(); String * tp = new String();   // on the heap: AddressSanitizer guards the objects themselves too
      String & s = *sp; String & t = *tp;
      std::vector<std::string> viol, known; long failStep = -1; mj::Value failObs;
      const mj::Value & st = b["steps"];
      for (size_t k=0; k<st.a.size(); k++)
      {
         const mj::Value & r = st.a[k]; const std::string op = r["op"].str();
         Args a = ArgsFromJson(r); Out out; steps++;
         const bool inBefore = IsInline(s);
         if (op == "Setup") { if (a.i > 0) (void) s.Prealloc(U(a.i)); SetFromBytes(s, a.x); SetFromBytes(t, a.y); }
         else
         {
            std::map<std::string,int>::const_iterator it = OPIDX.find(op);
            if ((it == OPIDX.end())||(!Exec(it->second, a, s, t, out))) {fprintf(stderr, "unknown operation %s\n", op.c_str()); return 2;}
            cov.Note(it->second, inBefore, IsInline(s), a);
         }
         // compare with the specification, after every step
         const Bytes es = BJ(r["es"]), et = BJ(r["et"]), estr = BJ(r["estr"]), astr = BJ(r["astr"]);
         const Bytes os = Contents(s), ot = Contents(t);
         const bool ds = r["ds"].i() != 0, di = r["di"].i() != 0, dstr = r["dstr"].i() != 0; const std::string fid = r["fid"].str();
         std::vector<std::string> v; char buf[256];
         if ((s.Cstr()[s.Length()] != '\0')||(strlen(s.Cstr()) != s.Length())) {snprintf(buf, sizeof(buf), "%s: the String is not a NUL-terminated string of its Length() (Length %u, strlen %u)", op.c_str(), s.Length(), (unsigned) strlen(s.Cstr())); v.push_back(buf);}
         if ((t.Cstr()[t.Length()] != '\0')||(strlen(t.Cstr()) != t.Length())||(ot != et)) v.push_back(op+": the second String changed / is malformed: "+Show(ot)+", expected "+Show(et));
         if (out.rbad) v.push_back(op+": the returned String is not NUL-terminated at its Length()");
         bool usedDev = false;
         if (ds) { if (os != es) v.push_back(op+": contents "+Show(os)+", expected "+Show(es)); compared++; } else undet++;
         if (out.hasI) { if (di) { if (out.ri != r["ei"].i()) { if ((fid.size() > 0)&&(out.ri == r["ai"].i())) usedDev = true; else {snprintf(buf, sizeof(buf), "%s: returned %ld, expected %lld", op.c_str(), out.ri, (long long) r["ei"].i()); v.push_back(buf);} } compared++; } else undet++; }
         if (out.hasStr) { if (dstr) { if (out.rstr != estr) { if ((fid.size() > 0)&&(out.rstr == astr)) usedDev = true; else v.push_back(op+": returned "+Show(out.rstr)+", expected "+Show(estr)); } compared++; } else undet++; }
         if (usedDev) known.push_back(fid+": "+op+" on "+Show(BJ(k ? st.a[k-1]["es"] : mj::Value::Arr()))+" gives the coded, not the documented result");
         if (v.size() > 0) {
            viol = v; failStep = (long) k;
            failObs = mj::Value::Obj(); failObs.set("s", JB(os)).set("t", JB(ot)).set("len", mj::Value::Int(s.Length()));
            if (out.hasI) failObs.set("ri", mj::Value::Int(out.ri));
            if (out.hasStr) failObs.set("rstr", JB(out.rstr));
            break;
         }
      }
      delete sp; delete tp;
      if (viol.size() > 0) {
         violated++;
         mj::Value o = mj::Value::Obj(); mj::Value va = mj::Value::Arr(); for (size_t q=0; q<viol.size(); q++) va.push(mj::Value::Str(viol[q]));
         o.set("behaviour", b["id"]).set("step", mj::Value::Int(failStep)).set("violations", va).set("observed", failObs).set("steps", st);
         fprintf(rep, "%s\n", mj::ToString(o).c_str());
      } else followed++;
      if (known.size() > 0) {
         knownCut++;
         mj::Value o = mj::Value::Obj(); mj::Value ka = mj::Value::Arr(); for (size_t q=0; q<known.size(); q++) ka.push(mj::Value::Str(known[q]));
         o.set("behaviour", b["id"]).set("known", ka);
         fprintf(rep, "%s\n", mj::ToString(o).c_str());
      }
   }
   mj::Value sum = mj::Value::Obj();
   sum.set("summary", mj::Value::Bool(true)).set("behaviours", mj::Value::Int(nb)).set("steps", mj::Value::Int(steps)).set("followed", mj::Value::Int(followed))
      .set("violated", mj::Value::Int(violated)).set("with_known", mj::Value::Int(knownCut)).set("compared", mj::Value::Int(compared)).set("undetermined", mj::Value::Int(undet))
      .set("inline_to_heap", mj::Value::Int(cov.crossings[0])).set("heap_to_inline", mj::Value::Int(cov.crossings[1])).set("aliased_calls", mj::Value::Int(cov.aliased)).set("modes", cov.Json());
   fprintf(rep, "%s\n", mj::ToString(sum).c_str());
   fclose(rep); fclose(in); if (prog) fclose(prog);
   return 0;
}

// ---- explore ------------------------------------------------------------------------------------------------------------------
struct Rng {
   uint64_t s;
   Rng(uint64_t seed) : s(seed*0x9E3779B97F4A7C15ULL+0x1234567ULL) {Next(); Next();}
   uint64_t Next() {s ^= s << 13; s ^= s >> 7; s ^= s << 17; return s;}
   uint32_t R(uint32_t n) {return n ? (uint32_t)((Next() >> 11) % n) : 0;}
   bool P(uint32_t pct) {return R(100) < pct;}
};
// a, b, A, B, blank, tab, %, -, 1, 2 and (rarely) the non-ASCII byte 0xC3
static int RandByte(Rng & g) {static const int al[] = {97,97,97,98,98,65,66,32,32,9,37,45,49,49,50,97,98,37,49,195}; return al[g.R(20)];}
static const int LENS[] = {0, 1, 2, 7, 14, 15, 16, 17, 31};
static Bytes RandBytes(Rng & g, uint32_t n) {Bytes b; for (uint32_t k=0; k<n; k++) b.push_back(RandByte(g)); return b;}
static Bytes RandOperand(Rng & g, const Bytes & cur, bool needle)
{
   const uint32_t L = (uint32_t) cur.size(); const uint32_t r = g.R(100);
   if ((L > 0)&&(r < (needle ? 50u : 20u))) { // a piece of the current contents: searches and replacements that hit
      const uint32_t n = g.P(70) ? 1+g.R(3) : 1+g.R(17); const uint32_t b = g.R(L); Bytes p(cur.begin()+b, cur.begin()+muscleMin(L, b+n));
      if ((p.size() > 1)&&(g.P(15))) p[g.R((uint32_t) p.size())] = RandByte(g);   // a near miss
      return p; }
   if (needle && (r < 85)) return RandBytes(g, g.P(10) ? 0 : 1+g.R(3));
   return RandBytes(g, LENS[g.R(9)]);
}
static int RandIndex(Rng & g, uint32_t L)
{
   switch(g.R(10)) { case 0: return 0; case 1: return 1; case 2: return (int) L; case 3: return (L > 0) ? (int)(L-1) : 0; case 4: return (int) L+1;
                     case 5: return 14+(int) g.R(4); case 6: return g.P(30) ? -1 : 31; default: return (int) g.R(L+3); }
}
static int RandCount(Rng & g) {static const int cs[] = {-1,-1,-1,-1,0,1,1,2,3,15,16,17}; return cs[g.R(12)];}

// the open known findings the check tolerates (environment C17_TOLERATE, set by checks/c17.py from known_findings.json)
static bool Tolerated(const char * fid) {const char * e = getenv("C17_TOLERATE"); return (e != NULL)&&(strstr(e, fid) != NULL);}

static Args RandArgs(Rng & g, const OpDef & od, const String & s)
{
   Args a; const std::string op = od.name; const Bytes cur = Contents(s); const uint32_t L = s.Length();
   static const char * NEEDLY[] = {"IndexOf", "Contains", "Minus", "Replace", "Substring", "NumInstances", "sWith", "Without", "WithSuffix", "WithPrefix", NULL};
   bool needle = false; for (int q=0; NEEDLY[q]; q++) if (strstr(od.name, NEEDLY[q])) needle = true;
   if (Has(od, "xL")) { const uint32_t r = g.R(100); if (r < 12) a.xa = "self"; else if (r < 25) {a.xa = "tail"; a.xk = (int) (g.P(40) ? g.R(L+1) : muscleMin(L, (uint32_t)(g.P(50) ? 1 : 14+g.R(4))));} else {a.xa = "v"; a.x = RandOperand(g, cur, needle);} }
   if (Has(od, "xT")) { const uint32_t r = g.R(100); if (r < 15) a.xa = "self"; else if (r < 25) a.xa = "t"; else {a.xa = "v"; a.x = RandOperand(g, cur, needle);} }
   if (Has(od, "xR")) { a.xa = "v"; a.x = RandBytes(g, LENS[g.R(9)]);
                        if (op != "TSet") { const uint32_t r = g.R(100); if (r < 55) a.x.push_back(0); else if ((r < 75)&&(a.x.size() > 0)) a.x[g.R((uint32_t) a.x.size())] = 0; /* else: unterminated */ }
                        if ((op == "UnflattenInPlace")&&(std::find(a.x.begin(), a.x.end(), 0) == a.x.end())) a.x.push_back(0); }
   if (Has(od, "yT")) { const uint32_t r = g.R(100); if (r < 15) a.ya = "self"; else if (r < 25) a.ya = "t"; else {a.ya = "v"; a.y = g.P(30) ? RandBytes(g, g.R(3)) : RandOperand(g, cur, false);} }
   if (Has(od, "yS")) { a.ya = "v"; const uint32_t r = g.R(10); if (r < 6) a.y.push_back(32); else if (r < 7) {a.y.push_back(32); a.y.push_back(32);} else if (r < 9) a.y = RandBytes(g, 1+g.R(2)); }
   if (Has(od, "i")) {
      if ((op == "SetCharAt")||(op == "CharAt")) a.i = (int) g.R(L);                       // "be sure to only use valid indices": the driver skips these on an empty String
      else if ((op == "ShlInt")||(op == "ArgInt")) { static const int vs[] = {0, 7, -5, 12, 100, 2147483647, -2147483647, 54321}; a.i = vs[g.R(8)]; }
      else if ((op == "Prealloc")||(op == "CopyPrealloc")||(op == "ShrinkToFit")||(op == "PaddedBy")) { static const int vs[] = {0, 1, 14, 15, 16, 17, 20, 40, 64}; a.i = vs[g.R(9)]; }
      else if (op == "ParseNumericSuffix") a.i = (int) g.R(1000);
      else a.i = RandIndex(g, L);
      if ((op == "LastIndexOfICChar")&&(a.i < 0)&&(Tolerated("F33"))) a.i = (int) L+2;   // F33: fromIndex >= 2^31 makes this one method read Cstr()[-1] (the directed case covers it)
   }
   if (Has(od, "j")) a.j = RandIndex(g, L);
   if (Has(od, "m")) { a.m = RandCount(g); if (((op == "WithAppendChar")||(op == "WithPrependChar")||(op == "WithInsertChar"))&&(a.m < 0)) a.m = 1; }
   if (Has(od, "c")) a.c = ((L > 0)&&(g.P(40))) ? cur[g.R(L)] : RandByte(g);
   if (Has(od, "d")) a.d = RandByte(g);
   if (Has(od, "f")) a.f = (int) g.R(2);
   if (Has(od, "T")) {
      const uint32_t np = 1+g.R(3);
      for (uint32_t k=0; k<np; k++) {
         Bytes key = RandOperand(g, cur, true); if (key.empty()) key.push_back(RandByte(g));
         bool dup = false; for (size_t q=0; q<a.tk.size(); q++) if (a.tk[q] == key) dup = true;
         if (dup) continue;
         a.tk.push_back(key); a.tv.push_back(g.P(60) ? RandBytes(g, g.R(4)) : RandBytes(g, LENS[g.R(9)]));
      }
   }
   if (od.kind == 'S') { const uint32_t r = g.R(100); a.as = ((op == "Flatten")||(op == "UnflattenTry")) ? 0 : ((r < 45) ? 1 : ((r < 55) ? 2 : 0)); }
   return a;
}

static int Explore(long runs, int nsteps, uint64_t seed, const char * prefix, int shards, const char * repFile, long firstRun)
{
   std::vector<FILE *> tf;
   for (int k=0; k<shards; k++) {char fn[1024]; snprintf(fn, sizeof(fn), "%s.%d.ndjson", prefix, k); FILE * f = fopen(fn, "w"); if (f == NULL) {fprintf(stderr, "cannot write %s\n", fn); return 2;} tf.push_back(f);}
   FILE * rep = fopen(repFile, "w"); if (rep == NULL) return 2;
   Coverage cov; long lines = 0, calls = 0, maxLen = 0;
   for (long run=firstRun; run<firstRun+runs; run++)
   {
      Rng g(seed*1000003ULL+(uint64_t) run);
      FILE * f = tf[run%shards];
      fprintf(f, "{\"op\":\"Reset\",\"run\":%ld}\n", run); lines++;
      String * sp = new String(); String * tp = new String(); String & s = *sp; String & t = *tp;
      Bytes prevS, prevT;
      for (int step=0; step<nsteps; step++)
      {
         const uint32_t L = s.Length();
         int opi;
         if (L > 96) { static const char * shrink[] = {"TruncateToLength", "SetCstr", "Substring2", "Clear", "ClearAndFlush", "TruncateChars"}; opi = OPIDX[shrink[g.R(6)]]; }
         else opi = (int) g.R(NOPS);
         const OpDef & od = OPS[opi]; const std::string op = od.name;
         if (((op == "SetCharAt")||(op == "CharAt"))&&(L == 0)) continue;
         Args a = RandArgs(g, od, s);
         if ((L > 96)&&(od.kind == 'S')) a.as = 1;
         if ((L > 96)&&(op == "Substring2")) {a.i = (int) g.R(20); a.j = a.i+(int) g.R(20);}
         if ((L > 96)&&(op == "TruncateChars")) a.i = (int) (L-g.R(20));
         if ((L > 96)&&(op == "TruncateToLength")) a.i = (int) g.R(20);
         if ((L > 96)&&(op == "SetCstr")) {a.xa = "v"; a.x = RandBytes(g, LENS[g.R(9)]); a.m = -1;}
         Out out; const bool inBefore = IsInline(s);
         if (!Exec(opi, a, s, t, out)) {fprintf(stderr, "unknown operation %s\n", od.name); return 2;}
         cov.Note(opi, inBefore, IsInline(s), a); calls++;
         // log the call: only the arguments the operation uses, only the observations that carry information
         mj::Value o = mj::Value::Obj(); o.set("op", mj::Value::Str(op));
         if (Has(od, "xL")||Has(od, "xT")||Has(od, "xR")) { o.set("xa", mj::Value::Str(a.xa)); if (a.xa == "v") o.set("x", JB(a.x)); if (a.xa == "tail") o.set("xk", mj::Value::Int(a.xk)); }
         if (Has(od, "yT")||Has(od, "yS")) { o.set("ya", mj::Value::Str(a.ya)); if (a.ya == "v") o.set("y", JB(a.y)); }
         if (Has(od, "i")) o.set("i", mj::Value::Int(a.i));
         if (Has(od, "j")) o.set("j", mj::Value::Int(a.j));
         if (Has(od, "m")) o.set("m", mj::Value::Int(a.m));
         if (Has(od, "c")) o.set("c", mj::Value::Int(a.c));
         if (Has(od, "d")) o.set("d", mj::Value::Int(a.d));
         if (Has(od, "f")) o.set("f", mj::Value::Int(a.f));
         if (Has(od, "T")) { mj::Value ks = mj::Value::Arr(), vs = mj::Value::Arr(); for (size_t q=0; q<a.tk.size(); q++) {ks.push(JB(a.tk[q])); vs.push(JB(a.tv[q]));} o.set("tk", ks).set("tv", vs); }
         if (a.as) o.set("as", mj::Value::Int(a.as));
         if (out.hasI) o.set("ri", mj::Value::Int(out.ri));
         if (out.hasStr) o.set("rstr", JB(out.rstr));
         if (out.rbad) o.set("rbad", mj::Value::Int(1));
         const Bytes os = Contents(s), ot = Contents(t);
         if (os != prevS) o.set("rs", JB(os));
         if (ot != prevT) o.set("rt", JB(ot));
         o.set("len", mj::Value::Int(s.Length()));
         const int z = (unsigned char) s.Cstr()[s.Length()]; if (z != 0) o.set("z", mj::Value::Int(z));
         const size_t sl = strlen(s.Cstr()); if (sl != s.Length()) o.set("sl", mj::Value::Int((int64_t) sl));
         if ((t.Cstr()[t.Length()] != '\0')||(strlen(t.Cstr()) != t.Length())) o.set("rbad", mj::Value::Int(1));
         fprintf(f, "%s\n", mj::ToString(o).c_str()); lines++;
         prevS = os; prevT = ot; if ((long) os.size() > maxLen) maxLen = (long) os.size();
      }
      delete sp; delete tp;
      fflush(f);
   }
   for (size_t k=0; k<tf.size(); k++) fclose(tf[k]);
   mj::Value sum = mj::Value::Obj();
   sum.set("summary", mj::Value::Bool(true)).set("runs", mj::Value::Int(runs)).set("calls", mj::Value::Int(calls)).set("lines", mj::Value::Int(lines)).set("max_length", mj::Value::Int(maxLen))
      .set("inline_to_heap", mj::Value::Int(cov.crossings[0])).set("heap_to_inline", mj::Value::Int(cov.crossings[1])).set("aliased_calls", mj::Value::Int(cov.aliased)).set("modes", cov.Json());
   fprintf(rep, "%s\n", mj::ToString(sum).c_str()); fclose(rep);
   return 0;
}

int main(int argc, char ** argv)
{
   CompleteSetupSystem css;
   for (int k=0; k<NOPS; k++) OPIDX[OPS[k].name] = k;
   if ((argc >= 4)&&(!strcmp(argv[1], "replay"))) return Replay(argv[2], argv[3], (argc > 4) ? argv[4] : NULL);
   if ((argc >= 8)&&(!strcmp(argv[1], "explore"))) return Explore(atol(argv[2]), atoi(argv[3]), (uint64_t) atoll(argv[4]), argv[5], atoi(argv[6]), argv[7], (argc > 8) ? atol(argv[8]) : 0);
   if ((argc >= 2)&&(!strcmp(argv[1], "ops"))) {for (int k=0; k<NOPS; k++) printf("%s\n", OPS[k].name); return 0;}
   fprintf(stderr, "usage: st replay <behaviours> <report> [progress] | st explore <runs> <steps> <seed> <trace-prefix> <shards> <report> [firstRun] | st ops\n");
   return 2;
}
