/* C08 helper: the C "micro" Message codec and gateway (lang/c/micromessage) behind a line protocol on stdin / stdout.
 * (A separate program: MiniMessage.c and MicroMessage.c define the same global symbols.)
 *   U <hex>                      open the bytes with the micro READER, read every field through the public getters and write
 *                                it into a new UMessage with the micro WRITER (UMAdd*)                    -> K <hex> | E <why>
 *   B M <what> <nfields> ...     build the content natively with UMAdd*()                                 -> K <hex> | E <why>
 *   G <seed> M ... M ...         UGGetOutgoingMessage / fill natively with UMAdd* / UGOutgoingMessagePrepared, UGDoOutput in random slices -> K <hex of the stream>
 *   R <seed> <hex of a stream>   UGDoInput in random slices, every Message received copied out             -> K <hex> <hex> ...
 *   Q                            quit
 * Only well-formed buffers are fed to the reader (its missing bounds checks are known finding F19 of property C02).
 */
#include <stdio.h>
#include <stdlib.h>
#include <string.h>
#include <unistd.h>
#include "lang/c/micromessage/MicroMessage.h"
#include "lang/c/micromessage/MicroMessageGateway.h"

#define BUFSZ (8*1024*1024)

/* replies go to the original stdout; fd 1 is pointed at stderr so that the codec's own printf() diagnostics cannot corrupt the protocol */
static FILE * g_out = NULL;
#define printf(...) fprintf(g_out, __VA_ARGS__)

static int hexval(int c) {return (c >= '0' && c <= '9') ? c-'0' : (c >= 'a' && c <= 'f') ? c-'a'+10 : (c >= 'A' && c <= 'F') ? c-'A'+10 : -1;}
static uint8 * unhex(const char * h, uint32 * n)
{
   size_t len = strlen(h); uint8 * b; size_t i;
   if (strcmp(h, "-") == 0) len = 0;
   b = (uint8 *) malloc(len/2 + 1);
   for (i=0; i+1<len; i+=2) b[i/2] = (uint8)((hexval(h[i]) << 4) | hexval(h[i+1]));
   b[len/2] = 0; *n = (uint32)(len/2);
   return b;
}
static void puthex(const uint8 * b, uint32 n) {uint32 i; if (n == 0) fputc('-', g_out); for (i=0; i<n; i++) printf("%02x", b[i]);}
static char * tok(char ** p) {char * s = *p; char * e; if (s == NULL) return NULL; while (*s == ' ') s++; if (*s == 0) {*p = NULL; return NULL;} e = s; while ((*e)&&(*e != ' ')) e++; if (*e) {*e = 0; *p = e+1;} else *p = NULL; return s;}
static uint32 u32at(const uint8 * b) {return ((uint32)b[0]) | (((uint32)b[1]) << 8) | (((uint32)b[2]) << 16) | (((uint32)b[3]) << 24);}
static uint64 u64at(const uint8 * b) {return ((uint64)u32at(b)) | (((uint64)u32at(b+4)) << 32);}
static float f32at(const uint8 * b) {uint32 v = u32at(b); float f; memcpy(&f, &v, 4); return f;}

static int g_alt = 0;   /* alternates between UMInlineAddMessage and UMAddMessage for sub-Messages */
static int g_detour = 0; /* D command: bit 0 = one call per item, bit 1 = what codes set afterwards with UMSetWhatCode() */

/* reads every field of src through the public getters and adds it to dst; 0 on success */
static int copy_fields(UMessage * dst, const UMessage * src, const char ** why)
{
   UMessageFieldNameIterator it; const char * name; uint32 n, tc, i;
   UMIteratorInitialize(&it, src, B_ANY_TYPE);
   while ((name = UMIteratorGetCurrentFieldName(&it, &n, &tc)) != NULL)
   {
      c_status_t r = CB_NO_ERROR;
      switch(tc)
      {
#define COPYFIXED(TC, CT, FIND, ADD) case TC: {CT * a = (CT *) malloc(sizeof(CT) * (n + 1)); for (i=0; i<n; i++) if (FIND(src, name, i, &a[i]) != CB_NO_ERROR) {*why = #FIND; return 1;} r = ADD(dst, name, a, n); free(a);} break;
         COPYFIXED(B_BOOL_TYPE,   UBool,  UMFindBool,   UMAddBools)
         COPYFIXED(B_INT8_TYPE,   int8,   UMFindInt8,   UMAddInt8s)
         COPYFIXED(B_INT16_TYPE,  int16,  UMFindInt16,  UMAddInt16s)
         COPYFIXED(B_INT32_TYPE,  int32,  UMFindInt32,  UMAddInt32s)
         COPYFIXED(B_INT64_TYPE,  int64,  UMFindInt64,  UMAddInt64s)
         COPYFIXED(B_FLOAT_TYPE,  float,  UMFindFloat,  UMAddFloats)
         COPYFIXED(B_DOUBLE_TYPE, double, UMFindDouble, UMAddDoubles)
         COPYFIXED(B_POINT_TYPE,  UPoint, UMFindPoint,  UMAddPoints)
         COPYFIXED(B_RECT_TYPE,   URect,  UMFindRect,   UMAddRects)
         case B_STRING_TYPE:
         {
            const char ** a = (const char **) malloc(sizeof(char *) * (n + 1));
            for (i=0; i<n; i++) if ((a[i] = UMGetString(src, name, i)) == NULL) {*why = "UMGetString"; return 1;}
            r = UMAddStrings(dst, name, a, n); free(a);
         }
         break;
         case B_MESSAGE_TYPE:
            if (n == 0) r = UMAddMessages(dst, name, NULL, 0);     /* a Message field with zero items */
            for (i=0; i<n; i++)
            {
               UMessage sub;
               if (UMFindMessage(src, name, i, &sub) != CB_NO_ERROR) {*why = "UMFindMessage"; return 1;}
               if ((g_alt++) & 1)
               {
                  UMessage child = UMInlineAddMessage(dst, name, UMGetWhatCode(&sub));
                  if (UMIsMessageReadOnly(&child)) {*why = "UMInlineAddMessage"; return 1;}
                  if (copy_fields(&child, &sub, why)) return 1;
               }
               else
               {
                  const uint32 sz = UMGetFlattenedSize(&sub) + 64; uint8 * tmp = (uint8 *) malloc(sz); UMessage t;
                  if (UMInitializeToEmptyMessage(&t, tmp, sz, UMGetWhatCode(&sub)) != CB_NO_ERROR) {*why = "UMInitializeToEmptyMessage"; return 1;}
                  if (copy_fields(&t, &sub, why)) return 1;
                  r = UMAddMessage(dst, name, t); free(tmp);
                  if (r != CB_NO_ERROR) {*why = "UMAddMessage"; return 1;}
               }
            }
         break;
         default:
            for (i=0; i<n; i++)
            {
               const void * d = NULL; uint32 nb = 0;
               if (UMFindData(src, name, tc, i, &d, &nb) != CB_NO_ERROR) {*why = "UMFindData"; return 1;}
               if (UMAddData(dst, name, tc, d, nb) != CB_NO_ERROR) {*why = "UMAddData"; return 1;}
            }
         break;
      }
      if (r != CB_NO_ERROR) {*why = "UMAdd*"; return 1;}
      UMIteratorAdvance(&it);
   }
   return 0;
}

/* native construction from the content text into msg (already initialised with its what code by the caller); 0 on success */
static int build_fields(UMessage * m, uint32 nf, char ** p, const char ** why)
{
   uint32 i, j;
   for (i=0; i<nf; i++)
   {
      uint32 nameLen, tc, n; uint8 * name = unhex(tok(p), &nameLen); c_status_t r = CB_NO_ERROR;
      tc = (uint32) strtoul(tok(p), NULL, 16); n = (uint32) strtoul(tok(p), NULL, 10);
      if (tc == B_POINTER_TYPE) {for (j=0; j<n; j++) (void) tok(p); free(name); continue;}      /* a non-flattenable field of the content: the micro codec has no such kind */
      if (tc == B_MESSAGE_TYPE)
      {
         if ((n == 0)&&(UMAddMessages(m, (const char *) name, NULL, 0) != CB_NO_ERROR)) {*why = "UMAddMessages"; return 1;}     /* a Message field with zero items */
         for (j=0; j<n; j++)
         {
            char * t = tok(p); uint32 what, snf;
            if ((t == NULL)||(strcmp(t, "M") != 0)) {*why = "syntax"; return 1;}
            what = (uint32) strtoul(tok(p), NULL, 16); snf = (uint32) strtoul(tok(p), NULL, 10);
            if ((g_alt++) & 1)
            {
               UMessage child = UMInlineAddMessage(m, (const char *) name, (g_detour & 2) ? ~what : what);
               if (UMIsMessageReadOnly(&child)) {*why = "UMInlineAddMessage"; return 1;}
               if (build_fields(&child, snf, p, why)) return 1;
               if ((g_detour & 2)&&(UMSetWhatCode(&child, what) != CB_NO_ERROR)) {*why = "UMSetWhatCode"; return 1;}
            }
            else
            {
               uint8 * tmp = (uint8 *) malloc(BUFSZ/8); UMessage s;
               if (UMInitializeToEmptyMessage(&s, tmp, BUFSZ/8, (g_detour & 2) ? ~what : what) != CB_NO_ERROR) {*why = "UMInitializeToEmptyMessage"; return 1;}
               if (build_fields(&s, snf, p, why)) return 1;
               if ((g_detour & 2)&&(UMSetWhatCode(&s, what) != CB_NO_ERROR)) {*why = "UMSetWhatCode"; return 1;}
               r = UMAddMessage(m, (const char *) name, s); free(tmp);
               if (r != CB_NO_ERROR) {*why = "UMAddMessage"; return 1;}
            }
         }
      }
      else
      {
         uint8 ** items = (uint8 **) malloc(sizeof(uint8 *) * (n + 1)); uint32 * lens = (uint32 *) malloc(sizeof(uint32) * (n + 1));
         for (j=0; j<n; j++) items[j] = unhex(tok(p), &lens[j]);
         switch(tc)
         {
/* g_detour & 1: one call per item (consecutive additions to the field being added append to it) instead of one call with the whole array */
#define ADDFIXED(TC, CT, EXPR, ADD) case TC: {CT * a = (CT *) malloc(sizeof(CT) * (n + 1)); for (j=0; j<n; j++) {const uint8 * b = items[j]; CT x; EXPR; memcpy(&a[j], &x, sizeof(CT));} \
                                              if ((g_detour & 1)&&(n >= 2)) {for (j=0; (j<n)&&(r == CB_NO_ERROR); j++) r = ADD(m, (const char *) name, &a[j], 1);} else r = ADD(m, (const char *) name, a, n); free(a);} break;
            ADDFIXED(B_BOOL_TYPE,   UBool,  x = b[0] ? UTrue : UFalse,  UMAddBools)
            ADDFIXED(B_INT8_TYPE,   int8,   x = (int8) b[0],            UMAddInt8s)
            ADDFIXED(B_INT16_TYPE,  int16,  x = (int16)(b[0] | (b[1] << 8)), UMAddInt16s)
            ADDFIXED(B_INT32_TYPE,  int32,  x = (int32) u32at(b),       UMAddInt32s)
            ADDFIXED(B_INT64_TYPE,  int64,  x = (int64) u64at(b),       UMAddInt64s)
            ADDFIXED(B_FLOAT_TYPE,  float,  x = f32at(b),               UMAddFloats)
            ADDFIXED(B_DOUBLE_TYPE, double, {uint64 v = u64at(b); memcpy(&x, &v, 8);}, UMAddDoubles)
            ADDFIXED(B_POINT_TYPE,  UPoint, {x.x = f32at(b); x.y = f32at(b+4);}, UMAddPoints)
            ADDFIXED(B_RECT_TYPE,   URect,  {x.left = f32at(b); x.top = f32at(b+4); x.right = f32at(b+8); x.bottom = f32at(b+12);}, UMAddRects)
            case B_STRING_TYPE: if ((g_detour & 1)&&(n >= 2)) {for (j=0; (j<n)&&(r == CB_NO_ERROR); j++) r = UMAddString(m, (const char *) name, (const char *) items[j]);} else r = UMAddStrings(m, (const char *) name, (const char **) items, n); break;
            default: for (j=0; j<n; j++) if (UMAddData(m, (const char *) name, tc, items[j], lens[j]) != CB_NO_ERROR) r = CB_ERROR; break;
         }
         for (j=0; j<n; j++) free(items[j]);
         free(items); free(lens);
         if (r != CB_NO_ERROR) {*why = "UMAdd*"; return 1;}
      }
      free(name);
   }
   return 0;
}

typedef struct {uint8 * buf; uint32 len, cap, pos; uint32 rnd;} Stream;
static uint32 chunk(Stream * s) {static const uint32 menu[] = {0, 1, 1, 2, 3, 7, 8, 9, 15, 100, 2039, 2040, 2041, 2048, 100000, 100000}; s->rnd = s->rnd * 1103515245u + 12345u; return menu[(s->rnd >> 16) & 15];}
static int32 sendf(const uint8 * b, uint32 n, void * arg)
{
   Stream * s = (Stream *) arg; uint32 c = chunk(s); if (c > n) c = n;
   if (s->len + c > s->cap) {s->cap = (s->len + c) * 2 + 1024; s->buf = (uint8 *) realloc(s->buf, s->cap);}
   if (c) memcpy(s->buf + s->len, b, c);
   s->len += c; return (int32) c;
}
static int32 recvf(uint8 * b, uint32 n, void * arg)
{
   Stream * s = (Stream *) arg; uint32 c = chunk(s); if (c > n) c = n; if (c > s->len - s->pos) c = s->len - s->pos;
   if (c) memcpy(b, s->buf + s->pos, c);
   s->pos += c; return (int32) c;
}

int main(void)
{
   char * line = NULL; size_t cap = 0; ssize_t got;
   g_out = fdopen(dup(1), "w"); (void) dup2(2, 1);
   uint8 * out = (uint8 *) malloc(BUFSZ); uint8 * ib = (uint8 *) malloc(BUFSZ); uint8 * ob = (uint8 *) malloc(BUFSZ);
   while ((got = getline(&line, &cap, stdin)) > 0)
   {
      char * p = line; char * cmd; const char * why = "?";
      while ((got > 0)&&((line[got-1] == '\n')||(line[got-1] == '\r'))) line[--got] = 0;
      cmd = tok(&p);
      if (cmd == NULL) continue;
      if (strcmp(cmd, "Q") == 0) break;
      if (strcmp(cmd, "U") == 0)
      {
         uint32 n; uint8 * b = unhex(tok(&p), &n); UMessage src, dst;
         if ((UMInitializeWithExistingData(&src, b, n) != CB_NO_ERROR)||(UMIsMessageValid(&src) == UFalse)) printf("E the micro reader refuses the bytes\n");
         else if (UMGetFlattenedSize(&src) != n) printf("E the micro reader sees %u bytes in a %u-byte Message\n", UMGetFlattenedSize(&src), n);
         else if (UMInitializeToEmptyMessage(&dst, out, BUFSZ, UMGetWhatCode(&src)) != CB_NO_ERROR) printf("E UMInitializeToEmptyMessage\n");
         else if (copy_fields(&dst, &src, &why)) printf("E reading / re-adding a field failed: %s\n", why);
         else {printf("K "); puthex(UMGetFlattenedBuffer(&dst), UMGetFlattenedSize(&dst)); printf("\n");}
         free(b);
      }
      else if ((strcmp(cmd, "B") == 0)||(strcmp(cmd, "D") == 0))
      {
         char * t; UMessage m; uint32 what, nf;
         g_detour = (cmd[0] == 'D') ? atoi(tok(&p)) : 0;
         t = tok(&p);
         if ((t == NULL)||(strcmp(t, "M") != 0)) printf("E syntax\n");
         else
         {
            what = (uint32) strtoul(tok(&p), NULL, 16); nf = (uint32) strtoul(tok(&p), NULL, 10);
            if (UMInitializeToEmptyMessage(&m, out, BUFSZ, (g_detour & 2) ? ~what : what) != CB_NO_ERROR) printf("E UMInitializeToEmptyMessage\n");
            else if (build_fields(&m, nf, &p, &why)) printf("E native build failed: %s\n", why);
            else if ((g_detour & 2)&&(UMSetWhatCode(&m, what) != CB_NO_ERROR)) printf("E UMSetWhatCode\n");
            else {printf("K "); puthex(UMGetFlattenedBuffer(&m), UMGetFlattenedSize(&m)); printf("\n");}
         }
      }
      else if (strcmp(cmd, "G") == 0)
      {
         Stream s; UMessageGateway gw; int bad = 0, idle = 0;
         memset(&s, 0, sizeof(s)); s.rnd = (uint32) strtoul(tok(&p), NULL, 10); g_detour = 0;
         UGGatewayInitialize(&gw, ib, BUFSZ, ob, BUFSZ);
         while ((p != NULL)&&(bad == 0))
         {
            char * save; char * t; uint32 what, nf; int tries = 0; UMessage om;
            while ((p)&&(*p == ' ')) p++;
            if ((p == NULL)||(*p == 0)) break;
            t = tok(&p);
            if ((t == NULL)||(strcmp(t, "M") != 0)) {bad = 1; break;}
            what = (uint32) strtoul(tok(&p), NULL, 16); nf = (uint32) strtoul(tok(&p), NULL, 10);
            while (bad == 0)
            {
               /* the Message is built natively, inside the gateway's output buffer, from its content */
               om = UGGetOutgoingMessage(&gw, what);
               if (UMIsMessageValid(&om))
               {
                  save = p ? strdup(p) : NULL;            /* build_fields() consumes (and cuts up) the text: keep a copy for a retry */
                  if (build_fields(&om, nf, &p, &why) == 0) {UGOutgoingMessagePrepared(&gw, &om); free(save); break;}
                  UGOutgoingMessageCancelled(&gw, &om);
                  if (save) {strcpy(line, save); p = line; free(save);} else p = NULL;
               }
               /* no room: drain the output buffer and try again */
               if ((++tries > 1000)||(UGDoOutput(&gw, (uint32) -1, sendf, &s) < 0)) bad = 1;
            }
            if ((bad == 0)&&(chunk(&s) & 1)) (void) UGDoOutput(&gw, 1 + (s.rnd >> 8) % 3000, sendf, &s);   /* some output between the Messages */
         }
         while ((bad == 0)&&(UGHasBytesToOutput(&gw))&&(idle < 1000)) {const int32 r = UGDoOutput(&gw, (chunk(&s) & 1) ? (uint32) -1 : 1 + (s.rnd >> 8) % 3000, sendf, &s); if (r < 0) bad = 1; else if (r > 0) idle = 0; else idle++;}
         if ((bad)||(UGHasBytesToOutput(&gw))) printf("E the gateway could not write the Messages\n"); else {printf("K "); puthex(s.buf, s.len); printf("\n");}
         free(s.buf);
      }
      else if (strcmp(cmd, "R") == 0)
      {
         Stream s; UMessageGateway gw; int bad = 0, idle = 0;
         memset(&s, 0, sizeof(s)); s.rnd = (uint32) strtoul(tok(&p), NULL, 10);
         s.buf = unhex(tok(&p), &s.len);
         UGGatewayInitialize(&gw, ib, BUFSZ, ob, BUFSZ);
         printf("K");
         while ((bad == 0)&&(idle < 50))
         {
            UMessage rm; int32 r;
            memset(&rm, 0, sizeof(rm));
            r = UGDoInput(&gw, (chunk(&s) & 1) ? (uint32) -1 : 1 + (s.rnd >> 8) % 3000, recvf, &s, &rm);
            if (r < 0) bad = 1;
            if ((r > 0)||(UMGetFlattenedSize(&rm) > 0)) idle = 0; else idle++;
            if ((UMGetFlattenedSize(&rm) > 0)&&(UMIsMessageValid(&rm))) {printf(" "); puthex(UMGetFlattenedBuffer(&rm), UMGetFlattenedSize(&rm));}
         }
         printf(bad ? " E\n" : "\n");
         free(s.buf);
      }
      else printf("E unknown command\n");
      fflush(g_out);
   }
   return 0;
}
