// C12 conformance harness: real PacketTunnelIOGateway / MiniPacketTunnelIOGateway senders and one receiver connected through
// scripted PacketDataIO objects (the harness is the network: it decides which packet is handed over when, how often, from whom).
//
//   tun replay   <behaviours.ndjson> <report.ndjson>
//        line 1 = {"config":{...}}, then one behaviour of spec/PacketTunnel/TunImpl.tla or MiniTunImpl.tla per line (list of `last`
//        records).  Every step is executed on the real gateways; after EVERY step the packets written / the Messages handed over
//        and the projected private state (send cursor, ReceiveState) are compared with the step (difference = DRIFT) and the
//        TunAbs monitor is evaluated on what the receiver handed over (difference = VIOLATION):
//          clause 1  every handed-over Message is byte-identical to a Message sent by the source it is attributed to;
//          clause 2  perfect network, at the end of the behaviour: per source, handed over = sent (those that fit), in order.
//   tun explore  <iterations> <seed> <report.ndjson> <trace.ndjson> <ntraces> <mtuLo> <mtuHi>
//        seeded random long runs (both tunnels, four slave kinds, 1-3 senders, ~20 packets, loss / duplication / reordering or a
//        perfect network, MTU swept over [mtuLo, mtuHi]); same monitor; the event log of the first <ntraces> runs is written
//        for validation by TLC against TunAbs (TunAbsTrace.tla).
//   tun directed <report.ndjson>
//        the directed cases: known finding F15, the inputs of the repaired findings F31 and F32 (ordinary judged cases now), id
//        wrap-around at 2^32 / 2^24, the id-collision hole of the design.
//
// Bytes of Message n of sender s: Pat(s, n, i) - at every position different for every (s, n), and position dependent - so
// any mis-assembly is visible.  Slave kinds: "exact" (a raw-data style gateway of this harness: payload = the bytes, any size
// including 0), "raw" (RawDataMessageIOGateway, sizes > 0), "msg" (MessageIOGateway), "none" (no slave: Message::Flatten).
#include <string>
#include <vector>
#include <map>
#include <set>
#include <deque>
#include <algorithm>
#include <cstdio>
#include <cstring>
// TUN_PRIVATE_STATE (on unless TUN_NO_PRIVATE_STATE is defined, see tun_public.cpp): the harness also reads the gateways' private state
// (send cursor, ReceiveStates: compared with the specification step by step, DRIFT level) and sets the id counters (wrap-around inside
// the runs).  Without it the harness uses the public API only - the property-level judging (TunAbs monitor on every delivery, exactly-once
// at quiet ends, event log) is complete either way - so a refactoring of private members cannot blind the check.
#ifndef TUN_NO_PRIVATE_STATE
# define TUN_PRIVATE_STATE 1
# define private public      // no layout change
#endif
#include "iogateway/PacketTunnelIOGateway.h"
#include "iogateway/MiniPacketTunnelIOGateway.h"
#ifdef TUN_PRIVATE_STATE
# undef private
#endif
#include "iogateway/MessageIOGateway.h"
#include "iogateway/RawDataMessageIOGateway.h"
#include "zlib/ZLibCodec.h"
#include "system/SetupSystem.h"
#include "mjson.h"
using namespace muscle;

#ifdef TUN_PRIVATE_STATE
static const bool PRIVATE_STATE = true;
#else
static const bool PRIVATE_STATE = false;
#endif
static const uint32 TUN_H = 24, MINI_PH = 12, MINI_CH = 4;
static const uint32 SLAVE_LIMIT = 1168;   // F15: ProxyIOGateway's internal ByteBufferPacketDataIO keeps MUSCLE_MAX_PAYLOAD_BYTES_PER_UDP_ETHERNET_PACKET

static inline uint8 Pat(int s, int n, uint32 i, bool comp)
{
   uint32 x = comp ? (i >> 5) : i; x = (x + 0x9E3779B9u) * 2654435761u; x ^= x >> 15; x *= 2246822519u; x ^= x >> 13;
   return (uint8) ((x & 0xFF) + (uint32) n * 37 + (uint32) s * 89);
}
// Source addresses: sender 1 = (host A, port P).  Address mode 0: sender 2 = (host B, port P), sender 3 = (host A, port Q);
// mode 1: the other way round - so that in every configuration some pair of senders differs in the host only and/or in the port only.
static int g_addrMode = 0;
static IPAddressAndPort AddrOf(int s)
{
   const int k = ((s == 2)||(s == 3)) ? ((g_addrMode == 0) ? s : (5 - s)) : s;
   const bool otherHost = (k == 2), otherPort = (k == 3);
   return IPAddressAndPort(IPAddress(0x0A000001u + (otherHost ? 1 : 0) + ((s > 3) ? (uint32) s : 0)), (uint16) (4001 + (otherPort ? 1 : 0)));
}
static int SenderOf(const IPAddressAndPort & a) {for (int s=1; s<8; s++) if (AddrOf(s) == a) return s; return -1;}

#ifdef TUN_PRIVATE_STATE
// whatever the table of ReceiveStates is keyed by: does this key stand for that source?
static bool KeyIs(const IPAddressAndPort & k, const IPAddressAndPort & a) {return k == a;}
static bool KeyIs(const IPAddress & k, const IPAddressAndPort & a) {return k == a.GetIPAddress();}
template<class K> static bool KeyIs(const K &, const IPAddressAndPort &) {return false;}
#endif

struct Packet {std::string bytes; int src;};
static uint32 Word(const std::string & p, size_t o) {return DefaultEndianConverter::Import<uint32>(p.data() + o);}
static uint8 LevelByte(const std::string & p) {return (p.size() >= 12) ? (uint8) (Word(p, 8) >> 24) : 0;}

// The scripted datagram transport of ONE gateway
class ScriptIO : public PacketDataIO
{
public:
   ScriptIO(uint32 mtu) : budget(-1), _mtu(mtu) {}
   virtual uint32 GetMaximumPacketSize() const {return _mtu;}
   virtual const IPAddressAndPort & GetPacketSendDestination() const {return _dest;}
   virtual void SetPacketSendDestination(const IPAddressAndPort & iap) {_dest = iap;}
   virtual io_status_t ReadFrom(void * b, uint32 n, IPAddressAndPort & src)
   {
      if (inq.empty()) return io_status_t();
      const Packet p = inq.front(); inq.pop_front();
      const uint32 c = muscleMin(n, (uint32) p.bytes.size());
      if (c > 0) memcpy(b, p.bytes.data(), c);
      src = AddrOf(p.src); SetSourceOfLastReadPacket(src);
      return io_status_t((int32) c);
   }
   virtual io_status_t WriteTo(const void * b, uint32 n, const IPAddressAndPort &)
   {
      if (budget == 0) return io_status_t();   // would block
      if (budget > 0) budget--;
      outq.push_back(std::string((const char *) b, n));
      return io_status_t((int32) n);
   }
   virtual void FlushOutput() {}
   virtual void Shutdown() {}
   virtual const ConstSocketRef & GetReadSelectSocket() const {return GetNullSocket();}
   virtual const ConstSocketRef & GetWriteSelectSocket() const {return GetNullSocket();}
   std::deque<Packet> inq; std::vector<std::string> outq; int budget;
private:
   uint32 _mtu; IPAddressAndPort _dest;
};

// "exact" slave: one Message = one Write() of exactly its payload bytes (also when there are none); one packet read = one Message.
static const uint32 EXACT_WHAT = 1163412564; // 'EXCT'
class ExactGateway : public AbstractMessageIOGateway
{
public:
   virtual bool HasBytesToOutput() const {return GetOutgoingMessageQueue().HasItems();}
protected:
   virtual io_status_t DoOutputImplementation(uint32)
   {
      int32 total = 0; MessageRef m;
      while(PopNextOutgoingMessage(m).IsOK())
      {
         const void * d = NULL; uint32 n = 0;
         if ((m()->FindData("d", B_RAW_TYPE, &d, &n).IsError())||(m()->GetInt32("len") == 0)) {d = ""; n = 0;}
         const io_status_t r = GetDataIO()() ? GetDataIO()()->Write(d, n) : io_status_t(B_BAD_OBJECT);
         if (r.IsError()) return r;
         total += (int32) n;
      }
      return io_status_t(total);
   }
   virtual io_status_t DoInputImplementation(AbstractGatewayMessageReceiver & receiver, uint32)
   {
      // like the library's packet-mode gateways: one read of at most GetMaximumPacketSize() bytes per packet
      ByteBufferPacketDataIO * bio = dynamic_cast<ByteBufferPacketDataIO *>(GetDataIO()());
      const uint32 mtu = GetMaximumPacketSize();
      if ((bio == NULL)||(mtu == 0)) return io_status_t(B_BAD_OBJECT);
      int32 total = 0;
      while(bio->GetBuffersToRead().HasItems())     // an empty packet is a packet too
      {
         std::string buf(mtu, '\0'); IPAddressAndPort from;
         const io_status_t r = bio->ReadFrom(&buf[0], mtu, from);
         if (r.IsError()) return r;
         MessageRef m = GetMessageFromPool(EXACT_WHAT);
         (void) m()->AddInt32("len", r.GetByteCount());
         if (r.GetByteCount() > 0) (void) m()->AddData("d", B_RAW_TYPE, buf.data(), (uint32) r.GetByteCount());
         total += r.GetByteCount();
         CallMessageReceivedFromGateway(receiver, m);
      }
      return io_status_t(total);
   }
};

enum {SL_NONE = 0, SL_EXACT, SL_RAW, SL_MSG, NUM_SL};
static const char * SLN[] = {"none", "exact", "raw", "msg"};
static int SlaveByName(const std::string & s) {for (int i=0; i<NUM_SL; i++) if (s == SLN[i]) return i; return -1;}
static AbstractMessageIOGatewayRef MakeSlave(int k)
{
   switch(k) {
      case SL_EXACT: return AbstractMessageIOGatewayRef(new ExactGateway);
      case SL_RAW:   return AbstractMessageIOGatewayRef(new RawDataMessageIOGateway);
      case SL_MSG:   return AbstractMessageIOGatewayRef(new MessageIOGateway);
      default:       return AbstractMessageIOGatewayRef(); }
}
static const uint32 MSG_WHAT = 1296122673; // 'MAG1'
static std::string Flat(const Message & m) {const uint32 n = m.FlattenedSize(); std::string s(n, '\0'); m.FlattenToBytes((uint8 *) &s[0], n); return s;}
// bytes by which the tunnel-level buffer of a Message with p payload bytes exceeds p
static uint32 Overhead(int slave)
{
   static uint32 ov[NUM_SL] = {0, 0, 0, 0}; static bool init = false;
   if (!init) { Message m(MSG_WHAT); const uint8 one = 0; (void) m.AddData("d", B_RAW_TYPE, &one, 1); ov[SL_NONE] = m.FlattenedSize() - 1; ov[SL_MSG] = ov[SL_NONE] + 8; init = true; }
   return ov[slave];
}

// what the harness knows about a Message that was handed to a sender's gateway
struct SentMsg {int s, n; uint32 total; bool comp; std::string key; bool due; std::string why;};
// total = size of the buffer the tunnel fragments (payload bytes, or header + flattened Message); key = the bytes the receiver must get back
static MessageRef Build(int slave, int s, int n, uint32 total, bool comp, SentMsg & sm)
{
   sm.s = s; sm.n = n; sm.total = total; sm.comp = comp; sm.due = true;
   const uint32 ov = Overhead(slave);
   const uint32 plen = (total >= ov) ? (total - ov) : 0;
   std::string pay(plen, '\0'); for (uint32 i=0; i<plen; i++) pay[i] = (char) Pat(s, n, i, comp);
   MessageRef m;
   if (slave == SL_EXACT) { m = GetMessageFromPool(EXACT_WHAT); (void) m()->AddInt32("len", (int32) plen); if (plen > 0) (void) m()->AddData("d", B_RAW_TYPE, pay.data(), plen); sm.key = pay; }
   else if (slave == SL_RAW) { m = GetMessageFromPool(PR_COMMAND_RAW_DATA); (void) m()->AddData(PR_NAME_DATA_CHUNKS, B_RAW_TYPE, pay.data(), plen); sm.key = pay; }
   else { m = GetMessageFromPool(MSG_WHAT); (void) m()->AddData("d", B_RAW_TYPE, pay.data(), plen); sm.key = Flat(*m()); }
   return m;
}
// the comparable bytes of a Message the receiver's gateway handed over
static std::string KeyOf(int slave, const MessageRef & m)
{
   const void * d = NULL; uint32 n = 0;
   if (slave == SL_EXACT) { if (m()->what != EXACT_WHAT) return "?what"; if (m()->FindData("d", B_RAW_TYPE, &d, &n).IsError()) n = 0; return std::string((const char *) d, n); }
   if (slave == SL_RAW)   { if (m()->FindData(PR_NAME_DATA_CHUNKS, B_ANY_TYPE, &d, &n).IsError()) n = 0; return std::string((const char *) d, n); }
   Message c(*m()); (void) c.RemoveName(PR_NAME_PACKET_REMOTE_LOCATION);
   return Flat(c);
}

struct Got {int src; std::string key;};
class Receiver : public AbstractGatewayMessageReceiver
{
public:
   Receiver() : slave(0) {}
   int slave; std::vector<Got> got;
protected:
   virtual void MessageReceivedFromGateway(const MessageRef & msg, void * userData)
   {
      Got g; g.src = userData ? SenderOf(*(const IPAddressAndPort *) userData) : -1; g.key = KeyOf(slave, msg); got.push_back(g);
   }
};

static std::string I(int64_t v) {char b[32]; snprintf(b, sizeof(b), "%lld", (long long) v); return b;}

// One system under test: senders 1..ns (index 0 unused), one receiver, the network in between
struct World
{
   bool mini; int slave; uint32 mtu; int ns; bool comp;
   std::vector<AbstractMessageIOGatewayRef> tx; std::vector<ScriptIO *> txio;
   AbstractMessageIOGatewayRef rx; ScriptIO * rxio; Receiver rcv;
   std::vector<std::vector<SentMsg> > sent;            // per sender
   std::vector<std::vector<std::string> > net;         // per sender: packets written, in order
   std::vector<std::vector<int> > cnt;                 // per sender: times handed over
   std::vector<std::vector<int> > order;               // per sender: indices in hand-over order
   std::vector<std::vector<int> > heldLevel;           // mini, per sender: non-empty while a packet is held: the levels set during the calls it lived through
   std::vector<std::set<int> > garbled;                // per sender: packets whose level byte disagrees with their payload (F32 predicate)
   std::vector<Got> all;                               // everything handed over
   uint32 maxIn;
   std::vector<std::string> violations, drift, known;
   uint64_t nPackets, nDeliveries, nCompressed, nMultiSourceCalls;

   World(bool isMini, int sl, uint32 m, int nSenders, uint32 maxIncoming) : mini(isMini), slave(sl), mtu(m), ns(nSenders), comp(false), rxio(NULL), maxIn(maxIncoming), nPackets(0), nDeliveries(0), nCompressed(0), nMultiSourceCalls(0)
   {
      packedUpTo.assign(ns + 1, 0); firstId.assign(ns + 1, 0); maybeHeld.assign(ns + 1, 0);
      tx.resize(ns + 1); txio.resize(ns + 1, NULL); sent.resize(ns + 1); net.resize(ns + 1); cnt.resize(ns + 1); order.resize(ns + 1); heldLevel.resize(ns + 1); garbled.resize(ns + 1);
      for (int s=1; s<=ns; s++) { tx[s] = Make(); txio[s] = new ScriptIO(mtu); tx[s]()->SetDataIO(DataIORef(txio[s])); }
      rx = Make(); rxio = new ScriptIO(mtu); rx()->SetDataIO(DataIORef(rxio)); rcv.slave = slave;
      if ((!mini)&&(maxIn != MUSCLE_NO_LIMIT)) T(rx)->SetMaxIncomingMessageSize(maxIn);
   }
   AbstractMessageIOGatewayRef Make() const
   {
      if (mini) return AbstractMessageIOGatewayRef(new MiniPacketTunnelIOGateway(MakeSlave(slave), mtu));
      return AbstractMessageIOGatewayRef(new PacketTunnelIOGateway(MakeSlave(slave), mtu));
   }
   // is a packet kept in the sender's output buffer (a Write() of it returned 0)?  Without access to the private state: may one be
   bool Held(int s) const
   {
#ifdef TUN_PRIVATE_STATE
      return mini ? (M(tx[s])->_outputPacketSize > 0) : (T(tx[s])->_outputPacketSize > 0);
#else
      return maybeHeld[s];
#endif
   }
   // the id of the sender's first Message / packet; false if it cannot be set (public API only: it stays 0)
   bool SetFirstId(int s, uint32 v)
   {
#ifdef TUN_PRIVATE_STATE
      if (mini) M(tx[s])->_sendPacketIDCounter = v & 0xFFFFFF; else T(tx[s])->_sendMessageIDCounter = v;
      firstId[s] = mini ? (v & 0xFFFFFF) : v; return true;
#else
      // public API only: the counters start at 0; the id fields of the packets the sender writes are rewritten to what a sender whose
      // counter started at v would have written (nothing else in the packets changes)
      firstId[s] = mini ? (v & 0xFFFFFF) : v; return true;
#endif
   }
   std::vector<char> maybeHeld;
   static PacketTunnelIOGateway * T(const AbstractMessageIOGatewayRef & g) {return static_cast<PacketTunnelIOGateway *>(g());}
   static MiniPacketTunnelIOGateway * M(const AbstractMessageIOGatewayRef & g) {return static_cast<MiniPacketTunnelIOGateway *>(g());}
   void V(const std::string & s) {if (violations.size() < 6) violations.push_back(s);}
   void D(const std::string & s) {if (drift.size() < 6) drift.push_back(s);}
   void K(const std::string & s) {if (known.size() < 6) known.push_back(s);}

   // AddOutgoingMessage of sender s's next Message, `total` tunnel-level bytes
   const SentMsg & Send(int s, uint32 total)
   {
      SentMsg sm; MessageRef m = Build(slave, s, (int) sent[s].size() + 1, total, comp, sm);
      if (mini) { if (MINI_PH + MINI_CH + total > mtu) {sm.due = false; sm.why = "larger than a packet";} }
      else if (total > maxIn) {sm.due = false; sm.why = "larger than the receiver's limit";}
      sent[s].push_back(sm);
      if (tx[s]()->AddOutgoingMessage(m).IsError()) D("AddOutgoingMessage failed");
      return sent[s].back();
   }
   // DoOutput of sender s; mode 0 = all, 1 = one packet (maxBytes 1), 2 = the IO accepts nothing; returns the index of the first new packet
   size_t Out(int s, int mode, int level)
   {
      if (mini)
      {
         M(tx[s])->SetZLibCompressionLevel((uint8) level);
         if (Held(s)) heldLevel[s].push_back(level);   // a held packet lives through this call too
      }
      const bool hadWork = (tx[s]()->HasBytesToOutput())||(Held(s));
      const size_t first = net[s].size();
      txio[s]->budget = (mode == 2) ? 0 : -1;
      (void) tx[s]()->DoOutput((mode == 1) ? 1 : MUSCLE_NO_LIMIT);
      txio[s]->budget = -1;
      maybeHeld[s] = ((mode == 2)&&(hadWork)) ? 1 : 0;
      if (getenv("TUN_DEBUG")) fprintf(stderr, "Out s=%d mode=%d level=%d wrote=%zu held=%d\n", s, mode, level, txio[s]->outq.size(), (int) Held(s));
      for (size_t i=0; i<txio[s]->outq.size(); i++)
      {
#ifndef TUN_PRIVATE_STATE
         if (firstId[s] != 0)
         {
            std::string & q = txio[s]->outq[i];
            if (mini) { if (q.size() >= MINI_PH) { const uint32 w = Word(q, 8); DefaultEndianConverter::Export((w & 0xFF000000u) | ((w + firstId[s]) & 0xFFFFFFu), &q[8]); } }
            else { size_t o = 0; while(o + TUN_H <= q.size()) { const uint32 id = Word(q, o + 8) + firstId[s]; const uint32 chunk = Word(q, o + 16); DefaultEndianConverter::Export(id, &q[o + 8]); o += TUN_H + chunk; } }
         }
#endif
         const std::string & p = txio[s]->outq[i];
         if (mini)
         {
            // (repaired) F32: was this packet held (an earlier Write() of it returned 0) and does its level byte disagree with its payload?
            AccountMiniPacket(s, p, (i == 0)&&(!heldLevel[s].empty()));
            if (LevelByte(p) != 0) nCompressed++;
            heldLevel[s].clear();
         }
         else if (maxIn != MUSCLE_NO_LIMIT) AccountTunPacket(s, p, firstId[s]);
         net[s].push_back(p); cnt[s].push_back(0); nPackets++;
      }
      txio[s]->outq.clear();
      if (mini) { if (Held(s)) {if (heldLevel[s].empty()) heldLevel[s].push_back(level);} else heldLevel[s].clear(); }
      return first;
   }
   // does the level byte of a mini-tunnel packet disagree with its payload?
   static bool MiniGarbled(const std::string & p)
   {
      if (p.size() < MINI_PH) return false;
      const uint8 lvl = LevelByte(p);
      if (lvl > 0) { ZLibCodec c(3); return c.Inflate((const uint8 *) p.data() + MINI_PH, (uint32) p.size() - MINI_PH)() == NULL; }
      size_t o = MINI_PH; while(o + 4 <= p.size()) { const uint32 z = DefaultEndianConverter::Import<uint32>(p.data() + o); if (z > p.size() - o - 4) return true; o += 4 + z; }
      return o != p.size();
   }
   // how many chunks a mini-tunnel packet carries; reads the payload the way its level byte says, or the other way if `otherWay`
   static int CountChunks(const std::string & p, bool otherWay)
   {
      if (p.size() < MINI_PH) return 0;
      std::string plain;
      if ((LevelByte(p) > 0) == otherWay) plain = p.substr(MINI_PH);
      else { ZLibCodec c(3); ByteBufferRef b = c.Inflate((const uint8 *) p.data() + MINI_PH, (uint32) p.size() - MINI_PH); if (b() == NULL) return 0; plain.assign((const char *) b()->GetBuffer(), b()->GetNumBytes()); }
      size_t o = 0; int n = 0;
      while(o + 4 <= plain.size()) { const uint32 z = Word(plain, o); if (z > plain.size() - o - 4) break; o += 4 + z; n++; }
      return n;
   }
   // mini tunnel: the chunks of the packets are the sender's Messages that fit, in order - which Messages travel in the packet just written
   void AccountMiniPacket(int s, const std::string & p, bool wasHeld)
   {
      const bool garbledNow = wasHeld && MiniGarbled(p);
      const int nc = CountChunks(p, garbledNow);
      if (garbledNow) garbled[s].insert((int) net[s].size());
      for (int i=0; i<nc; i++)
      {
         while((packedUpTo[s] < sent[s].size())&&(!sent[s][packedUpTo[s]].due)) packedUpTo[s]++;    // the sender drops what can never fit
         if (packedUpTo[s] >= sent[s].size()) break;
         if (garbledNow) garbledMsgs.insert(std::make_pair(s, sent[s][packedUpTo[s]].n));
         packedUpTo[s]++;
      }
   }
   // tunnel: the circumstances of (repaired) F31 evaluated on the packet just written
   void AccountTunPacket(int s, const std::string & p, uint32 idOfFirst)
   {
      size_t o = 0; bool over = false;
      while(o + TUN_H <= p.size())
      {
         const uint32 id = Word(p, o + 8), chunk = Word(p, o + 16), tot = Word(p, o + 20);
         const int n = (int) (uint32) (id - idOfFirst) + 1;
         if ((over)&&(tot <= maxIn)&&(n >= 1)&&(n <= (int) sent[s].size())) excusedSet.insert(std::make_pair(s, n));   // diagnosis only
         if (tot > maxIn) over = true;
         o += TUN_H + chunk;
      }
   }
   std::set<std::pair<int,int> > excusedSet;
   std::vector<size_t> packedUpTo;
   std::vector<uint32> firstId;                         // per sender: the id of its first Message

   // the network hands a copy of packet k (1-based) of sender s to the receiver's gateway: one DoInput call; returns what was handed over
   std::vector<Got> Deliver(int s, int k) {Arrive(s, k); return Drain(s, k);}
   // a copy of packet k of sender s arrives in the receiver's socket (the PacketDataIO reports every packet's own source); no call yet
   void Arrive(int s, int k)
   {
      Packet p; p.bytes = net[s][k - 1]; p.src = s; rxio->inq.push_back(p);
      cnt[s][k - 1]++; order[s].push_back(k);
   }
   // ONE DoInput() call: reads everything that waits; (s, k) = the last packet that arrived, for the diagnosis
   std::vector<Got> Drain(int s, int k)
   {
      std::set<int> srcs; for (size_t i=0; i<rxio->inq.size(); i++) srcs.insert(rxio->inq[i].src);
      if (srcs.size() >= 2) nMultiSourceCalls++;
      rcv.got.clear();
      (void) rx()->DoInput(rcv);
      if (!rxio->inq.empty()) {D("the receiving gateway did not read all the packets that waited"); rxio->inq.clear();}
      std::vector<Got> r = rcv.got;
      for (size_t i=0; i<r.size(); i++) { nDeliveries++; all.push_back(r[i]); Clause1(r[i], s, k); }
      return r;
   }
   // clause 1: byte-identical to a Message sent by the source it is attributed to
   int FindSent(int src, const std::string & key, int after) const
   {
      if ((src < 1)||(src > ns)) return 0;
      for (size_t i=0; i<sent[src].size(); i++) if (((int) i + 1 > after)&&(sent[src][i].key == key)) return (int) i + 1;
      for (size_t i=0; i<sent[src].size(); i++) if (sent[src][i].key == key) return (int) i + 1;
      return 0;
   }
   void Clause1(const Got & g, int s, int k)
   {
      if (FindSent(g.src, g.key, 0) > 0) return;
      std::string w = "the receiver handed over a Message of " + I((int64_t) g.key.size()) + " bytes attributed to source " + I(g.src) + " (packet " + I(k) + " of sender " + I(s) + ") that is not byte-identical to any Message that source sent: " + Describe(g.key);
      V(w);
   }
   // decodes bytes as runs of (sender, Message number, offset): for the diagnosis and for the trace given to TLC
   std::vector<std::vector<int64_t> > Runs(const std::string & key, uint32 skip) const
   {
      std::vector<std::vector<int64_t> > out;
      size_t p = skip;
      while(p < key.size())
      {
         int bs = 0, bn = 0; size_t bl = 0;
         for (int s=1; s<=ns; s++) for (size_t j=0; j<sent[s].size(); j++)
         {
            const SentMsg & m = sent[s][j]; size_t l = 0;
            while((p + l < key.size())&&((uint8) key[p + l] == Pat(s, m.n, (uint32) (p + l - skip), m.comp))) l++;
            if (l > bl) {bl = l; bs = s; bn = m.n;}
         }
         std::vector<int64_t> r;
         if (bl == 0)
         {
            // a byte that belongs to no Message at this position: merged with its garbage neighbours
            if ((!out.empty())&&(out.back()[0] == 0)) {out.back()[3]++; p++; continue;}
            r.push_back(0); r.push_back(0); r.push_back((int64_t) (p - skip)); r.push_back(1); p++;
         }
         else { r.push_back(bs); r.push_back(bn); r.push_back((int64_t) (p - skip)); r.push_back((int64_t) bl); p += bl; }
         out.push_back(r);
      }
      return out;
   }
   std::string Describe(const std::string & key) const
   {
      const bool payloadOnly = (slave == SL_EXACT)||(slave == SL_RAW);
      if (!payloadOnly) return "(flattened Message)";
      std::vector<std::vector<int64_t> > r = Runs(key, 0); std::string s = "bytes =";
      for (size_t i=0; (i<r.size())&&(i<8); i++) s += " [sender " + I(r[i][0]) + " msg " + I(r[i][1]) + " offset " + I(r[i][2]) + " len " + I(r[i][3]) + "]";
      return s;
   }
   // the circumstances of (repaired) F31: a fragment of Message (s, n) follows, in the same packet, a fragment of a Message larger than the receiver's limit
   bool Collateral(int s, int n, uint32 idOfFirst) const
   {
      if (mini) return false;
      for (size_t k=0; k<net[s].size(); k++)
      {
         const std::string & p = net[s][k]; size_t o = 0; bool over = false;
         while(o + TUN_H <= p.size())
         {
            const uint32 id = DefaultEndianConverter::Import<uint32>(p.data() + o + 8), chunk = DefaultEndianConverter::Import<uint32>(p.data() + o + 16), tot = DefaultEndianConverter::Import<uint32>(p.data() + o + 20);
            if ((over)&&((uint32) (id - idOfFirst) == (uint32) (n - 1))) return true;
            if (tot > maxIn) over = true;
            o += TUN_H + chunk;
         }
      }
      return false;
   }
   // the circumstances of (repaired) F32: Message (s, n) travelled in a packet that was held and whose level byte disagrees with its payload
   bool InGarbled(int s, int n) const
   {
      // chunks carry no number: locate the Message by counting the chunks of the packets before (garbled packets: by size bookkeeping of the harness)
      return garbledMsgs.count(std::make_pair(s, n)) > 0;
   }
   std::set<std::pair<int,int> > garbledMsgs;

   bool Quiet() const
   {
      if (!rxio->inq.empty()) return false;
      for (int s=1; s<=ns; s++)
      {
         if (tx[s]()->HasBytesToOutput()) return false;
         if (Held(s)) return false;
         for (size_t k=0; k<cnt[s].size(); k++) if (cnt[s][k] != 1) return false;
         for (size_t k=0; k<order[s].size(); k++) if (order[s][k] != (int) k + 1) return false;
      }
      return true;
   }
   // clause 2, to be called when the network was perfect and everything was written and handed over:
   // per source, the Messages handed over = the sent Messages that are required, in order, where a Message is
   //   required  if it fits the limits and no open known finding's predicate covers it,
   //   optional  otherwise (outside the limits: the documentation is silent; covered by a known finding: reported as such when lost).
   // Equal Messages (e.g. two empty ones) are interchangeable, so this is a sequence alignment, not a greedy scan.
   const char * Excuse(const SentMsg & m, uint32 idOfFirst) const
   {
      (void) idOfFirst;
      if (!m.due) return "limits";
      if ((slave != SL_NONE)&&(m.total > SLAVE_LIMIT)) return "F15";     // the only open known finding of this property
      return NULL;
   }
   void Clause2(const std::vector<uint32> & idOfFirst)
   {
      for (int s=1; s<=ns; s++)
      {
         std::vector<const Got *> g; for (size_t i=0; i<all.size(); i++) if (all[i].src == s) g.push_back(&all[i]);
         const std::vector<SentMsg> & m = sent[s];
         const size_t NS = m.size(), NG = g.size();
         std::vector<const char *> ex(NS); for (size_t j=0; j<NS; j++) ex[j] = Excuse(m[j], idOfFirst[s]);
         // ok[j][i]: sent[j..] can explain got[i..]
         std::vector<std::vector<char> > ok(NS + 1, std::vector<char>(NG + 1, 0));
         ok[NS][NG] = 1;
         for (size_t jj=NS; jj-- > 0;) for (size_t ii=NG + 1; ii-- > 0;)
         {
            bool r = false;
            if ((ii < NG)&&(g[ii]->key == m[jj].key)&&(ok[jj + 1][ii + 1])) r = true;
            if ((!r)&&(ex[jj])&&(ok[jj + 1][ii])) r = true;
            ok[jj][ii] = r ? 1 : 0;
         }
         if (ok[0][0])
         {
            // walk one alignment (preferring "handed over") to report the losses that known findings explain
            size_t ii = 0;
            for (size_t jj=0; jj<NS; jj++)
            {
               if ((ii < NG)&&(g[ii]->key == m[jj].key)&&(ok[jj + 1][ii + 1])) {ii++; continue;}
               const std::string e = ex[jj];
               if (e == "F15") K("F15: Message " + I(m[jj].n) + " of sender " + I(s) + " (" + I(m[jj].total) + " slave-encoded bytes > 1168) was lost on a perfect network");
            }
            continue;
         }
         // diagnosis: the longest prefix that can be explained
         size_t jj = 0, ii = 0;
         while(jj < NS) { if ((ii < NG)&&(g[ii]->key == m[jj].key)) {ii++; jj++;} else if (ex[jj]) jj++; else break; }
         if (jj < NS)
         {
            std::string why;
            if (Collateral(s, m[jj].n, idOfFirst[s])) why = " [a fragment of it follows a fragment of an over-limit Message in the same packet: the circumstances of repaired finding F31]";
            else if (InGarbled(s, m[jj].n)) why = " [its packet was held because Write() returned 0 and its compression-level byte disagrees with its payload: the circumstances of repaired finding F32]";
            V("perfect network: Message " + I(m[jj].n) + " of sender " + I(s) + " (" + I(m[jj].total) + " bytes, fits the limits) was not handed over in its turn (" + I((int64_t) NG) + " Messages from that source arrived, " + I((int64_t) NS) + " were sent)" + why);
         }
         else V("perfect network: source " + I(s) + " delivered more / other Messages than were sent, in order: extra Message #" + I((int64_t) ii + 1) + " of " + I((int64_t) NG) + ": " + Describe(g[ii]->key));
         return;
      }
   }
};

// ------------------------------------------------------------------------------------------------------
// replay of TLC behaviours

struct Cfg
{
   bool mini; uint32 unit, mtu; int ns; bool perfect; int64_t maxin; int slave; uint32 idbase; int64_t firstid, idspace; bool comp;
};

static mj::Value Strs(const std::vector<std::string> & v) {mj::Value a = mj::Value::Arr(); for (size_t i=0; i<v.size(); i++) a.push(mj::Value::Str(v[i])); return a;}

// the fragments of a tunnel packet: (id, off, len, tot) and whether the data bytes are bytes [off, off+len) of Message (s, n)
struct Frag {uint32 id, off, len, tot;};
static bool ParseTun(const std::string & p, std::vector<Frag> & out)
{
   size_t o = 0;
   while(o < p.size())
   {
      if (o + TUN_H > p.size()) return false;
      Frag f; if (DefaultEndianConverter::Import<uint32>(p.data() + o) != DEFAULT_TUNNEL_IOGATEWAY_MAGIC) return false;
      f.id = DefaultEndianConverter::Import<uint32>(p.data() + o + 8); f.off = DefaultEndianConverter::Import<uint32>(p.data() + o + 12);
      f.len = DefaultEndianConverter::Import<uint32>(p.data() + o + 16); f.tot = DefaultEndianConverter::Import<uint32>(p.data() + o + 20);
      if (o + TUN_H + f.len > p.size()) return false;
      out.push_back(f); o += TUN_H + f.len;
   }
   return true;
}

static void ReplayOne(const Cfg & c, const mj::Value & beh, mj::Value & rep, uint64_t * tot)
{
   const uint32 U = c.unit;
   World w(c.mini, c.slave, c.mtu * U, c.ns, ((!c.mini)&&(c.maxin >= 0)) ? (uint32) (c.maxin * U) : MUSCLE_NO_LIMIT);
   w.comp = c.comp;
   std::vector<uint32> idOfFirst(c.ns + 1, c.idbase);
   for (int s=1; s<=c.ns; s++) (void) w.SetFirstId(s, c.idbase);      // (c.idbase is 0 when the counters cannot be set)
   const mj::Value & steps = beh["steps"];
   // stop = the code has left the behaviour: the remaining steps are still executed (as far as they can be) and judged by the
   // TunAbs monitor, but no longer compared with the specification
   bool stop = false;
   for (size_t i=0; i<steps.size(); i++)
   {
      const mj::Value & st = steps[i]; const std::string a = st["a"].str(); const int s = (int) st["s"].i();
      const std::string at = "step " + I((int64_t) i + 1) + " " + a + ": ";
      tot[0]++;
      if (stop)
      {
         if (a == "Send") (void) w.Send(s, (uint32) st["z"].i() * U);
         else if (a == "Out") { const std::string mode = st["mode"].str(); (void) w.Out(s, (mode == "all") ? 0 : ((mode == "one") ? 1 : 2), c.mini ? (int) st["lvl"].i() : 0); }
         else if ((a == "Deliver")||(a == "Arrive")) { const int k = (int) st["k"].i(); if ((k >= 1)&&(k <= (int) w.net[s].size())&&((!c.perfect)||((w.cnt[s][k - 1] == 0)&&((k == 1)||(w.cnt[s][k - 2] == 1))))) { w.Arrive(s, k); if (a == "Deliver") (void) w.Drain(s, k); } }
         else if (a == "Drain") (void) w.Drain(s, 0);
         if (!w.violations.empty()) break;
         continue;
      }
      if (a == "Send") (void) w.Send(s, (uint32) st["z"].i() * U);
      else if (a == "Out")
      {
         const std::string mode = st["mode"].str();
         const size_t first = w.Out(s, (mode == "all") ? 0 : ((mode == "one") ? 1 : 2), c.mini ? (int) st["lvl"].i() : 0);
         const mj::Value & pk = st["pkts"];
         if (w.net[s].size() - first != pk.size()) {w.D(at + "wrote " + I((int64_t) (w.net[s].size() - first)) + " packets, the specification " + I((int64_t) pk.size())); stop = true;}
         else for (size_t k=0; k<pk.size(); k++)
         {
            const std::string & p = w.net[s][first + k];
            if (!c.mini)
            {
               std::vector<Frag> fr; const bool ok = ParseTun(p, fr);
               if ((!ok)||(fr.size() != pk[k].size())) {w.D(at + "packet " + I((int64_t) (first + k + 1)) + " has " + I((int64_t) fr.size()) + " fragments, the specification " + I((int64_t) pk[k].size())); stop = true; continue;}
               size_t o = 0;
               if ((fr.size() >= 2)&&(fr.back().off + fr.back().len < fr.back().tot)) tot[c.perfect ? 5 : 6]++;   // a packet shared by several fragments whose last Message continues in the next packet
               for (size_t j=0; j<fr.size(); j++)
               {
                  const mj::Value & f = pk[k][j];
                  const uint32 eid = c.idbase + (uint32) ((f["id"].i() - c.firstid + c.idspace) % c.idspace);
                  if ((fr[j].id != eid)||(fr[j].off != f["off"].i() * U)||(fr[j].len != f["len"].i() * U)||(fr[j].tot != f["tot"].i() * U))
                     {w.D(at + "packet " + I((int64_t) (first + k + 1)) + " fragment " + I((int64_t) j + 1) + " header (id " + I(fr[j].id) + " off " + I(fr[j].off) + " len " + I(fr[j].len) + " tot " + I(fr[j].tot) + ") differs from the specification's (id " + I(eid) + " off " + I(f["off"].i() * U) + " len " + I(f["len"].i() * U) + " tot " + I(f["tot"].i() * U) + ")"); stop = true;}
                  else
                  {
                     // the data must be bytes [off, off+len) of the buffer of Message n
                     const int n = (int) f["n"].i();
                     if ((n >= 1)&&(n <= (int) w.sent[s].size())&&((c.slave == SL_EXACT)||(c.slave == SL_RAW)))
                        if (p.compare(o + TUN_H, fr[j].len, w.sent[s][n - 1].key, fr[j].off, fr[j].len) != 0) w.D(at + "packet " + I((int64_t) (first + k + 1)) + " fragment " + I((int64_t) j + 1) + " does not carry bytes " + I(fr[j].off) + ".. of Message " + I(n));
                  }
                  o += TUN_H + fr[j].len;
               }
            }
            else
            {
               const mj::Value & ch = pk[k]["chunks"];
               uint32 plain = MINI_PH; for (size_t j=0; j<ch.size(); j++) plain += MINI_CH + (uint32) ch[j]["size"].i() * U;
               const uint8 lvl = LevelByte(p);
               const bool z = (p.size() != plain);
               const uint32 pid = (p.size() >= MINI_PH) ? (DefaultEndianConverter::Import<uint32>(p.data() + 8) & 0xFFFFFF) : 0;
               const uint32 epid = (c.idbase + (uint32) ((pk[k]["pid"].i() - c.firstid + c.idspace) % c.idspace)) & 0xFFFFFF;
               if ((z != pk[k]["z"].truthy())||(((int) lvl) != (int) pk[k]["hl"].i())||(pid != epid))
                  {w.D(at + "packet " + I((int64_t) (first + k + 1)) + ": " + I((int64_t) p.size()) + " bytes (plain would be " + I(plain) + "), level byte " + I(lvl) + ", packet id " + I(pid) + "; the specification: deflated=" + I(pk[k]["z"].truthy()) + " level byte " + I(pk[k]["hl"].i()) + " packet id " + I(epid)); stop = true;}
               if ((!z)&&(p.size() == plain))
               {
                  size_t o = MINI_PH;
                  for (size_t j=0; j<ch.size(); j++) { const uint32 zz = (uint32) ch[j]["size"].i() * U; const int n = (int) ch[j]["n"].i();
                     if ((DefaultEndianConverter::Import<uint32>(p.data() + o) != zz)||((n >= 1)&&(n <= (int) w.sent[s].size())&&(p.compare(o + MINI_CH, zz, w.sent[s][n - 1].key) != 0)&&((c.slave == SL_EXACT)||(c.slave == SL_RAW)))) w.D(at + "packet " + I((int64_t) (first + k + 1)) + " chunk " + I((int64_t) j + 1) + " is not Message " + I(n));
                     o += MINI_CH + zz; }
               }
            }
         }
         // projected send cursor
#ifdef TUN_PRIVATE_STATE
         if (!stop)
         {
            if (!c.mini)
            {
               PacketTunnelIOGateway * g = World::T(w.tx[s]);
               const uint32 esid = c.idbase + (uint32) ((st["sid"].i() - c.firstid + c.idspace) % c.idspace);
               const uint32 left = g->_currentOutputBuffers.GetNumItems() + g->GetOutgoingMessageQueue().GetNumItems();
               if ((g->_sendMessageIDCounter != esid)||(g->_currentOutputBufferOffset != st["coff"].i() * U)||(g->_outputPacketSize != st["held"].i() * U)||(left != (uint32) st["left"].i()))
                  w.D(at + "send cursor (id " + I(g->_sendMessageIDCounter) + " offset " + I(g->_currentOutputBufferOffset) + " held " + I(g->_outputPacketSize) + " queued " + I(left) + ") differs from the specification's (id " + I(esid) + " offset " + I(st["coff"].i() * U) + " held " + I(st["held"].i() * U) + " queued " + I(st["left"].i()) + ")");
            }
            else
            {
               MiniPacketTunnelIOGateway * g = World::M(w.tx[s]);
               const uint32 left = g->_currentOutputBuffers.GetNumItems() + g->GetOutgoingMessageQueue().GetNumItems();
               const uint32 epid = (c.idbase + (uint32) ((st["pid"].i() - c.firstid + c.idspace) % c.idspace)) & 0xFFFFFF;
               if ((g->_sendPacketIDCounter != epid)||(g->_outputPacketSize != st["held"].i() * U)||(left != (uint32) st["left"].i()))
                  w.D(at + "send cursor (packet id " + I(g->_sendPacketIDCounter) + " held " + I(g->_outputPacketSize) + " queued " + I(left) + ") differs from the specification's (packet id " + I(epid) + " held " + I(st["held"].i() * U) + " queued " + I(st["left"].i()) + ")");
            }
         }
#endif
      }
      else if (a == "Arrive")
      {
         const int k = (int) st["k"].i();
         if ((k < 1)||(k > (int) w.net[s].size())) {w.D(at + "no such packet"); stop = true; continue;}
         w.Arrive(s, k);
      }
      else if ((a == "Deliver")||(a == "Drain"))
      {
         const bool drainOnly = (a == "Drain");
         const int k = drainOnly ? 0 : (int) st["k"].i();
         if ((!drainOnly)&&((k < 1)||(k > (int) w.net[s].size()))) {w.D(at + "no such packet"); stop = true; continue;}
         if (!drainOnly) w.Arrive(s, k);
         const std::vector<Got> g = w.Drain(s, k);
         const mj::Value & dl = st["dl"];
         // expected buffers, as bytes
         bool same = (g.size() == dl.size());
         for (size_t j=0; (same)&&(j<dl.size()); j++)
         {
            const mj::Value & runs = dl[j]["buf"];
            if (g[j].src != (int) dl[j]["s"].i()) {same = false; break;}
            if ((c.slave == SL_EXACT)||(c.slave == SL_RAW))
            {
               std::string e;
               for (size_t r=0; r<runs.size(); r++) { const int rs = (int) runs[r]["s"].i(), rn = (int) runs[r]["n"].i(); const uint32 ro = (uint32) runs[r]["o"].i() * U, rl = (uint32) runs[r]["l"].i() * U;
                  for (uint32 b=0; b<rl; b++) e += (char) ((rs == 0) ? 0 : Pat(rs, rn, ro + b, c.comp)); }
               if (e != g[j].key) same = false;
            }
            else
            {
               // the expected buffer must be one whole Message: compare with what was sent
               if ((runs.size() != 1)||(runs[(size_t) 0]["o"].i() != 0)) {same = false; break;}
               const int rs = (int) runs[(size_t) 0]["s"].i(), rn = (int) runs[(size_t) 0]["n"].i();
               if ((rs < 1)||(rs > c.ns)||(rn < 1)||(rn > (int) w.sent[rs].size())||(w.sent[rs][rn - 1].key != g[j].key)) same = false;
            }
         }
         if (!same)
         {
            std::string d = at + "packet " + I(k) + " of sender " + I(s) + ": the receiver handed over " + I((int64_t) g.size()) + " Messages, the specification " + I((int64_t) dl.size());
            for (size_t j=0; (j<g.size())&&(j<3); j++) d += "; got #" + I((int64_t) j + 1) + " from " + I(g[j].src) + " " + I((int64_t) g[j].key.size()) + " bytes " + w.Describe(g[j].key);
            w.D(d); stop = true;
         }
#ifdef TUN_PRIVATE_STATE
         if ((!c.mini)&&(!stop)&&(!drainOnly))
         {
            // the ReceiveState of source s, found by walking the table (whatever it is keyed by)
            const PacketTunnelIOGateway * r = World::T(w.rx);
            const IPAddressAndPort src = AddrOf(s);
            bool have = false; uint32 id = 0, off = 0, size = 0;
            for (auto it = r->_receiveStates.GetIterator(); it.HasData(); it++)
               if (KeyIs(it.GetKey(), src)) { have = true; id = it.GetValue()._messageID; off = it.GetValue()._offset; size = it.GetValue()._buf() ? it.GetValue()._buf()->GetNumBytes() : 0; }
            if (have != st["have"].truthy()) w.D(at + "ReceiveState of source " + I(s) + (have ? " exists" : " does not exist") + ", the specification says otherwise");
            else if (have)
            {
               const uint32 eid = c.idbase + (uint32) ((st["id"].i() - c.firstid + c.idspace) % c.idspace);
               if ((id != eid)||(off != st["off"].i() * U)||(size != st["size"].i() * U))
                  w.D(at + "ReceiveState of source " + I(s) + " (id " + I(id) + " offset " + I(off) + " size " + I(size) + ") differs from the specification's (id " + I(eid) + " offset " + I(st["off"].i() * U) + " size " + I(st["size"].i() * U) + ")");
            }
         }
#endif
      }
      else {w.D(at + "unknown action"); stop = true;}
      if (!w.violations.empty()) break;
   }
   if ((c.perfect)&&(stop)&&(w.violations.empty()))
   {
      // the code left the behaviour: bring the perfect network to rest so that clause 2 can still be judged
      for (int s=1; s<=c.ns; s++) { int gd = 0; while(((w.tx[s]()->HasBytesToOutput())||(w.Held(s)))&&(gd++ < 1000)) (void) w.Out(s, 0, 0); }
      if (!w.rxio->inq.empty()) (void) w.Drain(1, 0);
      for (int s=1; s<=c.ns; s++) for (size_t k=0; (k<w.net[s].size())&&(w.violations.empty()); k++) if (w.cnt[s][k] == 0) (void) w.Deliver(s, (int) k + 1);
   }
   if ((c.perfect)&&(w.violations.empty())&&(w.Quiet())) {w.Clause2(idOfFirst); tot[4]++;}
   tot[1] += w.nPackets; tot[2] += w.nDeliveries; tot[3] += w.nCompressed; tot[7] += w.nMultiSourceCalls;
   rep = mj::Value::Obj(); rep.set("behaviour", beh["id"]).set("slave", mj::Value::Str(SLN[c.slave]));
   if (!w.violations.empty()) rep.set("violations", Strs(w.violations));
   if (!w.drift.empty()) rep.set("drift", Strs(w.drift));
   if (!w.known.empty()) rep.set("known", Strs(w.known));
   if ((!w.violations.empty())||(!w.drift.empty())) rep.set("steps", steps);
}

static bool ReadLines(const char * path, std::vector<std::string> & lines)
{
   FILE * f = fopen(path, "r"); if (!f) return false;
   std::string cur; char buf[65536]; size_t n;
   while((n = fread(buf, 1, sizeof(buf), f)) > 0) for (size_t i=0; i<n; i++) { if (buf[i] == '\n') {if (!cur.empty()) lines.push_back(cur); cur.clear();} else cur += buf[i]; }
   if (!cur.empty()) lines.push_back(cur);
   fclose(f); return true;
}
static void WriteLine(FILE * f, const mj::Value & v) {std::string s; mj::Write(v, s); s += '\n'; fwrite(s.data(), 1, s.size(), f);}

static int Replay(const char * in, const char * out)
{
   std::vector<std::string> lines; if (!ReadLines(in, lines) || lines.empty()) {fprintf(stderr, "cannot read %s\n", in); return 3;}
   mj::Value hv; if (!mj::Parse(lines[0], hv) || !hv.has("config")) {fprintf(stderr, "no config line\n"); return 3;}
   const mj::Value & cv = hv["config"];
   Cfg c; c.mini = (cv["kind"].str() == "mini"); c.unit = (uint32) cv["unit"].i(); c.mtu = (uint32) cv["mtu"].i(); c.ns = (int) cv["senders"].i(); c.perfect = cv["perfect"].truthy();
   c.maxin = cv.has("maxin") ? cv["maxin"].i() : -1; c.slave = SlaveByName(cv["slave"].str()); c.idbase = (uint32) cv["idbase"].i(); c.firstid = cv["firstid"].i(); c.idspace = cv["idspace"].i(); c.comp = cv["compressible"].truthy();
   if ((c.slave < 0)||(c.unit == 0)||(c.idspace <= 0)) {fprintf(stderr, "bad config\n"); return 3;}
   g_addrMode = (int) cv["addrmode"].i();
   FILE * fo = fopen(out, "w"); if (!fo) return 3;
   uint64_t tot[8] = {0, 0, 0, 0, 0, 0, 0, 0}; uint64_t nb = 0, followed = 0, drifted = 0, violated = 0, knownHits = 0;
   for (size_t i=1; i<lines.size(); i++)
   {
      mj::Value b; if (!mj::Parse(lines[i], b)) {fprintf(stderr, "bad line %zu\n", i); fclose(fo); return 3;}
      mj::Value rep; ReplayOne(c, b, rep, tot); nb++;
      const bool v = rep.has("violations"), d = rep.has("drift"), k = rep.has("known");
      if (v) violated++; else if (d) drifted++; else followed++;
      if (k) knownHits++;
      if (v || d || k) WriteLine(fo, rep);
   }
   mj::Value s = mj::Value::Obj();
   s.set("summary", mj::Value::Bool(true)).set("behaviours", mj::Value::Int((int64_t) nb)).set("followed", mj::Value::Int((int64_t) followed)).set("drifted", mj::Value::Int((int64_t) drifted)).set("violated", mj::Value::Int((int64_t) violated))
    .set("known", mj::Value::Int((int64_t) knownHits)).set("steps", mj::Value::Int((int64_t) tot[0])).set("packets", mj::Value::Int((int64_t) tot[1])).set("deliveries", mj::Value::Int((int64_t) tot[2]))
    .set("compressed_packets", mj::Value::Int((int64_t) tot[3])).set("clause2_judged", mj::Value::Int((int64_t) tot[4])).set("slave", mj::Value::Str(SLN[c.slave]))
    .set("private_state", mj::Value::Bool(PRIVATE_STATE)).set("multi_source_calls", mj::Value::Int((int64_t) tot[7])).set("shared_split_packets_perfect", mj::Value::Int((int64_t) tot[5])).set("shared_split_packets_faulty", mj::Value::Int((int64_t) tot[6]));
   WriteLine(fo, s); fclose(fo);
   return 0;
}

// ------------------------------------------------------------------------------------------------------
// seeded random long runs

struct Rng {uint64_t s; Rng(uint64_t seed) : s(seed * 0x9E3779B97F4A7C15ULL + 0x1234567) {for (int i=0; i<4; i++) Next();}
   uint64_t Next() {s ^= s << 13; s ^= s >> 7; s ^= s << 17; return s;}
   uint32 R(uint32 n) {return n ? (uint32) ((Next() >> 11) % n) : 0;} };

struct TraceOut
{
   FILE * f; uint64_t lines;
   TraceOut() : f(NULL), lines(0) {}
   void Ev(const mj::Value & v) {if (f) {WriteLine(f, v); lines++;}}
};
static mj::Value E(const char * e) {mj::Value v = mj::Value::Obj(); v.set("e", mj::Value::Str(e)); return v;}

static void LogDeliveries(World & w, const std::vector<Got> & g, TraceOut * tr, std::vector<int> & lastN)
{
   if ((tr == NULL)||(tr->f == NULL)) return;
   const bool payloadOnly = (w.slave == SL_EXACT)||(w.slave == SL_RAW);
   for (size_t i=0; i<g.size(); i++)
   {
      mj::Value e = E("deliver"); e.set("s", mj::Value::Int(g[i].src));
      mj::Value runs = mj::Value::Arr();
      const int src = g[i].src;
      const int n = ((src >= 1)&&(src <= w.ns)) ? w.FindSent(src, g[i].key, lastN[src]) : 0;
      if (n > 0)
      {
         // byte-identical to Message n of that source: one run (none if empty)
         lastN[src] = n; const uint32 tot = w.sent[src][n - 1].total;
         e.set("size", mj::Value::Int(tot));
         if (tot > 0) { mj::Value r = mj::Value::Arr(); r.push(mj::Value::Int(src)).push(mj::Value::Int(n)).push(mj::Value::Int(0)).push(mj::Value::Int(tot)); runs.push(r); }
      }
      else
      {
         e.set("size", mj::Value::Int((int64_t) g[i].key.size()));
         if (payloadOnly) { std::vector<std::vector<int64_t> > rr = w.Runs(g[i].key, 0); for (size_t j=0; (j<rr.size())&&(j<64); j++) { mj::Value r = mj::Value::Arr(); for (int q=0; q<4; q++) r.push(mj::Value::Int(rr[j][q])); runs.push(r); } }
         else { mj::Value r = mj::Value::Arr(); r.push(mj::Value::Int(0)).push(mj::Value::Int(0)).push(mj::Value::Int(0)).push(mj::Value::Int((int64_t) g[i].key.size())); runs.push(r); }
      }
      e.set("runs", runs); tr->Ev(e);
   }
}

static void ExploreOne(uint64_t seed, uint32 iter, uint32 iters, uint32 mtuLo, uint32 mtuHi, TraceOut * tr, mj::Value & rep, uint64_t * tot, std::set<uint32> & mtus)
{
   Rng g(seed * 1000003ULL + iter);
   g_addrMode = (int) ((iter / 12) & 1);
   const bool mini = (iter % 3) == 2;
   const int slave = (int) ((iter / 3) % NUM_SL);
   const bool perfect = g.R(3) == 0;
   const uint32 minMtu = mini ? (MINI_PH + MINI_CH + 1) : (TUN_H + 1);
   uint32 lo = muscleMax(mtuLo, minMtu), hi = muscleMax(mtuHi, lo);
   // the MTU sweep: 12 consecutive iterations (3 kinds of run x 4 slave kinds) share an MTU; if there are enough iterations the MTUs
   // of the range are taken one after the other (complete sweep, wrapping), otherwise scattered over the range with extra weight on the smallest
   const uint32 range = hi - lo + 1, block = iter / 12;
   uint32 mtu;
   if (iters / 12 >= range) mtu = lo + (block % range);
   else { mtu = lo + (uint32) (((uint64_t) block * 2654435761ULL >> 7) % range); if (g.R(6) == 0) mtu = lo + g.R(muscleMin((uint32) 40, range)); }
   mtus.insert(mtu);
   const int ns = 1 + (int) g.R(3);
   const bool limit = (!mini)&&(g.R(5) == 0);
   const uint32 ov = Overhead(slave);
   // size range: from the smallest the slave kind can express up to several MTUs (mini: up to a bit more than fits)
   const uint32 minTot = ((slave == SL_RAW) ? 1 : 0) + ov + (((slave == SL_NONE)||(slave == SL_MSG)) ? 1 : 0);
   uint32 maxTot = mini ? (mtu + 8) : (4 * mtu);
   if ((slave != SL_NONE)&&(maxTot > SLAVE_LIMIT)) maxTot = SLAVE_LIMIT;   // F15: larger slave-encoded Messages are the directed case
   if (maxTot < minTot) maxTot = minTot;
   const uint32 maxIn = limit ? (minTot + g.R(maxTot - minTot + 1)) : MUSCLE_NO_LIMIT;
   World w(mini, slave, mtu, ns, maxIn);
   const uint32 realMtu = mini ? muscleMax(mtu, MINI_PH + MINI_CH + 1) : muscleMax(mtu, TUN_H + 1);
   w.comp = mini && (g.R(2) == 0);
   std::vector<uint32> idOfFirst(ns + 1, 0);
   for (int s=1; s<=ns; s++)
   {
      // message-id / packet-id wrap-around inside the run, for a third of the senders
      if (g.R(3) == 0) { const uint32 back = g.R(6); (void) w.SetFirstId(s, mini ? ((16777216u - back) & 0xFFFFFF) : (0u - back)); }
      idOfFirst[s] = w.firstId[s];
   }
   mj::Value r0 = E("Reset"); r0.set("perfect", mj::Value::Bool(perfect)); if (tr) tr->Ev(r0);
   std::vector<int> lastN(ns + 1, 0);
   std::vector<size_t> logged(ns + 1, 0), nextK(ns + 1, 0);
   // pending hand-overs of the faulty network: (sender, packet)
   std::vector<std::pair<int,int> > pending;
   const uint32 targetPackets = 16 + g.R(10);
   uint32 guard = 0; int level = 0;
   while((w.nPackets < targetPackets)&&(guard++ < 400))
   {
      const int s = 1 + (int) g.R((uint32) ns);
      const uint32 act = g.R(10);
      if ((act < 5)&&(w.sent[s].size() < 30))
      {
         uint32 z;
         const uint32 pick = g.R(8);
         if (pick == 0) z = minTot;
         else if (pick == 1) z = muscleMin(maxTot, muscleMax(minTot, (mini ? (realMtu - MINI_PH - MINI_CH) : (realMtu - TUN_H)) - 1 + g.R(3)));   // around what exactly fills a packet
         else if (pick == 2) z = muscleMin(maxTot, minTot + g.R(40));
         else z = minTot + g.R(maxTot - minTot + 1);
         const SentMsg & m = w.Send(s, z);
         mj::Value e = E("send"); e.set("s", mj::Value::Int(s)).set("z", mj::Value::Int(m.total)).set("due", mj::Value::Bool(m.due)); if (tr) tr->Ev(e);
      }
      else if (act < 8)
      {
         const uint32 mode = (g.R(4) == 0) ? (1 + g.R(2)) : 0;
         if (mini) { if (g.R(3) == 0) level = (int) g.R(3) * 3; }
         (void) w.Out(s, (int) mode, level);
      }
      // log new packets and schedule their hand-over
      for (int q=1; q<=ns; q++) for (; logged[q] < w.net[q].size(); logged[q]++)
      {
         const int k = (int) logged[q] + 1;
         mj::Value e = E("out"); e.set("s", mj::Value::Int(q)).set("len", mj::Value::Int((int64_t) w.net[q][k - 1].size())).set("mtu", mj::Value::Int(realMtu)); if (tr) tr->Ev(e);
         if (perfect) pending.push_back(std::make_pair(q, k));
         else
         {
            const uint32 f = g.R(10);
            const int copies = (f == 0) ? 0 : ((f == 1) ? 2 : 1);
            for (int cpy=0; cpy<copies; cpy++) { const size_t pos = pending.size() - muscleMin(pending.size(), (size_t) g.R(4)); pending.insert(pending.begin() + pos, std::make_pair(q, k)); }
         }
      }
      // hand over some of the pending packets (perfect: in order per sender, which `pending` preserves)
      uint32 nd = g.R(3);
      while((nd-- > 0)&&(!pending.empty()))
      {
         size_t pi = 0;
         if ((!perfect)&&(g.R(3) == 0)) pi = g.R((uint32) muscleMin(pending.size(), (size_t) 4));
         const std::pair<int,int> pk = pending[pi]; pending.erase(pending.begin() + pi);
         mj::Value e = E("in"); e.set("s", mj::Value::Int(pk.first)).set("k", mj::Value::Int(pk.second)).set("len", mj::Value::Int((int64_t) w.net[pk.first][pk.second - 1].size())); if (tr) tr->Ev(e);
         // a third of the packets wait in the receiver's socket (up to 4) for a DoInput() call that reads several packets of several senders
         w.Arrive(pk.first, pk.second);
         if ((w.rxio->inq.size() >= 4)||(g.R(3) != 0)) { const std::vector<Got> got = w.Drain(pk.first, pk.second); LogDeliveries(w, got, tr, lastN); }
      }
      if (!w.violations.empty()) break;
   }
   // drain: write everything, hand over everything that is still pending
   if (w.violations.empty())
   {
      for (int s=1; s<=ns; s++) { int gd = 0; while(((w.tx[s]()->HasBytesToOutput())||(w.Held(s)))&&(gd++ < 1000)) (void) w.Out(s, 0, level); }
      for (int q=1; q<=ns; q++) for (; logged[q] < w.net[q].size(); logged[q]++)
      {
         const int k = (int) logged[q] + 1;
         mj::Value e = E("out"); e.set("s", mj::Value::Int(q)).set("len", mj::Value::Int((int64_t) w.net[q][k - 1].size())).set("mtu", mj::Value::Int(realMtu)); if (tr) tr->Ev(e);
         if ((perfect)||(g.R(8) != 0)) pending.push_back(std::make_pair(q, k));
      }
      while((!pending.empty())&&(w.violations.empty()))
      {
         size_t pi = 0; if ((!perfect)&&(g.R(3) == 0)) pi = g.R((uint32) muscleMin(pending.size(), (size_t) 4));
         const std::pair<int,int> pk = pending[pi]; pending.erase(pending.begin() + pi);
         mj::Value e = E("in"); e.set("s", mj::Value::Int(pk.first)).set("k", mj::Value::Int(pk.second)).set("len", mj::Value::Int((int64_t) w.net[pk.first][pk.second - 1].size())); if (tr) tr->Ev(e);
         w.Arrive(pk.first, pk.second);
         if ((pending.empty())||(w.rxio->inq.size() >= 4)||(g.R(3) != 0)) { const std::vector<Got> got = w.Drain(pk.first, pk.second); LogDeliveries(w, got, tr, lastN); }
      }
      if ((!w.rxio->inq.empty())&&(w.violations.empty())) { const std::vector<Got> got = w.Drain(1, 0); LogDeliveries(w, got, tr, lastN); }
   }
   for (int s=1; s<=ns; s++) for (size_t k=0; k<w.net[s].size(); k++) if (w.net[s][k].size() > realMtu) w.D("sender " + I(s) + " wrote a packet of " + I((int64_t) w.net[s][k].size()) + " bytes, MTU " + I(realMtu));
   if ((perfect)&&(w.violations.empty()))
   {
      if (!w.Quiet()) w.D("the run did not become quiet");
      else
      {
         w.Clause2(idOfFirst); tot[4]++;
         if (tr) tr->Ev(E("quiet"));
      }
   }
   tot[0]++; tot[1] += w.nPackets; tot[2] += w.nDeliveries; tot[3] += w.nCompressed; tot[8] += w.nMultiSourceCalls;
   uint64_t nm = 0; for (int s=1; s<=ns; s++) nm += w.sent[s].size(); tot[5] += nm;
   if (!perfect) { for (int s=1; s<=ns; s++) for (size_t k=0; k<w.cnt[s].size(); k++) { if (w.cnt[s][k] == 0) tot[6]++; if (w.cnt[s][k] > 1) tot[7]++; } }
   rep = mj::Value::Obj();
   rep.set("iteration", mj::Value::Int(iter)).set("kind", mj::Value::Str(mini ? "mini" : "tun")).set("slave", mj::Value::Str(SLN[slave])).set("mtu", mj::Value::Int(mtu)).set("senders", mj::Value::Int(ns))
      .set("perfect", mj::Value::Bool(perfect)).set("messages", mj::Value::Int((int64_t) nm)).set("packets", mj::Value::Int((int64_t) w.nPackets)).set("delivered", mj::Value::Int((int64_t) w.nDeliveries));
   if (maxIn != MUSCLE_NO_LIMIT) rep.set("maxin", mj::Value::Int(maxIn));
   if (!w.violations.empty()) rep.set("violations", Strs(w.violations));
   if (!w.drift.empty()) rep.set("drift", Strs(w.drift));
   if (!w.known.empty()) rep.set("known", Strs(w.known));
}

static int Explore(uint32 iters, uint64_t seed, const char * out, const char * trace, uint32 ntraces, uint32 mtuLo, uint32 mtuHi)
{
   FILE * fo = fopen(out, "w"); if (!fo) return 3;
   TraceOut tr; tr.f = fopen(trace, "w"); if (!tr.f) {fclose(fo); return 3;}
   uint64_t tot[10] = {0, 0, 0, 0, 0, 0, 0, 0, 0, 0}; uint64_t violated = 0, drifted = 0, knownHits = 0, traces = 0; mj::Value sample; std::set<uint32> mtus;
   const char * only = getenv("TUN_ONLY");   // debugging aid: run one iteration only
   for (uint32 i=0; i<iters; i++)
   {
      if ((only)&&((uint32) atol(only) != i)) continue;
      mj::Value rep; const bool log = (i < ntraces)||(only != NULL);
      ExploreOne(seed, i, iters, mtuLo, mtuHi, log ? &tr : NULL, rep, tot, mtus);
      if (log) traces++;
      const bool v = rep.has("violations"), d = rep.has("drift"), k = rep.has("known");
      if (v) violated++; if (d) drifted++; if (k) knownHits++;
      if (v || d || k) WriteLine(fo, rep);
      if (i == iters / 2) sample = rep;
   }
   fclose(tr.f);
   mj::Value s = mj::Value::Obj();
   s.set("summary", mj::Value::Bool(true)).set("runs", mj::Value::Int((int64_t) tot[0])).set("packets", mj::Value::Int((int64_t) tot[1])).set("deliveries", mj::Value::Int((int64_t) tot[2]))
    .set("compressed_packets", mj::Value::Int((int64_t) tot[3])).set("clause2_judged", mj::Value::Int((int64_t) tot[4])).set("messages", mj::Value::Int((int64_t) tot[5]))
    .set("packets_lost", mj::Value::Int((int64_t) tot[6])).set("packets_duplicated", mj::Value::Int((int64_t) tot[7]))
    .set("violated", mj::Value::Int((int64_t) violated)).set("drifted", mj::Value::Int((int64_t) drifted)).set("known", mj::Value::Int((int64_t) knownHits))
    .set("private_state", mj::Value::Bool(PRIVATE_STATE)).set("multi_source_calls", mj::Value::Int((int64_t) tot[8])).set("distinct_mtus", mj::Value::Int((int64_t) mtus.size())).set("mtu_sweep_complete", mj::Value::Bool(iters / 12 >= ((mtuHi > mtuLo) ? (mtuHi - mtuLo + 1) : 1)))
    .set("traces_written", mj::Value::Int((int64_t) traces)).set("trace_lines", mj::Value::Int((int64_t) tr.lines)).set("sample", sample);
   WriteLine(fo, s); fclose(fo);
   return 0;
}

// ------------------------------------------------------------------------------------------------------
// directed cases

static void Case(FILE * fo, const char * name, World & w, const std::string & note, bool reproduced)
{
   mj::Value r = mj::Value::Obj(); r.set("case", mj::Value::Str(name)).set("note", mj::Value::Str(note)).set("reproduced", mj::Value::Bool(reproduced));
   if (!w.violations.empty()) r.set("violations", Strs(w.violations));
   if (!w.drift.empty()) r.set("drift", Strs(w.drift));
   if (!w.known.empty()) r.set("known", Strs(w.known));
   WriteLine(fo, r);
}
static void PerfectRun(World & w, const std::vector<uint32> & idOfFirst)
{
   for (int s=1; s<=w.ns; s++) { int gd = 0; while((w.tx[s]()->HasBytesToOutput())&&(gd++ < 1000)) (void) w.Out(s, 0, 0); }
   for (int s=1; s<=w.ns; s++) for (size_t k=0; k<w.net[s].size(); k++) (void) w.Deliver(s, (int) k + 1);
   w.Clause2(idOfFirst);
}

static int Directed(const char * out)
{
   FILE * fo = fopen(out, "w"); if (!fo) return 3;
   // F15: either tunnel with a slave gateway; a Message whose slave-encoded size exceeds 1168 vanishes on a perfect network
   for (int mini=0; mini<2; mini++)
   {
      World w(mini != 0, SL_MSG, 1400, 1, MUSCLE_NO_LIMIT); std::vector<uint32> f(2, 0);
      (void) w.Send(1, 600); (void) w.Send(1, 1200); (void) w.Send(1, 700);
      PerfectRun(w, f);
      Case(fo, mini ? "F15-mini" : "F15-tunnel", w, "slave MessageIOGateway, MTU 1400, slave-encoded sizes 600, 1200, 700 on a perfect network", !w.known.empty());
   }
   {  // the unaffected configuration: no slave, same sizes and larger: must be clean
      World w(false, SL_NONE, 1400, 1, MUSCLE_NO_LIMIT); std::vector<uint32> f(2, 0);
      (void) w.Send(1, 600); (void) w.Send(1, 1200); (void) w.Send(1, 5000);
      PerfectRun(w, f);
      Case(fo, "no-slave-large", w, "no slave, MTU 1400, sizes 600, 1200, 5000 on a perfect network", false);
   }
   // the input of repaired finding F31: a Message over the receiver's limit must not take the Messages that follow it in its packet with it
   {
      World w(false, SL_RAW, 1000, 1, 100); std::vector<uint32> f(2, 0);
      (void) w.Send(1, 150); (void) w.Send(1, 10); (void) w.Send(1, 20);
      PerfectRun(w, f);
      Case(fo, "F31", w, "slave RawDataMessageIOGateway, MTU 1000, receiver limit 100, sizes 150, 10, 20 in one packet on a perfect network", !w.violations.empty());
   }
   // the inputs of repaired finding F32: the compression level is changed while a packet is held; deflating starts to help while a packet is held
   for (int dir=0; dir<2; dir++)
   {
      World w(true, SL_RAW, 1000, 1, MUSCLE_NO_LIMIT); w.comp = true; std::vector<uint32> f(2, 0);
      (void) w.Send(1, 200); (void) w.Send(1, 100);
      (void) w.Out(1, 2, dir ? 6 : 0);      // Write() returns 0: the packet is built and held
      (void) w.Out(1, 0, dir ? 0 : 6);
      for (size_t k=0; k<w.net[1].size(); k++) (void) w.Deliver(1, (int) k + 1);
      w.Clause2(f);
      Case(fo, dir ? "F32-b" : "F32-a", w, dir ? "mini tunnel, level 6 while the held packet was begun, 0 when it was written" : "mini tunnel, level 0 while the held packet was begun, 6 when it was written", !w.violations.empty());
   }
   {
      World w(true, SL_EXACT, 183, 1, MUSCLE_NO_LIMIT); w.comp = true; std::vector<uint32> f(2, 0);
      (void) w.Send(1, 3); (void) w.Send(1, 0);
      (void) w.Out(1, 2, 6);                // 23 bytes held: deflating them does not help, the attempt is made all the same
      (void) w.Send(1, 0); (void) w.Send(1, 140); (void) w.Send(1, 0);
      (void) w.Out(1, 0, 6);                // now it helps
      for (size_t k=0; k<w.net[1].size(); k++) (void) w.Deliver(1, (int) k + 1);
      w.Clause2(f);
      if (w.nCompressed == 0) w.D("expected a deflated packet");
      Case(fo, "F32-c", w, "mini tunnel, level 6 throughout: Messages of 3 and 0 bytes held (deflating does not help), then 0, 140, 0 bytes added (now it does)", !w.violations.empty());
   }
   // F44 (open known finding): a slave MessageIOGateway with a zlib encoding deflates every Message DEPENDENTLY on its predecessors
   // (AreOutgoingMessagesIndependent() is false by default); under a tunnel a lost Message leaves the receiver's inflater with another
   // history than the sender's deflater had, and later Messages that refer back into the lost one inflate WITHOUT ERROR to other bytes
   for (int mini=0; mini<2; mini++)
   {
      const uint32 MTU = 1100; const IPAddressAndPort from = AddrOf(1);
      AbstractMessageIOGatewayRef tx, rx;
      if (mini) { tx.SetRef(new MiniPacketTunnelIOGateway(AbstractMessageIOGatewayRef(new MessageIOGateway(MUSCLE_MESSAGE_ENCODING_ZLIB_6)), MTU)); rx.SetRef(new MiniPacketTunnelIOGateway(AbstractMessageIOGatewayRef(new MessageIOGateway(MUSCLE_MESSAGE_ENCODING_ZLIB_6)), MTU)); }
           else { tx.SetRef(new PacketTunnelIOGateway(AbstractMessageIOGatewayRef(new MessageIOGateway(MUSCLE_MESSAGE_ENCODING_ZLIB_6)), MTU)); rx.SetRef(new PacketTunnelIOGateway(AbstractMessageIOGatewayRef(new MessageIOGateway(MUSCLE_MESSAGE_ENCODING_ZLIB_6)), MTU)); }
      ScriptIO * a = new ScriptIO(MTU); ScriptIO * b = new ScriptIO(MTU); tx()->SetDataIO(DataIORef(a)); rx()->SetDataIO(DataIORef(b));
      std::vector<std::string> sentKeys; std::vector<std::vector<std::string> > pkts; std::string pay(200, 'x');
      for (uint32 i=0; i<200; i++) pay[i] = (char) ('a' + (Pat(1, 1, i, false) % 20));
      for (int n=1; n<=8; n++)
      {
         // every second Message carries its predecessor's payload again
         if (n % 2) for (uint32 i=0; i<200; i++) pay[i] = (char) ('a' + (Pat(1, n, i, false) % 20));
         MessageRef m = GetMessageFromPool(MSG_WHAT + n); (void) m()->AddData("d", B_RAW_TYPE, pay.data(), (uint32) pay.size());
         sentKeys.push_back(Flat(*m()));
         (void) tx()->AddOutgoingMessage(m); int gd = 0; while((tx()->HasBytesToOutput())&&(gd++ < 100)) (void) tx()->DoOutput();
         pkts.push_back(a->outq); a->outq.clear();
      }
      // the network loses Message 3 entirely and hands over everything else once, in order
      Receiver rc; rc.slave = SL_MSG; int altered = 0, handed = 0; std::string first;
      for (size_t n=0; n<pkts.size(); n++) if (n != 2) for (size_t j=0; j<pkts[n].size(); j++) { Packet p; p.bytes = pkts[n][j]; p.src = 1; b->inq.push_back(p); (void) rx()->DoInput(rc); }
      for (size_t g=0; g<rc.got.size(); g++) { handed++; if (std::find(sentKeys.begin(), sentKeys.end(), rc.got[g].key) == sentKeys.end()) { altered++; if (first.empty()) first = "handed-over Message #" + I((int64_t) g + 1) + " (" + I((int64_t) rc.got[g].key.size()) + " bytes)"; } }
      World w(mini != 0, SL_MSG, MTU, 1, MUSCLE_NO_LIMIT);
      if (altered > 0) w.K("F44: slave MessageIOGateway with MUSCLE_MESSAGE_ENCODING_ZLIB_6 on both sides, Message 3 of 8 lost: " + I(altered) + " of the " + I(handed) + " Messages handed over afterwards are not byte-identical to any sent Message (first: " + first + "): dependent deflate, the inflater never reports the missing history");
      Case(fo, mini ? "F44-mini" : "F44-tunnel", w, "zlib-encoding slave under the tunnel, 8 Messages of 200 payload bytes (every second one repeats its predecessor's payload), Message 3 lost, the rest handed over once in order", altered > 0);
   }
   // several senders' packets read by ONE DoInput() call: every packet has its own source address.  Senders 1 and 2 (same message id,
   // same size) each send a two-fragment Message; head of 1 and tail of 2 wait together: nothing may be handed over; then everything
   // arrives in one call, interleaved: both Messages, each attributed to its sender
   for (int slave=SL_NONE; slave<=SL_EXACT; slave++)
   {
      World w(false, slave, 24 + 60, 2, MUSCLE_NO_LIMIT);
      (void) w.Send(1, 100); (void) w.Send(2, 100); (void) w.Out(1, 0, 0); (void) w.Out(2, 0, 0);
      w.Arrive(1, 1); w.Arrive(2, 2); const std::vector<Got> g = w.Drain(2, 2);
      if (!g.empty()) w.D("head of sender 1 + tail of sender 2 in one call: " + I((int64_t) g.size()) + " Messages handed over, expected none");
      World w2(false, slave, 24 + 60, 2, MUSCLE_NO_LIMIT); std::vector<uint32> f(3, 0);
      (void) w2.Send(1, 100); (void) w2.Send(2, 100); (void) w2.Out(1, 0, 0); (void) w2.Out(2, 0, 0);
      w2.Arrive(1, 1); w2.Arrive(2, 1); w2.Arrive(1, 2); w2.Arrive(2, 2); (void) w2.Drain(2, 2);
      w2.Clause2(f);
      for (size_t i=0; i<w2.violations.size(); i++) w.V(w2.violations[i]);
      Case(fo, (slave == SL_NONE) ? "two-sources-one-call" : "two-sources-one-call-exact", w, "two senders with the same message id and size, their fragments read by one DoInput() call", !w.violations.empty());
   }
   // (public-API build: the id fields of the written packets are rewritten instead of setting the counters)
   // message-id wrap-around at 2^32 (tunnel) and packet-id wrap-around at 2^24 (mini tunnel), with compression on (the id shares a word with the level)
   {
      World w(false, SL_EXACT, 60, 1, MUSCLE_NO_LIMIT); std::vector<uint32> f(2, 0xFFFFFFFEu);
      (void) w.SetFirstId(1, 0xFFFFFFFEu);
      for (int i=0; i<5; i++) (void) w.Send(1, 50 + 20 * i);
      PerfectRun(w, f);
#ifdef TUN_PRIVATE_STATE
      if (World::T(w.tx[1])->_sendMessageIDCounter != 3) w.D("message id after the wrap is " + I(World::T(w.tx[1])->_sendMessageIDCounter));
#endif
      Case(fo, "wrap-2^32", w, "5 Messages with ids 2^32-2 .. 2, MTU 60, perfect network", false);
   }
   for (int lvl=0; lvl<=6; lvl+=6)
   {
      World w(true, SL_EXACT, 200, 1, MUSCLE_NO_LIMIT); w.comp = true; std::vector<uint32> f(2, 0);
      (void) w.SetFirstId(1, 16777214u);
      for (int i=0; i<5; i++) { (void) w.Send(1, 120 + i); (void) w.Out(1, 0, lvl); }
      for (size_t k=0; k<w.net[1].size(); k++) (void) w.Deliver(1, (int) k + 1);
      w.Clause2(f);
#ifdef TUN_PRIVATE_STATE
      if (World::M(w.tx[1])->_sendPacketIDCounter != 3) w.D("packet id after the wrap is " + I(World::M(w.tx[1])->_sendPacketIDCounter));
#endif
      if ((lvl > 0)&&(w.nCompressed != 5)) w.D("expected 5 deflated packets, saw " + I((int64_t) w.nCompressed));
      Case(fo, lvl ? "wrap-2^24-deflated" : "wrap-2^24", w, "5 packets with ids 2^24-2 .. 2, perfect network", false);
   }
#ifdef TUN_PRIVATE_STATE
   // The hole of the design (an ASSUMPTION of the evidence, not a claim): after a full wrap of the 32-bit message id, with every
   // fragment in between lost and equal sizes, the head of an old Message and the tail of a new one are combined.  Reproduced by
   // winding the counter back (= 2^32 Messages later).  Reported as information only.
   {
      World w(false, SL_EXACT, 24 + 50, 1, MUSCLE_NO_LIMIT);
      World::T(w.tx[1])->_sendMessageIDCounter = 7; (void) w.Send(1, 100); (void) w.Out(1, 0, 0);      // Message 1: id 7, two packets
      World::T(w.tx[1])->_sendMessageIDCounter = 7; (void) w.Send(1, 100); (void) w.Out(1, 0, 0);      // Message 2: id 7 again
      (void) w.Deliver(1, 1); const std::vector<Got> g = w.Deliver(1, 4);
      const bool mixed = (g.size() == 1)&&(w.FindSent(1, g[0].key, 0) == 0);
      mj::Value r = mj::Value::Obj(); r.set("case", mj::Value::Str("id-collision-hole")).set("reproduced", mj::Value::Bool(mixed)).set("info", mj::Value::Bool(true))
         .set("note", mj::Value::Str(mixed ? ("with the message id forced to repeat (= 2^32 Messages later) and equal sizes, head of the old + tail of the new Message are handed over as one: " + w.Describe(g[0].key)) : "not reproduced"));
      WriteLine(fo, r);
   }
#else
   { mj::Value r = mj::Value::Obj(); r.set("case", mj::Value::Str("id-collision-hole")).set("reproduced", mj::Value::Bool(false)).set("skipped", mj::Value::Bool(true)).set("note", mj::Value::Str("needs the private id counter: skipped in the public-API build")); WriteLine(fo, r); }
#endif
   mj::Value s = mj::Value::Obj(); s.set("summary", mj::Value::Bool(true)).set("private_state", mj::Value::Bool(PRIVATE_STATE)); WriteLine(fo, s);
   fclose(fo);
   return 0;
}

int main(int argc, char ** argv)
{
   CompleteSetupSystem css; SetConsoleLogLevel(MUSCLE_LOG_CRITICALERROR);
   if ((argc == 4)&&(!strcmp(argv[1], "replay"))) return Replay(argv[2], argv[3]);
   if ((argc == 9)&&(!strcmp(argv[1], "explore"))) return Explore((uint32) atol(argv[2]), (uint64_t) atoll(argv[3]), argv[4], argv[5], (uint32) atol(argv[6]), (uint32) atol(argv[7]), (uint32) atol(argv[8]));
   if ((argc == 3)&&(!strcmp(argv[1], "directed"))) return Directed(argv[2]);
   fprintf(stderr, "usage: tun replay <behaviours> <report> | tun explore <iters> <seed> <report> <trace> <ntraces> <mtuLo> <mtuHi> | tun directed <report>\n");
   return 3;
}
